#!/usr/bin/env python3
"""Regenerate MANIFEST.json from tools/props.py (keeps it valid at all times)."""
import json, os, sys
sys.path.insert(0, os.path.dirname(os.path.abspath(__file__)))
import props

VERIF = os.path.dirname(os.path.dirname(os.path.abspath(__file__)))
ids = [json.loads(l)["id"] for l in open(os.path.join(VERIF, "properties.jsonl"))]
hooks_file = os.path.join(VERIF, "hooks.json")
hooks = json.load(open(hooks_file)) if os.path.exists(hooks_file) else {"source_commits": []}

verified = set(open(os.path.join(VERIF, "tools", "verified.txt")).read().split())
checks = []
for pid in ids:
    p = props.PROPS.get(pid)
    if not p or p.get("disabled") or pid not in verified:
        continue
    checks.append({
        "property_id": pid,
        "quick_cmd": "tools/check %s --tier quick" % pid,
        "thorough_cmd": "tools/check %s --tier thorough" % pid,
        "evidence_file": "evidence/%s.json" % pid,
        "replay_cmd_template": "tools/check %s --replay {path}" % pid,
        "engine": p["engine"],
        "level_claimed": {
            "category": "model_checking",
            "text": p.get("level_text") or (
                "TLC checks the property's invariants exhaustively on the bounded design model (spec/%s) and then validates "
                "ndjson traces recorded from the real code against the same specification, evaluating every invariant at every "
                "step; a trace the specification cannot explain is re-executed before it is reported." % p["specdir"]),
            "design_ref": p.get("design_ref", "DESIGN.md section 4, " + pid),
        },
        "level_note": p.get("level_note") or ("Trusted: TLC/SANY + CommunityModules Json, the Go driver and its projection of "
                      "replies/observations, bounded constants of the design model; " + "; ".join(p.get("assumptions", []))),
        "technique": p.get("technique", "TLA+ spec + TLC model checking + trace validation of real-code histories"),
    })
na = []
for pid in ids:
    if pid not in props.PROPS or props.PROPS[pid].get("disabled") or pid not in verified:
        na.append({"property_id": pid, "reason": props.NOT_APPLICABLE.get(pid, "check not built yet (planned in DESIGN.md section 4); not claimed")})

man = {
    "version": 1,
    "setup_cmd": "tools/setup",
    "hooks": {
        "guard": "verif",
        "enable": "go build -tags verif (plus -overlay harness/overlay/** export-only shims that live in /verif)",
        "baseline_off_cmd": "cd /repo && GOFLAGS=-mod=mod go test -vet=off -count=1 -timeout 25m ./...",
        "source_commits": hooks.get("source_commits", []),
        "add_only": True,
    },
    "engines": [{"name": "kvh", "path": "harness/cmd/kvh", "serves_properties": [c["property_id"] for c in checks],
                 "kind_free_text": "Go driver binary: one sub-command per property records ndjson traces of the real kraken code; TLC validates them against spec/**"}],
    "checks": checks,
    "not_applicable": na,
    "notes": "Export-only shims (harness/overlay/**) are injected with go build -overlay and are not part of /repo. "
             "Exit codes: 0 held / KNOWN-FINDING only, 1 VIOLATION, 2 check broken or inconclusive (never a violation).",
}
json.dump(man, open(os.path.join(VERIF, "MANIFEST.json"), "w"), indent=1)
print("MANIFEST.json: %d checks, %d not claimed" % (len(checks), len(na)))
