import os, sys
sys.path.insert(0, os.path.dirname(os.path.abspath(__file__)))
from _util import *


def _nontrivial(recs):
    # both halves of the property were exercised: a built path was classified and its components extracted,
    # and some mutated path had no parse at all (so it had to be rejected)
    cases = [r for r in recs if r.get("ev") == "Case"]
    built = any(r.get("isbuilt") and not r["r"]["perr"] for r in cases)
    rejected = any((not r.get("isbuilt")) and r["r"]["perr"] for r in cases)
    lookalike = any(r.get("isbuilt") and r.get("cls") != "plain" for r in cases)
    return built and (rejected or lookalike)


PROP = dict(
    specdir="registry", engine="c38",
    mc=[dict(module="RegistryPaths", cfg="MC_RegistryPaths.cfg", tiers=("quick",)),
        dict(module="RegistryPaths", cfg="MC_RegistryPaths_thorough.cfg", tiers=("thorough",), timeout=1800)],
    trace=dict(module="RegistryPathsTrace", cfg="RegistryPathsTrace.cfg", timeout=1500),
    chunk_lines=3000,
    nontrivial=_nontrivial,
    technique="specification as executable definition + exhaustive case generator (DESIGN 5): the layout as a grammar over "
              "segment classes; TLC proves the grammar unambiguous/injective for built paths and enumerates the single-mutation "
              "case space; every answer of ParsePath and the seven Get* extractors is evaluated with the same grammar",
    rule="one trace = one built path (12 kinds x repositories of depth 1-3) followed by all its single mutations (drop / "
         "duplicate / swap / insert junk / substitute junk, other layout keywords, upper-cased keywords, malformed digests, "
         "wrong shard, non-numeric offsets), or a batch of built paths whose repository components / tags are spelled like "
         "layout keywords; each case concretised 5 (quick) / 40 (thorough) times with random valid strings; all eight "
         "functions are called on every string; non-trivial = a built path was classified and a mutated path had to be rejected",
    assumptions=["Reading: a mutated path counts as 'rejected' when ParsePath fails or an extractor the storage driver applies to "
                 "the reported kind fails (GetRepo for everything below a repository; tag and digest for manifests; uuid for uploads; "
                 "digest for layers and blobs)",
                 "Reading: the code is deliberately root-agnostic ('^.+/'): for mutated paths any non-empty prefix is a root and any "
                 "non-empty segment sequence a repository; a repository that itself contains a reserved keyword (never generated "
                 "by docker) may be reported up to any of those keywords",
                 "built paths use the registry root /docker/registry/v2 (the code's _repositoryRoot)",
                 "the relation shard = first two characters of the digest is below the abstraction (the code does not check it either: observation, not alarmed)",
                 "extractors for components a kind does not have are logged but not constrained"],
)
