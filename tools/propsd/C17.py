import os, sys
sys.path.insert(0, os.path.dirname(os.path.abspath(__file__)))
from _util import *

PROP = dict(
    specdir="p2p", engine="c17",
    mc=[dict(module="Scheduler", cfg="MC_Scheduler.cfg"), dict(module="Scheduler", cfg="MC_Scheduler_live.cfg", coverage=False)],
    trace=dict(module="SchedulerTrace", cfg="SchedulerTrace.cfg"),
    nontrivial=lambda recs: has(recs, "Download") and (has(recs, "ApplyNotice") or has(recs, "PreemptTick")) and has(recs, "RecvPiece"),
    rule="seeded schedules of scheduler events (Download x3, piece arrival, piece serving, completion notice application, manual removal, "
         "preemption tick, clock tick, stop) driven on a REAL agent scheduler with a mock clock and a gated event loop that parks the "
         "asynchronous dispatcherCompleteEvent; the remote peer is played by the driver through dispatch.Messages; after every step control "
         "presence, waiter count, cache state and parked notices are logged, and every Download return; a quarter of the histories run bystander torrents in the same scheduler; non-trivial = a download, a received "
         "piece and a notice application or preemption tick",
    assumptions=["one blob of two pieces; announcing disabled; the peer is played in-process (no sockets)",
                 "the gated event loop is an export-only overlay shim wrapping the real baseEventLoop"],
)
