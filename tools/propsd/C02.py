import os, sys
sys.path.insert(0, os.path.dirname(os.path.abspath(__file__)))
from _util import *


def _nontrivial(recs):
    """a multi-piece metainfo with a short last piece or an exact multiple was generated and round-tripped,
    or a piece length was looked up in a table with at least two thresholds"""
    multi = any(r.get("ev") == "New" and r.get("ok") and r.get("n", 0) >= 2 for r in recs)
    rt = any(r.get("ev") == "Deserialize" and r.get("ok") for r in recs)
    lookup = any(r.get("ev") == "PieceLength" and len(r.get("table", [])) >= 2 for r in recs)
    return (multi and rt) or lookup


PROP = dict(
    specdir="core", engine="c02",
    # the small model runs in both tiers (in thorough with -coverage 1: vacuity check); the big model (DESIGN's len 0..40 x pl 1..12 x
    # 255 tables) takes minutes, TLC then prints interim coverage reports in which deep actions still show 0 -- which the kit's
    # vacuity parser would misread -- so it runs without -coverage
    mc=[dict(module="MetaInfo", cfg="MC_MetaInfo.cfg"),
        dict(module="MetaInfo", cfg="MC_MetaInfo_thorough.cfg", tiers=("thorough",), timeout=2400, coverage=False)],
    trace=dict(module="MetaInfoTrace", cfg="MetaInfoTrace.cfg"),
    chunk_lines=2500,
    max_rejections=8,
    nontrivial=_nontrivial,
    min_nontrivial=20,
    rule="(A) exhaustive: every blob length 0..40 x piece length -1..12 (574 cases), random bytes, through NewMetaInfo (plain "
         "reader and iotest.OneByteReader), NewMetaInfoFromBytes, Serialize->DeserializeMetaInfo and TorrentMeta round trips; "
         "(B) exhaustive: all 255 threshold tables over {0,1,4,9}x{1,2,5} x sizes 0..11 through metainfogen GetPieceLength; "
         "(C) seeded random large blobs (<=1 MiB quick, <=4 MiB thorough) with piece lengths at exact divisors, +-1 and len+-1; "
         "(D) random tables with thresholds < 2^30 probed at every threshold and its neighbours; (E) Generator.Generate and "
         "CAStore.WriteBlobToCacheWithMetaInfo on a real CAStore. Every call logs length, piece length, piece count, each "
         "GetPieceLength(i), out-of-range answers, crc32 match per piece range (stdlib), info hash, digest equality. "
         "non-trivial = multi-piece metainfo generated and round-tripped, or a lookup in a table with >= 2 thresholds",
    assumptions=["crc32 / sha1 / sha256 are not modelled; the Go standard library computes them and the traces carry booleans / opaque hash strings",
                 "piece counts per logged metainfo are kept <= 400 (piece length >= len/400) so that every piece can be logged",
                 "thresholds and sizes stay below 2^31 (TLC integers)"],
)
