import os, sys
sys.path.insert(0, os.path.dirname(os.path.abspath(__file__)))
from _util import *


def _malformed(r):
    """the record delivered an input the property is about: a field outside what an honest peer sends"""
    if r.get("ev") == "Msg":
        return (r["body"] == "missing" or r["typ"] in ("unknown", "empty", "garbage", "oversize", "trunc", "bitfield")
                or r["idx"] in ("eqN", "gtN", "neg1", "min") or r["off"] in ("pos", "neg")
                or r["len"] not in ("exact", "na") or r["data"] == "bad")
    if r.get("ev") == "Handshake":
        return not (r["typ"] == "bitfield" and r["body"] == "present" and r["pid"] == "ok" and r["ih"] == "ok"
                    and r["name"] == "ok" and r["bits"] in ("exact_none", "exact_some", "exact_all") and r["rb"] in ("none", "ok"))
    return False


def _nontrivial(recs):
    """a malformed input reached a victim whose honest neighbour was then probed (every Msg/Handshake record
    carries the probe), on a connection that had been established"""
    return any(_malformed(r) for r in recs) and any(r.get("ev") == "Handshake" and r.get("res") == "established" for r in recs)


PROP = dict(
    specdir="p2p", engine="c14",
    mc=[dict(module="PeerInput", cfg="MC_PeerInput.cfg"),
        dict(module="PeerInput", cfg="MC_PeerInput_asbuilt.cfg"),
        dict(module="PeerInput", cfg="MC_PeerInput_api.cfg", tiers=("thorough",)),
        dict(module="PeerInput", cfg="MC_PeerInput_thorough.cfg", tiers=("thorough",))],
    trace=dict(module="PeerInputTrace", cfg="PeerInputTrace.cfg"),
    isolate=lambda head: bool((head.get("cfg") or {}).get("known")),
    nontrivial=_nontrivial, chunk_lines=3000, max_rejections=6,
    engine_timeout={"quick": 900, "thorough": 2400},
    rule="one trace = one victim (real conn.Handshaker + conn.Conn + dispatch.Dispatcher over a real agentstorage torrent, "
         "leeching or complete, or an originstorage torrent; TCP loopback; child process) with an honest neighbour, and a "
         "sequence of input classes of the PeerInput case grammar concretised to raw protobuf / raw bytes: groups msg (every "
         "message class: type x body x index class x offset class x length class x payload data, ~10 per trace, all three victim "
         "kinds), hs (handshake classes: direction x first-message type x body x peer id x info hash x name x bitfield class x "
         "remote-bitfield class; all of them in the thorough tier, a seeded sample in quick), seq (random sequences on an evolving "
         "piece state with reconnects) and known (dedicated scenarios of findings F14a-c, the only traces containing those classes). "
         "Per case: process death, TotalAlloc delta > 64 MiB, Conn.IsClosed, Torrent.Bitfield, replies (correct payloads, error "
         "messages, piece requests), blob file vs blob, honest neighbour served. distinct = distinct event sequences; non-trivial = "
         "the trace established a connection and delivered at least one malformed input.",
    assumptions=["the scheduler's connection bookkeeping (connstate) is not part of the victim: the harness replicates the "
                 "scheduler's establish sequence (Accept, archive Stat, Establish, info-hash slot check, Start, AddPeer / "
                 "Initialize, Start, AddPeer) around the real Handshaker and Dispatcher",
                 "'allocate without bound' is observed as more than 64 MiB of heap allocation (runtime.MemStats.TotalAlloc) for one "
                 "input on a torrent with 64-byte pieces; smaller over-allocations are not distinguished",
                 "wrong-size but harmless handshake bitfields (short, empty, long without a bit beyond the torrent) may be "
                 "accepted or rejected; malformed messages may be dropped, answered with an error message, or end the connection",
                 "bandwidth limiting is disabled (conn.Config default), as in kraken's own test fixtures",
                 "slow-peer behaviour (a peer that stops sending mid-message without closing) is out of scope"],
    level_note="Trusted: TLC, the raw-wire peers and the crash attribution (class in flight written before the bytes are sent), "
               "runtime.MemStats, Conn.IsClosed, Torrent.Bitfield, the store's file readers used to compare the blob file.",
)
