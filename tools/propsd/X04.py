import os, sys
sys.path.insert(0, os.path.dirname(os.path.abspath(__file__)))
from _util import *

_FINDING_FAMILIES = ("oversize", "offset", "race")


def _nontrivial(recs):
    """the guarantees' antecedents hold somewhere in the trace: an inner client received a call on behalf of a public
    call that returned (forwarding / readiness probing / shadow writes happened), or routing was decided among
    several registered patterns"""
    inner = sum(1 for r in recs if r.get("ev") == "Inner")
    ret = sum(1 for r in recs if r.get("ev") == "Ret")
    routed = sum(1 for r in recs if r.get("ev") == "Get" and r.get("res") == "ok")
    return (inner >= 2 and ret >= 2) or routed >= 3


PROP = dict(
    specdir="backend", engine="x04",
    mc=[dict(module="BackendManagerMC", cfg="MC_BackendManager_route.cfg", tiers=("quick",)),
        dict(module="BackendManagerMC", cfg="MC_BackendManager_thr.cfg", tiers=("quick",)),
        dict(module="ShadowBackend", cfg="MC_ShadowBackend.cfg", tiers=("quick",)),
        dict(module="BackendManagerMC", cfg="MC_BackendManager_route_thorough.cfg", tiers=("thorough",), timeout=1500,
             allow_dead=("TCall", "DownStat", "FwdUpload", "FwdDownload", "FwdStat", "FwdList", "FwdClose", "Reserve",
                         "Tick", "EnvPut", "EnvDel")),
        dict(module="BackendManagerMC", cfg="MC_BackendManager_thr_thorough.cfg", tiers=("thorough",), timeout=1500,
             allow_dead=("Register", "Get", "Noop", "ReadyCall", "ReadyProbe", "MCloseCall", "MCloseStep", "FwdStat",
                         "FwdList", "FwdClose", "EnvDel")),
        dict(module="BackendManagerMC", cfg="MC_BackendManager_thr_asbuilt.cfg", tiers=("thorough",), timeout=1500,
             allow_dead=("Register", "Get", "Noop", "ReadyCall", "ReadyProbe", "MCloseCall", "MCloseStep", "FwdStat",
                         "FwdList", "FwdClose", "EnvDel")),
        dict(module="BackendManagerMC", cfg="MC_BackendManager_pass.cfg", tiers=("thorough",), timeout=1500,
             allow_dead=("Register", "Adjust", "Noop")),
        dict(module="ShadowBackend", cfg="MC_ShadowBackend_thorough.cfg", tiers=("thorough",), timeout=1500,
             allow_dead=("ListA", "CloseA", "CloseS")),
        dict(module="ShadowBackend", cfg="MC_ShadowBackend_asbuilt.cfg", tiers=("thorough",), timeout=1500)],
    trace=dict(module="BackendManagerTrace", cfg="BackendManagerTrace.cfg", timeout=900),
    trace_alt={"shadow": dict(module="ShadowBackendTrace", cfg="ShadowBackendTrace.cfg", timeout=900)},
    isolate=lambda head: (head.get("cfg") or {}).get("family") in _FINDING_FAMILIES,
    chunk_lines=2500,
    max_rejections=6,
    nontrivial=_nontrivial,
    min_nontrivial=20,
    rule="one trace = one seeded history of the REAL lib/backend plumbing over recording in-memory inner clients that fail "
         "on demand. Manager families: NewManager from random configuration lists (incl. every refusal reason) through a "
         "registered client factory, Register / GetClient over 5-8 Go regexps x 12 namespaces (the regexp package is the "
         "oracle of `match`), AdjustBandwidth, CheckReadiness, Close, NoopClient, and Upload / Download / Stat / List / Close "
         "through the ThrottledClients the Manager hands out: 'mseq' one caller; 'mgate' three callers whose every inner "
         "call is a gate released by a seeded scheduler; 'timed' a bucket of 1.5-4 kB/s and transfers of 1.1-1.6 buckets "
         "with real sleeps (monotonic ms, one-sided bound). Shadow families ('sseq', 'sgate'): shadowbackend.Client over an "
         "active and a shadow store, failures of either and of the rewind, plain and seekable sources. Scenario traces "
         "'oversize', 'offset', 'race' reproduce the three recorded findings. distinct = distinct event sequences; "
         "non-trivial = at least two public calls reached an inner client and returned, or three routing decisions",
    assumptions=[
        "Manager has no lock: Register is never issued while another Manager call is running",
        "each configured backend has its own client object (the factory creates one per configuration entry)",
        "uploads of the SAME name through a shadow client are not issued concurrently, except in the 'race' scenario "
        "(finding X04-3); a source is handed over at offset 0, except in the 'offset' scenario (finding X04-2); no blob is "
        "larger than the bandwidth bucket, except in the 'oversize' scenario (finding X04-1)",
        "bandwidth: the token bucket bound is one-sided (a slow or loaded machine only makes transfers later); what is "
        "bounded is when the inner client RECEIVES the call, not the bytes on a wire",
        "the inner clients are in-memory stores; the real backends are covered by C37 (BackendKV) and C36 (NamePath)",
    ],
)
