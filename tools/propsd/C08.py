import os, sys
sys.path.insert(0, os.path.dirname(os.path.abspath(__file__)))
from _util import *

PROP = dict(
    specdir="store", engine="c08",
    mc=[dict(module="BlobStore", cfg="MC_BlobStore.cfg", tiers=("thorough",)),
        dict(module="MemHandles", cfg="MC_MemHandles.cfg")],
    trace=dict(module="MemHandlesTrace", cfg="MemHandlesTrace.cfg"),
    trace_alt={"conc": dict(module="MemHandlesConc", cfg="MemHandlesConc.cfg", deque=True, chunk_lines=1500),
               "storm": dict(module="MemStorm", cfg="MemStorm.cfg")},
    nontrivial=lambda recs: (any(r.get("res") == "evicted" for r in recs) and evictions(recs) >= 1) or
                            ((recs[0].get("cfg") or {}).get("tracespec") == "conc" and has(recs, "ret", 8)) or
                            ((recs[0].get("cfg") or {}).get("tracespec") == "storm" and sum(1 for r in recs if r.get("ev") == "Round" and not r.get("hasA")) >= 50),
    rule="seeded random histories on a real memory.Store (40-80 store calls over 4 keys + interleaved Read/ReadAt/Write/"
         "WriteAt/Seek/Size on up to 6 handles kept across evictions, deletions and re-creations); non-trivial = at least one "
         "eviction by admission and at least one handle call answered 'evicted'; every fifth trace is CONCURRENT: three goroutines "
         "(create/open/complete/delete + ReadAt/WriteAt/Size on own handles), call and return records, validated for linearizability "
         "by MemHandlesConc; the last traces are STORMS: rounds of real concurrency (eight handles issuing growing WriteAt calls while an "
         "admission evicts their blob), the state of every old handle and of the accounting checked once per round by MemStorm",
    assumptions=["zero-length reads and negative offsets are answered before the store is consulted (Reading in DESIGN C08)"],
)
