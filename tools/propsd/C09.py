import os, sys
sys.path.insert(0, os.path.dirname(os.path.abspath(__file__)))
from _util import *

PROP = dict(
    specdir="store", engine="c09",
    mc=[dict(module="TieredAbs", cfg="MC_TieredAbs.cfg"),
        dict(module="Tiered", cfg="MC_Tiered_design_q.cfg", tiers=("quick",), timeout=1800),
        dict(module="Tiered", cfg="MC_Tiered_design.cfg", tiers=("thorough",), timeout=3600),
        dict(module="Tiered", cfg="MC_Tiered_asbuilt_untagged.cfg", tiers=("thorough",), timeout=3600, coverage=False),
        dict(module="Tiered", cfg="MC_Tiered_design2w.cfg", tiers=("thorough",), timeout=3600)],
    schedules=dict(module="Tiered", sim_cfg="MC_Tiered_sim.cfg", depth=40, num={"quick": 60, "thorough": 800},
                   cex_quick=["MC_Tiered_asbuilt_OnlyF09a.cfg", "MC_Tiered_asbuilt_CompleteReadable.cfg",
                              "MC_Tiered_goal_DelMdPressure.cfg", "MC_Tiered_goal_PressureDuringCopy.cfg"],
                   cex=["MC_Tiered_asbuilt_OnlyF09a.cfg", "MC_Tiered_asbuilt_CompleteReadable.cfg", "MC_Tiered_asbuilt_MdReflectsUpdates.cfg",
                        "MC_Tiered_asbuilt_NoResurrection.cfg", "MC_Tiered_asbuilt_DurableWhenIdle.cfg",
                        # coverage goals: shortest behaviours reaching schedule shapes worth forcing (ban protocol probes)
                        "MC_Tiered_goal_DelMdPressure.cfg", "MC_Tiered_goal_SetMdPressure.cfg",
                        "MC_Tiered_goal_PressureDuringCopy.cfg", "MC_Tiered_goal_PressureBeforeUnmark.cfg"]),
    trace=dict(module="TieredAbsTrace", cfg="TieredAbsTrace.cfg"),
    isolate=lambda head: bool((head.get("cfg") or {}).get("tags")),
    nontrivial=lambda recs: has(recs, "W", 3) and has(recs, "MarkComplete") and (has(recs, "SetMd") or has(recs, "Delete") or has(recs, "Pressure")),
    rule="behaviours of the implementation-shaped Tiered spec (TLC -simulate, as-built flags, client calls atomic, plus one TLC "
         "counterexample per violated as-built invariant) forced step by step on a real tiered.Store through the flusher gate hooks; "
         "non-trivial = at least 3 forced flusher steps interleaved with a completion and a metadata update, deletion or memory pressure",
    assumptions=["one flusher worker on the real store (2-worker interleavings are model-checked only)",
                 "disk capacity ample (no disk eviction)", "client calls run atomically between flusher gates on the real code; "
                 "finer interleavings (inside a client call) are covered by the design model only"],
    level_note="Trusted: TLC, the gate controller (verif hooks in lib/store/tiered/flusher.go + memOpen/ioCopy seams), the projection "
               "(Open via complete scope, GetMetadata, Has). Known findings are attributed by the defect window recorded by the model.",
)
