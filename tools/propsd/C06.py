import os, sys
sys.path.insert(0, os.path.dirname(os.path.abspath(__file__)))
from _util import *

PROP = dict(
    specdir="store", engine="c06",
    mc=[dict(module="DiskCrash", cfg="MC_DiskCrash_q.cfg", tiers=("quick",)),
        dict(module="DiskCrash", cfg="MC_DiskCrash.cfg", tiers=("thorough",), timeout=3600, allow_dead=("Clean", "Open", "Read")),],
    trace=dict(module="DiskCrashTrace", cfg="DiskCrashTrace.cfg"),
    nontrivial=lambda recs: recs[0]["cfg"]["prefix"] > 0 and recs[0]["cfg"]["prefix"] < recs[0]["cfg"]["nops"] and has(recs, "Call"),
    rule="seeded call sequences (4-8 calls over 3 keys; RebootIncompleteBlobs x ShardLength {0,2} x capacity {4,6,64}) run once in a "
         "child process under strace; EVERY prefix of the recorded file-system operations is materialized and the real disk.NewStore is "
         "started on it and probed (list, bytes, ban, metadata, reserved size, then delete/create/complete of every key); one trace per "
         "crash point; non-trivial = the crash point lies strictly inside the operation list and at least one call completed before it",
    assumptions=["process-crash model: completed system calls persist, a write syscall is atomic (no torn writes / power-loss reordering)",
                 "strace -f -y renders the syscalls faithfully; keys are 64-hex digests"],
    level_text="TLC model-checks the crash/reboot rule (every key restored in its pre- or post-call state) on the bounded DiskCrash model and "
               "validates, for every crash point of every recorded scenario, what the real recovery code restored against that rule.",
)
