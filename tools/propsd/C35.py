import os, sys
sys.path.insert(0, os.path.dirname(os.path.abspath(__file__)))
from _util import *


def _nontrivial(recs):
    # antecedent of C35: some origin failed / was retried before the call returned
    reqs = [r for r in recs if r.get("ev") == "Req"]
    return len(reqs) >= 2 or any(r.get("r") == 1 for r in reqs)


PROP = dict(
    specdir="cluster", engine="c35",
    mc=[dict(module="ClusterDownload", cfg="MC_ClusterDownload.cfg", tiers=("quick",)),
        dict(module="ClusterDownload", cfg="MC_ClusterDownload_thorough.cfg", tiers=("thorough",))],
    trace=dict(module="ClusterDownloadTrace", cfg="ClusterDownloadTrace.cfg"),
    nontrivial=_nontrivial,
    min_nontrivial=20,
    rule="one trace = one real ClusterClient.DownloadBlob (real Poll, clientResolver/Locations, HTTPClient) over 1-3 "
         "(thorough: 1-4) scripted httptest origins; ALL effective answer patterns (runs of {cut after k>0 bytes, cut before "
         "the first byte, 5xx, dropped connection} ended by {200 whole blob, 404, 4xx} or exhausting the origins) x 2 / 4 "
         "seeded variants (blob 0/1/2/1000/100000 bytes, Content-Length or chunked framing, plain writer or *os.File "
         "destination, cut position 1 / n/2 / n-1, occasional 202 first); the origin logs each request with the destination "
         "length at arrival, Return logs error class, destination length and byte equality with the blob; "
         "non-trivial = at least two requests or a cut connection",
    assumptions=["202 answers cost a real ~1 s poll interval (defaultPollBackOff is not injectable): at most 1 (quick) / 2 (thorough) per trace; "
                 "the 15 min poll timeout (GiveUp202) is model-checked only",
                 "bulk traces avoid the input class of known finding F35 (a cut after k>0 bytes followed by a complete answer); "
                 "2 dedicated traces (reset cfg f35 = partial_then_full) sit inside it",
                 "truncation of a body delimited only by connection close (HTTP/1.0 style) is undetectable and out of scope"],
)
