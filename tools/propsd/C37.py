import os, sys
sys.path.insert(0, os.path.dirname(os.path.abspath(__file__)))
from _util import *


def _nontrivial(recs):
    """the antecedents of the property hold somewhere in the trace: a name was overwritten with different bytes and
    read back, a never-uploaded name was probed, and a listing delivered >= 2 names (over >= 2 pages where the
    backend paginates)"""
    last, overwritten, readback, probed_missing = {}, set(), False, False
    multi, paged_done = False, False
    paging = (recs[0].get("cfg") or {}).get("paging") if recs else None
    for r in recs:
        ev = r.get("ev")
        if ev == "Upload" and r.get("res") == "ok":
            if r["n"] in last and last[r["n"]] != r["c"]:
                overwritten.add(r["n"])
            last[r["n"]] = r["c"]
        elif ev == "Download":
            if r.get("res") == "ok" and r["n"] in overwritten:
                readback = True
            if r.get("res") == "notfound":
                probed_missing = True
        elif ev == "List" and r.get("res") == "ok":
            if len(r.get("names", [])) >= 2:
                multi = True
            if r.get("tin", 0) > 0 and r.get("tout", 0) == 0:
                paged_done = True
    return readback and probed_missing and (paged_done if paging == "token" else multi)


PROP = dict(
    specdir="backend", engine="c37",
    mc=[dict(module="BackendKV", cfg="MC_BackendKV.cfg", tiers=("quick",)),
        dict(module="BackendKV", cfg="MC_BackendKV_thorough.cfg", tiers=("thorough",), timeout=1500)],
    trace=dict(module="BackendKVTrace", cfg="BackendKVTrace.cfg", timeout=1200),
    chunk_lines=3000,
    nontrivial=_nontrivial,
    min_nontrivial=8,
    rule="seeded random histories (25-55 calls + a final sweep that downloads/stats every name and lists every prefix "
         "to the end, then Close twice) of Upload/Download/Stat/List over 5 names, 4 contents (empty, two equal-length "
         "digests, 300 bytes) and 4-5 prefixes on each in-process backend client in turn: testfs (identity and docker_tag "
         "pather, real server over httptest), s3backend (identity and docker_tag pather, in-memory S3 with faithful "
         "ListObjectsV2 paging, ListMaxKeys 2/3/250, optionally foreign registry keys in the bucket), sqlbackend on a "
         "sqlite file, shadowbackend over sql+testfs / testfs+sql (public constructor) and s3+testfs; page sizes 1..3, "
         "continuation tokens followed to the end, replayed, continued later and across uploads; distinct = distinct "
         "event sequences; non-trivial = an overwritten name was read back, a missing name was probed and a listing "
         "delivered >= 2 names (a multi-page listing was completed where the backend paginates)",
    assumptions=[
        "S3 is an in-memory fake implementing the four operations of s3backend.S3 (HeadObject, s3manager-style "
        "Download/Upload, ListObjectsV2Pages) with the service's observable behaviour incl. the SDK's REST URI "
        "cleaning of object keys; the s3manager multipart code itself is not executed",
        "names are valid for the configured pather and free of file/directory conflicts; listing prefixes are whole "
        "path segments and never equal a name (testfs lists directories, S3 matches key strings; they agree on those)",
        "sqlbackend: prefixes have the form <repo>/_manifests/tags; its catalog listing (prefix \"\") is outside the "
        "statement; Stat size is not compared (reports 0 by design)",
        "testfs: a paginated List is rejected and listing a prefix below which nothing is stored may fail (HTTP 500 from "
        "walking a missing directory) - both accepted by the capability record, not counted as listings",
        "names uploaded while a multi-page listing is in progress may or may not be listed; names stored when it "
        "started must be",
        "shadowbackend over s3backend is built through the export-only overlay shim "
        "harness/overlay/lib/backend/shadowbackend/verif_shim.go (the public constructor cannot take a custom S3)",
    ],
)
