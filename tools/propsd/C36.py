import os, sys
sys.path.insert(0, os.path.dirname(os.path.abspath(__file__)))
from _util import *

PROP = dict(
    specdir="backend", engine="c36",
    mc=[dict(module="NamePath", cfg="MC_NamePath.cfg", tiers=("quick",)),
        dict(module="NamePath", cfg="MC_NamePath_thorough.cfg", tiers=("thorough",), timeout=2400),
        dict(module="NamePath", cfg="MC_NamePath_deep.cfg", tiers=("thorough",), timeout=2400)],
    trace=dict(module="NamePathTrace", cfg="NamePathTrace.cfg", timeout=1200),
    chunk_lines=5000,
    # antecedent of the property: a valid name was converted to a path and that path was converted back
    nontrivial=lambda recs: has(recs, "NameFromBlobPath", 2) and
                            any(r.get("ev") == "BlobPath" and r.get("name", {}).get("kind") != "bad" for r in recs),
    technique="specification as executable definition + exhaustive case generator (DESIGN 5): BlobPath / NameFromBlobPath over "
              "segment sequences; TLC proves the round trip for all roots x schemes x names of a small token universe; every "
              "real result is evaluated with the same definitions",
    rule="one trace = one pather class (root: absolute/relative x depth 0-3 x trailing slash, '/' and ''; scheme) x all name "
         "classes of the scheme (token sequences incl. keyword look-alikes, malformed names), each concretised 20 (quick) / 100 "
         "(thorough) times with random valid strings and run through the real New/BasePath/BlobPath/NameFromBlobPath; one "
         "record per distinct abstract outcome; non-trivial = a valid name was converted and converted back",
    assumptions=["root components are drawn from [a-z0-9._-] (no regexp metacharacters other than '.'); roots are clean apart "
                 "from an optional trailing slash",
                 "valid names: docker repo components [a-z0-9]+([._-][a-z0-9]+)*, tags [\\w][\\w.-]*, 64-hex digests, clean relative identity paths",
                 "identity pathers over roots that end in '/' (incl. '/') or are empty live in three dedicated traces (cfg.f36) because of finding F36"],
)
