import os, sys
sys.path.insert(0, os.path.dirname(os.path.abspath(__file__)))
from _util import *

_FINDING_KINDS = ("stalepatch", "negrange", "negrange_t", "om404", "ctype")


def _x03_nontrivial(recs):
    """the antecedents of the guarantees are reached: an upload was committed (commit / transfer / duplicate
    answered 200) or a refresh was accepted (202) and its download came back, and the cluster state was observed
    afterwards"""
    committed = any(r.get("ev") == "Ret" and r.get("op") in ("commit", "tcommit", "dupcommit") and r.get("code") == 200
                    for r in recs)
    refreshed = any(r.get("ev") == "Ret" and r.get("code") == 202 for r in recs) and has(recs, "DlRet")
    return (committed or refreshed) and has(recs, "Obs", 2)


# named actions of BlobServerMC.Next and the ones each small coverage configuration is expected to take; the four
# configurations together take every action (thorough tier: an expected action with 0 hits makes the check exit 2)
_ACTIONS = """ClientCall PeerCall SReply
 HHealth HReadiness HLocations HStat HDownload HPrefetch HGetMeta HReplicate HDelete HOverwriteMeta HStart
 HTransferStart HPatch HTransferPatch HCommit HDupCommit HTransferCommit HForceCleanup HForceCleanupV2
 SBStat SOverwriteSet SRf1 SRf2 SWorkerStore SWorkerMeta SWorkerEnd SP2 SPWrite SWb1 SWbAdd SGen SFan0 SFanDone
 SRemoteGone SRemote SDlCall SDlRet SLegRecv SLegBegin
 EDown EBackendDown ERemoteDown EWbFail EBackendPut ERing EHours ETick""".split()
_LIVE = {
    "up_q": """ClientCall EWbFail HCommit HDelete HDupCommit HPatch HStart PeerCall SFan0 SFanDone SGen SLegBegin SLegRecv SP2
               SPWrite SReply SWb1 SWbAdd""",
    "rd_q": """ClientCall ETick HDelete HDownload HGetMeta HStat HTransferCommit HTransferPatch HTransferStart PeerCall SBStat
               SDlCall SDlRet SFan0 SFanDone SGen SLegBegin SLegRecv SP2 SPWrite SReply SRf1 SRf2 SWorkerEnd SWorkerMeta
               SWorkerStore""",
    "cov_xfer": """ClientCall HDupCommit HTransferCommit HTransferPatch HTransferStart SGen SP2 SPWrite SReply SWb1 SWbAdd""",
    "cov_misc": """ClientCall EBackendDown EBackendPut EDown EHours ERemoteDown ERing HDelete HDownload HForceCleanup
                   HForceCleanupV2 HHealth HLocations HOverwriteMeta HPrefetch HReadiness HReplicate HStat SDlCall
                   SOverwriteSet SRemote SRemoteGone SReply SRf1 SRf2""",
}
assert set(_ACTIONS) == set(a for v in _LIVE.values() for a in v.split()), "every action must be expected somewhere"


def _dead(cfg):
    live = set(_LIVE[cfg].split())
    return tuple(a for a in _ACTIONS if a not in live)


PROP = dict(
    specdir="origin", engine="x03",
    mc=[dict(module="BlobServerMC", cfg="MC_BlobServer_up_q.cfg", allow_dead=_dead("up_q")),
        dict(module="BlobServerMC", cfg="MC_BlobServer_rd_q.cfg", allow_dead=_dead("rd_q")),
        dict(module="BlobServerMC", cfg="MC_BlobServer_cov_xfer.cfg", tiers=("thorough",), allow_dead=_dead("cov_xfer")),
        dict(module="BlobServerMC", cfg="MC_BlobServer_cov_misc.cfg", tiers=("thorough",), allow_dead=_dead("cov_misc")),
        # the bigger configurations run longer than TLC's one-minute coverage interval (an interim report shows zeros)
        dict(module="BlobServerMC", cfg="MC_BlobServer_up.cfg", tiers=("thorough",), coverage=False, timeout=1500),
        dict(module="BlobServerMC", cfg="MC_BlobServer_xfer.cfg", tiers=("thorough",), coverage=False, timeout=1500),
        dict(module="BlobServerMC", cfg="MC_BlobServer_rd.cfg", tiers=("thorough",), coverage=False, timeout=1500),
        dict(module="BlobServerMC", cfg="MC_BlobServer_fc.cfg", tiers=("thorough",), coverage=False, timeout=1500),
        dict(module="BlobServerMC", cfg="MC_BlobServer_3n.cfg", tiers=("thorough",), coverage=False, timeout=1500),
        dict(module="BlobServerMC", cfg="MC_BlobServer_mix.cfg", tiers=("thorough",), coverage=False, timeout=1500),
        dict(module="BlobServerMC", cfg="MC_BlobServer_live.cfg", tiers=("thorough",), coverage=False, timeout=1500),
        dict(module="BlobServerMC", cfg="MC_BlobServer_live_rd.cfg", tiers=("thorough",), coverage=False, timeout=1500),
        ],
    trace=dict(module="BlobServerTrace", cfg="BlobServerTrace.cfg", chunk_lines=2000, timeout=1500),
    isolate=lambda head: (head.get("cfg") or {}).get("kind") in _FINDING_KINDS,
    nontrivial=_x03_nontrivial,
    min_nontrivial=20,
    max_rejections=4,
    engine_timeout={"quick": 600, "thorough": 1500},
    technique="implementation-shaped TLA+ model of the HTTP handlers (one action per critical section), exhaustive TLC "
              "on small clusters, and TLC validation of recorded call/return/dependency histories of a cluster of real "
              "origin blob servers (linearizability with respect to the step semantics)",
    rule="one trace = one history of a cluster of 2-3 REAL blobserver.Server instances (httptest, real CAStore, real "
         "metainfogen, real blobrefresh, real blobclient between the nodes; harness-supplied hash ring, storage backend "
         "with gated Download, persisted-retry manager, remote cluster, mock clocks). Family 'seq' (56 / 268 traces): 20-55 "
         "driver steps, one request at a time over ALL endpoints (upload start/patch/commit with whole, partial, junk, "
         "foreign, short, long, empty, beyond-the-end bodies; duplicate and transfer endpoints; stat/get/prefetch/"
         "metainfo/delete/overwrite/replicate/locations/cleanup/health; unparsable parameters) interleaved with faults "
         "(node down, backend down, manager.Add failing, remote origins failing uploads with non-retryable, retryable statuses or dropped connections), ring changes, backend contents, clock steps and "
         "the release of parked refresh downloads with exact / corrupted / failing / vanished content; family 'conc' "
         "(28 / 134 traces): 2-3 clients issue 3-6 requests each at once in 2-3 rounds against the same blobs; 10 scripted "
         "traces (fan-out with a dead and a conflicting replica, 202-then-200 refresh with error TTL, ring change + "
         "forced cleanup, duplicate commit meeting a blob that appeared meanwhile, and one trace per recorded finding). "
         "Every request's arrival and answer at every node, every manager.Add, backend.Download, remote upload and "
         "environment change is logged in real-time order; after every driver step (seq) / round (conc) the complete "
         "state of every node (cache with sha256 check, metainfo, persist flags, upload files, tasks, refresher state) is "
         "logged and must equal the specification's state. non-trivial = an upload was committed or a refresh ran, and "
         "states were observed",
    assumptions=[
        "CAStore calls are atomic (spec/store/CAStore.tla, C07/C10 own their internals); the hash ring, the write-back "
        "manager, the request cache of the refresher and the storage backend are abstract (owners per digest, a task set, "
        "idle/pending/cached error, a blob set)",
        "in concurrent rounds an upload id is used only by the client that started it, DELETE and forced cleanup run only "
        "between rounds (a DELETE that the store refuses still drops the store's map entry for an instant; requests "
        "racing with it can fail -- store-level window, see docs/ext/X03.md)",
        "uploads use the namespace that has a backend; the namespace without one is exercised on the read paths",
        "ErrWorkersBusy (10000 refresh workers busy) and the refresher's size limit are not driven",
        "trace validation uses the intended behaviour (FixLock/FixRange/Fix404/FixCT = TRUE); the four recorded findings "
        "are reproduced by dedicated scripted traces only (cfg.kind), random traces stay away from their inputs",
    ],
    level_text="TLC model-checks the implementation-shaped BlobServer model (every handler step, peer requests, refresh "
               "workers, faults) and validates recorded histories of a real origin cluster step by step with all "
               "guarantees as invariants / action properties of every state.",
)
