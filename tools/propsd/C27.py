import os, sys
sys.path.insert(0, os.path.dirname(os.path.abspath(__file__)))
from _util import *


def _nontrivial(recs):
    # the antecedents of C27: some announcement expired and was cleaned while another one of the same
    # history survived a cleanup pass, and a lookup returned peers
    cleaned = any(r.get("ev") in ("CleanEntries", "CleanGroups", "ret:CleanEntries", "ret:CleanGroups") for r in recs)
    got = any(r.get("ev") in ("Get", "ret:Get") and r.get("ids") for r in recs)
    sizes = [len(r["sp"]) for r in recs if "sp" in r]
    shrank = any(b < a for a, b in zip(sizes, sizes[1:]))
    return cleaned and got and shrank


PROP = dict(
    specdir="tracker", engine="c27",
    mc=[dict(module="PeerStore", cfg="MC_PeerStore.cfg"),
        dict(module="PeerStoreImpl", cfg="MC_PeerStoreImpl.cfg"),
        dict(module="PeerStore", cfg="MC_PeerStore_2h.cfg", tiers=("thorough",)),
        dict(module="PeerStore", cfg="MC_PeerStore_3p.cfg", tiers=("thorough",))],
    trace=dict(module="PeerStoreTrace", cfg="PeerStoreTrace.cfg"),
    chunk_lines=2500, max_rejections=10,
    nontrivial=_nontrivial,
    min_nontrivial=20,
    rule="seeded histories on a real peerstore.LocalStore with a mock clock: (seq) 30-70 UpdatePeer/GetPeers/clock/"
         "entries-pass/groups-pass calls over 3 torrents, 5 peers, 3 addresses, TTL 2/3/5, each with a projection of the "
         "store; (conc) rounds of 2-4 goroutines with call/return records checked for linearizability; (window) "
         "announcements forced between the scan and the removal phase of an entries pass through a gate on the clock "
         "dependency; non-trivial = a cleanup pass ran, the store shrank at least once and a lookup returned peers",
    assumptions=["cleanup passes are invoked through an export-only overlay shim (the store's own ticker uses real time)",
                 "the clock does not move while a cleanup pass is in flight (the harness owns the mock clock)",
                 "a single cleaner at a time, as in the store (one ticker goroutine)"],
)
