import os, sys
sys.path.insert(0, os.path.dirname(os.path.abspath(__file__)))
from _util import *


def _nontrivial(recs):
    # antecedents of C26: an incomplete announcer got a handout mixing at least two peers, and a
    # complete announcer announced while other peers were known
    mixed = any(r.get("ev") == "Announce" and not r.get("c") and len(r.get("ids", [])) >= 2 for r in recs)
    comp = any(r.get("ev") == "Announce" and r.get("c") and len(r.get("sp", [])) >= 2 for r in recs)
    return mixed and comp


PROP = dict(
    specdir="tracker", engine="c26",
    mc=[dict(module="Handout", cfg="MC_Handout.cfg"),
        dict(module="Handout", cfg="MC_Handout_thorough.cfg", tiers=("thorough",))],
    trace=dict(module="HandoutTrace", cfg="HandoutTrace.cfg"),
    chunk_lines=2500, max_rejections=10,
    nontrivial=_nontrivial,
    min_nontrivial=10,
    rule="seeded histories of 25-55 steps against the real tracker HTTP handler (GET /announce and POST /announce/{infohash}) "
         "on a real LocalStore with mock clock: announcements from up to 6 peers for up to 2 torrents with any completion "
         "flag, handout limits 1..5 and unset(50), 0..2 origins per torrent, both priority policies, clock advances and "
         "peer store cleanup passes; every record carries the decoded reply and a projection of the peer store; "
         "non-trivial = an incomplete announcer received at least two peers and a complete announcer announced into a "
         "populated torrent",
    assumptions=["origin peer ids are disjoint from announcing peer ids (origins run with announcing disabled)",
                 "the origin store is a fake returning a fixed origin set per digest",
                 "F26 (announcer handed out to itself) was repaired in /repo 483b8c2; every history checks every clause"],
)
