import os, sys
sys.path.insert(0, os.path.dirname(os.path.abspath(__file__)))
from _util import *


def _nontrivial(recs):
    # antecedent of C33: the tag was put on the remote index after at least one dependency replication, and the
    # history contains a disturbed request (failed execution or a 202 poll)
    put = any(r.get("ev") == "Put" for r in recs)
    rep = any(r.get("ev") == "Rep" for r in recs)
    disturbed = any(r.get("ev") == "ExecEnd" and r.get("res") == "err" for r in recs) or \
        any(r.get("ev") == "Rep" and r.get("r") != 200 for r in recs)
    return put and rep and disturbed


PROP = dict(
    specdir="index", engine="c33",
    mc=[dict(module="TagReplication", cfg="MC_TagReplication.cfg", tiers=("quick",)),
        dict(module="TagReplication", cfg="MC_TagReplication_thorough.cfg", tiers=("thorough",)),
        dict(module="TagReplication", cfg="MC_TagReplication_live.cfg", coverage=False)],
    trace=dict(module="TagReplicationTrace", cfg="TagReplicationTrace.cfg"),
    nontrivial=_nontrivial,
    min_nontrivial=20,
    rule="one trace = one replication task executed by the real tagreplication.Executor in a retry loop until it "
         "succeeds, with the real ClusterClient.ReplicateToRemote (Poll, clientResolver, HTTPClient) over 1-2 (thorough 1-3) "
         "scripted local origins and the real tagclient over a scripted stateful remote build-index; ALL answer scripts over "
         "{natural, 202, 5xx, dropped connection, reply lost after the request was carried out, 4xx} up to length 3 (quick) / "
         "4 (thorough), consumed in request arrival order over all request kinds, x 2 / 3 seeded variants (0-2/0-3 "
         "dependencies, origins, remote already holding the tag); every HEAD/GET/POST/PUT is logged by the server that "
         "receives it; non-trivial = a Put after at least one replication request in a history with a failed execution or a "
         "non-200 replication answer",
    assumptions=["a 200 answer of a local origin to .../remote/<dns> means the blob is in the remote origin cluster "
                 "(blobserver.replicateToRemote returns only after remote.UploadBlob succeeded; that handler is not driven here)",
                 "the retry loop is the driver's (execute until nil, as persistedretry does; the manager itself is C30)",
                 "202 answers cost a real ~1 s poll interval each (defaultPollBackOff is not injectable); traces run concurrently"],
)
