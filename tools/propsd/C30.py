import os, sys
sys.path.insert(0, os.path.dirname(os.path.abspath(__file__)))
from _util import *


def _nontrivial(recs):
    """an accepted task met a fault (failed execution, full queue, crash or Close while it was stored) and the history
    still ends with its successful execution and removal"""
    fault = any(r.get("ev") == "ExecEnd" and r.get("ok") is False for r in recs) or \
        any(r.get("ev") == "GetPending" and len(r.get("ts", [])) > 0 for r in recs)
    return fault and has(recs, "Remove") and (has(recs, "Crash") or has(recs, "Closed") or has(recs, "MarkPending"))


_SX = ["SxCall", "SxStart", "SxEnd", "SxRet"]
PROP = dict(
    specdir="retry", engine="c30",
    mc=[dict(module="PersistedRetry", cfg="MC_PersistedRetry.cfg", tiers=("quick",), allow_dead=_SX),
        dict(module="PersistedRetry", cfg="MC_PersistedRetry_live_quick.cfg", tiers=("quick",), coverage=False),
        dict(module="PersistedRetry", cfg="MC_PersistedRetry_live.cfg", tiers=("thorough",), coverage=False, timeout=1500),
        dict(module="PersistedRetry", cfg="MC_PersistedRetry_thorough.cfg", tiers=("thorough",), allow_dead=_SX, timeout=1500)],
    trace=dict(module="PersistedRetryTrace", cfg="PersistedRetryTrace.cfg", deque=True),
    chunk_lines=2500,
    engine_timeout={"quick": 900, "thorough": 2400},
    nontrivial=_nontrivial,
    technique="implementation-shaped TLA+ model (one action per store call / channel operation / executor call, Crash at every "
              "boundary) checked exhaustively incl. liveness under weak fairness; forced schedules on a real Manager over the "
              "real sqlite stores with a recording store decorator, a gated executor, a gated poller and sqlite-file snapshots "
              "as crashes; trace validation with silent steps",
    rule="one trace = one forced schedule (14-30 driver steps: Add of ready / not-ready / duplicate tasks over 3 keys, release of a "
         "gated execution with success or failure, one poll of the retry poller, crash now or at one of the next 3 store-call "
         "boundaries + restart on the file copy, graceful Close + restart, SyncExec, Find) on writeback.Store or "
         "tagreplication.Store (alternating), buffers and worker counts in {1,2}, followed by a fault-free drain; distinct = "
         "distinct event sequences; non-trivial = a stored task met a failed execution or a restart and was nevertheless "
         "executed successfully and removed",
    assumptions=["a crash is taken at store-call boundaries only (the table changes nowhere else; volatile state is lost in full)",
                 "liveness is checked on the model under weak fairness with finite budgets of additions, failures, skips and "
                 "crashes, and on the real code as a bounded drain (10 s) after the last fault",
                 "store calls do not fail (sqlite errors other than the primary-key conflict are not injected)"],
)
