import os, sys
sys.path.insert(0, os.path.dirname(os.path.abspath(__file__)))
from _util import *


def _nontrivial(recs):
    # the history exercised the caches and the failure paths: an origin answered "unavailable" at least once,
    # some request got origins without asking any origin (served from the caches), and the clock moved
    unav = any(r.get("ev") == "PeerCtx" and not r.get("ok") for r in recs)
    tick = has(recs, "Tick")
    served = False
    for i, r in enumerate(recs):
        if r.get("ev") == "ORet" and r.get("res") == "ok" and i > 0 and recs[i - 1].get("ev") == "OCall":
            served = True
        if r.get("ev") == "ARet" and r.get("status") == 200 and any(r.get("origins", [])) and i > 0 and recs[i - 1].get("ev") == "PSGet":
            served = True
    return unav and tick and served


# configurations that issue only some operations (constant Ops) cannot take the actions of the others;
# MC_TrackerServer_thorough.cfg issues all of them and must cover every action
_NOT_STORE = ("ACall", "PSUpdate", "PSGet", "ARet", "MCall", "MiTry", "MRet", "RCall", "Probe", "RRet", "Health", "BadReq")
_NOT_ANN = ("MCall", "MiTry", "MRet", "RCall", "Probe", "RRet", "Health", "BadReq")

PROP = dict(
    specdir="tracker", engine="x02",
    mc=[dict(module="TrackerServerMC", cfg="MC_TrackerServer.cfg", tiers=("quick",)),
        dict(module="TrackerServerMC", cfg="MC_TrackerServer_conc.cfg", tiers=("quick",)),
        dict(module="TrackerServerMC", cfg="MC_TrackerServer_thorough.cfg", tiers=("thorough",)),
        dict(module="TrackerServerMC", cfg="MC_TrackerServer_store_thorough.cfg", tiers=("thorough",), allow_dead=_NOT_STORE),
        dict(module="TrackerServerMC", cfg="MC_TrackerServer_conc_thorough.cfg", tiers=("thorough",), allow_dead=_NOT_ANN),
        dict(module="TrackerServerMC", cfg="MC_TrackerServer_conc3_thorough.cfg", tiers=("thorough",), coverage=False),
        dict(module="TrackerServerMC", cfg="MC_TrackerServer_live.cfg", tiers=("thorough",), coverage=False)],
    trace=dict(module="TrackerServerTrace", cfg="TrackerServerTrace.cfg", deque=True),
    isolate=lambda head: (head.get("cfg") or {}).get("fam") == "probe",
    chunk_lines=8000, max_rejections=6,
    nontrivial=_nontrivial,
    min_nontrivial=20,
    engine_timeout={"quick": 600, "thorough": 1500},
    technique="TLA+ implementation-shaped specification of the tracker request handling; TLC exhaustive on small models "
              "(incl. 2-3 concurrent requests, liveness under fairness); TLC trace validation of real-code histories with "
              "inferred limiter-internal steps (step-grain linearizability)",
    rule="families: seq (3/4 of the histories) = one caller, 30-70 steps of GetOrigins / announce V1+V2 / metainfo / "
         "readiness / health / malformed requests against the real origin store + tracker handler + origin cluster client, "
         "clock advances 1..61 s, flips of the scripted origin cluster (locations / peer context / metainfo status / "
         "readiness per origin, replica lists) and of the scripted peer store (errors, population); conc (1/4) = 2-3 "
         "goroutines whose dependency calls are gates released one at a time by the driver, with clock advances and flips "
         "in between; probe = single malformed requests of the known-finding classes; 8 TTL settings incl. the defaults, "
         "limits 1..5 and unset, 4 intervals, both policies, 1..4 cluster hosts; distinct = distinct event sequences; "
         "non-trivial = an origin was seen unavailable, the clock moved and some reply was served from the caches",
    assumptions=["the peer store honours its contract (at most n distinct non-origin peers, nil on error)",
                 "Locations never returns an empty list (blobclient.HTTPClient turns that into an error)",
                 "origin peer ids are disjoint from agent peer ids",
                 "clock and TTLs in whole seconds"],
)
