import os, sys
sys.path.insert(0, os.path.dirname(os.path.abspath(__file__)))
from _util import *


def _nontrivial(recs):
    """some request had to go on to a second host after a network / status failure, or gave up after trying its
    whole sample; or a Sample call on a non-empty set"""
    for r in recs:
        if r.get("ev") == "Req" and len(r.get("c", [])) >= 2:
            return True
        if r.get("ev") == "Sample" and len(r.get("s", [])) >= 1 and r.get("n", 0) >= 1:
            return True
    return False


PROP = dict(
    specdir="cluster", engine="c25",
    mc=[dict(module="ClusterSampleMC", cfg="MC_ClusterSample.cfg", tiers=("quick",)),
        dict(module="ClusterSampleMC", cfg="MC_ClusterSample_thorough.cfg", tiers=("thorough",), timeout=2400)],
    trace=dict(module="ClusterSampleTrace", cfg="ClusterSampleTrace.cfg"),
    nontrivial=_nontrivial,
    min_nontrivial=10,
    replay_attempts=6,
    chunk_lines=3000,
    max_rejections=8,
    rule="calls of the real stringset.Set.Sample, of every public method of the real tagclient cluster client (do / doOnce) "
         "and of blobclient.Locations / ClientResolver.Resolve with the real HTTP single-host clients against 8 local "
         "listeners that answer 200, answer 500 or drop the connection; the listeners record the hosts contacted in order. "
         "(E) EVERY assignment of {up,err,down} to lists of 0..3 hosts x every kind, (R) seeded random lists of up to 8 hosts, "
         "(X, only when the tree samples correctly) every assignment for lists of 4..6 hosts and unrestricted random inputs, "
         "(G) dedicated scenarios with more hosts than the sample; distinct = distinct event sequences; non-trivial = a "
         "request went on to a second host, or a non-empty Sample",
    assumptions=["while known finding F25 is present, general traces (cfg.big=0) only use inputs on which the sample bound cannot bind "
                 "(lists of <= 3 hosts, or larger lists with at most 2 failing members; Sample with n >= size); inputs with more "
                 "failing hosts than the sample are exercised by few dedicated traces (cfg.big=1) and, once Sample is repaired, by "
                 "the exhaustive/random family X (decided by an input-selection probe, never a verdict)",
                 "the order in which the real code tries hosts is Go map iteration order, not controlled by the seed; re-execution of a "
                 "rejected trace is attempted up to 6 times",
                 "for single-attempt calls (CheckReadiness) only success/failure of the reply is bound (the client wraps the error)"],
)
