import os, sys
sys.path.insert(0, os.path.dirname(os.path.abspath(__file__)))
from _util import *

_CREATE = ("TagPut", "TagDupPut", "StCreateCache", "StCreateUpload")


def _nontrivial(recs):
    """the trace reached both sides of the property: a name was accepted and stored (antecedent of NoEscape true)
    AND a name that decodes to a real store name was refused"""
    acc = any(r.get("ev") in _CREATE and r.get("res") == "ok" for r in recs)
    rej = any(r.get("res") == "rejected" and r.get("dk") == "name" for r in recs)
    return acc and rej


PROP = dict(
    specdir="store", engine="c11",
    mc=[dict(module="StoreNames", cfg="MC_StoreNames.cfg", tiers=("quick",)),
        dict(module="StoreNames", cfg="MC_StoreNames_aux.cfg", tiers=("thorough",)),
        dict(module="StoreNames", cfg="MC_StoreNames_thorough.cfg", tiers=("thorough",), timeout=3000)],
    trace=dict(module="StoreNamesTrace", cfg="StoreNamesTrace.cfg"),
    chunk_lines=6000,
    engine_timeout={"quick": 600, "thorough": 2400},
    nontrivial=_nontrivial,
    rule="every wire name = sequence of tokens {x y . .. / %2E %2e %2F %2f %252E %252F %25 %} (quick: all of length <=2 through "
         "every operation, all of length 3 through put/get, patch/commit, create/delete + a seeded sample of 60 through every "
         "operation; thorough: all <=3 through everything, all of length 4 through the main operations) sent as a raw HTTP "
         "request to a real tagserver / origin blobserver handler or passed to SimpleStore directly, in a sandbox with canary "
         "files in every ancestor of the store roots; one trace = <=240 requests against one fresh server; distinct = distinct "
         "event sequences; non-trivial = at least one name accepted and stored and at least one well-formed name refused",
    assumptions=[
        "the decoding of a request path to a name (net/url RawPath rule, chi v4 segment routing, one PathUnescape in "
        "httputil.ParseParam) is part of the specification; if the servers decode differently the model-resolved path is wrong",
        "outside effects are observed by a snapshot diff of the sandbox (everything outside the two store roots) after every "
        "request; reads that leave no trace and hit no canary are not observable",
        "the name class that decodes to '..' (F11) is exercised only in dedicated traces (trace cfg f11=true) and excluded from the bulk traces",
        "drivers never delete/commit an entry whose directory contains other live entries (in-memory entry map coherence is not C11)",
    ],
)
