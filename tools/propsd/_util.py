"""helpers for propsd entries (import with: from _util import *)"""

def has(recs, ev, n=1):
    return sum(1 for r in recs if r.get("ev") == ev) >= n

def evictions(recs):
    """count Create events after which a previously live key disappeared"""
    n, live = 0, set()
    for r in recs:
        if "live" in r:
            now = set(r["live"])
            if r.get("ev") == "Create" and (live - now):
                n += 1
            live = now
    return n
