import os, sys
sys.path.insert(0, os.path.dirname(os.path.abspath(__file__)))
from _util import *


def _nontrivial(recs):
    """a value was printed by the real code and parsed back (round trip reached), or an input was refused"""
    rt = False
    for a, b in zip(recs, recs[1:]):
        if a.get("ev") == "Print" and b.get("ev") == "Parse" and b.get("ok") and a.get("k") == b.get("k") and a.get("out") == b.get("in"):
            rt = True
            break
    refused = any(r.get("ev") == "Parse" and not r.get("ok") for r in recs)
    return rt or refused


PROP = dict(
    specdir="core", engine="c39",
    mc=[dict(module="Codecs", cfg="MC_Codecs.cfg", tiers=("quick",)),
        dict(module="Codecs", cfg="MC_Codecs_thorough.cfg", tiers=("thorough",))],
    trace=dict(module="CodecsTrace", cfg="CodecsTrace.cfg"),
    chunk_lines=2500,
    max_rejections=8,
    nontrivial=_nontrivial,
    min_nontrivial=20,
    rule="14 exhaustive/boundary traces + seeded random traces on the real code: digests (round trip through String/Hex/JSON/Value+Scan; "
         "every single-character substitution/deletion/insertion/truncation of a valid digest, hex, JSON string and JSON list), info "
         "hashes and peer ids (same corruptions, LessThan), all piece-status vectors over {0,1} up to length 8 and over {0,1,2} up to "
         "length 5 plus every one-byte file, all bitfields up to length 8 plus lengths around 64/128/192/256 and every truncation of a "
         "valid encoding, access times at 0, +-2^k, 2^k-1 (k<55), +-(2^55) limits and every one-byte / saturated varint buffer, persist "
         "flags incl. every one-byte string, handshake messages through toP2PMessage -> sendMessage/readMessage over a pipe -> "
         "handshakeFromP2PMessage incl. damaged fields. Each call logs value, printed bytes, accept/refuse and parsed value as integer "
         "arrays; the spec recomputes every format. non-trivial = a real print->parse round trip or a refused input",
    assumptions=["hexadecimal = 0-9 a-f A-F; ids print lower-case; digests keep their characters",
                 "piece-status file: every byte string parses, a byte other than 1 denotes not-complete (dirty is never persisted as such)",
                 "access time well-formed iff the buffer starts with a varint (<=10 bytes, no overflow); Serialize domain |t| < 2^55 (O39)",
                 "persist flag well-formed iff it is a spelling strconv.ParseBool documents",
                 "bitfield well-formed iff 8-byte length + at least the words it needs (trailing bytes / excess bits in the last word are "
                 "not examined; declared lengths >= 2^24 bits are not generated - allocation behaviour belongs to C14)",
                 "JSON inputs are compact (what kraken prints) or single-character damages of it; nil DigestList ('null') not covered",
                 "unexported piece-status (de)serialization and handshake conversion are reached through export-only overlay shims"],
)
