import os, sys
sys.path.insert(0, os.path.dirname(os.path.abspath(__file__)))
from _util import *

PROP = dict(
    specdir="store", engine="c07",
    mc=[dict(module="BlobStore", cfg="MC_BlobStore.cfg")],
    trace=dict(module="BlobStoreTrace", cfg="BlobStoreTrace.cfg"),
    nontrivial=lambda recs: evictions(recs) >= 1 and has(recs, "MarkComplete", 2),
    rule="seeded random histories (40-80 calls over 4 keys, capacities {1,3,4,8}, all scopes, movable and non-movable "
         "metadata, Clean, sharded/unsharded, one call in twelve a Create of a name the file system refuses - BlobStore.tla CreateBad) on a real disk.Store in a temp dir; every call logged with reply class and "
         "post-call eviction order / reserved bytes / live keys; non-trivial = at least one eviction by admission and two completions",
    assumptions=["eviction order and reserved bytes are read through an export-only overlay shim (harness/overlay/lib/store/disk)"],
)
