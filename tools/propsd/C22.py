import os, sys
sys.path.insert(0, os.path.dirname(os.path.abspath(__file__)))
from _util import *


def _nontrivial(recs):
    # the property's antecedents: a reply over >= 2 nodes was observed AND (the same node set was built in
    # >= 2 insertion orders OR a node was added/removed while >= 2 other nodes stayed)
    multi = any(r.get("ev") == "GetR" and len(r.get("ranks", [])) >= 2 for r in recs)
    perms = any(r.get("ev") == "Perms" and r.get("perms", 0) >= 2 for r in recs)
    delta = any(r.get("ev") == "Delta" and min(len(r.get("before", [])), len(r.get("after", []))) >= 2 for r in recs)
    return multi and (perms or delta)


PROP = dict(
    specdir="ring", engine="c22",
    mc=[dict(module="Rendezvous", cfg="MC_Rendezvous.cfg", tiers=("quick",)),
        dict(module="Rendezvous", cfg="MC_Rendezvous_thorough.cfg", tiers=("thorough",), timeout=1500)],
    trace=dict(module="RendezvousTrace", cfg="RendezvousTrace.cfg", timeout=1200),
    chunk_lines=6000,
    nontrivial=_nontrivial,
    technique="specification as executable definition + exhaustive case generator (DESIGN 5): TLC proves the ordering "
              "lemmas for all node lists and abstract score functions incl. ties; real replies for all 65536 shard keys "
              "are evaluated with the same TLA+ definitions",
    rule="one trace = one node set (1-5 nodes: every insertion permutation built as a fresh RendezvousHash, then every "
         "single-node removal and re-addition) or one random AddNode/RemoveNode history over a universe of 6-8 nodes; after "
         "every call GetOrderedNodes is run for all 65536 four-hex keys + 256 two-hex keys + random 64-hex keys and logged "
         "as de-duplicated abstract cases (rank vector, reply) with counts; distinct = distinct record sequences; "
         "non-trivial = a reply over >= 2 nodes and (>= 2 insertion orders or an add/remove with >= 2 nodes staying)",
    assumptions=["node labels are unique within one RendezvousHash (the ring feeds a set; ca_store distinct volumes)",
                 "keys are even-length hex strings (ShardID, %02X sub-directory names, digests); for other keys Score is NaN and no order is defined",
                 "weights are >= 1 (weight 0 scores 0 for every key, i.e. all such nodes tie)",
                 "the oracle ranking is an independent re-implementation of murmur3-x64-128/53-bit/-w/ln(u) (harness/internal/hrwref); "
                 "ties between distinct nodes did not occur (engine_stats.ties) - the specification allows any order among equal scores "
                 "but the Perms record still demands identical replies from every insertion order"],
)
