import os, sys
sys.path.insert(0, os.path.dirname(os.path.abspath(__file__)))
from _util import *


def _nontrivial(recs):
    """a swarm in which the antecedent holds: a seeder served, at least two agents stayed and finished through
    verified piece writes (End present+ok), i.e. pieces really travelled between real schedulers"""
    ends = [r for r in recs if r.get("ev") == "End" and r.get("present")]
    return len(ends) >= 2 and sum(1 for r in recs if r.get("ev") == "WEnd" and r.get("res") == "ok") >= 2 \
        and any(r.get("ev") == "Serve" and r.get("p") == "s1" for r in recs)


PROP = dict(
    specdir="p2p", engine="c19",
    # quick: ONE exhaustive run of the small instance under FairSpec (safety invariants + action property + liveness);
    # thorough adds the same instance with -coverage (vacuity), bigger safety instances and more liveness instances
    mc=[dict(module="SwarmMC", cfg="MC_Swarm_live.cfg", coverage=False),
        dict(module="SwarmMC", cfg="MC_Swarm.cfg", tiers=("thorough",)),
        dict(module="SwarmMC", cfg="MC_Swarm_thorough.cfg", tiers=("thorough",), timeout=1500),
        dict(module="SwarmMC", cfg="MC_Swarm_conn2.cfg", tiers=("thorough",), coverage=False, timeout=1500),
        dict(module="SwarmMC", cfg="MC_Swarm_live_thorough.cfg", tiers=("thorough",), coverage=False, timeout=1500),
        dict(module="SwarmMC", cfg="MC_Swarm_live_nox.cfg", tiers=("thorough",), coverage=False, timeout=1500)],
    trace=dict(module="SwarmTrace", cfg="SwarmTrace.cfg"),
    engine_timeout={"quick": 400, "thorough": 1200},
    replay_attempts=3,
    nontrivial=_nontrivial,
    rule="one trace = one REAL in-process swarm over localhost TCP: 2-5 leeching agent schedulers (real clock, real event loop, real "
         "announce client against trackerserver.Fixture) + 1 seeder pre-populated through its torrent archive (in a quarter of the swarms an ORIGIN seeder instead: originstorage "
         "over a CAStore, not announcing, handed out by the tracker's origin store under the completeness policy), random blob 0-64 KiB, "
         "piece length 1-16 KiB, MaxOpenConnectionsPerTorrent 1-4 per peer, pipeline limit 1-3, random join order and delays; every "
         "third swarm has a CORRUPTING peer (scheduler whose TorrentArchive is decorated to report the torrent complete and to serve "
         "a random non-empty set of pieces with a flipped byte), every third an agent that is stopped mid-transfer, every sixth both; "
         "recorded with a global ticket: the networkevent stream of every peer, every storage WritePiece (start/end, payload compared "
         "with the true piece in Go) and GetPieceReader, Download call/return, final End oracle per agent (Download result, cache file "
         "equals blob); non-trivial = at least two agents stayed and finished, pieces were written after verification and the seeder served",
    assumptions=["liveness on the real code is OBSERVED within a time bound (every Download of a present agent returned within 120 s), "
                 "not proved; a swarm that does not finish in time makes the check inconclusive (exit 2), never a violation",
                 "design-level liveness (TLC, Converges under FairSpec) assumes weak fairness of protocol steps and strong fairness of "
                 "Open(agent, seeder) (= the seeder stays reachable); with a corrupting peer it is proved for agents limited to ONE "
                 "connection: with two connections TLC exhibits a fair cycle in which, in endgame, the good payload loses the write "
                 "race against the wrong payload of the same piece forever (write conflict is treated as an invalid payload) - the "
                 "real code leaves that cycle only by timing",
                 "request_piece / blacklist records are produced after their effect and are therefore only type-checked on traces "
                 "(pipeline limits and connection bookkeeping of one scheduler are C15 / C16); the requester of a served piece and the "
                 "sender of a written payload are matched by piece index and good/bad flag",
                 "announce: a complete peer (seeder, corrupter) is registered with the tracker by the harness right after its Download "
                 "returned (the same announce its own ticker would send 5 s later); ConnTTI 1 s, blacklist 1.5 s, preemption tick "
                 "250 ms, tracker announce interval 250 ms"],
    level_note="Liveness on the real code is observed within a time bound (120 s per swarm), not proved; design-level liveness is proved "
               "by TLC on the Swarm model under the stated fairness assumptions. Trusted: TLC/SANY + CommunityModules Json, the Go "
               "driver, its decorating TorrentArchive/Torrent (oracle 'payload equals true piece' computed with bytes.Equal) and the "
               "global-ticket ordering of records taken at the storage and networkevent.Producer boundaries.",
)
