import os, sys
sys.path.insert(0, os.path.dirname(os.path.abspath(__file__)))
from _util import *

PROP = dict(
    specdir="p2p", engine="c19",
    mc=[dict(module="SwarmMC", cfg="MC_Swarm.cfg"),
        dict(module="SwarmMC", cfg="MC_Swarm_live.cfg", coverage=False)],
    trace=dict(module="SwarmTrace", cfg="SwarmTrace.cfg"),
    nontrivial=lambda recs: has(recs, "End") and any(r.get("ev") == "WEnd" and r.get("res") == "ok" for r in recs),
    rule="x",
    assumptions=[],
)
