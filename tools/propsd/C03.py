import os, sys
sys.path.insert(0, os.path.dirname(os.path.abspath(__file__)))
from _util import *

PROP = dict(
    specdir="agent", engine="c03",
    mc=[dict(module="AgentTorrent", cfg="MC_AgentTorrent.cfg")],
    trace=dict(module="AgentTorrentTrace", cfg="AgentTorrentTrace.cfg"),
    nontrivial=lambda recs: any(r.get("ev") == "Start" and r.get("res") in ("conflict", "piececomplete") for r in recs)
                            and any(r.get("ev") == "Finish" and r.get("res") == "error" for r in recs),
    rule="seeded interleavings of up to three writer goroutines on one real agentstorage.Torrent (3 pieces, last one short); payloads "
         "good / corrupted / short / long / out-of-range index, pieces repeated; each writer is held inside a gated PieceReader (after "
         "tryMarkDirty, before the first byte is written) until the driver releases it; Bitfield, Complete, BytesDownloaded after every "
         "step and the cache file at the end; non-trivial = a concurrent-writer conflict or repeat and a rejected corrupt piece",
    assumptions=["writers are held only at the PieceReader boundary; the steps after it (write, checksum, status byte, count, move) run "
                 "uninterrupted per writer on the real code (the design model checks the same grain)"],
)
