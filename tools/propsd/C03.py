import os, sys
sys.path.insert(0, os.path.dirname(os.path.abspath(__file__)))
from _util import *

PROP = dict(
    specdir="agent", engine="c03",
    mc=[dict(module="AgentTorrent", cfg="MC_AgentTorrent.cfg")],
    trace=dict(module="AgentTorrentTrace", cfg="AgentTorrentTrace.cfg"),
    nontrivial=lambda recs: any(r.get("ev") == "Check" and r.get("res") in ("conflict", "piececomplete") for r in recs)
                            and any(r.get("ev") == "TryDirty" and r.get("res") in ("conflict", "piececomplete") for r in recs)
                            and any(r.get("ev") == "Write" and r.get("res") == "error" for r in recs),
    rule="seeded interleavings of up to three writer goroutines on one real agentstorage.Torrent (3 pieces, last one short); payloads "
         "good / corrupted / short / long / out-of-range index, pieces repeated, one hot piece; each writer is held at three gates (verif "
         "hook before tryMarkDirty, gated PieceReader before the first byte is written, verif hook after the piece was counted complete) "
         "until the driver releases it; Bitfield, Complete, BytesDownloaded after every "
         "step and the cache file at the end; non-trivial = a conflict or repeat seen by the quick check, one seen only by tryMarkDirty (a writer that lost the race), and a "
         "rejected corrupt piece",
    assumptions=["writers are held at the three gates only; the steps between two gates (e.g. write, checksum, status byte, markComplete, "
                 "count) run uninterrupted per writer on the real code (the design model checks the same grain)"],
)
