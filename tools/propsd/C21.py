import os, sys
sys.path.insert(0, os.path.dirname(os.path.abspath(__file__)))
from _util import *


def _nontrivial(recs):
    # antecedents of the statement: >= 2 processes answered for a membership of >= 2 hosts, and some case
    # has both healthy and unhealthy members along the ranking (so filtering / fallback actually decided something)
    locs = [r for r in recs if r.get("ev") == "Loc" and len(r.get("rank", [])) >= 2]
    procs = {r.get("p") for r in locs}
    mixed = any("0" in r.get("case", "").split("|")[0] and "1" in r.get("case", "").split("|")[0] for r in locs)
    return len(procs) >= 2 and mixed


PROP = dict(
    specdir="ring", engine="c21",
    mc=[dict(module="HashRing", cfg="MC_HashRing.cfg", tiers=("quick",)),
        dict(module="HashRing", cfg="MC_HashRing_thorough.cfg", tiers=("thorough",), timeout=2400),
        dict(module="HashRing", cfg="MC_HashRing_5hosts.cfg", tiers=("thorough",), timeout=2400)],
    trace=dict(module="HashRingTrace", cfg="HashRingTrace.cfg", timeout=1200),
    chunk_lines=4000,
    nontrivial=_nontrivial,
    technique="specification as executable definition + exhaustive case generator (DESIGN 5): TLC proves the statement of "
              "C21 for the modelled scan over all rankings x health subsets x MaxReplica; every reply of the real ring for "
              "all 65536 shard ids is evaluated with the same definitions",
    rule="one trace = one universe of 1-7 hosts, one MaxReplica (0=default,1..5) and 2-3 real rings led to the same membership "
         "along different discovery histories (direct construction, refresh from another membership, Monitor, NewPassive); "
         "after every step Locations is called on every ring for all 65536 shard ids and logged as de-duplicated abstract "
         "cases (health bits along the independently computed ranking, returned positions) with counts; non-trivial = "
         ">= 2 processes answered over >= 2 hosts and some case mixes healthy and unhealthy members",
    assumptions=["hostlist.List never resolves to the empty set and healthcheck.Filter returns a subset of its argument (documented contracts)",
                 "the ranking oracle is an independent re-implementation of lib/hrw's score with weight 100 (harness/internal/hrwref)",
                 "discovery order inside one rebuild is Go's randomised map iteration (not seed-controlled); every sweep therefore "
                 "also compares against a ranking that does not depend on any order",
                 "MaxReplica >= 0 (negative values are not exercised)"],
)
