import os, sys
sys.path.insert(0, os.path.dirname(os.path.abspath(__file__)))
from _util import *

PROP = dict(
    specdir="origin", engine="c05",
    mc=[dict(module="OriginCrash", cfg="MC_OriginCrash.cfg")],
    trace=dict(module="OriginCrashTrace", cfg="OriginCrashTrace.cfg"),
    nontrivial=lambda recs: 0 < recs[0]["cfg"]["prefix"] < recs[0]["cfg"]["nops"] and recs[0]["cfg"]["inflight"] != "none",
    rule="origin write paths (upload+commit, backend refresh with metainfo, persist flag, metainfo generation, metainfo overwrite with "
         "another piece length; 3 blobs incl. an empty one) run once in a child process under strace; EVERY prefix of the recorded "
         "file-system operations is materialized, the real store reopened (NewCAStore) and probed: listing, bytes vs digest, metainfo "
         "absent/valid, regeneration, re-writing every blob; non-trivial = crash strictly inside a call",
    assumptions=["process-crash model: completed system calls persist, a write syscall is atomic",
                 "a listed name without a data file (directory left by a crashed move) is not a served blob (Reading in spec/origin/OriginCrash.tla)",
                 "metainfo is probed at the store level (GetCacheFileMetadata / metainfogen.Generate), not through the origin HTTP handler"],
    level_text="TLC model-checks the FS-level OriginCrash model (every file-system step of commit / persist / metainfo write / overwrite, crash "
               "anywhere, restart) and validates, for every crash point of every recorded real scenario, what the real reopened CAStore reported.",
)
