import os, sys
sys.path.insert(0, os.path.dirname(os.path.abspath(__file__)))
from _util import *


def _kind(recs):
    return (recs[0].get("cfg") or {}).get("kind")


def _nontrivial(recs):
    k = _kind(recs)
    if k == "mem":      # a reservation was refused for lack of budget AND a duplicate Add left its reservation outstanding
        return any(r.get("ev") == "Reserve" and r.get("res") is False for r in recs) and \
               any(r.get("ev") == "Add" and r.get("res") is False for r in recs)
    if k == "conc":     # at least two calls were really in flight at the same time
        open_, overlap = set(), False
        for r in recs:
            if r.get("ev") == "call":
                open_.add(r["g"]); overlap = overlap or len(open_) > 1
            elif r.get("ev") == "ret":
                open_.discard(r["g"])
        return overlap
    if k == "wt":       # one write stayed in memory, one admitted write was abandoned (failure/duplicate/bad name), one drain emptied an entry
        w = [r for r in recs if r.get("ev") == "WriteThrough"]
        return any(r["added"] for r in w) and any((not r["added"]) and r["calls"] == 2 for r in w) and has(recs, "Drain")
    if k == "lru":      # a key was dropped (size or expiry) and some Has answered false for a key added before
        sizes = [r["size"] for r in recs if r.get("ev") == "LAdd"]
        return len(sizes) >= 3 and any(r.get("ev") == "LHas" and r.get("res") is False for r in recs)
    return False


PROP = dict(
    specdir="cache", engine="c13",
    mc=[dict(module="MemCache", cfg="MC_MemCache.cfg", tiers=("quick",)),
        dict(module="MemCacheWT", cfg="MC_MemCacheWT.cfg", tiers=("quick",)),
        dict(module="KeyLRU", cfg="MC_KeyLRU.cfg", tiers=("quick",)),
        dict(module="MemCache", cfg="MC_MemCache_thorough.cfg", tiers=("thorough",), timeout=1800),
        dict(module="MemCacheWT", cfg="MC_MemCacheWT_thorough.cfg", tiers=("thorough",), timeout=1800),
        dict(module="KeyLRU", cfg="MC_KeyLRU_thorough.cfg", tiers=("thorough",), timeout=1800)],
    trace=dict(module="MemCacheTrace", cfg="MemCacheTrace.cfg", deque=True),
    chunk_lines=6000, max_rejections=4,
    nontrivial=_nontrivial,
    min_nontrivial=20,
    rule="four kinds of seeded traces on the real code: 'mem' sequential BlobMemoryCache histories (30-70 calls, 4 names, "
         "budgets 6/12/20 bytes, every reply and TotalBytes/NumEntries logged); 'conc' 2-3 goroutines on one BlobMemoryCache "
         "with call/return records linearized by the trace spec; 'wt' CAStore.WriteBlobToCacheWithMetaInfo histories (good, "
         "failing-first, failing-twice, duplicate, foreign-bytes, malformed-name, size-mismatched writes; drain and TTL sweep "
         "ticks; TotalBytes/NumEntries/ListNames logged after every step and after full drain); 'lru' LRUCache histories with "
         "measured call intervals (TTL 1h, and TTL 300ms with sleeps of 130-650ms). distinct = distinct event sequences; "
         "non-trivial = per kind: refused reservation + duplicate Add / really overlapping calls / kept + abandoned write + "
         "drain / eviction observed through Has",
    assumptions=[
        "BlobMemoryCache.Add/ReleaseReservation are driven only for a size currently reserved (documented caller contract)",
        "drain and TTL-sweep worker bodies (drainNext, cleanupMemoryCacheExpiredEntries) are invoked synchronously through an "
        "export-only overlay shim; the ticker loops around them are not exercised (the mock clock stays below the first tick)",
        "LRUCache reads time.Now(): every call is logged with a measured interval [t0,t1] (ms) and the specification allows both "
        "answers only when the expiry instant falls inside that interval, so the check does not depend on machine load",
    ],
)
