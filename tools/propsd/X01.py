import os, sys
sys.path.insert(0, os.path.dirname(os.path.abspath(__file__)))
from _util import *


def _nontrivial(recs):
    # the antecedents of the guarantees: a commit reached the upload, or a blob was fetched through a dependency,
    # and some other caller / the environment took a step while a call was parked at a dependency
    parked, inter = set(), False
    reached = False
    for r in recs:
        ev = r.get("ev")
        if ev in ("call", "dep"):
            if any(g != r.get("g") for g in parked) or (ev == "call" and parked):
                inter = True
            if r.get("fin") is True:
                parked.discard(r.get("g"))
            else:
                parked.add(r.get("g"))
            if r.get("gate") in ("oup", "ver") or (ev == "dep" and r.get("dep") in ("odl", "sdl", "oup") and r.get("out") == "ok"):
                reached = True
        elif ev == "ret":
            parked.discard(r.get("g"))
        elif ev == "env" and parked:
            inter = True
    return reached and inter


PROP = dict(
    specdir="registry", engine="x01",
    mc=[dict(module="RegistryDriverMC", cfg="MC_RegistryDriver.cfg", tiers=("quick",)),
        dict(module="RegistryDriverMC", cfg="MC_RegistryDriver_uploads_thorough.cfg", tiers=("thorough",), timeout=1500,
             allow_dead=("DepTagGet", "DepTagPut", "DepTagList", "DepOriginDownload", "DepSchedDownload", "DepVerify",
                         "CallManifestPath", "CallBadPath")),
        dict(module="RegistryDriverMC", cfg="MC_RegistryDriver_reads_thorough.cfg", tiers=("thorough",), timeout=1500,
             allow_dead=("DepSchedDownload", "CallUploadPath", "CallWriterHandle")),
        dict(module="RegistryDriverMC", cfg="MC_RegistryDriver_ro_thorough.cfg", tiers=("thorough",), timeout=1500,
             allow_dead=("DepTagPut", "DepTagList", "DepOriginStat", "DepOriginDownload", "DepOriginUpload", "CallWriterHandle")),
        dict(module="RegistryDriverMC", cfg="MC_RegistryDriver_live.cfg", tiers=("thorough",), timeout=1500, coverage=False)],
    trace=dict(module="RegistryDriverTrace", cfg="RegistryDriverTrace.cfg", timeout=900),
    trace_alt={"conc": dict(module="RegistryDriverConc", cfg="RegistryDriverConc.cfg", timeout=900, deque=True, chunk_lines=3000)},
    chunk_lines=6000,
    max_rejections=6,
    isolate=lambda head: (head.get("cfg") or {}).get("family", "bulk") != "bulk",
    engine_timeout={"quick": 600, "thorough": 1500},
    nontrivial=_nontrivial,
    min_nontrivial=20,
    level_text="extension module (beyond the 39 listed properties)",
    technique="implementation-shaped specification at dependency-call grain (one action per segment of a driver call between two "
              "dependency calls) + gated real execution: the harness fakes of origin client, tag client, scheduler and verification "
              "hook park the calling goroutine, one goroutine runs at a time, so the recorded log IS the interleaving and every "
              "record is one specification action (no silent steps)",
    rule="one trace = one seeded history of 30-80 segments on a fresh real KrakenStorageDriver: 2 of 3 traces on a real CAStore with the "
         "real ReadWriteTransferer (proxy), 1 of 3 on a real CADownloadStore with the real ReadOnlyTransferer (agent); 2-3 caller "
         "goroutines issue docker-registry flows (upload: startedat, Writer, Write, hash states, Commit, resumed Writer, Move; manifest "
         "put + tag; pull by tag / digest) mixed with random (operation x path kind) calls incl. invalid ones, negative offsets, "
         "wrong digests, contexts without repository; every dependency call parks and returns, in a seeded order, ok / not found / "
         "error / corrupt bytes / partial torrent; the cache evicts blobs at random; every record carries the reply and the projection "
         "(visible blobs re-hashed, partial downloads, upload sizes); two small dedicated families (cfg.family upfail / ronf) "
         "hold the inputs of the recorded findings X01-2 / X01-1; every 4th trace is FREE-RUNNING (family conc, trace spec RegistryDriverConc): "
         "nothing parks, 2-3 goroutines really run concurrently (each owns one upload and one handle; digests, tags, cache shared), "
         "call / dep / ret records, a silent Lin(g) step places every segment between its surrounding records and a final record "
         "binds the projection (linearizability at segment grain); distinct = distinct event sequences; non-trivial = a commit reached "
         "the upload or a blob was fetched through a dependency AND another caller or the environment stepped while a call was parked",
    assumptions=["caller discipline of docker's registry: a file writer is closed (Commit/Cancel/Close) before its upload is moved; "
                 "handle ids are fresh",
                 "the origin cluster and the torrent network never lose a blob during a trace; fakes answer honestly about what they hold "
                 "(plus injected faults)",
                 "store-internal races (CAStore / CADownloadStore locking, eviction policies) are specified by spec/store/* and are "
                 "atomic here; path parsing is specified by spec/registry/RegistryPaths.tla",
                 "bulk traces never fail an origin upload and never let the scheduler answer 'torrent not found' (the two recorded "
                 "findings live in the dedicated families, so that a different violation is still reported)"],
)
