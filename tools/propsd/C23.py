import os, sys
sys.path.insert(0, os.path.dirname(os.path.abspath(__file__)))
from _util import *


def _nontrivial(recs):
    """the history reaches a state where the hysteresis antecedent holds: some host that was reported healthy
    is later missing from a reply of a >=2-host list it belongs to (went unhealthy), or comes back (recovered)"""
    prev_missing = set()
    went, back = False, False
    for r in recs:
        if r.get("ev") not in ("Run", "MonTick") or len(r.get("addrs", [])) < 2:
            continue
        missing = set(r["addrs"]) - set(r["res"])
        if missing - prev_missing:
            went = True
        if (prev_missing & set(r["addrs"])) - missing:
            back = True
        prev_missing = missing
    return went or back


PROP = dict(
    specdir="health", engine="c23",
    mc=[dict(module="ActiveHealth", cfg="MC_ActiveHealth.cfg", tiers=("quick",)),
        dict(module="ActiveHealth", cfg="MC_ActiveHealth_members.cfg", tiers=("quick",)),
        dict(module="ActiveHealth", cfg="MC_ActiveHealth_thorough.cfg", tiers=("thorough",), timeout=2400),
        dict(module="ActiveHealth", cfg="MC_ActiveHealth_members_thorough.cfg", tiers=("thorough",), timeout=2400)],
    trace=dict(module="ActiveHealthTrace", cfg="ActiveHealthTrace.cfg"),
    nontrivial=_nontrivial,
    min_nontrivial=20,
    chunk_lines=2800,
    max_rejections=8,
    rule="histories of Filter.Run on a real healthcheck.Filter with a scripted Checker: (A) EVERY outcome sequence of "
         "length L for the list {h1,h2} x every Fails,Passes in 1..3, (B) EVERY sequence of (list over 3 hosts, outcomes) "
         "of length LB without re-appearing hosts, (C) seeded random histories over 4 hosts with changing lists, (M) the "
         "same through a real Monitor with a gated hostlist, (H) checks that hang until Timeout, (D) dedicated "
         "re-appearance scenarios; distinct = distinct event sequences; non-trivial = some host of a >=2-host list went "
         "unhealthy or recovered",
    assumptions=["general histories (families A,B,C,M,H) never re-add a host that left; re-appearance is exercised only by the "
                 "dedicated family D (few traces while known finding F23 is present, many once the tree lets re-appearing hosts "
                 "start healthy - decided by an input-selection probe, never a verdict)",
                 "Monitor is observed at iteration boundaries (its next hosts.Resolve call), Interval=1ms",
                 "hang outcomes use FilterConfig.Timeout=250ms; all other traces 10s (scripted checks return immediately)"],
)
