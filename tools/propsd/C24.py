import os, sys
sys.path.insert(0, os.path.dirname(os.path.abspath(__file__)))
from _util import *


def _nontrivial(recs):
    """the window rule fired: some Run omitted a host of its argument (filtered) and a later Run over the same
    host returned it again (the mark expired)"""
    out, back = set(), False
    for r in recs:
        if r.get("ev") != "Run":
            continue
        miss = set(r["addrs"]) - set(r["res"])
        if out & set(r["res"]):
            back = True
        out = (out - set(r["res"])) | miss
    return back


PROP = dict(
    specdir="health", engine="c24",
    mc=[dict(module="PassiveHealth", cfg="MC_PassiveHealth.cfg", tiers=("quick",)),
        dict(module="PassiveHealth", cfg="MC_PassiveHealth_thorough.cfg", tiers=("thorough",), timeout=2400)],
    trace=dict(module="PassiveHealthTrace", cfg="PassiveHealthTrace.cfg"),
    nontrivial=_nontrivial,
    min_nontrivial=20,
    chunk_lines=3500,
    max_rejections=4,
    rule="histories on a real PassiveFilter + Passive with clock.Mock: (A) EVERY timeline of 0..2 failures per time point "
         "over T time points x every Fails in 1..3 x FailTimeout in 1..3 ticks (a second host runs the mirrored timeline), "
         "Run and Resolve observed after every time point; (A2, thorough) every 0/1 timeline over 8 time points; (B) seeded "
         "random histories of Failed/Tick/Run/Resolve/SetList over 3 hosts; distinct = distinct event sequences; "
         "non-trivial = a host was filtered out and later returned again",
    assumptions=["'within FailTimeout of some failure' is read as the FailTimeout period ending at that failure (see PassiveHealth.tla)",
                 "clock.Mock only moves forward; one tick = 1 minute, FailTimeout = 1..3 ticks, bounds inclusive"],
)
