import os, sys
sys.path.insert(0, os.path.dirname(os.path.abspath(__file__)))
from _util import *


def _replaced_delete(recs):
    """a DeleteActive(c) was issued while another conn object of c's slot was the active one (and stayed)"""
    for r in recs:
        if r.get("ev") == "DeleteActive":
            c = r["c"]
            if any(a[0] == c[0] and a[1] == c[1] and a[2] != c[2] for a in r["active"]):
                return True
    return False


def _nontrivial(recs):
    refused = any(r.get("ev") == "AddPending" and r.get("res") in ("capacity", "mutual") for r in recs)
    activated = any(r.get("ev") == "MoveToActive" and r.get("res") == "ok" for r in recs)
    blk = any(r.get("blk") for r in recs)
    return refused and activated and (blk or _replaced_delete(recs))


PROP = dict(
    specdir="p2p", engine="c16",
    mc=[dict(module="ConnState", cfg="MC_ConnState.cfg"),
        dict(module="ConnState", cfg="MC_ConnState_thorough.cfg", tiers=("thorough",), timeout=1500)],
    trace=dict(module="ConnStateTrace", cfg="ConnStateTrace.cfg"),
    nontrivial=_nontrivial, chunk_lines=2500, max_rejections=8,
    rule="seeded random histories (30-70 calls + one AddPending per slot at the end) on a real connstate.State with a clock.Mock: "
         "AddPending with random neighbour lists, DeletePending, MovePendingToActive / DeleteActive with up to 3 real *conn.Conn "
         "objects per (torrent, peer) slot (old objects are kept and re-used, so replaced connections occur), closing conns, "
         "Blacklist, ClearBlacklist, clock steps of 1..duration+1; 2 torrents x 4 peers, max conns 1-4, max mutual 1-2, "
         "blacklist duration 1-3, blacklist disabled in 10% of the traces; in every third trace the State is the one owned by a "
         "real, unstarted scheduler state (export shim) and real announceResultEvent / failedOutgoingHandshakeEvent are applied "
         "to it, each announce followed by an AddPending probe of every announced peer; every call logged with its reply class and, after the "
         "call, ActiveConns, Blacklisted for every slot, Saturated for every torrent and BlacklistSnapshot; non-trivial = an "
         "AddPending was refused for capacity or mutual connections, a conn became active, and a slot was blacklisted or an older "
         "conn object of a re-used slot was deleted",
    assumptions=["*conn.Conn objects for a chosen peer id are built through an export-only overlay shim "
                 "(harness/overlay/lib/torrent/scheduler/conn/verif_shim_c16.go -> Handshaker.newConn on a net.Pipe); "
                 "conn.PipeFixture only yields random peer ids",
                 "the clause 'blacklisted peers are not dialled' is checked on the real announceResultEvent.apply, applied "
                 "synchronously to an unstarted scheduler's state through an export-only shim "
                 "(harness/overlay/lib/torrent/scheduler/verif_shim_c16.go); 'dialled' is observed as the slot being pending "
                 "afterwards (the outgoing handshake itself dials a closed local port and its result is not consumed); the "
                 "scheduler's goroutines (event loop, announcer, listener) are not running",
                 "State is not thread-safe by contract; calls are issued sequentially"],
)
