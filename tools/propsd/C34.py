import os, sys
sys.path.insert(0, os.path.dirname(os.path.abspath(__file__)))
from _util import *


def _nontrivial(recs):
    # the property's antecedent: the helper retried at least once, and the request had a non-empty body or the
    # retry followed a transport error
    att = [r for r in recs if r.get("ev") == "Attempt"]
    send = [r for r in recs if r.get("ev") == "Send"]
    return len(att) >= 2 and bool(send) and (send[0].get("len", 0) > 0 or any(a.get("got") == 0 for a in att[:-1]))


PROP = dict(
    specdir="http", engine="c34",
    mc=[dict(module="HttpRetry", cfg="MC_HttpRetry.cfg", tiers=("quick",)),
        dict(module="HttpRetry", cfg="MC_HttpRetry_thorough.cfg", tiers=("thorough",))],
    trace=dict(module="HttpRetryTrace", cfg="HttpRetryTrace.cfg"),
    nontrivial=_nontrivial,
    min_nontrivial=20,
    rule="one trace = one real httputil.Send call against an httptest server that records method/URL/headers/full body of "
         "every arrival and answers from a scripted list (status codes, 0 = read request then drop connection, -1 = refuse "
         "the dial); ALL scripts over {net, refuse, 200, 204, 404, 503} up to length 3 (quick) / 4 (thorough) x 2 / 4 seeded "
         "configurations (accepted codes, extra retry codes, budget 0-3 incl. library defaults, method, URL, headers, body "
         "kind nil/*bytes.Reader/*bytes.Buffer/*strings.Reader/*os.File/custom io.ReadSeeker/plain io.Reader, sizes "
         "0/1/64KiB, seekable bodies handed over at offset 0 or at a non-zero offset -- the original body is then the bytes "
         "from that offset to the end --, error responses with/without body); one Attempt event per loop iteration logged by a harness RoundTripper around a real "
         "http.Transport; non-trivial = at least one retry with a non-empty body or after a transport error",
    assumptions=["accepted codes and extra retry codes are disjoint (Reading in DESIGN C34)",
                 "a request whose body is a plain io.Reader (no GetBody, not seekable) may be given up on instead of retried",
                 "the reset cfg carries the F34 input class of each trace (f34 = none / unsized / sized_newconn); since F34 was "
                 "repaired the bulk includes those classes (retries with every body kind)"],
)
