import os, sys
sys.path.insert(0, os.path.dirname(os.path.abspath(__file__)))
from _util import *

PROP = dict(
    specdir="store", engine="c01",
    mc=[dict(module="CAStore", cfg="MC_CAStore.cfg")],
    trace=dict(module="CAStoreTrace", cfg="CAStoreTrace.cfg", deque=True),
    isolate=lambda head: bool((head.get("cfg") or {}).get("latewrite")),
    nontrivial=lambda recs: any(r.get("ev") in ("Refresh", "Upload", "Transfer") and r.get("kind") != "exact" for r in recs)
                            and any(r.get("ev") == "Refresh" and r.get("kind") == "exact" for r in recs),
    rule="seeded histories on a real CAStore with a mock clock (uploads, internal transfers, backend refreshes with exact / bit-flipped / "
         "truncated / extended / aborted streams; memory write-through off / on with capacities {0, one blob, 200, 1MiB}; reported size "
         "equal / smaller / larger; drain stepped by the driver); after every call bytes, stat size and metainfo readable under each of 3 "
         "digests are compared with the true blob; two dedicated histories keep an upload writer open across the commit and write through "
         "it afterwards (F01b); non-trivial = at least one mismatching write and one matching refresh",
    assumptions=["sha256 / metainfo validity are computed with the Go standard library and core.NewMetaInfoFromBytes and enter the trace as classes",
                 "memory TTL expiry is model-checked but not driven on the real store"],
)
