import os, sys
sys.path.insert(0, os.path.dirname(os.path.abspath(__file__)))
from _util import *


def _nontrivial(recs):
    # antecedent of C28: announced peers were read back (a lookup returned at least two peers), and
    # either time passed (window expiry is exercised) or the history is the codec enumeration
    if any(r.get("ev") == "Codec" for r in recs):
        return has(recs, "Codec", 10)
    return any(r.get("ev") == "Get" and len(r.get("ids", [])) >= 2 for r in recs) and has(recs, "Tick")


PROP = dict(
    specdir="tracker", engine="c28",
    mc=[dict(module="RedisPeers", cfg="MC_RedisPeers.cfg"),
        dict(module="RedisPeers", cfg="MC_RedisPeers_codec.cfg"),
        dict(module="RedisPeers", cfg="MC_RedisPeers_codec8.cfg", tiers=("thorough",))],
    trace=dict(module="RedisPeersTrace", cfg="RedisPeersTrace.cfg"),
    chunk_lines=2500, max_rejections=10,
    nontrivial=_nontrivial,
    min_nontrivial=10,
    rule="seeded histories of 25-55 UpdatePeer/GetPeers/clock-advance calls on a real RedisStore (mock clock) against an "
         "in-process Redis (miniredis, time kept in step): 5 peer ids, 2 torrents, IPv4 / host-name addresses and "
         "IPv6 full/compressed/zoned/v4-mapped addresses in every history, 4 ports, both completion flags, window "
         "sizes 2/3/10 x 1..3 windows, n in {-1,0,1,2,3,50}; plus serializePeer->deserializePeer alone over host names and "
         "over every address of 1..8 tokens (0..7 colons); non-trivial = a lookup returned >= 2 peers and time passed "
         "(or the codec enumeration)",
    assumptions=["Redis is miniredis v2.5.0 (SADD, EXPIREAT, SRANDMEMBER count); its clock is driven by the harness",
                 "F28 (IPv6 peers dropped) was repaired in /repo 3bed7ac; every store history announces IPv6 addresses",
                 "the member codec is reached through an export-only overlay shim"],
)
