import os, sys
sys.path.insert(0, os.path.dirname(os.path.abspath(__file__)))
from _util import *


def _gone(recs, ev):
    """events of type ev after which a file that was on disk before is gone"""
    prev, out = None, []
    for r in recs:
        if "disk" in r:
            if prev is not None and r.get("ev") == ev and any(prev[f] and not r["disk"][f] for f in prev):
                out.append((r, prev))
            prev = r["disk"]
    return out


def _nontrivial(recs):
    k = (recs[0].get("cfg") or {}).get("kind")
    persisted_alive = any(r.get("per") and any(r["per"][f] == "true" and r["disk"][f] for f in r["per"]) for r in recs)
    if k == "fmap":     # an LRU eviction deleted a file, and a delete request hit a file awaiting write-back
        return bool(_gone(recs, "Create") or _gone(recs, "Stat") or _gone(recs, "Read")) and \
               any(r.get("ev") == "Delete" and r.get("res") == "persisted" for r in recs)
    if k == "clean":    # a pass removed something while a file awaiting write-back was present
        return persisted_alive and bool(_gone(recs, "TTLPass") or _gone(recs, "PolicyPass") or _gone(recs, "Cleanup"))
    if k == "force":    # the forced cleanup deleted something, met a persisted blob, and some blob had >= 2 pending write-back tasks
        return persisted_alive and any(r.get("ev") == "ForcePass" and r.get("deleted") for r in recs) and \
               any(r.get("ev") == "SetTask" and len(r.get("ts", [])) >= 2 for r in recs)
    return False


PROP = dict(
    specdir="store", engine="c10",
    mc=[dict(module="FileMap", cfg="MC_FileMap.cfg", tiers=("quick",)),
        dict(module="FileMap", cfg="MC_FileMap_thorough.cfg", tiers=("thorough",), timeout=2400),
        dict(module="Cleanup", cfg="MC_Cleanup.cfg", tiers=("quick",)),
        dict(module="Cleanup", cfg="MC_Cleanup_thorough.cfg", tiers=("thorough",), timeout=2400)],
    trace=dict(module="CleanupTrace", cfg="CleanupTrace.cfg"),
    chunk_lines=4000, max_rejections=4,
    nontrivial=_nontrivial,
    min_nontrivial=20,
    rule="seeded histories on the real code: 'fmap' 25-55 FileOp calls over 5 names on base.NewLRUFileStore(cap 1-3) "
         "(create/stat/read/persist flag/LAT/delete/clock); 'clean' the same on cap 0 or 2-4 interleaved with "
         "ttlBasedCleanup (normal and with lower threshold), customPolicyBasedCleanup(cachedInAgentPolicy), shouldAggro "
         "(fake disk-usage probe) and cleanupManager.cleanup (real probe), file ages set with os.Chtimes and the LAT "
         "metadata API at the boundaries of TTI/TTL/1s/45min; 'force' POST /forcecleanup on a real origin Server + CAStore "
         "with a scripted write-back manager (0..3 pending tasks per blob, every ok/fail pattern, outcomes independent). After every call the complete on-disk state and the map order are logged. "
         "non-trivial = an eviction/pass really removed a file while a file awaiting write-back existed (fmap: plus a "
         "Delete answered ErrFilePersisted)",
    assumptions=[
        "cleanupManager passes and the LRU map order are reached through export-only overlay shims (lib/store, lib/store/base)",
        "cleanupManager.cleanup hard-codes the real disk-usage probe: its dispatch is exercised with thresholds far from the "
        "real utilisation (1 / 100 / off); threshold arithmetic is exercised on ttlBasedCleanup/customPolicyBasedCleanup directly",
        "FileOp.MoveFile/LinkFileTo (multi-state moves) are not part of the model; single acceptable state",
        "the write-back manager of the origin is a scripted persistedretry.Manager (Find/SyncExec outcomes chosen by the harness)",
        "fake disk usage is consistent (used >= total size of the scanned files), so the unsigned wrap in ttlBasedCleanup is not reached",
    ],
)
