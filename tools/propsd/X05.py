import os, sys
sys.path.insert(0, os.path.dirname(os.path.abspath(__file__)))
from _util import *


def _kind(head):
    return (head.get("cfg") or {}).get("kind", "")


def _nontrivial(recs):
    # agent trace: a request went through the scheduler AND a body was served; proxy trace: at least one layer of an
    # image was handed to the origin cluster (GetMetaInfo / discarded download / PrefetchBlob)
    if (recs[0].get("cfg") or {}).get("tracespec") == "proxy":
        return any(r.get("ev") in ("CMeta", "CPrefetch") or (r.get("ev") == "CDownload" and r.get("dst") == "discard")
                   for r in recs)
    return has(recs, "SchedRet") and has(recs, "Serving")


PROP = dict(
    specdir="frontdoor", engine="x05",
    mc=[dict(module="AgentServer", cfg="MC_AgentServer_dl_q.cfg", tiers=("quick",)),
        dict(module="AgentServer", cfg="MC_AgentServer_dl.cfg", tiers=("thorough",),
             allow_dead=("Tick", "CfgLoad")),
        dict(module="AgentServer", cfg="MC_AgentServer_ready.cfg",
             allow_dead=()),
        dict(module="AgentServer", cfg="MC_AgentServer_live.cfg", tiers=("thorough",), coverage=False),
        dict(module="ProxyServerMC", cfg="MC_ProxyServer.cfg", tiers=("quick",)),
        dict(module="ProxyServerMC", cfg="MC_ProxyServer_thorough.cfg", tiers=("thorough",)),
        dict(module="ProxyServerMC", cfg="MC_ProxyServer_live.cfg", tiers=("thorough",), coverage=False)],
    trace=dict(module="AgentServerTrace", cfg="AgentServerTrace.cfg"),
    trace_alt={"proxy": dict(module="ProxyServerTrace", cfg="ProxyServerTrace.cfg")},
    isolate=lambda head: _kind(head) in ("cfgload", "nil_target"),
    chunk_lines=3000, max_rejections=6,
    nontrivial=_nontrivial, min_nontrivial=40,
    engine_timeout={"quick": 600, "thorough": 1500},
    rule="even traces: seeded random histories on a real agentserver.Server (Handler().ServeHTTP) over a real CADownloadStore "
         "with a gated fake scheduler: up to three concurrent GET blob requests parked at the scheduler gate / at the first body "
         "write while the environment commits, evicts or leaves partial blobs, DELETE, tag lookup, health, readiness (TTL 0-3 units, "
         "aged through an export shim), preload (docker/containerd), scheduler config patch, blacklist; every dependency outcome "
         "is injected (not found, timeout, removed, stopped, other; client disconnect during the body); each record carries the "
         "status, the calls the dependencies saw and the number of fds open below the store. odd traces: 1-3 requests on a real "
         "proxyserver.Server (registry notification envelopes, prefetch v1/v2, sync or async) over a generated registry catalog "
         "(docker / OCI manifests, manifest lists / indexes sharing and repeating layers, junk, missing blobs, sizes around the "
         "min/max/50GB-default window) with a scripted origin cluster client and tag client that log every call; non-trivial = "
         "agent: a scheduler round trip and a served body; proxy: at least one layer call",
    assumptions=["the scheduler, the origin cluster client, the tag client, the announce client and the container runtimes are "
                 "faked (specified elsewhere); the CA download store is real",
                 "handlers are invoked through Server.Handler().ServeHTTP (chi router and middleware included), not over TCP",
                 "readiness cache time is aged through the export-only shim VerifAgeLastReady (the handler reads the wall clock); "
                 "one TTL unit = 1 h, so real elapsed time is negligible",
                 "a prefetch size limit of 0 means 'use the default' (50 GB) as the constructor implements it; the field "
                 "comments saying '0 means no maximum' are not taken as the contract",
                 "traces t=0 (kind cfgload) and t=1 (kind nil_target) are the dedicated scenarios of the recorded findings "
                 "FX05a / FX05b; random traces never contain those inputs"],
)
