import os, sys
sys.path.insert(0, os.path.dirname(os.path.abspath(__file__)))
from _util import *


def _nontrivial(recs):
    """the antecedents of C15 were reached: a reservation was cut short by quota/validity, a peer with
    requests on the books was removed, a piece was cleared, and the failed report was non-empty"""
    cut = any(r.get("ev") == "Reserve" and 0 < len(r["res"]) < len(r["cands"]) or
              (r.get("ev") == "Reserve" and len(r["cands"]) > 0 and len(r["res"]) == 0) for r in recs)
    failed = any(r.get("failed") for r in recs)
    if (recs[0].get("cfg") or {}).get("scn") == "storm":
        return sum(1 for r in recs if r.get("ev") == "Round") >= 100
    return cut and failed and has(recs, "ClearPeer") and has(recs, "Clear") and has(recs, "Tick")


PROP = dict(
    specdir="p2p", engine="c15",
    mc=[dict(module="PieceRequests", cfg="MC_PieceRequests.cfg"),
        dict(module="PieceRequests", cfg="MC_PieceRequests_thorough.cfg", tiers=("thorough",), timeout=1500)],
    trace=dict(module="PieceRequestsTrace", cfg="PieceRequestsTrace.cfg"),
    trace_alt={"storm": dict(module="PieceRequestsStorm", cfg="PieceRequestsStorm.cfg")},
    nontrivial=_nontrivial, chunk_lines=2500, max_rejections=8,
    rule="seeded random histories (25-60 calls: ReservePieces with random candidate sets / piece counts / endgame flag, "
         "MarkUnsent, MarkInvalid, Clear, ClearPeer, clock steps of 1..timeout+1 on a clock.Mock; 3 peers, 4 pieces, both "
         "selection policies, agent limit 0-3, origin limit 1-4, timeout 1-3) on a real piecerequest.Manager; after every call "
         "PendingPieces of every peer and GetFailedRequests are logged and must equal the specification's; "
         "non-trivial = some reservation was cut short by quota or validity, the failed report was non-empty at some point, "
         "and the history contains ClearPeer, Clear and Tick. The last few sequential traces are the dedicated scenario of known finding F15; "
         "after them come STORM histories: rounds in which eight goroutines reserve disjoint pieces for one peer at the same time, the "
         "peer's pending pieces checked against its pipeline limit once per round (PieceRequestsStorm).",
    assumptions=["a peer is an origin or an agent for the whole history (isPeerOrigin is fixed per peer)",
                 "ReservePieces is modelled as returning min(quota, #valid candidates) pieces (what both policies do); "
                 "which ones is free, except that rarest_first never prefers a more common piece",
                 "random traces do not issue ClearPeer for a peer that holds two requests for one piece (input class of "
                 "known finding F15; exercised by the dedicated scenario traces instead)"],
)
