import os, sys
sys.path.insert(0, os.path.dirname(os.path.abspath(__file__)))
from _util import *


def _c32_nontrivial(recs):
    """the antecedents of C32 are reached: a put acknowledged, a put refused for a missing dependency, a second put
    of the same tag with another digest, and write-back executions (synchronous or asynchronous) both with and without
    a backend fault"""
    head = recs[0].get("cfg", {}) if recs else {}
    puts = [r for r in recs if r.get("ev") == "Put"]
    ok = [r for r in puts if r.get("res") == "ok"]
    refused = any(r.get("res") == "err" and not r.get("att") for r in puts)
    reput = any(r.get("res") == "ok" and r.get("disk", {}).get(r.get("tag")) not in (r.get("d"), "none") for r in puts)
    # judged on what the environment did (fault pattern), not on how the node reacted
    faulty = lambda a: a[0] == "err" or a[1] in ("err", "lost")
    if head.get("wt"):
        written = any(any(faulty(a) for a in r.get("att", [])) for r in puts) and \
                  any(any(not faulty(a) for a in r.get("att", [])) for r in puts)
    else:
        wb = [r for r in recs if r.get("ev") == "WbExec"]
        written = any(faulty(r["a"]) for r in wb) and any(not faulty(r["a"]) for r in wb)
    return bool(ok) and (refused or reput) and written


PROP = dict(
    specdir="index", engine="c32",
    mc=[dict(module="TagStore", cfg="MC_TagStore.cfg"),
        dict(module="TagStore", cfg="MC_TagStore_retry.cfg", tiers=("thorough",)),
        dict(module="TagStore", cfg="MC_TagStore_live.cfg", coverage=False),
        dict(module="TagStore", cfg="MC_TagStore_thorough.cfg", tiers=("thorough",), timeout=1500)],
    trace=dict(module="TagStoreTrace", cfg="TagStoreTrace.cfg"),
    nontrivial=_c32_nontrivial,
    max_rejections=4,
    engine_timeout={"quick": 600, "thorough": 1500},
    rule="one trace = one seeded history (12-27 calls + drain) of PUT /tags, duplicate PUT, GET, HEAD, origin blob "
         "appearing/disappearing, manager restart and single write-back executions on a real build-index node (real "
         "tagserver handler over HTTP, tagstore, SimpleStore, persistedretry manager + write-back executor + sqlite task "
         "table) in write-through (40 %) or write-back mode, with the backend answering every call from a seeded fault "
         "pattern (fault, lost reply, truthful); every call logged with its fault pattern, reply class and the node's "
         "disk / persist / backend / task-table state; non-trivial = a put acknowledged, a put refused for a missing "
         "dependency or re-put with another digest, and the backend written after at least one failed attempt",
    assumptions=["histories start from an empty backend for the tags under test (Reading in DESIGN C32)",
                 "'a digest that was put for it' includes the digest of a PUT that passed the dependency check and was "
                 "stored on disk but answered 500 because the synchronous write-through failed",
                 "calls are issued one at a time; a write-back execution is atomic with respect to client calls "
                 "(the backend gate holds the worker until the harness schedules the whole execution)",
                 "no cache cleanup (eviction of written-back tag files) and no second node during a history"],
)
