import os, sys
sys.path.insert(0, os.path.dirname(os.path.abspath(__file__)))
from _util import *


def _c31_nontrivial(recs):
    """the antecedent of C31 is reached: a commit was acknowledged (200, or 409 after the conflict handler's write-back)
    and, while that blob was not yet in its backend, a deletion path (DELETE, cleanup pass, forced cleanup) or a restart
    ran against the node"""
    acked, hit = set(), False
    flight = {}
    for r in recs:
        ev = r.get("ev")
        if ev == "Start":
            flight[r["h"]] = (r["n"], r["d"])
        if (ev == "Ack" and r.get("code") == 200) or (ev == "GenMeta" and r.get("code") in (200, 409)):
            if r["h"] in flight:
                acked.add(flight[r["h"]])
        if ev in ("Delete", "ClFile", "FOwn", "FFind", "FSx", "Restart"):
            bk = {tuple(x) for x in r.get("bk", [])}
            if any(a not in bk for a in acked):
                hit = True
    return bool(acked) and hit


PROP = dict(
    specdir="origin", engine="c31",
    mc=[dict(module="WriteBack", cfg="MC_WriteBack_q.cfg", tiers=("quick",)),
        dict(module="WriteBack", cfg="MC_WriteBack_ns2_q.cfg", tiers=("quick",)),
        dict(module="WriteBack", cfg="MC_WriteBack.cfg", tiers=("thorough",), allow_dead=("FSxNext",)),
        dict(module="WriteBack", cfg="MC_WriteBack_ns2.cfg", tiers=("thorough",),
             allow_dead=("HPatch", "Transfer", "Refresh", "Restart")),
        dict(module="WriteBack", cfg="MC_WriteBack_thorough.cfg", tiers=("thorough",), timeout=2400, allow_dead=("FSxNext",)),
        dict(module="WriteBack", cfg="MC_WriteBack_live.cfg", tiers=("thorough",), timeout=1200, coverage=False)],
    trace=dict(module="WriteBackTrace", cfg="WriteBackTrace.cfg"),
    isolate=lambda head: (head.get("cfg") or {}).get("kind") in ("f31a", "f31b"),
    nontrivial=_c31_nontrivial,
    min_nontrivial=10,
    max_rejections=4,
    engine_timeout={"quick": 600, "thorough": 1500},
    rule="one trace = one schedule of a real origin (blobserver.Server over HTTP on a real CAStore, real persistedretry manager + "
         "write-back executor + sqlite task table, one gated backend per namespace) released ONE STEP AT A TIME through dependency "
         "gates: upload start/patch/commit(move) | setPersist | manager.Add | metainfo | reply; worker dequeue | backend.Stat | "
         "GetCacheFileReader | backend.Upload | clear flag | Remove/MarkFailed; retry poll; POST /forcecleanup per name: "
         "ring.Locations | Find | SyncExec steps | delete; cleanup pass per file; DELETE blob; internal transfer; backend "
         "down/up, lost replies; process restart on the same disk and sqlite file; LRU capacity 1/2/unbounded. 'rand' traces: "
         "seeded schedule of 25-60 steps + drain over 1 namespace, 1-2 blobs; 6 scripted traces for the recorded findings. After "
         "every step the data file (hash checked), persist flag, metainfo, task rows and backend contents are read from outside "
         "and, with the gate every goroutine is parked at, must equal the state of spec/origin/WriteBack.tla exactly. "
         "non-trivial = a deletion path or restart ran while an acknowledged blob was not yet in its backend",
    assumptions=[
        "acknowledged = commit PUT answered 2xx, or start/patch/commit answered 409 after handleUploadConflict's writeBack "
        "returned nil (the origin's own client reports success to the uploader for that 409)",
        "each namespace has its own backend (one namespace = the deployment where all namespaces share one backend); the "
        "backend never loses a blob; the unconfigured-namespace branch of the executor is outside the statement",
        "steps are interleaved at the dependency gates only; inside one step the real code runs alone (windows without a seam "
        "are listed in the report)",
        "a restart kills every goroutine at its gate; nothing of the old process touches disk or sqlite afterwards",
        "'eventually in the backend' is checked on finite traces as: after a drain (backends up, all contexts run to "
        "completion, poller run until the task table is empty) every acknowledged blob is in its backend; unbounded liveness is "
        "model-checked only (MC_WriteBack_live.cfg)",
        "rand traces do not release the forced cleanup's Find for a flagged file without task while an upload handler of that "
        "blob is between setPersist and manager.Add (window of finding F31a, exercised by the scripted traces); two-namespace "
        "schedules are scripted only (finding F31b)",
        "blob refresh from the backend and replication to other origins are not driven; duplicate commits use a 1 h delay",
    ],
    level_text="TLC model-checks the implementation-shaped WriteBack model (every step of commit, conflict handling, executor, "
               "poller, forced cleanup, cleanup pass, eviction, restart; safety and liveness) with the candidate repairs, and "
               "validates step-by-step recorded schedules of the real origin against the as-built/repaired step semantics with "
               "the safety property as invariant of every state.",
)
