import os, sys
sys.path.insert(0, os.path.dirname(os.path.abspath(__file__)))
from _util import *

PROP = dict(
    specdir="p2p", engine="c20",
    mc=[dict(module="AnnounceQueue", cfg="MC_AnnounceQueue.cfg")],
    trace=dict(module="AnnounceQueueTrace", cfg="AnnounceQueueTrace.cfg"),
    nontrivial=lambda recs: any(r.get("ev") == "Next" and r.get("res") != "none" for r in recs) and has(recs, "Eject") and has(recs, "Ready"),
    rule="seeded random histories (Add/Next/Ready/Eject over 5 torrents, 20-60 calls + final drain) on the real QueueImpl; every "
         "fourth trace is the SYSTEM family: scheduler events (add torrent, announce tick with saturated/unsaturated torrents, announce "
         "result/error, removal) applied to a real scheduler state whose announce queue is wrapped by a recorder - the scheduler's own "
         "call stream must be a legal queue history (never Add a queued torrent); "
         "distinct = distinct event sequences; non-trivial = some Next returned a torrent and the history contains Eject and Ready",
    assumptions=["Add(h) is only issued for a torrent not currently queued (documented undefined otherwise)"],
)
