import os, sys
sys.path.insert(0, os.path.dirname(os.path.abspath(__file__)))
from _util import *

_LM_TR = ["LmCall", "LmTrap", "LmLookFast", "LmLookSlow", "LmGetLock", "LmDecideFresh", "LmDecideWait", "LmDecideRun",
          "LmRunnerRet", "LmPublish", "LmWoken", "LmReturn"]
_RC = ["RcReserve", "RcAcquire", "RcBusy", "RcFnExit", "RcFinish", "RcReleaseWorker"]
_TR = ["TrCall", "TrCheck", "TrLockRun", "TrLockSkip", "TrTaskRet", "TrPost", "TrReturn"]


def _nontrivial(recs):
    """the trace reaches a state where the property's antecedent holds: a start arrives while an execution of the
    same key is in flight (or its error is cached), or a trap is attempted again after its task ran"""
    comp = (recs[0].get("cfg") or {}).get("comp")
    if comp == "rc":
        return any(r.get("ev") == "Start" and r.get("res") in ("pending", "nf", "other") for r in recs) or has(recs, "Busy")
    if comp == "lim":
        infl = set()
        for r in recs:
            if r.get("ev") == "Enter":
                infl.add(r["k"])
            elif r.get("ev") == "Leave":
                infl.discard(r["k"])
            elif r.get("ev") == "Run" and r["k"] in infl:
                return True
        return False
    if comp == "trap":
        return has(recs, "TaskEnter", 1) and has(recs, "Trap", 3)
    return False


PROP = dict(
    specdir="dedup", engine="c29",
    mc=[dict(module="Dedup", cfg="MC_Dedup_rc.cfg", tiers=("quick",), allow_dead=_LM_TR + _TR),
        dict(module="Dedup", cfg="MC_Dedup_lm.cfg", tiers=("quick",), allow_dead=_RC + _TR),
        dict(module="Dedup", cfg="MC_Dedup_trap.cfg", allow_dead=_RC + _LM_TR),
        dict(module="Dedup", cfg="MC_Dedup_rc_thorough.cfg", tiers=("thorough",), allow_dead=_LM_TR + _TR),
        dict(module="Dedup", cfg="MC_Dedup_lm_thorough.cfg", tiers=("thorough",), allow_dead=_RC + _TR),
        dict(module="Dedup", cfg="MC_Dedup_lm2_thorough.cfg", tiers=("thorough",), allow_dead=_RC + _TR)],
    trace=dict(module="DedupTrace", cfg="DedupTrace.cfg", deque=True),
    chunk_lines=1500,
    engine_timeout={"quick": 600, "thorough": 1500},
    nontrivial=_nontrivial,
    technique="implementation-shaped TLA+ model (one action per critical section) checked exhaustively; forced schedules on "
              "the real objects via gated request functions / TaskRunners / IntervalTasks, clock.Mock behind a holdable "
              "clock.Clock, a signalling tally.Scope and runtime.Stack goroutine states; trace validation with silent steps",
    rule="one trace = one forced schedule (16-36 driver steps: start/run/trap calls from up to 4 goroutines over 2-3 keys, "
         "gate releases with chosen outcome/ttl, clock ticks) on a fresh RequestCache, Limiter or IntervalTrap, plus one "
         "dedicated schedule that forces the GC-vs-held-task window (F29), and lag schedules (a second Start of the key arrives while the "
         "worker is inside RequestCache.error, parked in the not-found matcher - Dedup.tla between RcFnExit and RcFinish); distinct = distinct event sequences; non-trivial = "
         "a start arrived while an execution of the same key was in flight or its error cached / a worker timeout occurred / "
         "the trap was re-attempted after its task ran",
    assumptions=["TaskGCInterval is the compiled-in constant (1 tick = 1 minute of mock time for Limiter traces)",
                 "goroutines the Go runtime reports as parked in select / sync.Cond.Wait / a mutex are treated as blocked; "
                 "a late observation only delays a record, silent steps keep the history explainable"],
)
