import os, sys
sys.path.insert(0, os.path.dirname(os.path.abspath(__file__)))
from _util import *

PROP = dict(
    specdir="agent", engine="c04",
    mc=[dict(module="AgentCrash", cfg="MC_AgentCrash_n0.cfg"), dict(module="AgentCrash", cfg="MC_AgentCrash.cfg"),
        dict(module="AgentCrash", cfg="MC_AgentCrash_n3.cfg", allow_dead=())],
    trace=dict(module="AgentCrashTrace", cfg="AgentCrashTrace.cfg"),
    nontrivial=lambda recs: 0 < recs[0]["cfg"]["prefix"] < recs[0]["cfg"]["nops"],
    rule="agent downloads (blobs of 0,1,3,5 pieces; pieces in random order, some first delivered corrupted, some repeated) run once "
         "in a child process under strace; EVERY prefix of the recorded file-system operations is materialized and the real restart path "
         "(NewCADownloadStore + TorrentArchive.CreateTorrent + NewTorrent/restorePieces) is run on it, probed (Complete, Bitfield, "
         "cache reader bytes, data-file regions) and the download resumed with correct pieces, then the committed blob is evicted "
         "(DeleteTorrent) and requested again in the same process; second generation: for crash points that leave the blob cached AND "
         "leftovers of its download directory, a second download (evict + CreateTorrent + pieces + commit) is recorded on top of "
         "those leftovers and every prefix of IT is materialized and probed the same way; non-trivial = crash point strictly inside",
    assumptions=["process-crash model: completed system calls persist, a write syscall is atomic",
                 "the tracker still serves the blob's metainfo after the restart"],
    level_text="TLC model-checks the FS-level AgentCrash model (every file-system step of create/write/commit, crash anywhere, the code's "
               "restart path) and validates, for every crash point of every recorded real download, what the real restart path reported.",
)
