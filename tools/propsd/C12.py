import os, sys
sys.path.insert(0, os.path.dirname(os.path.abspath(__file__)))
from _util import *


def _nontrivial(recs):
    """the history made a hole (positional write strictly beyond the end), read across the end, and moved the offset"""
    gap = any(r.get("ev") == "WriteAt" and r.get("past") and r.get("plen", 0) > 0 for r in recs)
    cross = any(r.get("ev") in ("Read", "ReadAt") and 0 < r.get("cnt", 0) < r.get("n", 0) for r in recs)
    ro = bool(recs) and (recs[0].get("cfg") or {}).get("impl") == "bufreader"
    return (gap or ro) and cross and has(recs, "Seek")


PROP = dict(
    specdir="store", engine="c12",
    mc=[dict(module="ByteFile", cfg="MC_ByteFile.cfg", tiers=("quick",)),
        dict(module="ByteFile", cfg="MC_ByteFile_thorough.cfg", tiers=("thorough",))],
    trace=dict(module="ByteFileTrace", cfg="ByteFileTrace.cfg"),
    chunk_lines=3000,
    max_rejections=8,
    nontrivial=_nontrivial,
    min_nontrivial=20,
    rule="the same seeded operation sequence (10-30 calls; occasionally 60 in thorough: Write/WriteAt/Read/ReadAt/Seek/Size, payloads "
         "0..40(80) bytes, positional writes inside/abutting/beyond the end, reads crossing the end, negative offsets) is run on "
         "os.File, base.BufferReadWriter (capacity 0 / generous / too small), memory.File (via memory.Store.Create with the same "
         "capacities) and the read-only store.NewBufferFileReader; one trace per (sequence, implementation); every call logged with "
         "count/bytes/position and post-call size+offset, final content dumped through an independent accessor; "
         "non-trivial = a gap-creating positional write (or read-only reader), a read crossing the end and a Seek",
    assumptions=["seeks are generated only with targets inside the written extent (the property's domain); negative targets/offsets "
                 "are generated and must be refused without effect",
                 "error values are not compared (the property lists bytes, counts, sizes, offsets)",
                 "os.File traces are validated by the same specification: they check the SPEC against the operating system"],
)
