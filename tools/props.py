"""Registry: one entry per property, loaded from tools/propsd/<ID>.py (each defines PROP = dict(...)).
See tools/README.md for the fields."""
import glob, importlib.util, os

PROPS = {}
NOT_APPLICABLE = {}
_d = os.path.join(os.path.dirname(os.path.abspath(__file__)), "propsd")
for _f in sorted(glob.glob(os.path.join(_d, "*.py"))):
    _n = os.path.basename(_f)[:-3]
    _spec = importlib.util.spec_from_file_location("propsd_" + _n, _f)
    _m = importlib.util.module_from_spec(_spec)
    _spec.loader.exec_module(_m)
    if hasattr(_m, "PROP"):
        PROPS[_n] = _m.PROP
    if hasattr(_m, "NOT_APPLICABLE"):
        NOT_APPLICABLE[_n] = _m.NOT_APPLICABLE
