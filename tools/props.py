"""Registry: one entry per property (see tools/check for how entries are used)."""

def _has(recs, ev, n=1):
    return sum(1 for r in recs if r.get("ev") == ev) >= n

NOT_APPLICABLE = {}

def _evictions(recs):
    """count Create events after which a previously live key disappeared"""
    n, live = 0, set()
    for r in recs:
        if "live" in r:
            now = set(r["live"])
            if r.get("ev") == "Create" and (live - now):
                n += 1
            live = now
    return n

PROPS = {
    "C20": dict(
        specdir="p2p", engine="c20",
        mc=[dict(module="AnnounceQueue", cfg="MC_AnnounceQueue.cfg")],
        trace=dict(module="AnnounceQueueTrace", cfg="AnnounceQueueTrace.cfg"),
        nontrivial=lambda recs: any(r.get("ev") == "Next" and r.get("res") != "none" for r in recs) and _has(recs, "Eject") and _has(recs, "Ready"),
        rule="seeded random histories (Add/Next/Ready/Eject over 5 torrents, 20-60 calls + final drain) on the real QueueImpl; "
             "distinct = distinct event sequences; non-trivial = some Next returned a torrent and the history contains Eject and Ready",
        assumptions=["Add(h) is only issued for a torrent not currently queued (documented undefined otherwise)"],
    ),
    "C07": dict(
        specdir="store", engine="c07",
        mc=[dict(module="BlobStore", cfg="MC_BlobStore.cfg")],
        trace=dict(module="BlobStoreTrace", cfg="BlobStoreTrace.cfg"),
        nontrivial=lambda recs: _evictions(recs) >= 1 and _has(recs, "MarkComplete", 2),
        rule="seeded random histories (40-80 calls over 4 keys, capacities {1,3,4,8}, all scopes, movable and non-movable "
             "metadata, Clean, sharded/unsharded) on a real disk.Store in a temp dir; every call logged with reply class and "
             "post-call eviction order / reserved bytes / live keys; non-trivial = at least one eviction by admission and two completions",
        assumptions=["eviction order and reserved bytes are read through an export-only overlay shim (harness/overlay/lib/store/disk)"],
    ),
    "C08": dict(
        specdir="store", engine="c08",
        mc=[dict(module="BlobStore", cfg="MC_BlobStore.cfg", tiers=("thorough",)),
            dict(module="MemHandles", cfg="MC_MemHandles.cfg")],
        trace=dict(module="MemHandlesTrace", cfg="MemHandlesTrace.cfg"),
        nontrivial=lambda recs: any(r.get("res") == "evicted" for r in recs) and _evictions(recs) >= 1,
        rule="seeded random histories on a real memory.Store (40-80 store calls over 4 keys + interleaved Read/ReadAt/Write/"
             "WriteAt/Seek/Size on up to 6 handles kept across evictions, deletions and re-creations); non-trivial = at least one "
             "eviction by admission and at least one handle call answered 'evicted'",
        assumptions=["zero-length reads and negative offsets are answered before the store is consulted (Reading in DESIGN C08)",
                     "concurrent schedules are covered by the c08 concurrent driver only in the thorough tier"],
    ),
}
