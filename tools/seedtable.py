#!/usr/bin/env python3
"""Regenerates the table of seeded breaking changes (seeded/README.md, and prints the same table for DESIGN.md 0.6)
from seeded/*/meta.json: `checks_run` is the first evaluation, `recheck` the run against the current checks,
`final_status` a hand-written note on what was strengthened."""
import glob, json, os, sys

VERIF = os.path.dirname(os.path.dirname(os.path.abspath(__file__)))


def verdict(runs):
    caught, missed = [], []
    seen = {}
    for r in runs or []:
        cid, tier, rc = r.split(":")
        rc = rc.split("=")[1]
        seen.setdefault(cid, []).append((tier, rc))
    for cid, rs in seen.items():
        hit = [t for t, rc in rs if rc == "1"]
        if hit:
            caught.append("%s (%s)" % (cid, hit[0]))
        elif any(rc == "2" for _, rc in rs):
            missed.append("%s (exit 2)" % cid)
        else:
            missed.append(cid)
    return caught, missed


rows = []
for d in sorted(glob.glob(os.path.join(VERIF, "seeded", "*", "meta.json"))):
    m = json.load(open(d))
    name = os.path.basename(os.path.dirname(d))
    first_c, first_m = verdict(m.get("checks_run"))
    now_c, now_m = verdict(m.get("recheck") or m.get("checks_run"))
    summ = " ".join(m.get("summary", "").split())
    if len(summ) > 230:
        summ = summ[:230].rsplit(" ", 1)[0] + " …"
    res = "caught by " + ", ".join(now_c) if now_c else "MISSED"
    if not now_c and m.get("neutralised_by"):
        res = "not a breaking change any more (neutralised by fix %s)" % m["neutralised_by"]
    if now_m:
        res += "; not seen by " + ", ".join(now_m)
    if first_c != now_c and not first_c and not (m.get("final_status") or "").startswith(("missed", "quick missed")) and now_c:
        res += " — missed at first"
    if m.get("final_status") and m["final_status"] != "caught":
        res += " — " + m["final_status"]
    rows.append("| `%s` | %s | %s | %s |" % (name, m.get("property"), summ.replace("|", "\\|"), res.replace("|", "\\|")))

hdr = "| change | property | what it does | result with the current checks |\n|---|---|---|---|\n"
table = hdr + "\n".join(rows) + "\n"
if "--print" in sys.argv:
    sys.stdout.write(table)
else:
    readme = os.path.join(VERIF, "seeded", "README.md")
    head = open(readme).read().split("| change |")[0]
    open(readme, "w").write(head + table)
    print("wrote", readme, len(rows), "rows")
