#!/usr/bin/env python3
"""Shared machinery for /verif checks (python3 stdlib only).

 * build the Go harness (kvh) from /repo's CURRENT working tree with -tags verif
 * run TLC exhaustively on a design configuration (M0)
 * run TLC as a trace validator on ndjson logs recorded from the real code (M1)
 * turn a rejection into a replay file, re-execute it, match known findings
 * write evidence/<id>.json

Exit codes (see DESIGN.md 2.3): 0 held / known findings only, 1 VIOLATION, 2 broken/inconclusive.
"""
import json, os, re, shutil, subprocess, sys, tempfile, time, hashlib

VERIF = os.path.dirname(os.path.dirname(os.path.abspath(__file__)))
REPO = os.environ.get("VERIF_REPO", "/repo")
HARNESS = os.path.join(VERIF, "harness")
SPEC = os.path.join(VERIF, "spec")
EVID = os.path.join(VERIF, "evidence")
REPLAYS = os.path.join(VERIF, "replays")
TLA_JAR = "/opt/veriftools/tla/tla2tools.jar:/opt/veriftools/tla/CommunityModules-deps.jar"


class Broken(Exception):
    """The check itself is broken or inconclusive (exit 2) -- never a violation."""


def goenv():
    e = dict(os.environ)
    e.update({"GOFLAGS": "-mod=mod", "GOPROXY": "off", "GOTOOLCHAIN": "auto", "CGO_ENABLED": "1"})
    e.pop("GOSUMDB", None)
    return e


def scratch(prefix="kvh-"):
    return tempfile.mkdtemp(prefix=prefix, dir=os.environ.get("TMPDIR", "/tmp"))


def make_overlay(tmp):
    """overlay.json injecting /verif/harness/overlay/<pkg path>/*.go into /repo/<pkg path>/ (export shims only)."""
    root = os.path.join(HARNESS, "overlay")
    repl = {}
    if os.path.isdir(root):
        for d, _, files in os.walk(root):
            for f in files:
                if f.endswith(".go"):
                    rel = os.path.relpath(os.path.join(d, f), root)
                    repl[os.path.join(REPO, rel)] = os.path.join(d, f)
    p = os.path.join(tmp, "overlay.json")
    with open(p, "w") as fh:
        json.dump({"Replace": repl}, fh)
    return p


def build_kvh(tmp, log=None, engine=None):
    """go build -tags verif of the harness against /repo's working tree. Returns binary path."""
    out = os.path.join(tmp, "kvh")
    ov = make_overlay(tmp)
    if not os.path.exists(os.path.join(HARNESS, "go.sum")) or \
            os.path.getmtime(os.path.join(REPO, "go.sum")) > os.path.getmtime(os.path.join(HARNESS, "go.sum")):
        shutil.copy(os.path.join(REPO, "go.sum"), os.path.join(HARNESS, "go.sum"))
    t0 = time.time()
    # only the engine that is needed is linked (engines/all/zz_<engine>.go carry `//go:build kvh_all || kvh_<engine>`): a change to
    # kraken that stops an unrelated engine or shim from compiling does not take this check down with it
    cmd = ["go", "build", "-tags", "verif,kvh_" + (engine or "all"), "-overlay", ov, "-o", out]
    if os.path.realpath(REPO) != "/repo":
        # scratch worktree (mutation experiments): same harness, kraken replaced by $VERIF_REPO
        mf = os.path.join(tmp, "alt.mod")
        src = open(os.path.join(HARNESS, "go.mod")).read().replace("=> /repo", "=> " + os.path.realpath(REPO))
        open(mf, "w").write(src)
        shutil.copy(os.path.join(REPO, "go.sum"), os.path.join(tmp, "alt.sum"))
        cmd += ["-modfile", mf]
    cmd += ["./cmd/kvh"]
    r = subprocess.run(cmd,
                       cwd=HARNESS, env=goenv(), stdout=subprocess.PIPE, stderr=subprocess.STDOUT, text=True)
    if r.returncode != 0:
        raise Broken("harness build failed (tree does not compile with hooks/shims?):\n" + r.stdout[-4000:])
    if log is not None:
        log["build_s"] = round(time.time() - t0, 1)
    return out


_FINAL = re.compile(r"(\d+) states generated, (\d+) distinct states found, (\d+) states left on queue")


def run_tlc(specdir, module, cfg, workers="auto", timeout=600, extra=(), files=(), simulate=None, stackmb=0, deque=False):
    """Run TLC in a scratch copy of specdir. Returns dict(rc, out, generated, distinct, ok, invariant, post_failed)."""
    tmp = scratch("tlc-")
    try:
        for f in os.listdir(specdir):
            if f.endswith((".tla", ".cfg")):
                shutil.copy(os.path.join(specdir, f), tmp)
        common = os.path.join(SPEC, "common")
        if os.path.isdir(common):
            for f in os.listdir(common):
                if f.endswith(".tla") and not os.path.exists(os.path.join(tmp, f)):
                    shutil.copy(os.path.join(common, f), tmp)
        for src, name in files:
            shutil.copy(src, os.path.join(tmp, name))
        jopts = ["-XX:+UseParallelGC"]
        if stackmb:
            jopts.append("-Xss%dm" % stackmb)
        if deque:
            jopts.append("-Dtlc2.tool.queue.IStateQueue=StateDeque")
        cmd = ["java"] + jopts + ["-cp", TLA_JAR, "tlc2.TLC", "-metadir", os.path.join(tmp, "meta"),
                                  "-workers", str(workers), "-config", cfg]
        if simulate:
            cmd += ["-simulate", simulate]
        cmd += list(extra) + [module]
        t0 = time.time()
        try:
            r = subprocess.run(cmd, cwd=tmp, stdout=subprocess.PIPE, stderr=subprocess.STDOUT, text=True, timeout=timeout)
        except subprocess.TimeoutExpired as ex:
            subprocess.run(["pkill", "-f", "metadir " + tmp], check=False)
            raise Broken("TLC timeout after %ss on %s/%s" % (timeout, module, cfg))
        out = r.stdout
        res = {"rc": r.returncode, "out": out, "wall_s": round(time.time() - t0, 2), "generated": 0, "distinct": 0}
        m = None
        for m in _FINAL.finditer(out):
            pass
        if m:
            res["generated"], res["distinct"] = int(m.group(1)), int(m.group(2))
        res["invariant"] = None
        mi = re.search(r"Invariant (\S+) is violated", out)
        if mi:
            res["invariant"] = mi.group(1)
        ma = re.search(r"Action property (\S+) is violated", out)
        if ma:
            res["invariant"] = ma.group(1)
        if "Temporal properties were violated" in out:
            res["invariant"] = "temporal"
        res["post_failed"] = "REJECTED_AT_LINE" in out
        mr = re.search(r'"REJECTED_AT_LINE", (\d+)', out)
        res["reject_line"] = int(mr.group(1)) if mr else None
        res["ok"] = (r.returncode == 0 and "Model checking completed. No error has been found" in out) or \
                    (simulate is not None and r.returncode == 0)
        res["tmp_files"] = {}
        for name in os.listdir(tmp):
            if name.endswith((".out.json", ".behaviours", ".dot")):
                res["tmp_files"][name] = open(os.path.join(tmp, name)).read()
        return res
    finally:
        shutil.rmtree(tmp, ignore_errors=True)


def mc(specdir, module, cfg, timeout=900, workers="auto", need_ok=True, coverage=False, stackmb=0):
    """M0: exhaustive design check. A failure here is a SPEC problem => Broken (exit 2), not a violation of the code."""
    extra = ["-coverage", "1"] if coverage else []
    r = run_tlc(specdir, module, cfg, workers=workers, timeout=timeout, extra=extra, stackmb=stackmb)
    if need_ok and not r["ok"]:
        raise Broken("design model %s/%s did not pass TLC (rc=%s, invariant=%s):\n%s" %
                     (module, cfg, r["rc"], r["invariant"], r["out"][-3000:]))
    if r["distinct"] < 1 and need_ok:
        raise Broken("design model %s/%s explored no states" % (module, cfg))
    return r


def read_ndjson(path):
    out = []
    with open(path) as fh:
        for line in fh:
            line = line.strip()
            if line:
                out.append(json.loads(line))
    return out


def validate_traces(specdir, trace_module, cfg, lines, timeout=900, invariants_ok=True, deque=False, stackmb=64):
    """M1: validate a list of ndjson records (concatenated traces separated by ev=reset) with TLC.

    Returns (accepted: bool, reject_index: int|None, res). reject_index is the 0-based index in `lines`
    of the first record the specification could not explain (or at which an invariant failed)."""
    tmp = scratch("trace-")
    try:
        p = os.path.join(tmp, "trace.ndjson")
        with open(p, "w") as fh:
            for rec in lines:
                fh.write(json.dumps(rec, separators=(",", ":")) + "\n")
        r = run_tlc(specdir, trace_module, cfg, workers=1, timeout=timeout, files=[(p, "trace.ndjson")],
                    deque=deque, stackmb=stackmb)
    finally:
        shutil.rmtree(tmp, ignore_errors=True)
    if r["ok"]:
        return True, None, r
    if r["invariant"]:
        # invariant violated in the state reached after consuming line l-1 ; find l from the printed state
        ml = None
        for ml in re.finditer(r"/\\ l = (\d+)", r["out"]):
            pass
        if ml:
            return False, int(ml.group(1)) - 2, r
    if r["reject_line"] is not None and r["reject_line"] >= 1:
        # high-water mark = index (1-based) of the first line never consumed
        return False, r["reject_line"] - 1, r
    raise Broken("trace validation: TLC failed for a reason other than rejection (rc=%s):\n%s" % (r["rc"], r["out"][-3000:]))


def split_traces(lines):
    """Group records by trace: each trace starts with ev=reset. Returns list of (start_index, records)."""
    traces, cur, start = [], None, 0
    for i, rec in enumerate(lines):
        if rec.get("ev") == "reset":
            if cur is not None:
                traces.append((start, cur))
            cur, start = [], i
        if cur is None:
            cur, start = [], i
        cur.append(rec)
    if cur:
        traces.append((start, cur))
    return traces


def load_known(pid):
    out = []
    paths = [os.path.join(VERIF, "known_findings.json")]
    dd = os.path.join(VERIF, "known_findings.d")
    if os.path.isdir(dd):
        paths += sorted(os.path.join(dd, f) for f in os.listdir(dd) if f.endswith(".json"))
    for p in paths:
        if os.path.exists(p):
            d = json.load(open(p))
            out += [f for f in d.get("findings", []) if f.get("property") == pid and f.get("status") == "known"]
    return out


def gen_schedules(specdir, sch, tier, seed):
    """M2: export behaviours of an implementation-shaped spec.
    sch = dict(module, sim_cfg, num={tier:n}, depth, cex=[cfg,...]).  Returns list of {h:[...], d:[...], src}."""
    import ast
    out, seen = [], set()

    def add(js, src):
        d = json.loads(js)
        key = json.dumps(d["h"], sort_keys=True)
        if key in seen or len(d["h"]) < 3:
            return
        seen.add(key)
        out.append({"h": d["h"], "d": sorted(d.get("d", [])), "src": src})

    # counterexamples of the as-built configuration: one schedule per violated invariant
    import concurrent.futures as _cf
    cexs = list(sch.get("cex_" + tier) or sch.get("cex", []))
    with _cf.ThreadPoolExecutor(max_workers=4) as ex:
        cex_runs = list(ex.map(lambda cfg: run_tlc(specdir, sch["module"], cfg, workers=4, timeout=sch.get("timeout", 600)), cexs))
    for cfg, r in zip(cexs, cex_runs):
        if r["ok"]:
            continue  # nothing violated (e.g. after a repair): no counterexample schedule
        if not r["invariant"]:
            raise Broken("as-built model %s failed for another reason:\n%s" % (cfg, r["out"][-2000:]))
        o = r["out"]
        hs = re.findall(r"hist = (<<.*?>>)\n/?\\?", o, re.S)
        ds = re.findall(r"defects = (\{.*?\})", o)
        if not hs:
            raise Broken("no hist in counterexample of " + cfg)
        steps = [{"a": a, "k": k, "v": int(v)} for k, v, a in re.findall(r'\[k \|-> "(\w+)", v \|-> (\d+), a \|-> "(\w+)"\]', hs[-1])]
        tags = re.findall(r'"(\w+)"', ds[-1]) if ds else []
        add(json.dumps({"h": steps, "d": tags}), "cex:" + cfg)
    n = sch["num"][tier]
    r = run_tlc(specdir, sch["module"], sch["sim_cfg"], workers=1, timeout=sch.get("timeout", 600),
                simulate="num=%d" % n, extra=["-depth", str(sch["depth"]), "-seed", str(seed)])
    for line in r["out"].splitlines():
        if line.startswith('<<"BEH", '):
            lit = line[len('<<"BEH", '):-2]
            add(ast.literal_eval(lit), "sim")
    if not out:
        raise Broken("no schedules exported:\n" + r["out"][-2000:])
    return out, r


def match_known(known, rec, trace_head):
    """A known finding matches a rejected record iff every key of its signature equals the record's
    (keys prefixed cfg. are looked up in the trace's reset record)."""
    for f in known:
        sig = f.get("signature", {})
        ok = True
        for k, v in sig.items():
            if k.startswith("cfgin."):
                if v not in ((trace_head.get("cfg") or {}).get(k[6:]) or []):
                    ok = False
                continue
            if k.startswith("cfg."):
                got = (trace_head.get("cfg") or {}).get(k[4:])
            else:
                got = rec.get(k)
            if isinstance(v, list):
                if got not in v:
                    ok = False
            elif got != v:
                ok = False
        if ok:
            return f
    return None


def trace_digest(recs):
    h = hashlib.sha1()
    for r in recs:
        r = {k: v for k, v in r.items() if k not in ("t", "seq")}
        h.update(json.dumps(r, sort_keys=True).encode())
    return h.hexdigest()


def write_evidence(pid, tier, seed, coverage, wall, violations=0, assumptions=(), level="model_checking"):
    # extension modules (ids X..: behaviour beyond the listed properties) keep their evidence apart
    evid = EVID if not pid.startswith("X") else os.path.join(VERIF, "evidence_ext")
    if os.path.realpath(os.environ.get("VERIF_REPO", "/repo")) != "/repo":
        evid = "/tmp/verif-evidence-alt"      # runs against a scratch (e.g. seeded) tree never touch the committed evidence
    os.makedirs(evid, exist_ok=True)
    ev = {"property_id": pid, "tier": tier, "seed": int(seed), "level": level, "coverage": coverage,
          "assumptions": list(assumptions), "wall_s": round(wall, 2), "violations": int(violations)}
    tmp = os.path.join(evid, ".%s.json.tmp" % pid)
    with open(tmp, "w") as fh:
        json.dump(ev, fh, indent=1, sort_keys=True)
    os.replace(tmp, os.path.join(evid, pid + ".json"))
