------------------------- MODULE ShadowBackendTrace -------------------------
(* Trace validation of recorded shadowbackend.Client histories (X04) against ShadowBackend.  The client is built over
   two recording in-memory stores (export-only shim: the fields of Client are unexported); every inner call is a gate.
   Events: reset | Call | Inner (be = "a" / "s": one call received by the active / shadow store, with the identity
   [d, from] of the bytes it received or returned) | Seek (the source was repositioned) | Ret | Env.           *)
EXTENDS ShadowBackend, Json, TLC
Trace == ndJsonDeserialize("trace.ndjson")
VARIABLE l
tvars == <<svars, l>>
R == Trace[l]
Range(s) == {s[i] : i \in 1..Len(s)}

TraceInit == TLCSet(1, 0) /\ l = 1 /\ SInit
IsEvent(e) == l <= Len(Trace) /\ Trace[l].ev = e /\ l' = l + 1
TReset == /\ IsEvent("reset")
          /\ kv' = [b \in BE |-> [n \in Names |-> None]] /\ ncl' = [b \in BE |-> 0]
          /\ pc' = [p \in Procs |-> Idle] /\ tainted' = [n \in Names |-> FALSE]
TCallEv == IsEvent("Call") /\ Call(R.p, R.op, R.n, R.d, R.kind, R.off)
F == IF R.res = "err" THEN "err" ELSE "none"
V == [d |-> R.d, from |-> R.from]
TInner == /\ IsEvent("Inner")
          /\ \E p \in Procs :
               /\ (R.p = "" \/ R.p = p)
               /\ \/ R.op = "Stat" /\ R.be = "a" /\ pc[p].step = "statA" /\ R.n = pc[p].n /\ R.res = StatOf("a", R.n, F) /\ StatA(p, F)
                  \/ R.op = "Stat" /\ R.be = "s" /\ pc[p].step = "statS" /\ R.n = pc[p].n /\ R.res = StatOf("s", R.n, F) /\ StatS(p, F)
                  \/ R.op = "Download" /\ R.be = "a" /\ pc[p].step = "downA" /\ R.n = pc[p].n /\ R.same
                       /\ R.res = StatOf("a", R.n, F) /\ DownA(p, F)
                  \/ R.op = "List" /\ R.be = "a" /\ pc[p].step = "listA" /\ ListA(p, F)
                  \/ R.op = "Upload" /\ R.be = "a" /\ pc[p].step = "upA" /\ R.n = pc[p].n /\ R.same /\ UpA(p, F, V)
                  \/ R.op = "Upload" /\ R.be = "s" /\ pc[p].step = "upS" /\ R.n = pc[p].n /\ R.same /\ UpS(p, F, V)
                  \/ R.op = "Close" /\ R.be = "a" /\ pc[p].step = "closeA" /\ CloseA(p, F)
                  \/ R.op = "Close" /\ R.be = "s" /\ pc[p].step = "closeS" /\ CloseS(p, F)
TSeek == IsEvent("Seek") /\ pc[R.p].step = "seek" /\ Seek(R.p, F)
TRet == /\ IsEvent("Ret") /\ pc[R.p].step = "ret"
        /\ R.res = pc[R.p].res /\ V = pc[R.p].got /\ Range(R.names) = pc[R.p].names
        /\ Ret(R.p)
TEnv == IsEvent("Env") /\ IF R.d = "none" THEN EnvDel(R.be, R.n) ELSE EnvPut(R.be, R.n, V)

TraceNext == TReset \/ TCallEv \/ TInner \/ TSeek \/ TRet \/ TEnv
TraceSpec == TraceInit /\ [][TraceNext]_tvars
NotReset == l <= Len(Trace) /\ Trace[l].ev # "reset"
TStateless == [][NotReset => \A p \in Procs : (pc[p].step = "ret" /\ pc'[p] # pc[p]) => pc'[p] = Idle]_tvars

HW == TLCSet(1, IF TLCGet(1) < l THEN l ELSE TLCGet(1))
TraceAccepted == IF TLCGet(1) = Len(Trace) + 1 THEN TRUE
                 ELSE PrintT(<<"REJECTED_AT_LINE", TLCGet(1)>>) /\ FALSE
=============================================================================
