SPECIFICATION Spec
CONSTANTS
  Clients = {"c1", "c2"}
  Names = {"n1"}
  Procs = {"p1"}
  Unit = 1
  FixOversize = TRUE
  MatchC <- MCMatch
  BadC <- MCBad
  Nss <- MCNss
  CfgLists <- MCCfgRoute
  Blobs <- MCBlobs
  Ds = {0, 2}
  Ops <- OpsRouteQ
  MaxReg = 2
  MaxT = 0
  MaxXfer = 0
  MaxClose = 3
  MaxAdj = 1
  Faults = {"none", "err"}
  Sizeds = {TRUE, FALSE}
INVARIANT Inv RateBound
PROPERTY RoutingStable RegisterUnique BurstFixed
CHECK_DEADLOCK FALSE
