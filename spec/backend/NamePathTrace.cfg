SPECIFICATION TraceSpec
CONSTANTS
  RootSegs = {"ra","rb","rc"}
  RepoComps = {"x","y","tags","current","link","repositories"}
  Tags = {"t","u","_manifests","current","link","tags"}
  Hexes = {"d1","d2"}
  IdSegs = {"i1","i2","docker","data"}
  MaxRootDepth = 3
  MaxNameDepth = 3
  MaxUploads = 100000
INVARIANT TraceInv
CONSTRAINT HW
POSTCONDITION TraceAccepted
CHECK_DEADLOCK FALSE
