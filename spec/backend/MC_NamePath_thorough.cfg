SPECIFICATION Spec
CONSTANTS
  RootSegs = {"ra","rb"}
  RepoComps = {"x","tags","current"}
  Tags = {"t","_manifests","current","link"}
  Hexes = {"d1","d2"}
  IdSegs = {"i1","docker","data"}
  MaxRootDepth = 3
  MaxNameDepth = 2
  MaxUploads = 2
INVARIANT Inv
