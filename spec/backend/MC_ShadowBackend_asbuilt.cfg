SPECIFICATION SSpec
CONSTANTS
  Names = {"n1"}
  Procs = {"p1", "p2"}
  FixOffset = FALSE
  FixSerialize = FALSE
  Ds = {"d1"}
  Offs = {0, 1}
  SOps = {"Stat", "Download", "Upload", "List", "Close", "Env"}
  MaxClose = 1
INVARIANT SInv
PROPERTY Stateless
CHECK_DEADLOCK FALSE
