--------------------------- MODULE NamePathTrace ---------------------------
(* Trace validation of real lib/backend/namepath results (C36) against NamePath.

   The Go driver (harness/engines/c36) enumerates the abstract cases -- roots (absolute /
   relative, depth 0..3, with / without trailing slash, "/" and "") x the three schemes x name
   classes (incl. components that look like layout keywords) -- concretises every case several
   times with random valid strings, calls the real namepath.New / BasePath / BlobPath /
   NameFromBlobPath, maps the real strings back to tokens and logs one record per distinct
   abstract outcome with a count.  This module evaluates each outcome with the TLA+
   definitions of NamePath; NameFromBlobPath is always applied to the path BlobPath returned
   (the round trip of the property).                                                       *)
EXTENDS NamePath, Json, TLC
Trace == ndJsonDeserialize("trace.ndjson")
VARIABLE l
tvars == <<pather, uploaded, stored, l>>
R == Trace[l]

TraceInit == TLCSet(1, 0) /\ Init /\ l = 1
IsEvent(e) == l <= Len(Trace) /\ Trace[l].ev = e /\ l' = l + 1

TReset == IsEvent("reset") /\ pather' = NoPather /\ uploaded' = {} /\ stored' = {}
TNew   == IsEvent("New") /\ R.res = NewRes(R.id) /\ New(R.root, R.id)
TBase  == IsEvent("BasePath") /\ R.res = BasePathRes /\ UNCHANGED vars
TBlob  == IsEvent("BlobPath") /\ R.scheme = pather.scheme /\ R.res = BlobPathRes(R.name) /\ Upload(R.name)
\* the path handed back is one BlobPath produced; the reply must be the name it was produced from
TName  == /\ IsEvent("NameFromBlobPath") /\ R.scheme = pather.scheme
          /\ R.path \in stored
          /\ R.res = NameRes(R.path)
          /\ R.res \in uploaded
          /\ UNCHANGED vars

TraceNext == TReset \/ TNew \/ TBase \/ TBlob \/ TName
TraceSpec == TraceInit /\ [][TraceNext]_tvars

TraceInv == ListingsReportUploads /\ UnderBase

HW == TLCSet(1, IF TLCGet(1) < l THEN l ELSE TLCGet(1))
TraceAccepted == IF TLCGet(1) = Len(Trace) + 1 THEN TRUE
                 ELSE PrintT(<<"REJECTED_AT_LINE", TLCGet(1)>>) /\ FALSE
=============================================================================
