SPECIFICATION SSpec
CONSTANTS
  Names = {"n1"}
  Procs = {"p1", "p2"}
  FixOffset = TRUE
  FixSerialize = TRUE
  Ds = {"d1"}
  Offs = {0, 1}
  SOps = {"Stat", "Download", "Upload"}
  MaxClose = 1
INVARIANT SInv UploadOkIdentical Converged
PROPERTY Stateless
CHECK_DEADLOCK FALSE
