SPECIFICATION TraceSpec
CONSTANTS
  Clients = {"c1", "c2", "c3", "c4"}
  Names = {"n1", "n2", "n3"}
  Procs = {"p1", "p2", "p3"}
  Unit = 1000
  FixOversize = FALSE
  MatchC = 0
  BadC = 0
  Nss = 0
  CfgLists = 0
  Blobs = 0
  Ds = 0
  Ops = 0
  Faults = 0
  Sizeds = 0
  MaxReg = 0
  MaxT = 0
  MaxXfer = 0
  MaxClose = 0
  MaxAdj = 0
INVARIANT Inv RateBound
PROPERTY TRoutingStable TRegisterUnique TBurstFixed
CONSTRAINT HW
POSTCONDITION TraceAccepted
CHECK_DEADLOCK FALSE
