SPECIFICATION Spec
CONSTANTS
  Clients = {"c1", "c2"}
  Names = {"n1"}
  Procs = {"p1", "p2"}
  Unit = 1
  FixOversize = TRUE
  MatchC <- MCMatch
  BadC <- MCBad
  Nss <- MCNss
  CfgLists <- MCCfgPass
  Blobs <- MCBlob1
  Ds = {2}
  Ops <- OpsPass
  Faults = {"none", "err"}
  Sizeds = {TRUE}
  MaxReg = 2
  MaxT = 1
  MaxXfer = 1
  MaxClose = 1
  MaxAdj = 1
INVARIANT Inv RateBound
PROPERTY BurstFixed RoutingStable
CHECK_DEADLOCK FALSE
