SPECIFICATION SSpec
CONSTANTS
  Names = {"n1"}
  Procs = {"p1", "p2"}
  FixOffset = TRUE
  FixSerialize = FALSE
  Ds = {"d1", "d2"}
  Offs = {0, 1}
  SOps = {"Stat", "Download", "Upload", "List", "Close", "Env"}
  MaxClose = 1
INVARIANT Converged
PROPERTY Stateless
CHECK_DEADLOCK FALSE
