------------------------------ MODULE NamePath ------------------------------
(* API-level specification of lib/backend/namepath (property C36).

   Paths are sequences of segments (never strings with slashes).  A root directory is
   [abs, segs, slash]: absolute or relative, depth Len(segs), written with or without a
   trailing slash; "/" is [TRUE, <<>>, TRUE] and "" is [FALSE, <<>>, FALSE].
   A name is [kind, a, b]:
       kind "tag"  a = repository components, b = tag            ("a1/a2:b")   docker_tag
       kind "hex"  a = <<digest>>                                 (64 hex)      sharded_docker_blob
       kind "id"   a = path components                            ("a1/a2")     identity
       kind "bad"  b = the way it is malformed                    (BlobPath must refuse it)
   One action per public call: New, BasePath, BlobPath, NameFromBlobPath; the small backend
   around them (Upload stores under BlobPath, List maps stored paths back with
   NameFromBlobPath) is what the property's "so listings report the names that were uploaded"
   talks about.

   BlobPath is the definition taken from the layout; NameFromBlobPath is written as the
   strict parser of that layout.  Property C36: for every scheme, every root and every valid
   name, NameFromBlobPath(BlobPath(name)) = name (RoundTrip), hence List = uploaded names.  *)
EXTENDS Sequences, FiniteSets, Integers
CONSTANTS RootSegs,    \* tokens for root directory components
          RepoComps,   \* tokens for repository path components (incl. look-alikes of layout keywords)
          Tags,        \* tokens for tags (incl. look-alikes such as "_manifests", "current")
          Hexes,       \* tokens for sha256 hex digests
          IdSegs,      \* tokens for identity name components
          MaxRootDepth, MaxNameDepth, MaxUploads
VARIABLES pather,      \* [root, scheme] as configured by New, or NoPather
          uploaded,    \* names uploaded through this pather
          stored       \* paths the backend holds
vars == <<pather, uploaded, stored>>

Range(s) == {s[i] : i \in 1..Len(s)}
SeqsBetween(S, lo, hi) == UNION {[1..n -> S] : n \in lo..hi}

Schemes    == {"docker_tag", "sharded_docker_blob", "identity"}
NoPather   == [root |-> [abs |-> FALSE, segs |-> <<>>, slash |-> FALSE], scheme |-> "none"]
Roots      == {r \in [abs : BOOLEAN, segs : SeqsBetween(RootSegs, 0, MaxRootDepth), slash : BOOLEAN] :
                 r.segs = <<>> => (r.slash = r.abs)}          \* depth 0: "/" or ""
Err        == [abs |-> FALSE, segs |-> <<"!err">>]
BadName    == [kind |-> "bad", a |-> <<>>, b |-> "!err"]
Path(abs, segs) == [abs |-> abs, segs |-> segs]

TagNames  == [kind : {"tag"}, a : SeqsBetween(RepoComps, 1, MaxNameDepth), b : Tags]
HexNames  == [kind : {"hex"}, a : {<<h>> : h \in Hexes}, b : {""}]
IdNames   == [kind : {"id"}, a : SeqsBetween(IdSegs, 1, MaxNameDepth), b : {""}]
BadKinds  == {"nocolon", "twocolons", "emptyrepo", "emptytag", "short"}
BadNames  == [kind : {"bad"}, a : {<<>>}, b : BadKinds]
ValidNames(scheme) == CASE scheme = "docker_tag" -> TagNames
                        [] scheme = "sharded_docker_blob" -> HexNames
                        [] scheme = "identity" -> IdNames
                        [] OTHER -> {}

----------------------------------------------------------------------------
(* The layout *)
DockerBase == <<"docker", "registry", "v2", "repositories">>
BlobsBase  == <<"docker", "registry", "v2", "blobs">>
Shard(h)   == "sh-" \o h            \* the first two hex characters of digest h, as a token

\* path.Join(root, rel...): cleaned, so the trailing slash of the root never shows
Join(root, rel) == Path(root.abs, root.segs \o rel)

BasePathOf(root, scheme) ==
  CASE scheme = "docker_tag"          -> Join(root, DockerBase)
    [] scheme = "sharded_docker_blob" -> Join(root, BlobsBase)
    [] scheme = "identity"            -> Path(root.abs, root.segs)   \* the root itself (as configured)

BlobPathOf(root, scheme, n) ==
  CASE scheme = "docker_tag" /\ n.kind = "tag" ->
         Join(root, DockerBase \o n.a \o <<"_manifests", "tags", n.b, "current", "link">>)
    [] scheme = "sharded_docker_blob" /\ n.kind = "hex" ->
         Join(root, BlobsBase \o <<"sha256", Shard(n.a[1]), n.a[1], "data">>)
    [] scheme = "identity" /\ n.kind = "id" -> Join(root, n.a)
    [] OTHER -> Err                                              \* malformed name for this scheme

\* strict parser of the layout
NameFromBlobPathOf(root, scheme, p) ==
  LET s == p.segs
      n == Len(s)
      base == BasePathOf(root, scheme).segs
      b == Len(base)
      under == p.abs = root.abs /\ n > b /\ SubSeq(s, 1, b) = base
  IN CASE scheme = "docker_tag" ->
            IF under /\ n >= b + 6 /\ s[n] = "link" /\ s[n - 1] = "current"
                     /\ s[n - 3] = "tags" /\ s[n - 4] = "_manifests"
            THEN [kind |-> "tag", a |-> SubSeq(s, b + 1, n - 5), b |-> s[n - 2]] ELSE BadName
       [] scheme = "sharded_docker_blob" ->
            IF under /\ n = b + 4 /\ s[b + 1] = "sha256" /\ s[n] = "data" /\ s[b + 2] = Shard(s[b + 3])
            THEN [kind |-> "hex", a |-> <<s[b + 3]>>, b |-> ""] ELSE BadName
       [] scheme = "identity" ->
            IF under THEN [kind |-> "id", a |-> SubSeq(s, b + 1, n), b |-> ""] ELSE BadName
       [] OTHER -> BadName

----------------------------------------------------------------------------
(* Public operations *)
Init == pather = NoPather /\ uploaded = {} /\ stored = {}

\* namepath.New(root, id): unknown or empty ids are refused
NewRes(id) == IF id \in Schemes THEN "ok" ELSE "err"
New(root, id) == /\ pather' = (IF id \in Schemes THEN [root |-> root, scheme |-> id] ELSE NoPather)
                 /\ uploaded' = {} /\ stored' = {}

BasePathRes == BasePathOf(pather.root, pather.scheme)
BlobPathRes(n) == BlobPathOf(pather.root, pather.scheme, n)
NameRes(p) == NameFromBlobPathOf(pather.root, pather.scheme, p)

\* an upload stores the blob under BlobPath(name); a refused name stores nothing
Upload(n) == /\ pather.scheme \in Schemes
             /\ IF BlobPathRes(n) = Err THEN UNCHANGED vars
                ELSE /\ uploaded' = uploaded \cup {n} /\ stored' = stored \cup {BlobPathRes(n)}
                     /\ UNCHANGED pather
\* a listing maps every stored path back to a name
ListRes == {NameRes(p) : p \in stored}

Next == \/ \E r \in Roots, id \in Schemes \cup {"", "bogus"} : New(r, id)
        \/ /\ Cardinality(uploaded) < MaxUploads
           /\ \E n \in ValidNames(pather.scheme) \cup BadNames : Upload(n)
Spec == Init /\ [][Next]_vars

----------------------------------------------------------------------------
(* Property C36 *)
TypeOK == /\ pather = NoPather \/ (pather.root \in Roots /\ pather.scheme \in Schemes)
          /\ uploaded \subseteq ValidNames(pather.scheme)

\* converting a valid name to a storage path and back yields the original name
RoundTrip == pather.scheme \in Schemes =>
  \A n \in ValidNames(pather.scheme) :
     /\ BlobPathRes(n) # Err
     /\ NameRes(BlobPathRes(n)) = n
\* malformed names are refused
Refuses == pather.scheme \in Schemes => \A n \in BadNames : BlobPathRes(n) = Err
\* ... so listings report the names that were uploaded
ListingsReportUploads == ListRes = uploaded /\ Cardinality(stored) = Cardinality(uploaded)
\* every blob lives under the base path
UnderBase == pather.scheme \in Schemes => \A p \in stored :
  LET base == BasePathRes.segs IN p.abs = pather.root.abs /\ Len(p.segs) > Len(base) /\ SubSeq(p.segs, 1, Len(base)) = base

Inv == TypeOK /\ RoundTrip /\ Refuses /\ ListingsReportUploads /\ UnderBase
=============================================================================
