SPECIFICATION Spec
CONSTANTS
  RootSegs = {"ra","docker"}
  RepoComps = {"x","tags","_manifests_"}
  Tags = {"t","_manifests","current","link"}
  Hexes = {"d1","d2"}
  IdSegs = {"i1","docker","data"}
  MaxRootDepth = 3
  MaxNameDepth = 3
  MaxUploads = 1
INVARIANT Inv
