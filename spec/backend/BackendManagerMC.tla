--------------------------- MODULE BackendManagerMC ---------------------------
(* Constant values of the BackendManager design configurations (a cfg cannot hold records or sequences). *)
EXTENDS BackendManager

MCMatch == [q \in {"s", "f.*", ".*", "("} |->
              CASE q = "s" -> {"s"} [] q = "f.*" -> {"fx"} [] q = ".*" -> {"s", "fx", "z", NoopNs} [] OTHER -> {}]
MCBad == {"("}
MCNss == {"s", "fx", "z", NoopNs}
E(pat, cl, must, bw, kind, e, i) == [pat |-> pat, cl |-> cl, must |-> must, bw |-> bw, kind |-> kind, e |-> e, i |-> i]
\* routing / readiness / close: no throttling
MCCfgRoute == { <<>>,
                <<E(".*", "c1", TRUE, "off", "ok", 0, 0)>>,
                <<E("s", "c1", FALSE, "on", "ok", 2, 2), E("s", "c2", TRUE, "off", "ok", 0, 0)>>,
                <<E("f.*", "c1", TRUE, "off", "ok", 0, 0), E("(", "c2", FALSE, "off", "ok", 0, 0)>>,
                <<E("s", "c1", FALSE, "zero", "ok", 0, 2)>>,
                <<E("s", "c1", FALSE, "off", "unknown", 0, 0)>> }
\* throttling: one throttled backend (egress bucket 2, ingress bucket 3) next to a plain one
MCCfgThr == { <<E(".*", "c1", TRUE, "on", "ok", 2, 3), E("s", "c2", FALSE, "off", "ok", 0, 0)>> }
MCCfgThr1 == { <<E(".*", "c1", TRUE, "on", "ok", 2, 3)>> }
MCCfgPass == { <<E(".*", "c1", TRUE, "on", "ok", 2, 3), E("s", "c2", TRUE, "off", "ok", 0, 0)>> }
MCBlob1 == {[d |-> "d1", tok |-> 1]}
MCBlobs == {[d |-> "d1", tok |-> 1], [d |-> "d2", tok |-> 2]}
MCBlobsBig == {[d |-> "d1", tok |-> 1], [d |-> "d3", tok |-> 3]}
OpsRoute == {"New", "Register", "Get", "Adjust", "Noop", "Ready", "MClose"}
OpsRouteQ == {"New", "Register", "Adjust", "Ready", "MClose"}
OpsThr == {"New", "Adjust", "Xfer", "EnvPut1"}
OpsThrQ == {"New", "Adjust", "Xfer"}
OpsPass == {"New", "Pass", "EnvPut", "EnvDel", "Ready", "MClose", "Get", "Xfer"}
=============================================================================
