SPECIFICATION Spec
CONSTANTS
  RootSegs = {"ra","rb"}
  RepoComps = {"x","tags"}
  Tags = {"t","_manifests","current"}
  Hexes = {"d1","d2"}
  IdSegs = {"i1","docker"}
  MaxRootDepth = 2
  MaxNameDepth = 2
  MaxUploads = 1
INVARIANT Inv
