SPECIFICATION Spec
CONSTANTS
  Clients = {"c1"}
  Names = {"n1"}
  Procs = {"p1", "p2"}
  Unit = 1
  FixOversize = FALSE
  MatchC <- MCMatch
  BadC <- MCBad
  Nss <- MCNss
  CfgLists <- MCCfgThr1
  Blobs <- MCBlobsBig
  Ds = {2}
  Ops <- OpsThr
  Faults = {"none"}
  Sizeds = {TRUE}
  MaxReg = 1
  MaxT = 3
  MaxXfer = 2
  MaxClose = 0
  MaxAdj = 1
INVARIANT Inv RateBoundFit
PROPERTY BurstFixed
CHECK_DEADLOCK FALSE
