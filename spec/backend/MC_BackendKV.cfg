SPECIFICATION Spec
CONSTANTS
  Names = {"n1","n2"}
  Contents = {"c0","c1"}
  SizeOf <- MCSizeOf
  UnderC <- MCUnder
  Backends <- MCBackends
  MaxPage = 2
  MaxTok = 2
CONSTRAINT TokBound
INVARIANT Inv
PROPERTY NoLoss OnlyUploadWrites TokensImmutable
