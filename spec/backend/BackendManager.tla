---------------------------- MODULE BackendManager ----------------------------
(* Extension module X04, part 1: lib/backend Manager, NoopClient and ThrottledClient.

   Implementation-shaped: one action per public call of backend.Manager (NewManager,
   Register, GetClient, AdjustBandwidth, CheckReadiness, Close), of backend.NoopClient
   and of backend.ThrottledClient (Stat, List, Close, Upload, Download).  Calls that
   touch an inner storage client more than once, or that sleep, are split at every inner
   call, so that other callers and other writers of the same storage interleave:

     CheckReadiness  ReadyCall  ReadyProbe*            Ret     (manager.go:166, one Stat per REQUIRED backend)
     Manager.Close   MCloseCall MCloseStep*            Ret     (manager.go:181, one Close per backend)
     Upload          TCall [Reserve] FwdUpload         Ret     (throttle.go:47)
     Download        TCall DownStat [Reserve] FwdDownload Ret  (throttle.go:59)
     Stat/List/Close TCall FwdStat / FwdList / FwdClose Ret    (embedded Client: plain forwarding)

   The inner clients are abstract key/value stores (cf. BackendKV; only "what is stored
   under a name" matters here) whose every call may also fail with an injected error:
   the environment parameter f of each inner step.  Env* are other writers of the storage.

   Namespace patterns are Go regular expressions; which namespaces a pattern matches is the
   relation `match` (in recorded traces computed by the Go regexp package as an oracle),
   `bad` the patterns that do not compile.

   Bandwidth.  A throttled client owns one token bucket per direction (golang.org/x/time/rate
   as configured by utils/bandwidth: burst = tokens per second = configured bits/s divided by
   the token size; AdjustBandwidth(d) sets the refill rate to max(burst / d, 1) and leaves the
   burst alone).  The model keeps the bucket explicitly (tk, now, Tick, Reserve) exactly like
   rate.Limiter.ReserveN: a reservation is subtracted at once, the caller sleeps until the
   bucket would be non-negative again.  Every forwarded, size-aware transfer is appended to the
   history `xfer` with its call time c, forward time f and token count; the user-level
   guarantee RateBound is stated on that history only, so that recorded traces (which carry
   real monotonic times but no bucket state) are judged by the same formula.
   FixOversize = FALSE is the code as built: a transfer larger than the bucket makes
   ReserveN fail, the error is logged and IGNORED, the transfer is forwarded at once and is
   not accounted (finding X04-1).                                                      *)
EXTENDS Integers, Sequences, FiniteSets

CONSTANTS Clients,      \* inner storage clients "c1".."cN" (one per configured / registered backend)
          Names,        \* blob names
          Procs,        \* concurrent callers
          Unit,         \* time units per second: 1 in the model, 1000 for traces (milliseconds)
          FixOversize   \* TRUE: oversize transfers are reserved (bucket goes into debt); FALSE: as built

NoopNs == "__noop__"    \* backend.NoopNamespace

VARIABLES mgr,     \* a Manager exists (NewManager succeeded)
          reg,     \* Seq of [pat, cl, must, thr]: m.backends in registration order
          match,   \* [pattern -> SUBSET namespaces]  regexp.MatchString, unanchored
          bad,     \* patterns that do not compile
          kv,      \* [Clients -> [Names -> blob]]  what each inner backend stores
          ncl,     \* [Clients -> Nat] Close calls received by each inner client
          burst,   \* [Clients -> [e, i]] bucket sizes in tokens (NoLim: the client is not throttled)
          rate,    \* [Clients -> [e, i]] current refill rates in tokens per second
          pc,      \* [Procs -> call record] the public call each caller is executing
          xfer,    \* Seq of forwarded throttled transfers
          rlog,    \* Seq of [t0, t1, rate]: the rates in force (set between t0 and t1), for the bound only
          now, tk  \* model only: clock (in Units) and bucket fill [Clients -> [e, i]] (may be negative)
vars == <<mgr, reg, match, bad, kv, ncl, burst, rate, pc, xfer, rlog, now, tk>>

Range(s) == {s[i] : i \in 1..Len(s)}
Max(a, b) == IF a >= b THEN a ELSE b
Min(a, b) == IF a <= b THEN a ELSE b
MinS(S) == CHOOSE x \in S : \A y \in S : x <= y
CeilDiv(a, b) == (a + b - 1) \div b

None   == [d |-> "none", tok |-> 0]        \* blob = [d: content id, tok: tokens its size costs]
NoLim  == [e |-> 0, i |-> 0]
NoOpts == [pg |-> FALSE, max |-> 0, tok |-> ""]
Idle == [op |-> "idle", step |-> "idle", cl |-> "", ns |-> "", n |-> "", blob |-> None, sized |-> FALSE,
         opts |-> NoOpts, c |-> 0, ready |-> 0, tok |-> 0, r |-> 0, over |-> FALSE,
         res |-> "none", got |-> None, names |-> {}, probed |-> <<>>, i |-> 0, nerr |-> 0]
Throttled(c) == burst[c] # NoLim
AllIdle == \A p \in Procs : pc[p] = Idle
Stored(c) == {n \in Names : kv[c][n] # None}

----------------------------------------------------------------------------
(* NewManager(configs): all or nothing.  An entry is refused when it names no / two / an unknown
   backend, when the factory fails, when bandwidth is enabled with a zero rate, or when the namespace
   does not compile.  Duplicate namespaces are NOT refused here (only Register checks).            *)
EntryOK(e) == e.kind = "ok" /\ e.bw # "zero" /\ e.pat \notin bad
NewRes(cfgs) == IF \A k \in 1..Len(cfgs) : EntryOK(cfgs[k]) THEN "ok" ELSE "err"
LimOf(cfgs, c) == LET K == {k \in 1..Len(cfgs) : cfgs[k].cl = c /\ cfgs[k].bw = "on"}
                  IN IF K = {} THEN NoLim ELSE [e |-> cfgs[MinS(K)].e, i |-> cfgs[MinS(K)].i]
New(cfgs, t) ==
  /\ ~mgr /\ AllIdle
  /\ IF NewRes(cfgs) = "ok"
     THEN /\ mgr' = TRUE
          /\ reg' = [k \in 1..Len(cfgs) |-> [pat |-> cfgs[k].pat, cl |-> cfgs[k].cl, must |-> cfgs[k].must,
                                              thr |-> cfgs[k].bw = "on"]]
          /\ burst' = [c \in Clients |-> LimOf(cfgs, c)]
          /\ rate' = burst' /\ tk' = burst'
          /\ rlog' = <<[t0 |-> t, t1 |-> t, rate |-> burst']>>
     ELSE UNCHANGED <<mgr, reg, burst, rate, tk, rlog>>
  /\ UNCHANGED <<match, bad, kv, ncl, pc, xfer, now>>

(* Register(namespace, client, mustReady): refused for a namespace string already registered and for
   one that does not compile; otherwise appended (never throttled).  Manager has no lock: Register
   is specified only while no other Manager call is running.                                        *)
RegisterRes(pat) == IF (\E k \in 1..Len(reg) : reg[k].pat = pat) \/ pat \in bad THEN "err" ELSE "ok"
Register(pat, c, must) ==
  /\ mgr /\ AllIdle
  /\ reg' = IF RegisterRes(pat) = "ok" THEN Append(reg, [pat |-> pat, cl |-> c, must |-> must, thr |-> FALSE]) ELSE reg
  /\ UNCHANGED <<mgr, match, bad, kv, ncl, burst, rate, pc, xfer, rlog, now, tk>>

(* GetClient(namespace): the noop namespace first, then the FIRST registered pattern that matches. *)
Matching(ns) == {k \in 1..Len(reg) : ns \in match[reg[k].pat]}
GetRes(ns) == IF ns = NoopNs THEN [res |-> "noop", cl |-> "", thr |-> FALSE]
              ELSE IF Matching(ns) = {} THEN [res |-> "notfound", cl |-> "", thr |-> FALSE]
              ELSE [res |-> "ok", cl |-> reg[MinS(Matching(ns))].cl, thr |-> reg[MinS(Matching(ns))].thr]
Get(ns) == mgr /\ UNCHANGED vars

(* AdjustBandwidth(d): every throttled backend gets rate max(burst / d, 1); d <= 0 is an error as soon as
   there is a throttled backend (and nothing is changed: the first throttled backend refuses).          *)
ThrIdx == {k \in 1..Len(reg) : reg[k].thr}
AdjustRes(d) == IF ThrIdx # {} /\ d <= 0 THEN "err" ELSE "ok"
Adj(x, d) == Max(x \div d, 1)
Adjust(d, t0, t1) ==     \* [t0, t1]: the call's duration (the instant the limits change lies inside)
  /\ mgr
  /\ rate' = IF d > 0
             THEN [c \in Clients |-> IF \E k \in ThrIdx : reg[k].cl = c
                                     THEN [e |-> Adj(burst[c].e, d), i |-> Adj(burst[c].i, d)] ELSE rate[c]]
             ELSE rate
  /\ rlog' = IF d > 0 /\ ThrIdx # {} THEN Append(rlog, [t0 |-> t0, t1 |-> t1, rate |-> rate']) ELSE rlog
  /\ UNCHANGED <<mgr, reg, match, bad, kv, ncl, burst, pc, xfer, now, tk>>

(* NoopClient: uploads succeed, lookups 404, List returns (nil, nil); no state, no inner call. *)
NoopRes(op) == CASE op = "Stat" -> "notfound" [] op = "Download" -> "notfound" [] op = "Upload" -> "ok"
                 [] op = "List" -> "nil" [] op = "Close" -> "ok"
Noop(op) == op \in {"Stat", "Download", "Upload", "List", "Close"} /\ UNCHANGED vars

----------------------------------------------------------------------------
(* CheckReadiness *)
MustFrom(k) == {j \in k..Len(reg) : reg[j].must}
ReadyCall(p) ==
  /\ mgr /\ pc[p] = Idle
  /\ pc' = [pc EXCEPT ![p] = IF MustFrom(1) = {} THEN [Idle EXCEPT !.op = "Ready", !.step = "ret", !.res = "ok"]
                             ELSE [Idle EXCEPT !.op = "Ready", !.step = "probe", !.i = MinS(MustFrom(1))]]
  /\ UNCHANGED <<mgr, reg, match, bad, kv, ncl, burst, rate, xfer, rlog, now, tk>>
\* one b.client.Stat(ReadinessCheckNamespace, ReadinessCheckName); r is what the backend answers
ReadyProbe(p, r) ==
  /\ pc[p].op = "Ready" /\ pc[p].step = "probe" /\ r \in {"ok", "notfound", "err"}
  /\ LET me == pc[p]  nxt == MustFrom(me.i + 1) IN
     pc' = [pc EXCEPT ![p] = [me EXCEPT !.probed = Append(me.probed, [k |-> me.i, r |-> r]),
                                        !.step = IF r = "err" \/ nxt = {} THEN "ret" ELSE "probe",
                                        !.res = IF r = "err" THEN "notready" ELSE IF nxt = {} THEN "ok" ELSE "none",
                                        !.i = IF r # "err" /\ nxt # {} THEN MinS(nxt) ELSE me.i]]
  /\ UNCHANGED <<mgr, reg, match, bad, kv, ncl, burst, rate, xfer, rlog, now, tk>>

(* Manager.Close: closes every backend in order, keeps going after an error, reports an error iff any failed. *)
MCloseCall(p) ==
  /\ mgr /\ pc[p] = Idle
  /\ pc' = [pc EXCEPT ![p] = IF Len(reg) = 0 THEN [Idle EXCEPT !.op = "MClose", !.step = "ret", !.res = "ok"]
                             ELSE [Idle EXCEPT !.op = "MClose", !.step = "close", !.i = 1]]
  /\ UNCHANGED <<mgr, reg, match, bad, kv, ncl, burst, rate, xfer, rlog, now, tk>>
MCloseStep(p, f) ==
  /\ pc[p].op = "MClose" /\ pc[p].step = "close" /\ f \in {"none", "err"}
  /\ LET me == pc[p]  c == reg[me.i].cl  ne == me.nerr + (IF f = "err" THEN 1 ELSE 0)  last == me.i = Len(reg) IN
     /\ ncl' = [ncl EXCEPT ![c] = @ + 1]
     /\ pc' = [pc EXCEPT ![p] = [me EXCEPT !.probed = Append(me.probed, [k |-> me.i, r |-> IF f = "err" THEN "err" ELSE "ok"]),
                                          !.nerr = ne, !.i = IF last THEN me.i ELSE me.i + 1,
                                          !.step = IF last THEN "ret" ELSE "close",
                                          !.res = IF ~last THEN "none" ELSE IF ne > 0 THEN "err" ELSE "ok"]]
  /\ UNCHANGED <<mgr, reg, match, bad, kv, burst, rate, xfer, rlog, now, tk>>

----------------------------------------------------------------------------
(* ThrottledClient.  t = time of the step; fused = TRUE: the reservation is taken in the same step as the
   call / the Stat (recorded traces do not see the reservation as an event of its own).               *)
Reserved(me, dir, n, t) == [me EXCEPT !.step = "fwd", !.c = t, !.ready = t, !.tok = n, !.r = rate[me.cl][dir],
                                      !.over = n > burst[me.cl][dir]]
TCall(p, op, c, ns, n, blob, sized, opts, t, fused) ==
  /\ mgr /\ pc[p] = Idle /\ c \in Clients /\ Throttled(c)
  /\ op \in {"Upload", "Download", "Stat", "List", "Close"}
  /\ LET me == [Idle EXCEPT !.op = op, !.cl = c, !.ns = ns, !.n = n, !.blob = blob, !.sized = sized, !.opts = opts, !.c = t] IN
     pc' = [pc EXCEPT ![p] =
              CASE op = "Upload" /\ sized /\ fused  -> Reserved(me, "e", blob.tok, t)
                [] op = "Upload" /\ sized /\ ~fused -> [me EXCEPT !.step = "reserve", !.tok = blob.tok]
                [] op = "Download"                  -> [me EXCEPT !.step = "stat"]
                [] OTHER                            -> [me EXCEPT !.step = "fwd"]]   \* unsized Upload: never throttled
  /\ UNCHANGED <<mgr, reg, match, bad, kv, ncl, burst, rate, xfer, rlog, now, tk>>

StatOf(c, n, f) == IF f = "err" THEN "err" ELSE IF kv[c][n] = None THEN "notfound" ELSE "ok"

\* Download, first half: c.Stat(namespace, name); a failure is the result of the Download and nothing else is called
DownStat(p, f, t, fused) ==
  /\ pc[p].op = "Download" /\ pc[p].step = "stat" /\ f \in {"none", "err"}
  /\ LET me == pc[p]  r == StatOf(me.cl, me.n, f)  n == kv[me.cl][me.n].tok IN
     pc' = [pc EXCEPT ![p] = IF r # "ok" THEN [me EXCEPT !.step = "ret", !.res = r]
                             ELSE IF fused THEN Reserved(me, "i", n, t)
                             ELSE [me EXCEPT !.step = "reserve", !.tok = n]]
  /\ UNCHANGED <<mgr, reg, match, bad, kv, ncl, burst, rate, xfer, rlog, now, tk>>

Entry(me, dir, t) == [cl |-> me.cl, dir |-> dir, tok |-> me.tok, c |-> me.c, f |-> t, r |-> me.r,
                      b |-> burst[me.cl][dir], over |-> me.over]

FwdUpload(p, f, t) ==
  /\ pc[p].op = "Upload" /\ pc[p].step = "fwd" /\ f \in {"none", "err"}
  /\ LET me == pc[p] IN
     /\ kv' = IF f = "err" THEN kv ELSE [kv EXCEPT ![me.cl][me.n] = me.blob]
     /\ xfer' = IF me.sized THEN Append(xfer, Entry(me, "e", t)) ELSE xfer
     /\ pc' = [pc EXCEPT ![p] = [me EXCEPT !.step = "ret", !.res = IF f = "err" THEN "err" ELSE "ok"]]
  /\ UNCHANGED <<mgr, reg, match, bad, ncl, burst, rate, rlog, now, tk>>
FwdDownload(p, f, t) ==
  /\ pc[p].op = "Download" /\ pc[p].step = "fwd" /\ f \in {"none", "err"}
  /\ LET me == pc[p]  r == StatOf(me.cl, me.n, f) IN
     /\ xfer' = Append(xfer, Entry(me, "i", t))
     /\ pc' = [pc EXCEPT ![p] = [me EXCEPT !.step = "ret", !.res = r, !.got = IF r = "ok" THEN kv[me.cl][me.n] ELSE None]]
  /\ UNCHANGED <<mgr, reg, match, bad, kv, ncl, burst, rate, rlog, now, tk>>
FwdStat(p, f) ==
  /\ pc[p].op = "Stat" /\ pc[p].step = "fwd" /\ f \in {"none", "err"}
  /\ LET me == pc[p]  r == StatOf(me.cl, me.n, f) IN
     pc' = [pc EXCEPT ![p] = [me EXCEPT !.step = "ret", !.res = r, !.got = IF r = "ok" THEN kv[me.cl][me.n] ELSE None]]
  /\ UNCHANGED <<mgr, reg, match, bad, kv, ncl, burst, rate, xfer, rlog, now, tk>>
FwdList(p, f) ==
  /\ pc[p].op = "List" /\ pc[p].step = "fwd" /\ f \in {"none", "err"}
  /\ LET me == pc[p] IN
     pc' = [pc EXCEPT ![p] = [me EXCEPT !.step = "ret", !.res = IF f = "err" THEN "err" ELSE "ok",
                                        !.names = IF f = "err" THEN {} ELSE Stored(me.cl)]]
  /\ UNCHANGED <<mgr, reg, match, bad, kv, ncl, burst, rate, xfer, rlog, now, tk>>
FwdClose(p, f) ==
  /\ pc[p].op = "Close" /\ pc[p].step = "fwd" /\ f \in {"none", "err"}
  /\ LET me == pc[p] IN
     /\ ncl' = [ncl EXCEPT ![me.cl] = @ + 1]
     /\ pc' = [pc EXCEPT ![p] = [me EXCEPT !.step = "ret", !.res = IF f = "err" THEN "err" ELSE "ok"]]
  /\ UNCHANGED <<mgr, reg, match, bad, kv, burst, rate, xfer, rlog, now, tk>>

\* the call returns what its last step computed (reply = pc[p] in the pre-state)
Ret(p) ==
  /\ pc[p].step = "ret"
  /\ pc' = [pc EXCEPT ![p] = Idle]
  /\ UNCHANGED <<mgr, reg, match, bad, kv, ncl, burst, rate, xfer, rlog, now, tk>>

\* other writers of the same storage
EnvPut(c, n, blob) == /\ blob # None /\ kv' = [kv EXCEPT ![c][n] = blob]
                      /\ UNCHANGED <<mgr, reg, match, bad, ncl, burst, rate, pc, xfer, rlog, now, tk>>
EnvDel(c, n) == /\ kv[c][n] # None /\ kv' = [kv EXCEPT ![c][n] = None]
                /\ UNCHANGED <<mgr, reg, match, bad, ncl, burst, rate, pc, xfer, rlog, now, tk>>

----------------------------------------------------------------------------
(* Model of the token buckets (rate.Limiter): used by Next only, never by the trace specification. *)
Refill(c, dir) == Min(burst[c][dir], tk[c][dir] + rate[c][dir])      \* one Tick = one second (the model runs with Unit = 1)
Tick == /\ now' = now + 1
        /\ tk' = [c \in Clients |-> [e |-> Refill(c, "e"), i |-> Refill(c, "i")]]
        /\ UNCHANGED <<mgr, reg, match, bad, kv, ncl, burst, rate, pc, xfer, rlog>>
Reserve(p) ==
  /\ pc[p].step = "reserve"
  /\ LET me == pc[p]  c == me.cl  dir == IF me.op = "Upload" THEN "e" ELSE "i"
         n == me.tok  have == tk[c][dir]  rt == rate[c][dir] IN
     IF n > burst[c][dir] /\ ~FixOversize
     THEN /\ pc' = [pc EXCEPT ![p] = Reserved(me, dir, n, now)]         \* ReserveN fails, "Ignore error"
          /\ tk' = tk
     ELSE /\ tk' = [tk EXCEPT ![c][dir] = have - n]
          /\ pc' = [pc EXCEPT ![p] = [Reserved(me, dir, n, now) EXCEPT
                                        !.ready = now + (IF have >= n THEN 0 ELSE CeilDiv((n - have) * Unit, rt))]]
  /\ UNCHANGED <<mgr, reg, match, bad, kv, ncl, burst, rate, xfer, rlog, now>>

----------------------------------------------------------------------------
(* Design model (TLC): small alphabets, every public operation, the token buckets, two callers. *)
CONSTANTS MatchC, BadC,   \* the pattern alphabet and what it matches (MC only; traces bring their own)
          Nss,            \* namespaces asked for
          CfgLists,       \* configuration lists NewManager is tried with
          Blobs,          \* blobs uploaded / put by the environment
          Ds,             \* AdjustBandwidth denominators
          Ops,            \* operations enabled in this configuration
          Faults, Sizeds, \* injected faults of transfer steps ({"none", "err"}), src-has-Size choices
          MaxReg, MaxT, MaxXfer, MaxClose, MaxAdj   \* bounds

Init == /\ mgr = FALSE /\ reg = <<>> /\ match = MatchC /\ bad = BadC
        /\ kv = [c \in Clients |-> [n \in Names |-> None]] /\ ncl = [c \in Clients |-> 0]
        /\ burst = [c \in Clients |-> NoLim] /\ rate = burst /\ tk = burst
        /\ pc = [p \in Procs |-> Idle] /\ xfer = <<>> /\ rlog = <<>> /\ now = 0

On(o) == o \in Ops
InFlight == Cardinality({p \in Procs : pc[p].op \in {"Upload", "Download"} /\ (pc[p].op = "Download" \/ pc[p].sized)})
Closes == Cardinality({p \in Procs : pc[p].op \in {"Close", "MClose"}})
RECURSIVE SumCl(_)
SumCl(S) == IF S = {} THEN 0 ELSE LET c == CHOOSE x \in S : TRUE IN ncl[c] + SumCl(S \ {c})
Go(p) == now >= pc[p].ready        \* time.Sleep(r.Delay()) is over (it may oversleep)

Next ==
  \/ On("New") /\ \E cfgs \in CfgLists : New(cfgs, now)
  \/ On("Register") /\ Len(reg) < MaxReg /\ \E q \in DOMAIN match, c \in Clients, must \in BOOLEAN : Register(q, c, must)
  \/ On("Get") /\ \E ns \in Nss : Get(ns)
  \/ On("Adjust") /\ Len(rlog) <= MaxAdj /\ \E d \in Ds : Adjust(d, now, now)
  \/ On("Noop") /\ \E op \in {"Stat", "Download", "Upload", "List", "Close"} : Noop(op)
  \/ On("Ready") /\ \E p \in Procs : ReadyCall(p)
  \/ \E p \in Procs, r \in {"ok", "notfound", "err"} : ReadyProbe(p, r)
  \/ On("MClose") /\ SumCl(Clients) + Closes * MaxReg < MaxClose /\ \E p \in Procs : MCloseCall(p)
  \/ \E p \in Procs, f \in {"none", "err"} : MCloseStep(p, f)
  \/ On("Xfer") /\ Len(xfer) + InFlight < MaxXfer /\
       \E p \in Procs, c \in Clients, n \in Names, b \in Blobs, sized \in Sizeds :
          \/ TCall(p, "Upload", c, "ns", n, b, sized, NoOpts, now, FALSE)
          \/ TCall(p, "Download", c, "ns", n, None, FALSE, NoOpts, now, FALSE)
  \/ On("Pass") /\ \E p \in Procs, c \in Clients, n \in Names :
          \/ TCall(p, "Stat", c, "ns", n, None, FALSE, NoOpts, now, FALSE)
          \/ TCall(p, "List", c, "", "", None, FALSE, NoOpts, now, FALSE)
          \/ SumCl(Clients) + Closes * MaxReg < MaxClose /\ TCall(p, "Close", c, "", "", None, FALSE, NoOpts, now, FALSE)
  \/ \E p \in Procs, f \in Faults :
          \/ DownStat(p, f, now, FALSE)
          \/ Go(p) /\ FwdUpload(p, f, now)
          \/ Go(p) /\ FwdDownload(p, f, now)
          \/ FwdStat(p, f) \/ FwdList(p, f) \/ FwdClose(p, f)
  \/ \E p \in Procs : Reserve(p) \/ Ret(p)
  \/ On("EnvPut") /\ \E c \in Clients, n \in Names, b \in Blobs : EnvPut(c, n, b)
  \/ On("EnvPut1") /\ \E c \in Clients, n \in Names, b \in Blobs : kv[c][n] = None /\ EnvPut(c, n, b)
  \/ On("EnvDel") /\ \E c \in Clients, n \in Names : EnvDel(c, n)
  \/ now < MaxT /\ Tick
Spec == Init /\ [][Next]_vars

----------------------------------------------------------------------------
(* Guarantees a user of the subsystem relies on. *)

\* G1  the noop namespace is answered by the noop client whatever is registered (even ".*")
NoopAlways == GetRes(NoopNs).res = "noop"

\* G2  GetClient is a function of (registration order, namespace): the answer is the client of the first
\*     registered pattern that matches, ErrNamespaceNotFound iff no pattern matches
FirstMatchWins == \A ns \in UNION {match[q] : q \in DOMAIN match} \cup {"-unmatched-"} : ns # NoopNs =>
    LET g == GetRes(ns) IN
    IF \E k \in 1..Len(reg) : ns \in match[reg[k].pat]
    THEN \E k \in 1..Len(reg) : /\ ns \in match[reg[k].pat] /\ g = [res |-> "ok", cl |-> reg[k].cl, thr |-> reg[k].thr]
                                /\ \A j \in 1..(k - 1) : ns \notin match[reg[j].pat]
    ELSE g.res = "notfound"

\* G3  registering more backends never re-routes a namespace that already has one; registrations are never lost
RoutingStable == [][(mgr /\ mgr') => /\ Len(reg') >= Len(reg) /\ \A k \in 1..Len(reg) : reg'[k] = reg[k]
                                     /\ \A q \in DOMAIN match : \A ns \in match[q] :
                                           GetRes(ns).res = "ok" => GetRes(ns)' = GetRes(ns)]_vars

\* G4  every registered pattern compiles, and Register never adds a second backend for a namespace string
PatternsValid == \A k \in 1..Len(reg) : reg[k].pat \notin bad
RegisterUnique == [][(mgr /\ Len(reg') = Len(reg) + 1) => \A k \in 1..Len(reg) : reg[k].pat # reg'[Len(reg')].pat]_vars

\* G5  readiness is the conjunction over the REQUIRED backends, probed in registration order, stopping at the
\*     first failure; a missing probe blob counts as ready; backends not marked required are never probed
ReadyIsConjunction == \A p \in Procs : (pc[p].op = "Ready" /\ pc[p].step = "ret") =>
    LET pr == pc[p].probed  must == MustFrom(1) IN
    /\ \A x \in 1..Len(pr) : /\ pr[x].k \in must
                             /\ Cardinality({j \in must : j < pr[x].k}) = x - 1
                             /\ x < Len(pr) => pr[x].r # "err"
    /\ pc[p].res \in {"ok", "notready"}
    /\ pc[p].res = "ok" <=> (Len(pr) = Cardinality(must) /\ \A x \in 1..Len(pr) : pr[x].r # "err")
    /\ pc[p].res = "notready" <=> (Len(pr) > 0 /\ pr[Len(pr)].r = "err")

\* G6  Manager.Close closes every backend exactly once, in order, also after a failure, and reports a failure iff one failed
CloseReachesAll == \A p \in Procs : (pc[p].op = "MClose" /\ pc[p].step = "ret") =>
    LET pr == pc[p].probed IN
    /\ Len(pr) = Len(reg) /\ \A x \in 1..Len(pr) : pr[x].k = x
    /\ pc[p].res = "err" <=> \E x \in 1..Len(pr) : pr[x].r = "err"

\* G7  a throttled client never moves more than the configured bandwidth: for every window [c_i, f_j] the tokens of
\*     the transfers that were called and forwarded inside the window are at most one bucket plus what the highest
\*     rate in force could refill during the window.  (Token bucket bound; one-sided, so a slow machine cannot break it.)
SameBucket(a, b) == xfer[a].cl = xfer[b].cl /\ xfer[a].dir = xfer[b].dir
Window(i, j, S) == {k \in S : SameBucket(k, i) /\ xfer[k].c >= xfer[i].c /\ xfer[k].f <= xfer[j].f}
RECURSIVE SumTok(_)
SumTok(S) == IF S = {} THEN 0 ELSE LET k == CHOOSE x \in S : TRUE IN xfer[k].tok + SumTok(S \ {k})
\* the highest rate in force at some moment of [a, b]: every setting made up to b that was not replaced before a
InForce(a, b) == {k \in 1..Len(rlog) : rlog[k].t0 <= b /\ ~\E k2 \in (k + 1)..Len(rlog) : rlog[k2].t1 < a}
MaxRate(c, dir, a, b) == LET K == InForce(a, b)
                             k == CHOOSE x \in K : \A y \in K : rlog[x].rate[c][dir] >= rlog[y].rate[c][dir]
                         IN rlog[k].rate[c][dir]
BoundOn(S) == \A i \in S, j \in S : (SameBucket(i, j) /\ xfer[i].c <= xfer[j].f) =>
    LET W == Window(i, j, S) IN
    W # {} => SumTok(W) * Unit <= xfer[i].b * Unit + MaxRate(xfer[i].cl, xfer[i].dir, xfer[i].c, xfer[j].f) * (xfer[j].f - xfer[i].c)
RateBound    == BoundOn(1..Len(xfer))
\* the same, not counting transfers larger than the bucket (holds for the code as built)
RateBoundFit == BoundOn({k \in 1..Len(xfer) : ~xfer[k].over})

\* G8  limits: bucket sizes never change, rates stay within [1, bucket], un-throttled clients have no limiter
LimitsSane == \A c \in Clients : IF Throttled(c)
                                 THEN /\ 1 <= rate[c].e /\ rate[c].e <= burst[c].e /\ 1 <= rate[c].i /\ rate[c].i <= burst[c].i
                                 ELSE rate[c] = NoLim
BurstFixed == [][mgr => burst' = burst]_vars

\* G9  a throttled client is transparent: every operation reaches the inner client exactly once with the same arguments
\*     (Download: after a successful Stat), and the caller gets the inner client's answer.  In this module that is how the
\*     Fwd* actions are written; on recorded traces every inner call is an event that must match the pending call.
ThrottleTransparent == \A p \in Procs : (pc[p].step = "ret" /\ pc[p].op = "Download" /\ pc[p].res = "ok") => pc[p].got # None

TypeOK == /\ mgr \in BOOLEAN /\ \A k \in 1..Len(reg) : reg[k].cl \in Clients /\ reg[k].thr => Throttled(reg[k].cl)
          /\ \A p \in Procs : pc[p].step \in {"idle", "probe", "close", "stat", "reserve", "fwd", "ret"}
Inv == NoopAlways /\ FirstMatchWins /\ PatternsValid /\ ReadyIsConjunction /\ CloseReachesAll /\ LimitsSane
       /\ ThrottleTransparent /\ TypeOK
=============================================================================
