---------------------------- MODULE ShadowBackend ----------------------------
(* Extension module X04, part 2: lib/backend/shadowbackend.Client ("shadow mode": writes go to an
   ACTIVE and a SHADOW backend, reads come from the active one).

   Implementation-shaped: every public call is split at each call of an inner backend client (and at
   the rewind of the source), so that concurrent callers and other writers interleave:

     Stat      Call  StatA StatS            Ret   (client.go:207  both backends are asked; the info is the active's)
     Download  Call  DownA                  Ret   (client.go:235)
     Upload    Call  UpA  Seek  UpS         Ret   (client.go:241  active first; stops at the first failure)
     List      Call  ListA                  Ret   (client.go:268)
     Close     Call  CloseA CloseS          Ret   (client.go:277  both are closed even if the first fails)

   The two inner backends are abstract key/value stores; each inner call may fail with an injected
   error (environment parameter f).  A stored value is [d, from]: the bytes of content d from offset
   `from` to its end, so that "identical bytes in both backends" is record equality.

   FixOffset    = FALSE is the code as built: before the second upload the source is rewound to offset 0
                  and not to where the caller handed it over (finding X04-2).
   FixSerialize = FALSE is the code as built: uploads of the same name are not serialized, two concurrent
                  uploads may cross between the backends (finding X04-3).                            *)
EXTENDS Integers, Sequences, FiniteSets

CONSTANTS Names, Procs, FixOffset, FixSerialize

VARIABLES kv,      \* [{"a","s"} -> [Names -> value]]
          ncl,     \* [{"a","s"} -> Nat] Close calls received
          pc,      \* [Procs -> call record]
          tainted  \* ghost [Names -> BOOLEAN]: the backends may legitimately differ on the name (a failed or
                   \* refused-half-way upload, or a foreign write), until a later undisturbed upload succeeds
svars == <<kv, ncl, pc, tainted>>

BE == {"a", "s"}
None == [d |-> "none", from |-> 0]
Idle == [op |-> "idle", step |-> "idle", n |-> "", d |-> "none", kind |-> "", off |-> 0,
         ra |-> "none", rs |-> "none", rseek |-> "none", wa |-> None, ws |-> None, res |-> "none", got |-> None,
         names |-> {}, alone |-> FALSE, scalls |-> 0]
Stored(b) == {n \in Names : kv[b][n] # None}
StatOf(b, n, f) == IF f = "err" THEN "err" ELSE IF kv[b][n] = None THEN "notfound" ELSE "ok"
Uploading(n) == {q \in Procs : pc[q].op = "Upload" /\ pc[q].n = n /\ pc[q].step # "ret"}

(* ---- calls ---- *)
Call(p, op, n, d, kind, off) ==
  /\ pc[p] = Idle /\ op \in {"Stat", "Download", "Upload", "List", "Close"}
  /\ (op = "Upload" /\ kind = "seek" /\ FixSerialize) => Uploading(n) = {}        \* per-name lock of the repaired client
  /\ LET me == [Idle EXCEPT !.op = op, !.n = n, !.d = d, !.kind = kind, !.off = off] IN
     pc' = [q \in Procs |->
              IF q = p THEN CASE op = "Stat" -> [me EXCEPT !.step = "statA"]
                              [] op = "Download" -> [me EXCEPT !.step = "downA"]
                              [] op = "List" -> [me EXCEPT !.step = "listA"]
                              [] op = "Close" -> [me EXCEPT !.step = "closeA"]
                              [] op = "Upload" /\ kind # "seek" -> [me EXCEPT !.step = "ret", !.res = "other"]  \* not an io.ReadSeeker
                              [] OTHER -> [me EXCEPT !.step = "upA", !.alone = Uploading(n) = {}]
              ELSE IF op = "Upload" /\ kind = "seek" /\ q \in Uploading(n) THEN [pc[q] EXCEPT !.alone = FALSE]
              ELSE pc[q]]
  /\ UNCHANGED <<kv, ncl, tainted>>

(* ---- Stat: "read from both, fail if error from either" ---- *)
StatA(p, f) ==
  /\ pc[p].step = "statA" /\ f \in {"none", "err"}
  /\ LET me == pc[p]  r == StatOf("a", me.n, f) IN
     pc' = [pc EXCEPT ![p] = [me EXCEPT !.step = "statS", !.ra = r, !.got = IF r = "ok" THEN kv["a"][me.n] ELSE None]]
  /\ UNCHANGED <<kv, ncl, tainted>>
\* the answer: not found iff both say so; one failure is returned as it is; two failures give a new error
StatRes(ra, rs) == IF ra = "notfound" /\ rs = "notfound" THEN "notfound"
                   ELSE IF ra = "ok" /\ rs = "ok" THEN "ok"
                   ELSE IF ra # "ok" /\ rs = "ok" THEN (IF ra = "err" THEN "erra" ELSE "notfound")
                   ELSE IF ra = "ok" /\ rs # "ok" THEN (IF rs = "err" THEN "errs" ELSE "notfound")
                   ELSE "other"
StatS(p, f) ==
  /\ pc[p].step = "statS" /\ f \in {"none", "err"}
  /\ LET me == pc[p]  rs == StatOf("s", me.n, f)  r == StatRes(me.ra, rs) IN
     pc' = [pc EXCEPT ![p] = [me EXCEPT !.step = "ret", !.rs = rs, !.res = r, !.scalls = 1,
                                        !.got = IF r = "ok" THEN me.got ELSE None]]
  /\ UNCHANGED <<kv, ncl, tainted>>

(* ---- Download and List: the active backend only ---- *)
DownA(p, f) ==
  /\ pc[p].step = "downA" /\ f \in {"none", "err"}
  /\ LET me == pc[p]  r == StatOf("a", me.n, f) IN
     pc' = [pc EXCEPT ![p] = [me EXCEPT !.step = "ret", !.ra = r, !.res = IF r = "err" THEN "erra" ELSE r,
                                        !.got = IF r = "ok" THEN kv["a"][me.n] ELSE None]]
  /\ UNCHANGED <<kv, ncl, tainted>>
ListA(p, f) ==
  /\ pc[p].step = "listA" /\ f \in {"none", "err"}
  /\ pc' = [pc EXCEPT ![p] = [@ EXCEPT !.step = "ret", !.res = IF f = "err" THEN "erra" ELSE "ok",
                                       !.names = IF f = "err" THEN {} ELSE Stored("a")]]
  /\ UNCHANGED <<kv, ncl, tainted>>

(* ---- Upload: active, rewind, shadow; v = what the inner backend received ---- *)
Handed(me) == [d |-> me.d, from |-> me.off]        \* the bytes the caller handed over
UpA(p, f, v) ==
  /\ pc[p].step = "upA" /\ f \in {"none", "err"}
  /\ LET me == pc[p] IN
     /\ kv' = IF f = "err" THEN kv ELSE [kv EXCEPT !["a"][me.n] = v]
     /\ pc' = [pc EXCEPT ![p] = IF f = "err" THEN [me EXCEPT !.step = "ret", !.ra = "err", !.res = "erra"]
                                ELSE [me EXCEPT !.step = "seek", !.ra = "ok", !.wa = v]]
  /\ UNCHANGED <<ncl, tainted>>
Seek(p, f) ==
  /\ pc[p].step = "seek" /\ f \in {"none", "err"}
  /\ pc' = [pc EXCEPT ![p] = IF f = "err" THEN [@ EXCEPT !.step = "ret", !.rseek = "err", !.res = "errseek"]
                             ELSE [@ EXCEPT !.step = "upS", !.rseek = "ok"]]
  /\ tainted' = IF f = "err" THEN [tainted EXCEPT ![pc[p].n] = TRUE] ELSE tainted    \* the active has it, the shadow will not
  /\ UNCHANGED <<kv, ncl>>
UpS(p, f, v) ==
  /\ pc[p].step = "upS" /\ f \in {"none", "err"}
  /\ LET me == pc[p] IN
     /\ kv' = IF f = "err" THEN kv ELSE [kv EXCEPT !["s"][me.n] = v]
     /\ pc' = [pc EXCEPT ![p] = IF f = "err" THEN [me EXCEPT !.step = "ret", !.rs = "err", !.res = "errs", !.scalls = 1]
                                ELSE [me EXCEPT !.step = "ret", !.rs = "ok", !.ws = v, !.res = "ok", !.scalls = 1]]
     \* an undisturbed upload that succeeded brings the two backends together again
     /\ tainted' = IF f = "err" THEN [tainted EXCEPT ![me.n] = TRUE]
                   ELSE IF me.alone THEN [tainted EXCEPT ![me.n] = FALSE] ELSE tainted
  /\ UNCHANGED ncl

(* ---- Close ---- *)
CloseA(p, f) ==
  /\ pc[p].step = "closeA" /\ f \in {"none", "err"}
  /\ ncl' = [ncl EXCEPT !["a"] = @ + 1]
  /\ pc' = [pc EXCEPT ![p] = [@ EXCEPT !.step = "closeS", !.ra = IF f = "err" THEN "err" ELSE "ok"]]
  /\ UNCHANGED <<kv, tainted>>
CloseS(p, f) ==
  /\ pc[p].step = "closeS" /\ f \in {"none", "err"}
  /\ ncl' = [ncl EXCEPT !["s"] = @ + 1]
  /\ LET me == pc[p]  rs == IF f = "err" THEN "err" ELSE "ok" IN
     pc' = [pc EXCEPT ![p] = [me EXCEPT !.step = "ret", !.rs = rs, !.scalls = 1,
                                        !.res = IF me.ra = "err" \/ rs = "err" THEN "err" ELSE "ok"]]
  /\ UNCHANGED <<kv, tainted>>

Ret(p) == /\ pc[p].step = "ret" /\ pc' = [pc EXCEPT ![p] = Idle] /\ UNCHANGED <<kv, ncl, tainted>>

\* other writers of one of the two storages
EnvPut(b, n, v) == /\ v # None /\ kv' = [kv EXCEPT ![b][n] = v] /\ tainted' = [tainted EXCEPT ![n] = TRUE]
                   /\ pc' = [q \in Procs |-> IF q \in Uploading(n) THEN [pc[q] EXCEPT !.alone = FALSE] ELSE pc[q]]
                   /\ UNCHANGED ncl
EnvDel(b, n) == /\ kv[b][n] # None /\ kv' = [kv EXCEPT ![b][n] = None] /\ tainted' = [tainted EXCEPT ![n] = TRUE]
                /\ pc' = [q \in Procs |-> IF q \in Uploading(n) THEN [pc[q] EXCEPT !.alone = FALSE] ELSE pc[q]]
                /\ UNCHANGED ncl

----------------------------------------------------------------------------
(* Design model *)
CONSTANTS Ds,        \* content ids (MC only)
          Offs,      \* offsets a source is handed over at (MC only)
          SOps,      \* operations enabled
          MaxClose
SInit == /\ kv = [b \in BE |-> [n \in Names |-> None]] /\ ncl = [b \in BE |-> 0]
         /\ pc = [p \in Procs |-> Idle] /\ tainted = [n \in Names |-> FALSE]
\* what the model's client sends to the shadow backend after the rewind
ShadowGets(me) == [d |-> me.d, from |-> IF FixOffset THEN me.off ELSE 0]
SNext ==
  \/ \E p \in Procs, n \in Names :
        \/ "Stat" \in SOps /\ Call(p, "Stat", n, "none", "", 0)
        \/ "Download" \in SOps /\ Call(p, "Download", n, "none", "", 0)
        \/ "Upload" \in SOps /\ \E d \in Ds, kind \in {"seek", "plain"}, off \in Offs : Call(p, "Upload", n, d, kind, off)
  \/ \E p \in Procs : \/ "List" \in SOps /\ Call(p, "List", "", "none", "", 0)
                      \/ "Close" \in SOps /\ ncl["a"] < MaxClose /\ Call(p, "Close", "", "none", "", 0)
  \/ \E p \in Procs, f \in {"none", "err"} :
        \/ StatA(p, f) \/ StatS(p, f) \/ DownA(p, f) \/ ListA(p, f) \/ CloseA(p, f) \/ CloseS(p, f) \/ Seek(p, f)
        \/ UpA(p, f, Handed(pc[p])) \/ UpS(p, f, ShadowGets(pc[p]))
  \/ \E p \in Procs : Ret(p)
  \/ "Env" \in SOps /\ \E b \in BE, n \in Names : (\E d \in Ds : EnvPut(b, n, [d |-> d, from |-> 0])) \/ EnvDel(b, n)
SSpec == SInit /\ [][SNext]_svars

----------------------------------------------------------------------------
(* Guarantees *)
AtRet(p, op) == pc[p].op = op /\ pc[p].step = "ret"

\* S1  an Upload that reports success has written the bytes it was handed, identically, to both backends
UploadOkIdentical == \A p \in Procs : (AtRet(p, "Upload") /\ pc[p].res = "ok") =>
                        (pc[p].wa = Handed(pc[p]) /\ pc[p].ws = pc[p].wa)
\* S2  a failure is reported iff the source cannot be rewound, or a write or the rewind failed
UploadFailureReported == \A p \in Procs : AtRet(p, "Upload") =>
    /\ pc[p].res = "ok" <=> (pc[p].kind = "seek" /\ pc[p].ra = "ok" /\ pc[p].rseek = "ok" /\ pc[p].rs = "ok")
    /\ pc[p].res \in {"ok", "other", "erra", "errseek", "errs"}
    /\ pc[p].res = "other" <=> pc[p].kind # "seek"
\* S3  the shadow is written only after the active accepted the blob and the source was rewound; a refused or failed
\*     upload never reaches the shadow first
ActiveFirst == \A p \in Procs : pc[p].op = "Upload" =>
    /\ pc[p].ws # None => (pc[p].wa # None /\ pc[p].rseek = "ok")
    /\ pc[p].step = "upS" => (pc[p].ra = "ok" /\ pc[p].rseek = "ok")
    /\ (pc[p].step = "ret" /\ pc[p].res \in {"other", "erra"}) => (pc[p].wa = None /\ pc[p].ws = None /\ pc[p].scalls = 0)
\* S4  reads never come from the shadow: Download and List do not touch it; a successful Stat carries the active's
\*     info and implies that both backends have the blob
ReadsFromActive == \A p \in Procs :
    /\ (pc[p].op \in {"Download", "List"}) => pc[p].scalls = 0
    /\ (AtRet(p, "Stat") /\ pc[p].res = "ok") => (pc[p].ra = "ok" /\ pc[p].rs = "ok" /\ pc[p].got # None)
    /\ (AtRet(p, "Stat") /\ pc[p].res = "notfound") => (pc[p].ra = "notfound" \/ pc[p].rs = "notfound")
    /\ (AtRet(p, "Download") /\ pc[p].res = "ok") => pc[p].got # None
\* S5  Close closes both backends, also when the active's Close fails, and reports a failure iff one failed
CloseBoth == \A p \in Procs : AtRet(p, "Close") =>
    (pc[p].ra # "none" /\ pc[p].rs # "none" /\ (pc[p].res = "err" <=> (pc[p].ra = "err" \/ pc[p].rs = "err")))
\* S6  "this ensures data consistency between the backends" (README): while no upload of a name is in progress and no
\*     upload of it failed half-way (and nobody else wrote it), both backends hold the same bytes under the name
Converged == \A n \in Names : (Uploading(n) = {} /\ ~tainted[n]) => kv["a"][n] = kv["s"][n]

STypeOK == \A p \in Procs : pc[p].step \in {"idle", "statA", "statS", "downA", "listA", "upA", "seek", "upS", "closeA", "closeS", "ret"}
SInv == UploadFailureReported /\ ActiveFirst /\ ReadsFromActive /\ CloseBoth /\ STypeOK
\* a call that has returned leaves nothing behind: the client keeps no state between calls
Stateless == [][\A p \in Procs : (pc[p].step = "ret" /\ pc'[p] # pc[p]) => pc'[p] = Idle]_svars
=============================================================================
