----------------------------- MODULE BackendKV -----------------------------
(* API-level specification of a kraken storage backend client (lib/backend.Client) as a
   key/value store with prefix listing (property C37).  One action per public call:
   Upload, Download, Stat, List, Close.  Replies are defined on the pre-state.

   The in-process backends differ in what they legitimately support; the differences are
   the capability record `be` (read from the code, fixed for the life of a client):
     statsize  Stat reports the stored size (testfs, S3)  / sqlbackend always reports 0
     paging    "token"  : List honours ListWithPagination/MaxKeys/ContinuationToken (S3)
               "reject" : a paginated List fails (testfs)
               "ignore" : pagination options are ignored, the listing is complete (sqlbackend)
     defmax    page size applied to a List without pagination options (S3: ListMaxKeys);
               such a call is simply the first page of a listing and may return a token
     emptyerr  listing a prefix with no stored name below it MAY fail (testfs walks a
               directory that does not exist yet)
     foreign   the store also holds keys that are not names of this client (a registry bucket
               holds layer/revision/index links next to the tag links).  s3backend skips them
               and keeps reading S3 pages until it has MaxKeys names, so the S3 page that
               crosses the limit is delivered whole: a page then holds fewer than 2*MaxKeys
               names instead of at most MaxKeys (completeness and disjointness are unaffected)
   `under[p]` is the set of names that lie under listing prefix p (for sqlbackend a prefix
   denotes one repository), `Names` the small name space.

   Listing sessions.  A continuation token is a cursor: the prefix it was issued for, the
   pages returned so far on its chain, and the snapshot of names stored under the prefix
   when the listing started.  A final page (no token) must deliver every snapshot name not
   yet delivered; no page may repeat a name of its chain or invent one.  Names uploaded
   while a listing is in progress may or may not appear (legitimate freedom).  Tokens are
   values: they can be replayed and continued any time later.                        *)
EXTENDS Sequences, FiniteSets, Naturals

CONSTANTS Names,      \* name ids "n1".."nN"
          Contents,   \* content ids "c0".."cK" (MC only)
          SizeOf,     \* [Contents -> Nat]      (MC only)
          UnderC,     \* [prefix id -> SUBSET Names] (MC only; traces bring their own)
          Backends,   \* set of capability records (MC only)
          MaxPage,    \* page sizes 1..MaxPage (MC only)
          MaxTok      \* bound on issued tokens (MC state constraint only)

VARIABLES kv,      \* [Names -> Absent or [c, sz]] : what the backend holds
          up,      \* ghost: [Names -> Absent or [c, sz]] : what was LAST UPLOADED under the name
          cur,     \* Seq of cursors; token id k is cur[k]
          be,      \* capability record of this client
          under,   \* [prefix -> SUBSET Names]
          closed   \* Close was called
vars == <<kv, up, cur, be, under, closed>>

Absent == [c |-> "none", sz |-> 0]
Range(s) == {s[i] : i \in 1..Len(s)}
Stored == {n \in Names : kv[n] # Absent}
StoredUnder(p) == Stored \cap under[p]
Seen(k) == UNION Range(cur[k].pages)
PairwiseDisjoint(pp) == \A i, j \in 1..Len(pp) : i # j => pp[i] \cap pp[j] = {}

----------------------------------------------------------------------------
(* replies, evaluated in the pre-state *)
DownloadRes(n) == IF kv[n] = Absent THEN [res |-> "notfound", c |-> "none", sz |-> 0]
                  ELSE [res |-> "ok", c |-> kv[n].c, sz |-> kv[n].sz]

\* Stat: res/sz as replied
StatOK(n, res, sz) == IF kv[n] = Absent THEN res = "notfound"
                      ELSE /\ res = "ok"
                           /\ IF be.statsize THEN sz = kv[n].sz ELSE sz \in {0, kv[n].sz}

\* a List call must fail / may fail
ListMustFail(pg) == pg /\ be.paging = "reject"
ListMayFail(p, pg) == ListMustFail(pg) \/ (be.emptyerr /\ StoredUnder(p) = {})

TokIn(pg, tin) == IF pg /\ be.paging = "token" THEN tin ELSE 0   \* a token is only looked at by a paginating backend
SeenOf(t) == IF t = 0 THEN {} ELSE Seen(t)
SnapOf(p, t) == IF t = 0 THEN StoredUnder(p) ELSE cur[t].snap
PagesOf(t) == IF t = 0 THEN <<>> ELSE cur[t].pages

\* the part of a page reply that the property is about: ps = set of names on the page, more = a token came with it
CoreOK(p, t, ps, more) ==
    /\ ps \subseteq StoredUnder(p) \ SeenOf(t)              \* nothing invented, nothing repeated on this chain
    /\ ~more => (SnapOf(p, t) \ SeenOf(t)) \subseteq ps      \* the last page completes the listing
    /\ more => be.paging = "token" /\ ps # {}              \* tokens only from a paginating backend, with progress

\* full reply check: cnt = number of entries on the page (exactly once <=> cnt = |ps|)
ListPageOK(p, pg, max, tin, ps, cnt, more) ==
    LET t == TokIn(pg, tin) IN
    /\ ~ListMustFail(pg)
    /\ t # 0 => t \in 1..Len(cur) /\ cur[t].p = p
    /\ CoreOK(p, t, ps, more)
    /\ cnt = Cardinality(ps)
    /\ be.paging = "token" => LET lim == IF pg THEN max ELSE be.defmax
                              IN IF be.foreign THEN cnt < 2 * lim ELSE cnt <= lim

----------------------------------------------------------------------------
Init == /\ kv = [n \in Names |-> Absent] /\ up = kv
        /\ cur = <<>> /\ closed = FALSE
        /\ be \in Backends /\ under = UnderC

Upload(n, c, sz) == /\ ~closed
                    /\ kv' = [kv EXCEPT ![n] = [c |-> c, sz |-> sz]]
                    /\ up' = [up EXCEPT ![n] = [c |-> c, sz |-> sz]]
                    /\ UNCHANGED <<cur, be, under, closed>>

Download(n) == ~closed /\ UNCHANGED vars
Stat(n) == ~closed /\ UNCHANGED vars

List(p, pg, max, tin, ps, cnt, more) ==
    /\ ~closed
    /\ ListPageOK(p, pg, max, tin, ps, cnt, more)
    /\ LET t == TokIn(pg, tin) IN
       cur' = IF more THEN Append(cur, [p |-> p, pages |-> Append(PagesOf(t), ps), snap |-> SnapOf(p, t)])
              ELSE cur
    /\ UNCHANGED <<kv, up, be, under, closed>>

ListFail(p, pg) == ~closed /\ ListMayFail(p, pg) /\ UNCHANGED vars

Close == closed' = TRUE /\ UNCHANGED <<kv, up, cur, be, under>>    \* idempotent

Next == \/ \E n \in Names, c \in Contents : Upload(n, c, SizeOf[c])
        \/ \E n \in Names : Download(n) \/ Stat(n)
        \/ \E p \in DOMAIN under, pg \in BOOLEAN, tin \in 0..Len(cur) :
             \* (enumeration only: pages are drawn from the names not yet seen on the chain; List re-checks everything)
             \E ps \in SUBSET (StoredUnder(p) \ SeenOf(TokIn(pg, tin))), max \in 1..MaxPage, more \in BOOLEAN :
                List(p, pg, max, tin, ps, Cardinality(ps), more)
        \/ \E p \in DOMAIN under, pg \in BOOLEAN : ListFail(p, pg)
        \/ Close

Spec == Init /\ [][Next]_vars
TokBound == Len(cur) <= MaxTok

----------------------------------------------------------------------------
(* Properties (C37) *)
ContentRec == [c : STRING, sz : Nat]
TypeOK == /\ \A n \in Names : kv[n] = Absent \/ kv[n] \in ContentRec
          /\ \A k \in 1..Len(cur) : cur[k].p \in DOMAIN under /\ cur[k].snap \subseteq Names
                                    /\ \A i \in 1..Len(cur[k].pages) : cur[k].pages[i] \subseteq Names
          /\ closed \in BOOLEAN

\* exactly the bytes last uploaded; not-found for names never uploaded (Download and Stat)
InvLastBytes == \A n \in Names :
    /\ DownloadRes(n) = (IF up[n] = Absent THEN [res |-> "notfound", c |-> "none", sz |-> 0]
                         ELSE [res |-> "ok", c |-> up[n].c, sz |-> up[n].sz])
    /\ \A res \in {"ok", "notfound", "other"}, sz \in {0, up[n].sz, up[n].sz + 1} :
         StatOK(n, res, sz) => /\ res = (IF up[n] = Absent THEN "notfound" ELSE "ok")
                               /\ (be.statsize /\ res = "ok") => sz = up[n].sz      \* size where sizes are tracked

\* pages of one listing chain are pairwise disjoint and contain only stored names under the prefix
InvPagesDisjoint == \A k \in 1..Len(cur) : PairwiseDisjoint(cur[k].pages)
InvPagesSound    == \A k \in 1..Len(cur) : /\ Seen(k) \subseteq StoredUnder(cur[k].p)
                                           /\ cur[k].snap \subseteq StoredUnder(cur[k].p)
                                           /\ be.paging = "token"

\* every reply the specification accepts as the LAST page of a listing completes it: across the pages of the chain
\* every name stored under the prefix (at the start of the listing) appears, exactly once, and nothing else than
\* stored names; if nothing was uploaded meanwhile the union IS the stored set.
InvListContract ==
    \A t \in 0..Len(cur) : \A p \in (IF t = 0 THEN DOMAIN under ELSE {cur[t].p}) :
      \* (pages outside SUBSET (StoredUnder(p) \ SeenOf(t)) are never accepted by CoreOK)
      \A ps \in SUBSET (StoredUnder(p) \ SeenOf(t)) : CoreOK(p, t, ps, FALSE) =>
        LET all == Append(PagesOf(t), ps)
            U   == UNION Range(all)
        IN /\ PairwiseDisjoint(all)
           /\ SnapOf(p, t) \subseteq U /\ U \subseteq StoredUnder(p)
           /\ SnapOf(p, t) = StoredUnder(p) => U = StoredUnder(p)
\* a backend without pagination must deliver the complete listing in its single page
InvSinglePage == be.paging # "token" =>
    \A p \in DOMAIN under : \A ps \in SUBSET StoredUnder(p), more \in BOOLEAN :
        CoreOK(p, 0, ps, more) => ~more /\ ps = StoredUnder(p)

Inv == TypeOK /\ InvLastBytes /\ InvPagesDisjoint /\ InvPagesSound /\ InvListContract /\ InvSinglePage

\* stored names are never lost and contents change only by Upload of that name
NoLoss == [][\A n \in Names : kv[n] # Absent => kv'[n] # Absent]_vars
OnlyUploadWrites == [][\A n \in Names : kv'[n] # kv[n] => up'[n] = kv'[n]]_vars
\* reads (Download, Stat, List, failed calls) never change what is stored
TokensImmutable == [][\A k \in 1..Len(cur) : Len(cur') >= Len(cur) /\ cur'[k] = cur[k]]_vars

----------------------------------------------------------------------------
(* model-checking constants (cfg: X <- MCX) *)
MCUnder == [p \in {"p1", "p2", "p3"} |->
              IF p = "p1" THEN Names ELSE IF p = "p2" THEN Names \ {"n2"} ELSE {}]
MCSizeOf == [c \in Contents |-> IF c = "c0" THEN 0 ELSE IF c = "c3" THEN 3 ELSE 1]
MCBackends == { [statsize |-> TRUE,  paging |-> "token",  defmax |-> 2, emptyerr |-> FALSE, shadow |-> FALSE, foreign |-> FALSE],
                [statsize |-> TRUE,  paging |-> "token",  defmax |-> 2, emptyerr |-> FALSE, shadow |-> FALSE, foreign |-> TRUE],
                [statsize |-> TRUE,  paging |-> "reject", defmax |-> 9, emptyerr |-> TRUE,  shadow |-> FALSE, foreign |-> FALSE],
                [statsize |-> FALSE, paging |-> "ignore", defmax |-> 9, emptyerr |-> FALSE, shadow |-> FALSE, foreign |-> FALSE] }
=============================================================================
