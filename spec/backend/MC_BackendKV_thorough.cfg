SPECIFICATION Spec
CONSTANTS
  Names = {"n1","n2","n3"}
  Contents = {"c0","c1"}
  SizeOf <- MCSizeOf
  UnderC <- MCUnder
  Backends <- MCBackends
  MaxPage = 3
  MaxTok = 2
CONSTRAINT TokBound
INVARIANT Inv
PROPERTY NoLoss OnlyUploadWrites TokensImmutable
