------------------------- MODULE BackendManagerTrace -------------------------
(* Trace validation of recorded lib/backend Manager / NoopClient / ThrottledClient histories (X04) against
   BackendManager.  The driver registers a client factory ("x04") whose clients are recording in-memory stores,
   builds a real Manager from seeded configuration lists and calls it; in the concurrent families every inner
   call is a gate, so the recorded order of events is the order in which things happened.

   Events:  reset (cfg.match / cfg.bad: the regexp oracle) | New | Register | Get | Adjust | Noop | Env |
            Call (a multi-step public call starts) | Inner (one call received by an inner client: the steps) |
            Ret (the public call returned).
   An Inner event must be the next step of some pending call, with the SAME arguments (client, namespace, name,
   list options, source / destination object): that is "the call is forwarded unchanged"; an inner call nobody is
   waiting for (a probe of a backend that is not required, a second Stat, a call to the wrong client) has no action.
   Times (at, at0 <= at1) are monotonic milliseconds; the reservation of a throttled transfer is fused into the
   call (Upload) or the Stat (Download) that precedes it, c rounded down and f rounded up.                  *)
EXTENDS BackendManager, Json, TLC
Trace == ndJsonDeserialize("trace.ndjson")
VARIABLE l
tvars == <<vars, l>>
R == Trace[l]

Fresh == /\ mgr' = FALSE /\ reg' = <<>> /\ kv' = [c \in Clients |-> [n \in Names |-> None]]
         /\ ncl' = [c \in Clients |-> 0] /\ burst' = [c \in Clients |-> NoLim] /\ rate' = burst' /\ tk' = burst'
         /\ pc' = [p \in Procs |-> Idle] /\ xfer' = <<>> /\ rlog' = <<>> /\ now' = 0
TraceInit == /\ TLCSet(1, 0) /\ l = 1
             /\ mgr = FALSE /\ reg = <<>> /\ match = [q \in {} |-> {}] /\ bad = {}
             /\ kv = [c \in Clients |-> [n \in Names |-> None]] /\ ncl = [c \in Clients |-> 0]
             /\ burst = [c \in Clients |-> NoLim] /\ rate = burst /\ tk = burst
             /\ pc = [p \in Procs |-> Idle] /\ xfer = <<>> /\ rlog = <<>> /\ now = 0
IsEvent(e) == l <= Len(Trace) /\ Trace[l].ev = e /\ l' = l + 1

TReset == /\ IsEvent("reset") /\ Fresh
          /\ match' = [q \in DOMAIN R.cfg.match |-> Range(R.cfg.match[q])] /\ bad' = Range(R.cfg.bad)
TNew == IsEvent("New") /\ R.res = NewRes(R.cfgs) /\ New(R.cfgs, 0)
TRegister == IsEvent("Register") /\ R.res = RegisterRes(R.pat) /\ Register(R.pat, R.cl, R.must)
TGet == IsEvent("Get") /\ [res |-> R.res, cl |-> R.cl, thr |-> R.thr] = GetRes(R.ns) /\ Get(R.ns)
\* after the call the driver reads EgressLimit / IngressLimit of every throttled client
TAdjust == /\ IsEvent("Adjust") /\ R.res = AdjustRes(R.d) /\ Adjust(R.d, R.at0, R.at1)
           /\ \A x \in Range(R.lims) : rate'[x.cl] = [e |-> x.e, i |-> x.i]
           /\ {x.cl : x \in Range(R.lims)} \subseteq {reg[k].cl : k \in ThrIdx}
TNoop == IsEvent("Noop") /\ R.res = NoopRes(R.op) /\ R.wrote = 0 /\ Noop(R.op)
TEnv == IsEvent("Env") /\ IF R.d = "none" THEN EnvDel(R.cl, R.n) ELSE EnvPut(R.cl, R.n, [d |-> R.d, tok |-> R.tok])

TCallEv == /\ IsEvent("Call")
           /\ CASE R.op = "Ready"  -> ReadyCall(R.p)
                [] R.op = "MClose" -> MCloseCall(R.p)
                [] OTHER -> TCall(R.p, R.op, R.cl, R.ns, R.n, [d |-> R.d, tok |-> R.tok], R.sized,
                                  [pg |-> R.pg, max |-> R.max, tok |-> R.ctok], R.at, TRUE)

F == IF R.res = "err" THEN "err" ELSE "none"
SameArgs(p) == R.cl = pc[p].cl /\ R.ns = pc[p].ns /\ R.n = pc[p].n
Holds(c, n) == IF kv[c][n] = None THEN R.d = "none" ELSE (R.d = kv[c][n].d /\ R.tok = kv[c][n].tok)
TInner == /\ IsEvent("Inner")
          /\ \E p \in Procs :
               /\ (R.p = "" \/ R.p = p)
               /\ \/ /\ R.op = "Stat" /\ pc[p].op = "Ready" /\ pc[p].step = "probe"
                     /\ R.cl = reg[pc[p].i].cl /\ R.ns = "readyns" /\ R.n = "readyname"
                     /\ ReadyProbe(p, R.res)
                  \/ /\ R.op = "Close" /\ pc[p].op = "MClose" /\ pc[p].step = "close" /\ R.cl = reg[pc[p].i].cl
                     /\ MCloseStep(p, F)
                  \/ /\ R.op = "Stat" /\ pc[p].op = "Download" /\ pc[p].step = "stat" /\ SameArgs(p)
                     /\ R.res = StatOf(R.cl, R.n, F) /\ (R.res = "ok" => Holds(R.cl, R.n))
                     /\ DownStat(p, F, R.at0, TRUE)
                  \/ /\ R.op = "Download" /\ pc[p].op = "Download" /\ pc[p].step = "fwd" /\ SameArgs(p) /\ R.same
                     /\ R.res = StatOf(R.cl, R.n, F)
                     /\ FwdDownload(p, F, R.at1)
                  \/ /\ R.op = "Upload" /\ pc[p].op = "Upload" /\ pc[p].step = "fwd" /\ SameArgs(p) /\ R.same
                     /\ (R.res = "ok" => R.d = pc[p].blob.d)
                     /\ FwdUpload(p, F, R.at1)
                  \/ /\ R.op = "Stat" /\ pc[p].op = "Stat" /\ pc[p].step = "fwd" /\ SameArgs(p)
                     /\ R.res = StatOf(R.cl, R.n, F)
                     /\ FwdStat(p, F)
                  \/ /\ R.op = "List" /\ pc[p].op = "List" /\ pc[p].step = "fwd" /\ SameArgs(p)
                     /\ [pg |-> R.pg, max |-> R.max, tok |-> R.ctok] = pc[p].opts
                     /\ FwdList(p, F)
                  \/ /\ R.op = "Close" /\ pc[p].op = "Close" /\ pc[p].step = "fwd" /\ R.cl = pc[p].cl
                     /\ FwdClose(p, F)

\* the reply: result class (the inner client's own error value for a throttled client), content and size
\* of what was downloaded / stat'ed, the names listed
TRet == /\ IsEvent("Ret") /\ pc[R.p].step = "ret"
        /\ R.res = pc[R.p].res
        /\ R.d = pc[R.p].got.d /\ R.tok = pc[R.p].got.tok
        /\ Range(R.names) = pc[R.p].names
        /\ Ret(R.p)

TraceNext == TReset \/ TNew \/ TRegister \/ TGet \/ TAdjust \/ TNoop \/ TEnv \/ TCallEv \/ TInner \/ TRet
TraceSpec == TraceInit /\ [][TraceNext]_tvars

NotReset == l <= Len(Trace) /\ Trace[l].ev # "reset"
TRoutingStable == [][NotReset => ((mgr /\ mgr') => /\ Len(reg') >= Len(reg) /\ \A k \in 1..Len(reg) : reg'[k] = reg[k]
                                                   /\ \A q \in DOMAIN match : \A ns \in match[q] :
                                                         GetRes(ns).res = "ok" => GetRes(ns)' = GetRes(ns))]_tvars
TRegisterUnique == [][NotReset => ((mgr /\ Len(reg') = Len(reg) + 1) => \A k \in 1..Len(reg) : reg[k].pat # reg'[Len(reg')].pat)]_tvars
TBurstFixed == [][NotReset => (mgr => burst' = burst)]_tvars

HW == TLCSet(1, IF TLCGet(1) < l THEN l ELSE TLCGet(1))
TraceAccepted == IF TLCGet(1) = Len(Trace) + 1 THEN TRUE
                 ELSE PrintT(<<"REJECTED_AT_LINE", TLCGet(1)>>) /\ FALSE
=============================================================================
