-------------------------- MODULE BackendKVTrace --------------------------
(* Trace validation of recorded backend.Client histories (C37) against BackendKV.
   One trace = one client (testfs / sqlbackend / s3backend over an in-memory S3 /
   shadowbackend over two of them); the reset record carries the client's capability
   record and the under-prefix relation of its name space.  Every record carries the
   call arguments and the complete reply (error class by errors.Is, content id and byte
   count of what Download wrote, Stat size, page names and continuation token id).   *)
EXTENDS BackendKV, Json, TLC
Trace == ndJsonDeserialize("trace.ndjson")
VARIABLE l
tvars == <<vars, l>>
R == Trace[l]

TraceInit == /\ TLCSet(1, 0) /\ l = 1
             /\ kv = [n \in Names |-> Absent] /\ up = kv /\ cur = <<>> /\ closed = FALSE
             /\ be = [statsize |-> TRUE, paging |-> "ignore", defmax |-> 1, emptyerr |-> FALSE, shadow |-> FALSE, foreign |-> FALSE]
             /\ under = [p \in {} |-> {}]
IsEvent(e) == l <= Len(Trace) /\ Trace[l].ev = e /\ l' = l + 1

TReset == /\ IsEvent("reset")
          /\ kv' = [n \in Names |-> Absent] /\ up' = kv' /\ cur' = <<>> /\ closed' = FALSE
          /\ be' = [statsize |-> R.cfg.statsize, paging |-> R.cfg.paging, defmax |-> R.cfg.defmax,
                    emptyerr |-> R.cfg.emptyerr, shadow |-> R.cfg.shadow, foreign |-> R.cfg.junk]
          /\ under' = [p \in DOMAIN R.cfg.under |-> Range(R.cfg.under[p])]

\* Upload: succeeds; a shadow client has also written the same bytes to its shadow backend (observed directly)
TUpload == /\ IsEvent("Upload") /\ R.res = "ok"
           /\ be.shadow => R.sc = R.c
           /\ Upload(R.n, R.c, R.sz)

\* Download: error class, identity and length of the bytes written to dst
TDownload == /\ IsEvent("Download")
             /\ [res |-> R.res, c |-> R.c, sz |-> R.sz] = DownloadRes(R.n)
             /\ Download(R.n)

TStat == /\ IsEvent("Stat") /\ ~R.nilinfo
         /\ StatOK(R.n, R.res, R.sz)
         /\ Stat(R.n)

\* List: ok with a page (names as listed, token id = next cursor index or 0) or failed
TList == /\ IsEvent("List") /\ R.p \in DOMAIN under /\ ~R.nilres
         /\ \/ /\ R.res = "ok"
               /\ R.tout = (IF R.tout # 0 THEN Len(cur) + 1 ELSE 0)
               /\ List(R.p, R.pg, R.max, R.tin, Range(R.names), Len(R.names), R.tout # 0)
            \/ /\ R.res = "other" /\ R.names = <<>> /\ R.tout = 0
               /\ ListFail(R.p, R.pg)

TClose == IsEvent("Close") /\ R.res = "ok" /\ Close

TraceNext == TReset \/ TUpload \/ TDownload \/ TStat \/ TList \/ TClose
TraceSpec == TraceInit /\ [][TraceNext]_tvars

\* the action properties of BackendKV, on every recorded step that is not the start of a new trace
NotReset == l <= Len(Trace) /\ Trace[l].ev # "reset"
TNoLoss == [][NotReset => \A n \in Names : kv[n] # Absent => kv'[n] # Absent]_tvars
TOnlyUploadWrites == [][NotReset => \A n \in Names : kv'[n] # kv[n] => (up'[n] = kv'[n] /\ Trace[l].ev = "Upload")]_tvars
TTokensImmutable == [][NotReset => \A k \in 1..Len(cur) : Len(cur') >= Len(cur) /\ cur'[k] = cur[k]]_tvars

HW == TLCSet(1, IF TLCGet(1) < l THEN l ELSE TLCGet(1))
TraceAccepted == IF TLCGet(1) = Len(Trace) + 1 THEN TRUE
                 ELSE PrintT(<<"REJECTED_AT_LINE", TLCGet(1)>>) /\ FALSE
=============================================================================
