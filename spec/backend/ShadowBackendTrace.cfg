SPECIFICATION TraceSpec
CONSTANTS
  Names = {"n1", "n2", "n3"}
  Procs = {"p1", "p2", "p3"}
  FixOffset = FALSE
  FixSerialize = FALSE
  Ds = 0
  Offs = 0
  SOps = 0
  MaxClose = 0
INVARIANT SInv UploadOkIdentical Converged
PROPERTY TStateless
CONSTRAINT HW
POSTCONDITION TraceAccepted
CHECK_DEADLOCK FALSE
