SPECIFICATION TraceSpec
CONSTANTS
  Names = {"n1","n2","n3","n4","n5"}
  Contents = {"c0","c1","c2","c3"}
  SizeOf <- MCSizeOf
  UnderC <- MCUnder
  Backends <- MCBackends
  MaxPage = 3
  MaxTok = 1
INVARIANT Inv
PROPERTY TNoLoss TOnlyUploadWrites TTokensImmutable
CONSTRAINT HW
POSTCONDITION TraceAccepted
CHECK_DEADLOCK FALSE
