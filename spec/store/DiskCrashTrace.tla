-------------------------- MODULE DiskCrashTrace --------------------------
(* One trace per crash point: the completed calls, the in-flight call, what the REAL
   disk.NewStore restored from the materialized directory, and the re-creation probe. *)
EXTENDS DiskCrash, Json, TLC
Trace == ndJsonDeserialize("trace.ndjson")
VARIABLE l
tvars == <<cvars, l>>
R == Trace[l]
KeyName == <<"k1", "k2", "k3">>
Ix(k) == CHOOSE i \in 1..3 : KeyName[i] = k

TraceInit == TLCSet(1, 0) /\ CInit /\ l = 1
IsEvent(e) == l <= Len(Trace) /\ Trace[l].ev = e /\ l' = l + 1

TReset == /\ IsEvent("reset")
          /\ st' = [k \in Keys |-> "absent"] /\ size' = [k \in Keys |-> 0]
          /\ banned' = [k \in Keys |-> FALSE] /\ md' = [k \in Keys |-> NoMd]
          /\ content' = [k \in Keys |-> 0] /\ lru' = <<>> /\ used' = 0
          /\ cap' = R.cfg.cap /\ rbi' = R.cfg.reboot /\ phase' = "run"
          /\ pre' = [st |-> [k \in Keys |-> "absent"], size |-> [k \in Keys |-> 0], banned |-> [k \in Keys |-> FALSE],
                     md |-> [k \in Keys |-> NoMd], content |-> [k \in Keys |-> 0]]

\* the store call named by a record, with its expected reply class
CallAct == \/ R.op = "Create" /\ R.res = CreateRes(R.k, R.sz) /\ Create(R.k, R.sz, R.c)
           \/ R.op = "MarkComplete" /\ R.res = MarkCompleteRes(R.k) /\ MarkComplete(R.k)
           \/ R.op = "Delete" /\ R.res = DeleteRes(R.k, "any") /\ Delete(R.k, "any")
           \/ R.op = "Ban" /\ R.res = BanRes(R.k, "any") /\ Ban(R.k, "any")
           \/ R.op = "Unban" /\ R.res = BanRes(R.k, "any") /\ Unban(R.k, "any")
           \/ R.op = "SetMd" /\ R.res = SetMdRes(R.k, "any") /\ SetMd(R.k, R.s, R.v, "any")
           \/ R.op = "DelMd" /\ R.res = SetMdRes(R.k, "any") /\ DelMd(R.k, R.s, "any")
\* the in-flight call: its reply was never delivered, so only its effect is taken
CrashAct == \/ R.op = "none" /\ UNCHANGED bvars
            \/ R.op = "Create" /\ Create(R.k, R.sz, R.c)
            \/ R.op = "MarkComplete" /\ MarkComplete(R.k)
            \/ R.op = "Delete" /\ Delete(R.k, "any")
            \/ R.op = "Ban" /\ Ban(R.k, "any")
            \/ R.op = "Unban" /\ Unban(R.k, "any")
            \/ R.op = "SetMd" /\ SetMd(R.k, R.s, R.v, "any")
            \/ R.op = "DelMd" /\ DelMd(R.k, R.s, "any")

TCall  == IsEvent("Call") /\ phase = "run" /\ CallAct /\ UNCHANGED <<pre, phase, rbi>>
TCrash == IsEvent("Crash") /\ phase = "run" /\ pre' = Snap /\ CrashAct /\ phase' = "crashed" /\ UNCHANGED rbi
TReboot == /\ IsEvent("Reboot") /\ R.res = "ok"
           /\ \E nlru \in Seq3 :
                Reboot([k \in Keys |-> R.st[Ix(k)]], [k \in Keys |-> R.size[Ix(k)]], [k \in Keys |-> R.banned[Ix(k)]],
                       [k \in Keys |-> [s \in Suffixes |-> IF s = "mov" THEN R.mov[Ix(k)] ELSE R.fix[Ix(k)]]],
                       [k \in Keys |-> R.content[Ix(k)]], nlru)
TRecreate == IsEvent("Recreate") /\ (\A i \in 1..Len(R.res) : R.res[i] = "ok") /\ UNCHANGED cvars

TraceNext == TReset \/ TCall \/ TCrash \/ TReboot \/ TRecreate
TraceSpec == TraceInit /\ [][TraceNext]_tvars

HW == TLCSet(1, IF TLCGet(1) < l THEN l ELSE TLCGet(1))
TraceAccepted == IF TLCGet(1) = Len(Trace) + 1 THEN TRUE
                 ELSE PrintT(<<"REJECTED_AT_LINE", TLCGet(1)>>) /\ FALSE
=============================================================================
