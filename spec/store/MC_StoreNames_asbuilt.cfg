\* NOT registered in tools/propsd/C11.py: this configuration is EXPECTED TO FAIL.
\* With the name check as written today (no `name # ".."`) TLC reports Inv violated for w = <<"..">>
\* (valid = TRUE, inside = FALSE) -- the model-level counterexample of finding F11.
SPECIFICATION Spec
CONSTANTS
  MaxLen = 1
  Rule = "asbuilt"
  AuxNames <- NoAux
INVARIANT Inv
