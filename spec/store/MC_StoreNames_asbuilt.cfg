SPECIFICATION Spec
CONSTANTS
  MaxLen = 1
  Rule = "asbuilt"
  AuxNames <- NoAux
INVARIANT Inv
