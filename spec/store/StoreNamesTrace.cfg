SPECIFICATION TraceSpec
CONSTANTS
  MaxLen = 4
  Rule = "fixed"
  AuxNames <- NoAux
INVARIANT TypeOK NoEscape NoOutsideEffect StoredInside
CONSTRAINT HW
POSTCONDITION TraceAccepted
CHECK_DEADLOCK FALSE
