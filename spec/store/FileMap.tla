------------------------------ MODULE FileMap ------------------------------
(* API-level specification of lib/store/base: FileOp on a localFileStore whose file map is the
   LRU map of file_map.go (property C10, first half).

   A managed file is a directory <state>/<name>/ holding "data" plus metadata files
   (_persist, _last_access_time, ...).  The file map keeps the entries that are loaded in
   memory, most recently used first; with a capacity (NewLRUFileStore / NewCASFileStoreWithLRUMap)
   storing one entry too many evicts the least recently used entry AND DELETES ITS FILE - unless
   the file carries persist=true metadata (it is awaiting write-back), in which case only the
   in-memory entry is dropped and the file is reloaded from disk by the next operation on it.

   Abstract state: per file its on-disk attributes, the map as a sequence, the clock.
   Operations are written as functions on a state record s (so that a cleanup pass, which is a
   loop of FileOp calls, can be folded over them in module Cleanup); each public call is an
   action with a reply operator evaluated in the pre-state.                                  *)
EXTENDS Integers, Sequences, FiniteSets
CONSTANTS Files,     \* file names "f1".."fN"
          Res        \* time resolution of last-access-time updates (5 minutes in the code), in clock units
VARIABLES onDisk,    \* [Files -> BOOLEAN]  the data file exists
          persist,   \* [Files -> {"none","true","false"}]  content of the _persist metadata file
          mtime,     \* [Files -> Int]  modification time of the data file
          lat,       \* [Files -> Int]  _last_access_time metadata, -1 = no such file
          fsize,     \* [Files -> Nat]  size of the data file
          mapq,      \* Seq(Files)  the file map, most recently used first (last = next LRU victim)
          mlat,      \* [Files -> Int]  in-memory lastAccessTime of map entries (-1 when not in the map)
          now,       \* Int  clock
          cap        \* Nat  capacity of the map, 0 = no eviction (NewLocalFileStore / NewCASFileStore)
fvars == <<onDisk, persist, mtime, lat, fsize, mapq, mlat, now, cap>>

Range(s)      == {s[i] : i \in 1..Len(s)}
Without(s, f) == SelectSeq(s, LAMBDA x : x # f)

St == [disk |-> onDisk, per |-> persist, mt |-> mtime, lat |-> lat, sz |-> fsize, q |-> mapq, ml |-> mlat]
Put(s) == /\ onDisk' = s.disk /\ persist' = s.per /\ mtime' = s.mt /\ lat' = s.lat
          /\ fsize' = s.sz /\ mapq' = s.q /\ mlat' = s.ml
Same == UNCHANGED <<now, cap>>

FInit(c) == /\ onDisk = [f \in Files |-> FALSE] /\ persist = [f \in Files |-> "none"]
            /\ mtime = [f \in Files |-> 0] /\ lat = [f \in Files |-> -1] /\ fsize = [f \in Files |-> 0]
            /\ mapq = <<>> /\ mlat = [f \in Files |-> -1] /\ now = 0 /\ cap = c

----------------------------------------------------------------------------
(* building blocks (file_map.go, file_entry.go) *)
InMap(s, f) == f \in Range(s.q)
Found(s, f) == InMap(s, f) \/ s.disk[f]
Front(s, f) == [s EXCEPT !.q = <<f>> \o Without(s.q, f)]                   \* lruFileMap.get: MoveToFront
Wipe(s, f)  == [s EXCEPT !.disk[f] = FALSE, !.per[f] = "none", !.mt[f] = 0, !.lat[f] = -1, !.sz[f] = 0]
Unmap(s, f) == [s EXCEPT !.q = Without(s.q, f), !.ml[f] = -1]
\* localFileEntry.Delete: refuses (ErrFilePersisted) when persist metadata is present and true
EntryDelete(s, f) == IF s.per[f] = "true" THEN s ELSE Wipe(s, f)
\* syncRemoveOldestIfNeeded: at most one victim per TryStore; its entry leaves the map even if Delete refused
Evict(s) == IF cap > 0 /\ Len(s.q) > cap
            THEN LET o == s.q[Len(s.q)] IN Unmap(EntryDelete(s, o), o)
            ELSE s
\* TryStore of an entry that is not in the map: add at the front, initialise LAT (kept if already on disk)
Store(s, f) == LET l == IF s.lat[f] = -1 THEN now ELSE s.lat[f]
               IN [s EXCEPT !.q = <<f>> \o s.q, !.lat[f] = l, !.ml[f] = l]
\* reloadFileEntryHelper: bring a file that is on disk but not in the map back into the map
Reload(s, f) == IF InMap(s, f) \/ ~s.disk[f] THEN s ELSE Evict(Store(s, f))
\* lockLevelPeek operations: reload, MoveToFront, no LAT update
PeekS(s, f)  == IF Found(s, f) THEN Front(Reload(s, f), f) ELSE s
\* lockLevelRead / lockLevelWrite operations: additionally refresh LAT if it is at least Res old
TouchS(s, f) == IF ~Found(s, f) THEN s
                ELSE LET s1 == Front(Reload(s, f), f)
                     IN IF now - s1.ml[f] >= Res THEN [s1 EXCEPT !.ml[f] = now, !.lat[f] = now] ELSE s1
DeleteS(s, f) == IF ~Found(s, f) THEN s ELSE LET s1 == Reload(s, f) IN Unmap(EntryDelete(s1, f), f)
DeleteResS(s, f) == IF ~Found(s, f) THEN "notfound" ELSE IF s.per[f] = "true" THEN "persisted" ELSE "ok"
CreateS(s, f, size, mt) ==
  IF InMap(s, f) THEN TouchS(s, f)            \* LoadForRead finds it -> ErrExist
  ELSE IF s.disk[f] THEN Reload(s, f)         \* reloaded from disk -> ErrExist
  ELSE Evict([Store(s, f) EXCEPT !.disk[f] = TRUE, !.sz[f] = size, !.mt[f] = mt])

----------------------------------------------------------------------------
(* one action per public FileOp call (single acceptable state) *)
FoundRes(f) == IF Found(St, f) THEN "ok" ELSE "notfound"
\* CreateFile / MoveFileFrom (mt = the data file's mtime, which the harness sets right after creation)
CreateRes(f) == IF Found(St, f) THEN "exists" ELSE "ok"
Create(f, size, mt) == Put(CreateS(St, f, size, mt)) /\ Same
\* GetFileStat / GetFilePath / GetFileMetadata: peek
StatRes(f) == IF Found(St, f) THEN <<"ok", fsize[f], mtime[f]>> ELSE <<"notfound", 0, 0>>
GetLatRes(f) == IF ~Found(St, f) THEN <<"notfound", -1>>
                ELSE LET s1 == PeekS(St, f) IN <<IF s1.lat[f] = -1 THEN "nomd" ELSE "ok", s1.lat[f]>>
GetPersistRes(f) == IF ~Found(St, f) THEN "notfound" ELSE persist[f]
Peek(f) == Put(PeekS(St, f)) /\ Same
\* GetFileReader / GetFileReadWriter: read/write access
Touch(f) == Put(TouchS(St, f)) /\ Same
\* SetFileMetadata(persist v) / DeleteFileMetadata(persist)
SetPersist(f, v) == Put(IF Found(St, f) THEN [TouchS(St, f) EXCEPT !.per[f] = v] ELSE St) /\ Same
\* SetFileMetadata(LastAccessTime t) / DeleteFileMetadata(LastAccessTime): t = -1 deletes
SetLat(f, t) == Put(IF Found(St, f) THEN [TouchS(St, f) EXCEPT !.lat[f] = t] ELSE St) /\ Same
\* DeleteFile
DeleteRes(f) == DeleteResS(St, f)
Delete(f) == Put(DeleteS(St, f)) /\ Same
\* ListNames: the names on disk (no effect on the map)
ListRes == {f \in Files : onDisk[f]}
\* environment: os.Chtimes on the data file, clock
SetMtime(f, t) == onDisk[f] /\ mtime' = [mtime EXCEPT ![f] = t]
                  /\ UNCHANGED <<onDisk, persist, lat, fsize, mapq, mlat, now, cap>>
Tick(d) == now' = now + d /\ UNCHANGED <<onDisk, persist, mtime, lat, fsize, mapq, mlat, cap>>

----------------------------------------------------------------------------
CONSTANTS FCaps, FMaxT
FNext == \/ \E f \in Files : Create(f, 1, now) \/ Peek(f) \/ Touch(f) \/ Delete(f)
         \/ \E f \in Files, v \in {"true", "none"} : SetPersist(f, v)
         \/ \E f \in Files : SetLat(f, -1)
         \/ Tick(1)
FSpec == (\E c \in FCaps : FInit(c)) /\ [][FNext]_fvars
FBound == now <= FMaxT

(* Properties (C10, file map part) *)
FTypeOK == /\ mapq \in Seq(Files)
           /\ \A f \in Files : persist[f] \in {"none", "true", "false"}
           /\ \A f \in Files : ~onDisk[f] => (persist[f] = "none" /\ lat[f] = -1 /\ fsize[f] = 0)
MapNoDup   == \A i, j \in 1..Len(mapq) : i # j => mapq[i] # mapq[j]
MapBounded == cap > 0 => Len(mapq) <= cap
MapOnDisk  == \A f \in Range(mapq) : onDisk[f] /\ mlat[f] # -1
FInv == FTypeOK /\ MapNoDup /\ MapBounded /\ MapOnDisk
\* a file awaiting write-back is never removed: not by DeleteFile, not by LRU eviction, not by reload
PersistNeverRemoved == [][\A f \in Files : (persist[f] = "true" /\ onDisk[f]) => onDisk'[f]]_fvars
\* a removed file never stays in the map
RemovedLeavesMap == [][\A f \in Files : (onDisk[f] /\ ~onDisk'[f]) => f \notin Range(mapq')]_fvars
=============================================================================
