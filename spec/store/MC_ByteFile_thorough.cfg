SPECIFICATION Spec
CONSTANTS
  PBytes = {1, 2}
  MaxP = 3
  MaxLen = 6
INVARIANT Inv ReadBack PutLaw
PROPERTY NoTruncate OffsetMoves
CONSTRAINT Bound
