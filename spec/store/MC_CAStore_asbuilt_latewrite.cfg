SPECIFICATION Spec
CONSTANTS
  Digests = {"d1","d2"}
  Kinds = {"exact","flipped","trunc"}
  VerifyMem = TRUE
  FenceWriters = FALSE
  MaxRetries = 2
INVARIANT Inv
PROPERTY FailedWriteLeavesNothing
CONSTRAINT Bound
