--------------------------- MODULE ByteFileTrace ---------------------------
(* Trace validation of recorded operation histories on os.File, base.BufferReadWriter and
   memory.File against ByteFile (C12).  Every record carries the call's arguments, its reply
   (count / bytes / position) and two observations taken after the call: the size reported by
   the object and the handle offset.  cfg.impl names the object ("osfile", "buffer", "memfile");
   the specification is the same for all three.                                              *)
EXTENDS ByteFile, Json, TLC
Trace == ndJsonDeserialize("trace.ndjson")
VARIABLE l
tvars == <<content, off, l>>
R == Trace[l]

TraceInit == TLCSet(1, 0) /\ Init /\ l = 1
IsEvent(e) == l <= Len(Trace) /\ Trace[l].ev = e /\ l' = l + 1
\* observations after the call
ObsOK == Len(content') = R.size /\ off' = R.off

\* cfg.init: initial content (non-empty only for the read-only reader, which is constructed over existing bytes)
TReset   == IsEvent("reset") /\ content' = R.cfg.init /\ off' = 0
TWrite   == IsEvent("Write")   /\ R.n = WriteRes(R.p) /\ Write(R.p) /\ ObsOK
TWriteAt == IsEvent("WriteAt") /\ R.n = WriteAtRes(R.p, R.o) /\ WriteAt(R.p, R.o) /\ ObsOK
TRead    == IsEvent("Read")    /\ R.bytes = ReadRes(R.n) /\ R.cnt = Len(ReadRes(R.n)) /\ Read(R.n) /\ ObsOK
TReadAt  == IsEvent("ReadAt")  /\ R.bytes = ReadAtRes(R.n, R.o) /\ R.cnt = Len(ReadAtRes(R.n, R.o)) /\ ReadAt(R.n, R.o) /\ ObsOK
TSeek    == IsEvent("Seek")    /\ R.pos = SeekRes(R.o, R.wh) /\ Seek(R.o, R.wh) /\ ObsOK
TSize    == IsEvent("Size")    /\ R.size = SizeRes /\ Size /\ ObsOK
\* whole content as seen through an independent accessor (Bytes() / a second descriptor / a second handle)
TDump    == IsEvent("Dump")    /\ R.bytes = content /\ UNCHANGED fvars

TraceNext == TReset \/ TWrite \/ TWriteAt \/ TRead \/ TReadAt \/ TSeek \/ TSize \/ TDump
TraceSpec == TraceInit /\ [][TraceNext]_tvars

\* the step properties of ByteFile hold on every recorded step (a reset starts a new object and is exempt)
TNoTruncate  == [][R.ev = "reset" \/ StepNoTruncate]_tvars
TOffsetMoves == [][R.ev = "reset" \/ StepOffsetMoves]_tvars

HW == TLCSet(1, IF TLCGet(1) < l THEN l ELSE TLCGet(1))
TraceAccepted == IF TLCGet(1) = Len(Trace) + 1 THEN TRUE
                 ELSE PrintT(<<"REJECTED_AT_LINE", TLCGet(1)>>) /\ FALSE
=============================================================================
