SPECIFICATION Spec
CONSTANTS
  MaxLen = 3
  Rule = "fixed"
  AuxNames <- NoAux
INVARIANT Inv
