SPECIFICATION Spec
CONSTANTS
  Keys = {"k1"}
  Workers = {1}
  MaxObj = 7
  MaxC = 4
  MdVals = {1,2}
  FixIdentity = FALSE
  FixCreateUnderLock = FALSE
  FixBanOnDirty = FALSE
  FixNoDoubleFlush = FALSE
  ClientAtomic = TRUE
  EagerNext = TRUE
  SimDepth = 40
INVARIANT Emit
CHECK_DEADLOCK FALSE
