---------------------------- MODULE CAStoreTrace ----------------------------
(* Trace validation of recorded lib/store.CAStore histories (C01).  After every call the driver logs,
   per digest, what is readable (bytes equal the blob? stat size right? metainfo valid for the blob?);
   the specification says which of that may exist at all.  Which path a refresh took (memory or disk)
   is not logged: TLC infers it (both branches are explored).                                      *)
EXTENDS CAStore, Json, TLC
Trace == ndJsonDeserialize("trace.ndjson")
VARIABLE l
tvars == <<vars, l>>
R == Trace[l]
DN == <<"d1", "d2", "d3">>

TraceInit == TLCSet(1, 0) /\ Init /\ l = 1
IsEvent(e) == l <= Len(Trace) /\ Trace[l].ev = e /\ l' = l + 1
Cls(c) == IF c = None THEN "none" ELSE IF Good(c) THEN "good" ELSE "bad"
ObsOK == \A i \in 1..3 : LET d == DN[i] IN
            /\ R.vis[i]  = Cls(Visible(d)')
            /\ R.stat[i] = Cls(Visible(d)')
            /\ R.meta[i] = Cls(VisibleMeta(d)')
C == [d |-> R.d, kind |-> R.kind]

TReset == /\ IsEvent("reset")
          /\ disk' = [d \in Digests |-> None] /\ dmeta' = [d \in Digests |-> None]
          /\ mem' = [d \in Digests |-> None] /\ mmeta' = [d \in Digests |-> None]
          /\ drainq' = <<>> /\ memOn' = R.cfg.mem
TUpload   == /\ IsEvent("Upload") /\ Upload(R.d, C) /\ ObsOK
             /\ R.res = (IF ~Good(C) THEN "error" ELSE IF disk[R.d] # None THEN "exist" ELSE "ok")
TTransfer == IsEvent("Transfer") /\ Upload(R.d, C) /\ R.res = WriteRes(C) /\ ObsOK
TRefresh  == /\ IsEvent("Refresh") /\ R.res = WriteRes(C)
             /\ \/ RefreshDisk(R.d, C)
                \/ (R.sizecls \in {"eq", "stream"} /\ RefreshMem(R.d, C))   \* the memory path needs the reported size to equal the stream's length
             /\ ObsOK
\* a writer handle opened before the commit writes after it: the committed content must not change
TLate     == IsEvent("LateWrite") /\ LateWrite(R.d, C) /\ ObsOK
TDrain    == IsEvent("Drain") /\ (DrainStep \/ (drainq = <<>> /\ UNCHANGED vars)) /\ ObsOK

TraceNext == TReset \/ TUpload \/ TTransfer \/ TRefresh \/ TDrain \/ TLate
TraceSpec == TraceInit /\ [][TraceNext]_tvars

HW == TLCSet(1, IF TLCGet(1) < l THEN l ELSE TLCGet(1))
TraceAccepted == IF TLCGet(1) = Len(Trace) + 1 THEN TRUE
                 ELSE PrintT(<<"REJECTED_AT_LINE", TLCGet(1)>>) /\ FALSE
=============================================================================
