SPECIFICATION Spec
CONSTANTS
  MaxLen = 2
  Rule = "fixed"
  AuxNames <- OneAux
INVARIANT Inv
