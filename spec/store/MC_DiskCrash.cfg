SPECIFICATION CSpec
CONSTANTS
  Keys = {"k1","k2"}
  Suffixes = {"mov","fix"}
  Vals = {1}
  Contents = {1}
  Sizes = {1,2}
  Caps = {2}
  RebootChoices = {TRUE, FALSE}
INVARIANT CInv
PROPERTY CompletedSurvive NoFalseComplete
