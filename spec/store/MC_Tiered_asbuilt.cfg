SPECIFICATION Spec
CONSTANTS
  Keys = {"k1"}
  Workers = {1}
  MaxObj = 4
  MaxC = 3
  MdVals = {1,2}
  FixIdentity = FALSE
  FixCreateUnderLock = FALSE
  FixBanOnDirty = FALSE
  FixNoDoubleFlush = FALSE
  ClientAtomic = FALSE
  EagerNext = FALSE
  SimDepth = 0
INVARIANT Inv
VIEW view
CHECK_DEADLOCK FALSE
