----------------------------- MODULE TieredAbs -----------------------------
(* API-level specification of lib/store/tiered (property C09): what a client of the
   tiered store may rely on, with no flusher and no tiers.  Verdicts for C09 are
   computed against THIS module: a recorded real execution (client calls, flusher
   steps, memory pressure) is accepted iff after every step the store answers as
   the atomic key -> (state, bytes, metadata) map below says.                      *)
EXTENDS Integers, Sequences, FiniteSets
CONSTANTS Keys, MdVals, Contents
VARIABLES ts,     \* [Keys -> {"none","inc","comp","deleted"}]
          tc,     \* content id of the current incarnation
          tmd     \* last metadata value successfully set (0 = unset)
avars == <<ts, tc, tmd>>

AInit == ts = [k \in Keys |-> "none"] /\ tc = [k \in Keys |-> 0] /\ tmd = [k \in Keys |-> 0]

\* a key that was never created or was deleted never blocks (re-)creation
ACreate(k, c) == /\ ts[k] \in {"none", "deleted"}
                 /\ ts' = [ts EXCEPT ![k] = "inc"] /\ tc' = [tc EXCEPT ![k] = c] /\ tmd' = [tmd EXCEPT ![k] = 0]
AMarkComplete(k) == ts[k] = "inc" /\ ts' = [ts EXCEPT ![k] = "comp"] /\ UNCHANGED <<tc, tmd>>
ADelete(k) == ts[k] \in {"inc", "comp"} /\ ts' = [ts EXCEPT ![k] = "deleted"] /\ UNCHANGED <<tc, tmd>>
ASetMd(k, v) == ts[k] \in {"inc", "comp"} /\ tmd' = [tmd EXCEPT ![k] = v] /\ UNCHANGED <<ts, tc>>
\* flusher steps, memory pressure, quiescence: invisible at this level
AInternal == UNCHANGED avars

ANext == \E k \in Keys : \/ \E c \in Contents : ACreate(k, c)
                         \/ AMarkComplete(k) \/ ADelete(k) \/ \E v \in MdVals \cup {0} : ASetMd(k, v)
ASpec == AInit /\ [][ANext]_avars

(* What every observation must show (evaluated on the post-state of every recorded step):
   open = content read through the complete scope (-1 out of scope, -2 not found, -3 unreadable/corrupt)
   md   = metadata value (0 unset, -2 blob not found, -3 error) ; has = Has(key).inStore            *)
ObsAllowedS(s, c, m, open, md, has) ==
  /\ s = "comp" => (open = c /\ md = m /\ has)
  /\ s = "inc"  => (open = 0 - 1 /\ md = m /\ has)
  /\ s \in {"none", "deleted"} => (~has /\ open = 0 - 2 /\ md = 0 - 2)
ObsAllowed(k, open, md, has) == ObsAllowedS(ts[k], tc[k], tmd[k], open, md, has)
ATypeOK == \A k \in Keys : ts[k] \in {"none", "inc", "comp", "deleted"}
=============================================================================
