------------------------------- MODULE Tiered -------------------------------
(* Implementation-shaped specification of lib/store/tiered (property C09).

   Two tiers (memory first, disk second) and the background flusher.  The grain
   is the code's: client calls that hold store.mu (Create, MarkComplete, Delete,
   SetMetadata/DeleteMetadata) are one action each; the flusher worker is one
   action per hook point / seam of flusher.go:

     WNext        nextToFlush (pops the queue under f.mu)          hook flush.next
     WMemOpen     memOpen seam                                     seam  memOpen
     WDiskCreate  disk.Create(key,size)                            hook flush.created
     WAbortCheck  f.blobs[key] still present?                      (after flush.created)
     WCopy        ioCopy seam (ErrEvicted when the handle is stale) seam  ioCopy
     WDiskComplete disk.MarkComplete
     WMdSnap      swap b.dirtyMD with {}                           hook flush.mdsnap
     WMdFlush     flushMetadata: mem.Get -> disk.Set/Delete        hook flush.md
     WUnmark      under f.mu+b.mu: dirtyMD empty ? delete(f.blobs,key) : loop
     WUnban       deferred mem.UnbanEviction                       hook flush.unban

   Memory pressure is the action Pressure(k): memory.Store evicts a complete blob
   that is not eviction-banned (validated separately against BlobStore/MemHandles,
   C07/C08).  Disk capacity is assumed ample (no disk eviction).

   The three Fix* constants select between the protocol AS BUILT (FALSE) and the
   repaired protocol (TRUE); MC_Tiered_asbuilt.cfg shows TLC finds F09a/b/c, and
   MC_Tiered_design.cfg shows the repaired protocol satisfies every invariant.   *)
EXTENDS Integers, Sequences, FiniteSets, TLC, Json
CONSTANTS Keys, Workers, MaxObj, MaxC, MdVals,
          FixIdentity,        \* abort check and unmark compare the blob OBJECT, not just the key   (F09b)
          FixCreateUnderLock, \* abort check + disk.Create in one f.mu critical section             (F09c)
          FixBanOnDirty,      \* unban only if no flusher entry; markMetadataDirty re-bans          (F09a)
          FixNoDoubleFlush,   \* nextToFlush skips a blob object another worker is flushing              (F09d)
          ClientAtomic,       \* TRUE: no worker step inside a client call (schedules the replayer can force)
          EagerNext           \* TRUE: an idle worker pops the queue before anything else happens (as the real
                              \*       worker does right after the notify; used when exporting schedules)

VARIABLES mst, mban, mmd, mc, minc,      \* memory tier: state, eviction ban, metadata value (0 = unset), content id, incarnation
          dst, dmd, dc,                  \* disk tier
          fb, obj, nobj, queue,          \* flusher.blobs (key -> object id, 0 = none), blob objects, queue
          w, cl,                         \* workers; the client currently inside a store call (store.mu)
          truth, nextc,                  \* what clients were told (history), content id allocator
          defects, hist,                 \* history only: as-built defect windows entered; action log for export
          recent                         \* the last three logged actions (coverage goals refer to them)
vars  == <<mst, mban, mmd, mc, minc, dst, dmd, dc, fb, obj, nobj, queue, w, cl, truth, nextc, defects, hist, recent>>
view3 == <<mst, mban, mmd, mc, minc, dst, dmd, dc, fb, obj, nobj, queue, w, cl, truth, nextc, recent>>
view2 == <<mst, mban, mmd, mc, minc, dst, dmd, dc, fb, obj, nobj, queue, w, cl, truth, nextc, defects>>
view  == <<mst, mban, mmd, mc, minc, dst, dmd, dc, fb, obj, nobj, queue, w, cl, truth, nextc>>

NoW == [pc |-> "idle", k |-> "none", id |-> 0, snap |-> FALSE, hinc |-> 0]
NoObj == [dd |-> FALSE, md |-> FALSE]

Init == /\ mst = [k \in Keys |-> "absent"] /\ mban = [k \in Keys |-> FALSE]
        /\ mmd = [k \in Keys |-> 0] /\ mc = [k \in Keys |-> 0] /\ minc = [k \in Keys |-> 0]
        /\ dst = [k \in Keys |-> "absent"] /\ dmd = [k \in Keys |-> 0] /\ dc = [k \in Keys |-> 0]
        /\ fb = [k \in Keys |-> 0] /\ obj = [i \in 1..MaxObj |-> NoObj] /\ nobj = 0 /\ queue = <<>>
        /\ w = [x \in Workers |-> NoW] /\ cl = [pc |-> "idle", op |-> "none", k |-> "none", v |-> 0]
        /\ truth = [k \in Keys |-> [s |-> "none", c |-> 0, md |-> 0]] /\ nextc = 0
        /\ defects = {} /\ hist = <<>> /\ recent = <<>>

Log(a, k, v) == /\ hist' = Append(hist, [a |-> a, k |-> k, v |-> v])
                /\ recent' = (IF Len(recent) < 3 THEN Append(recent, [a |-> a, v |-> v]) ELSE Append(Tail(recent), [a |-> a, v |-> v]))
Tag(t, cond) == defects' = IF cond THEN defects \cup {t} ELSE defects
UNCH_MEM  == UNCHANGED <<mst, mban, mmd, mc, minc>>
UNCH_DISK == UNCHANGED <<dst, dmd, dc>>
UNCH_FL   == UNCHANGED <<fb, obj, nobj, queue>>

----------------------------------------------------------------------------
(* Client calls.  store.mu serializes them against each other (one client record cl), but NOT
   against the flusher: each call is split at its calls into the tiers / the flusher, and worker
   steps may fall in between unless ClientAtomic (used when exporting schedules that the replayer
   can force on the real code, where worker gates exist only at the hook points).            *)
Idle == cl.pc = "idle"
Begin(op, k, v, pc) == cl' = [pc |-> pc, op |-> op, k |-> k, v |-> v]
Done == cl' = [pc |-> "idle", op |-> "none", k |-> "none", v |-> 0]
At(pc) == cl.pc = pc

\* Create: Has checks, then mem.Create
Create1(k) ==
  /\ Idle /\ truth[k].s \in {"none", "deleted"} /\ nextc < MaxC
  /\ Log("Create", k, 0)
  /\ IF mst[k] # "absent" \/ dst[k] # "absent"
     THEN Tag("F09c", TRUE) /\ UNCHANGED cl          \* ErrExist: re-creation blocked by a leftover / transient entry
     ELSE Begin("Create", k, 0, "C2") /\ UNCHANGED defects
  /\ UNCH_MEM /\ UNCH_DISK /\ UNCH_FL /\ UNCHANGED <<w, truth, nextc>>
Create2 ==
  /\ At("C2") /\ Log("Create2", cl.k, 0)
  /\ LET k == cl.k IN
     /\ mst' = [mst EXCEPT ![k] = "inc"] /\ mban' = [mban EXCEPT ![k] = FALSE]
     /\ mmd' = [mmd EXCEPT ![k] = 0] /\ mc' = [mc EXCEPT ![k] = nextc + 1]
     /\ minc' = [minc EXCEPT ![k] = @ + 1] /\ nextc' = nextc + 1
     /\ truth' = [truth EXCEPT ![k] = [s |-> "inc", c |-> nextc + 1, md |-> 0]]
  /\ Done /\ UNCH_DISK /\ UNCH_FL /\ UNCHANGED <<w, defects>>

\* MarkComplete: mem.BanEviction ; mem.MarkComplete ; flusher.markDirty
Mark1(k) ==
  /\ Idle /\ truth[k].s = "inc" /\ mst[k] = "inc" /\ nobj < MaxObj
  /\ Log("MarkComplete", k, 0)
  /\ mban' = [mban EXCEPT ![k] = TRUE] /\ Begin("MarkComplete", k, 0, "M2")
  /\ UNCH_DISK /\ UNCH_FL /\ UNCHANGED <<mst, mmd, mc, minc, w, truth, nextc, defects>>
Mark2 ==
  /\ At("M2") /\ Log("Mark2", cl.k, 0)
  /\ mst' = [mst EXCEPT ![cl.k] = "comp"] /\ cl' = [cl EXCEPT !.pc = "M3"]
  /\ UNCH_DISK /\ UNCH_FL /\ UNCHANGED <<mban, mmd, mc, minc, w, truth, nextc, defects>>
Mark3 ==
  /\ At("M3") /\ Log("Mark3", cl.k, 0)
  /\ LET k == cl.k IN
     /\ nobj' = nobj + 1 /\ obj' = [obj EXCEPT ![nobj + 1] = [dd |-> TRUE, md |-> mmd[k] # 0]]
     /\ fb' = [fb EXCEPT ![k] = nobj + 1] /\ queue' = Append(queue, k)
     /\ truth' = [truth EXCEPT ![k].s = "comp"]
     /\ mban' = IF FixBanOnDirty THEN [mban EXCEPT ![k] = TRUE] ELSE mban      \* repaired markDirty re-bans under f.mu
  /\ Done /\ UNCH_DISK /\ UNCHANGED <<mst, mmd, mc, minc, w, nextc, defects>>

\* Delete: mem.Delete ; flusher.abort ; disk.Delete      (memory miss: disk.Delete only)
Delete1(k) ==
  /\ Idle /\ truth[k].s \in {"inc", "comp"}
  /\ Log("Delete", k, 0)
  /\ IF mst[k] # "absent"
     THEN /\ mst' = [mst EXCEPT ![k] = "absent"] /\ mban' = [mban EXCEPT ![k] = FALSE]
          /\ mmd' = [mmd EXCEPT ![k] = 0] /\ mc' = [mc EXCEPT ![k] = 0] /\ UNCHANGED minc
          /\ Begin("Delete", k, 0, "D2") /\ UNCH_DISK /\ UNCHANGED truth
          /\ Tag("F09b", \E x \in Workers : w[x].k = k)            \* key deleted while one of its flushes is in flight
     ELSE /\ dst' = [dst EXCEPT ![k] = "absent"] /\ dmd' = [dmd EXCEPT ![k] = 0] /\ dc' = [dc EXCEPT ![k] = 0]
          /\ truth' = [truth EXCEPT ![k].s = "deleted"]
          /\ UNCH_MEM /\ UNCHANGED <<cl, defects>>
  /\ UNCH_FL /\ UNCHANGED <<w, nextc>>
Delete2 ==
  /\ At("D2") /\ Log("Delete2", cl.k, 0)
  /\ fb' = [fb EXCEPT ![cl.k] = 0] /\ cl' = [cl EXCEPT !.pc = "D3"]
  /\ UNCH_MEM /\ UNCH_DISK /\ UNCHANGED <<obj, nobj, queue, w, truth, nextc, defects>>
Delete3 ==
  /\ At("D3") /\ Log("Delete3", cl.k, 0)
  /\ LET k == cl.k IN
     /\ dst' = [dst EXCEPT ![k] = "absent"] /\ dmd' = [dmd EXCEPT ![k] = 0] /\ dc' = [dc EXCEPT ![k] = 0]
     /\ truth' = [truth EXCEPT ![k].s = "deleted"]
  /\ Done /\ UNCH_MEM /\ UNCH_FL /\ UNCHANGED <<w, nextc, defects>>

\* SetMetadata (v > 0) / DeleteMetadata (v = 0): mem.BanEviction ; mem.Set ; flusher.markMetadataDirty
SetMd1(k, v) ==
  /\ Idle /\ truth[k].s \in {"inc", "comp"}
  /\ Log("SetMd", k, v)
  /\ IF mst[k] # "absent"
     THEN /\ mban' = [mban EXCEPT ![k] = TRUE] /\ Begin("SetMd", k, v, "S2")
          /\ UNCH_DISK /\ UNCHANGED <<mst, mmd, mc, minc, truth>>
     ELSE /\ IF dst[k] # "absent"
             THEN dmd' = [dmd EXCEPT ![k] = v] /\ truth' = [truth EXCEPT ![k].md = v]
             ELSE UNCHANGED <<dmd, truth>>
          /\ UNCH_MEM /\ UNCHANGED <<dst, dc, cl>>
  /\ UNCH_FL /\ UNCHANGED <<w, nextc, defects>>
SetMd2 ==
  /\ At("S2") /\ Log("SetMd2", cl.k, cl.v)
  /\ mmd' = [mmd EXCEPT ![cl.k] = cl.v] /\ cl' = [cl EXCEPT !.pc = "S3"]
  /\ UNCH_DISK /\ UNCH_FL /\ UNCHANGED <<mst, mban, mc, minc, w, truth, nextc, defects>>
SetMd3 ==
  /\ At("S3") /\ Log("SetMd3", cl.k, cl.v)
  /\ LET k == cl.k IN
     /\ truth' = [truth EXCEPT ![k].md = cl.v]
     /\ IF fb[k] # 0
        THEN obj' = [obj EXCEPT ![fb[k]].md = TRUE] /\ UNCHANGED <<fb, nobj, queue, defects, mban>>
        ELSE IF dst[k] # "absent"
        THEN /\ nobj < MaxObj
             /\ nobj' = nobj + 1 /\ obj' = [obj EXCEPT ![nobj + 1] = [dd |-> FALSE, md |-> TRUE]]
             /\ fb' = [fb EXCEPT ![k] = nobj + 1] /\ queue' = Append(queue, k)
             /\ mban' = IF FixBanOnDirty THEN [mban EXCEPT ![k] = TRUE] ELSE mban
             /\ Tag("F09a", \E x \in Workers : w[x].k = k)          \* new entry registered while an older flush still has to unban
        ELSE UNCH_FL /\ UNCHANGED <<defects, mban>>
  /\ Done /\ UNCH_DISK /\ UNCHANGED <<mst, mmd, mc, minc, w, nextc>>

\* memory pressure: some other tiered.Create (also under store.mu) makes memory.Store evict a complete, unbanned blob
\* (an incomplete or eviction-banned blob is NOT evictable: the attempt then changes nothing - it is still a step,
\* so that exported schedules also probe the ban protocol at moments when eviction must be refused)
Pressure(k) ==
  /\ Idle /\ mst[k] # "absent"
  /\ Log("Pressure", k, 0)
  /\ IF mst[k] = "comp" /\ ~mban[k]
     THEN mst' = [mst EXCEPT ![k] = "absent"] /\ mmd' = [mmd EXCEPT ![k] = 0] /\ mc' = [mc EXCEPT ![k] = 0]
     ELSE UNCHANGED <<mst, mmd, mc>>
  /\ UNCH_DISK /\ UNCH_FL /\ UNCHANGED <<mban, minc, w, truth, nextc, defects, cl>>

----------------------------------------------------------------------------
(* Flusher worker x *)
SetW(x, r) == w' = [w EXCEPT ![x] = r]
Goto(x, pc) == w' = [w EXCEPT ![x].pc = pc]
Mine(x) == IF FixIdentity THEN fb[w[x].k] = w[x].id ELSE fb[w[x].k] # 0

\* nextToFlush: pop until a key with a flusher entry is found
InFlight(id) == \E y \in Workers : w[y].id = id
Pickable(k) == fb[k] # 0 /\ (FixNoDoubleFlush => ~InFlight(fb[k]))
RECURSIVE FirstLive(_)
FirstLive(q) == IF q = <<>> THEN 0 ELSE IF Pickable(Head(q)) THEN 1 ELSE
                   LET r == FirstLive(Tail(q)) IN IF r = 0 THEN 0 ELSE r + 1
WNext(x) ==
  /\ w[x].pc = "idle" /\ queue # <<>> /\ UNCHANGED cl
  /\ LET i == FirstLive(queue) IN
       IF i = 0 THEN /\ queue' = <<>> /\ UNCHANGED w /\ Log("WNextEmpty", "none", x)
       ELSE LET k == queue[i] IN
            /\ queue' = SubSeq(queue, i + 1, Len(queue))
            /\ SetW(x, [pc |-> "next", k |-> k, id |-> fb[k], snap |-> FALSE, hinc |-> 0])
            /\ Log("WNext", k, x)
  /\ Tag("F09d", LET i == FirstLive(queue) IN i # 0 /\ InFlight(fb[queue[i]]))
  /\ UNCH_MEM /\ UNCH_DISK /\ UNCHANGED <<fb, obj, nobj, truth, nextc>>

Step(x, pc, a) == w[x].pc = pc /\ Log(a, w[x].k, x) /\ UNCHANGED cl
K(x) == w[x].k

WMemOpen(x) ==
  /\ Step(x, "next", "WMemOpen")
  /\ IF ~obj[w[x].id].dd THEN Goto(x, "mdloop")
     ELSE IF mst[K(x)] = "absent" THEN Goto(x, "mdloop")                \* flushData returns nil
     ELSE w' = [w EXCEPT ![x].pc = "opened", ![x].hinc = minc[K(x)]]
  /\ UNCH_MEM /\ UNCH_DISK /\ UNCH_FL /\ UNCHANGED <<truth, nextc, defects>>

\* handleFlushFailure: disk.Delete(key); delete(f.blobs, key)   (as built: whatever object is registered)
Fail(x) == /\ dst' = [dst EXCEPT ![K(x)] = "absent"] /\ dmd' = [dmd EXCEPT ![K(x)] = 0] /\ dc' = [dc EXCEPT ![K(x)] = 0]
           /\ fb' = [fb EXCEPT ![K(x)] = IF FixIdentity /\ fb[K(x)] # w[x].id THEN @ ELSE 0]
           /\ Goto(x, "unban")

WDiskCreate(x) ==
  /\ Step(x, "opened", "WDiskCreate")
  /\ IF FixCreateUnderLock /\ ~Mine(x)
     THEN Goto(x, "mdloop") /\ UNCH_DISK /\ UNCHANGED fb                 \* aborted before creating anything
     ELSE IF dst[K(x)] # "absent"
     THEN Fail(x)                                                        \* disk.Create: ErrExist
     ELSE /\ dst' = [dst EXCEPT ![K(x)] = "inc"] /\ UNCHANGED <<dmd, dc, fb>>
          /\ Goto(x, IF FixCreateUnderLock THEN "copy" ELSE "created")
  /\ UNCH_MEM /\ UNCHANGED <<obj, nobj, queue, truth, nextc, defects>>

WAbortCheck(x) ==
  /\ Step(x, "created", "WAbortCheck")
  /\ IF Mine(x) THEN Goto(x, "copy") /\ UNCH_DISK
     ELSE /\ dst' = [dst EXCEPT ![K(x)] = "absent"] /\ dmd' = [dmd EXCEPT ![K(x)] = 0] /\ dc' = [dc EXCEPT ![K(x)] = 0]
          /\ Goto(x, "mdloop")
  /\ UNCH_MEM /\ UNCH_FL /\ UNCHANGED <<truth, nextc, defects>>

WCopy(x) ==
  /\ Step(x, "copy", "WCopy")
  /\ IF mst[K(x)] = "absent" \/ minc[K(x)] # w[x].hinc
     THEN Goto(x, "mdloop") /\ UNCH_DISK                                 \* ErrEvicted -> return nil
     ELSE /\ dc' = [dc EXCEPT ![K(x)] = IF dst[K(x)] = "absent" THEN @ ELSE mc[K(x)]]   \* write to an unlinked file is lost
          /\ UNCHANGED <<dst, dmd>> /\ Goto(x, "copied")
  /\ UNCH_MEM /\ UNCH_FL /\ UNCHANGED <<truth, nextc, defects>>

WDiskComplete(x) ==
  /\ Step(x, "copied", "WDiskComplete")
  /\ dst' = [dst EXCEPT ![K(x)] = IF @ = "inc" THEN "comp" ELSE @]
  /\ Goto(x, "mdloop")
  /\ UNCH_MEM /\ UNCH_FL /\ UNCHANGED <<dmd, dc, truth, nextc, defects>>

WMdSnap(x) ==
  /\ Step(x, "mdloop", "WMdSnap")
  /\ w' = [w EXCEPT ![x].pc = "mdflush", ![x].snap = obj[w[x].id].md]
  /\ obj' = [obj EXCEPT ![w[x].id].md = FALSE]
  /\ UNCH_MEM /\ UNCH_DISK /\ UNCHANGED <<fb, nobj, queue, truth, nextc, defects>>

WMdFlush(x) ==
  /\ Step(x, "mdflush", "WMdFlush")
  /\ dmd' = IF w[x].snap /\ mst[K(x)] # "absent" /\ dst[K(x)] # "absent"
            THEN [dmd EXCEPT ![K(x)] = mmd[K(x)]] ELSE dmd
  /\ Goto(x, "unmark")
  /\ UNCH_MEM /\ UNCH_FL /\ UNCHANGED <<dst, dc, truth, nextc, defects>>

WUnmark(x) ==
  /\ Step(x, "unmark", "WUnmark")
  /\ IF obj[w[x].id].md THEN Goto(x, "mdloop") /\ UNCHANGED fb
     ELSE /\ fb' = [fb EXCEPT ![K(x)] = IF FixIdentity /\ fb[K(x)] # w[x].id THEN @ ELSE 0]
          /\ Goto(x, "unban")
  /\ UNCH_MEM /\ UNCH_DISK /\ UNCHANGED <<obj, nobj, queue, truth, nextc, defects>>

WUnban(x) ==
  /\ Step(x, "unban", "WUnban")
  /\ mban' = IF mst[K(x)] # "absent" /\ (FixBanOnDirty => fb[K(x)] = 0) THEN [mban EXCEPT ![K(x)] = FALSE] ELSE mban
  /\ SetW(x, NoW)
  /\ UNCH_DISK /\ UNCH_FL /\ UNCHANGED <<mst, mmd, mc, minc, truth, nextc, defects>>

WStep(x) == WNext(x) \/ WMemOpen(x) \/ WDiskCreate(x) \/ WAbortCheck(x) \/ WCopy(x) \/ WDiskComplete(x)
            \/ WMdSnap(x) \/ WMdFlush(x) \/ WUnmark(x) \/ WUnban(x)
Client == \/ \E k \in Keys : Create1(k) \/ Mark1(k) \/ Delete1(k) \/ Pressure(k) \/ \E v \in MdVals \cup {0} : SetMd1(k, v)
          \/ Create2 \/ Mark2 \/ Mark3 \/ Delete2 \/ Delete3 \/ SetMd2 \/ SetMd3
MustPop == EagerNext /\ Idle /\ \E x \in Workers : w[x].pc = "idle" /\ queue # <<>>
Next == IF MustPop THEN \E x \in Workers : WNext(x)
        ELSE Client \/ ((ClientAtomic => Idle) /\ \E x \in Workers : WStep(x))
Spec == Init /\ [][Next]_vars
FairSpec == Spec /\ \A x \in Workers : WF_vars(WStep(x))

----------------------------------------------------------------------------
(* What a client sees (reads prefer memory) *)
OpenC(k)  == IF mst[k] = "comp" THEN mc[k] ELSE IF mst[k] = "inc" THEN 0 - 1
             ELSE IF dst[k] = "comp" THEN dc[k] ELSE 0 - 2
VisMd(k)  == IF mst[k] # "absent" THEN mmd[k] ELSE IF dst[k] # "absent" THEN dmd[k] ELSE 0 - 2
InStore(k) == mst[k] # "absent" \/ dst[k] # "absent"
Busy(k)   == fb[k] # 0 \/ (\E x \in Workers : w[x].k = k) \/ (\E i \in 1..Len(queue) : queue[i] = k)

(* Properties (C09) *)
Quiet(k) == cl.k # k          \* no client call on k is in progress (its linearization point may be anywhere inside)
CompleteReadable == \A k \in Keys : (truth[k].s = "comp" /\ Quiet(k)) => OpenC(k) = truth[k].c
MdReflectsUpdates == \A k \in Keys : (truth[k].s = "comp" /\ Quiet(k)) => VisMd(k) = truth[k].md
NoResurrection   == \A k \in Keys : (truth[k].s \in {"none", "deleted"} /\ Quiet(k)) => ~InStore(k)
\* once the flusher has nothing left to do for k, disk holds everything and memory may drop the blob safely
DurableWhenIdle  == \A k \in Keys : (truth[k].s = "comp" /\ ~Busy(k) /\ Quiet(k)) =>
                        /\ dst[k] = "comp" /\ dc[k] = truth[k].c /\ dmd[k] = truth[k].md
                        /\ (mst[k] # "absent" => ~mban[k])
TypeOK == /\ \A x \in Workers : w[x].pc \in {"idle","next","opened","created","copy","copied","mdloop","mdflush","unmark","unban"}
          /\ nobj \in 0..MaxObj /\ nextc \in 0..MaxC
Inv == TypeOK /\ CompleteReadable /\ MdReflectsUpdates /\ NoResurrection /\ DurableWhenIdle
\* as built: every violation lies inside a recorded defect window (used to attribute known findings)
UntaggedOK == defects = {} => Inv
\* used to extract a counterexample schedule that enters only the F09a window
OnlyF09aOK == (defects = {"F09a"}) => Inv
\* every flush terminates: a worker that picked a blob goes back to idle
FlushTerminates == \A x \in Workers : (w[x].pc # "idle") ~> (w[x].pc = "idle")

----------------------------------------------------------------------------
(* Coverage goals: each is a state predicate describing a schedule shape worth forcing on the real code; the
   configs MC_Tiered_goal_*.cfg check its NEGATION as an invariant, so TLC's counterexample is the shortest
   behaviour reaching it and is exported as a schedule like the as-built counterexamples.               *)
LastIs(n, a) == Len(recent) >= n /\ recent[Len(recent) - n + 1].a = a
\* a metadata deletion on a flushed, memory-resident blob followed at once by memory pressure, while disk still holds the old value
GoalDelMdPressure == \E k \in Keys : /\ LastIs(1, "Pressure") /\ LastIs(2, "WNext") /\ LastIs(3, "SetMd3")
                                       /\ recent[Len(recent) - 2].v = 0 /\ dmd[k] # 0 /\ dst[k] = "comp"
\* the same with a metadata overwrite
GoalSetMdPressure == \E k \in Keys : /\ LastIs(1, "Pressure") /\ LastIs(2, "WNext") /\ LastIs(3, "SetMd3")
                                       /\ recent[Len(recent) - 2].v # 0 /\ dmd[k] # 0 /\ dmd[k] # mmd[k] /\ dst[k] = "comp"
\* memory pressure while the data copy of the first flush is in progress
GoalPressureDuringCopy == LastIs(1, "Pressure") /\ \E x \in Workers : w[x].pc = "copy"
\* memory pressure between the metadata flush and the unmark
GoalPressureBeforeUnmark == LastIs(1, "Pressure") /\ \E x \in Workers : w[x].pc = "unmark" /\ w[x].snap
NoGoalDelMdPressure == ~GoalDelMdPressure
NoGoalSetMdPressure == ~GoalSetMdPressure
NoGoalPressureDuringCopy == ~GoalPressureDuringCopy
NoGoalPressureBeforeUnmark == ~GoalPressureBeforeUnmark

----------------------------------------------------------------------------
(* Behaviour export for the replayer (DESIGN 2.2 M2): in -simulate mode every behaviour that reaches
   depth SimDepth (or cannot continue) is printed once as JSON: the action log and the defect windows. *)
CONSTANT SimDepth
JsonHist == ToJson([h |-> hist, d |-> defects])
Emit == IF Len(hist) = SimDepth - 1 \/ (Len(hist) > 4 /\ ~ENABLED Next)
        THEN PrintT(<<"BEH", JsonHist>>) ELSE TRUE
=============================================================================
