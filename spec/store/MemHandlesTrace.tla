-------------------------- MODULE MemHandlesTrace --------------------------
(* Trace validation of recorded memory.Store histories incl. operations on handles
   kept across evictions, deletions and re-creations (C08). *)
EXTENDS MemHandles, Json, TLC
Trace == ndJsonDeserialize("trace.ndjson")
VARIABLE l
tvars == <<mvars, l>>
R == Trace[l]

TraceInit == TLCSet(1, 0) /\ HInit /\ l = 1
IsEvent(e) == l <= Len(Trace) /\ Trace[l].ev = e /\ l' = l + 1
ObsOK == /\ lru' = R.order
         /\ used' = R.used
         /\ {k \in Keys : st'[k] # "absent"} = Range(R.live)

TReset == /\ IsEvent("reset")
          /\ st' = [k \in Keys |-> "absent"] /\ size' = [k \in Keys |-> 0]
          /\ banned' = [k \in Keys |-> FALSE] /\ md' = [k \in Keys |-> NoMd]
          /\ content' = [k \in Keys |-> 0] /\ lru' = <<>> /\ used' = 0
          /\ cap' = R.cfg.cap
          /\ inc' = [k \in Keys |-> 0] /\ bytes' = [k \in Keys |-> <<>>] /\ hd' = [h \in Hids |-> NoH]

TCreate == IsEvent("Create") /\ R.res = CreateRes(R.k, R.sz) /\ MCreate(R.k, R.sz, R.c, R.h) /\ ObsOK
TOpen   == IsEvent("Open") /\ R.res = OpenRes(R.k, R.sc) /\ (R.res = "ok" => R.bytes = bytes[R.k])
                           /\ MOpen(R.k, R.sc, R.h) /\ ObsOK
RO      == UNCHANGED mvars
THas    == IsEvent("Has") /\ <<R.instore, R.inscope>> = HasRes(R.k, R.sc) /\ RO /\ ObsOK
TStat   == IsEvent("Stat") /\ R.res = StatRes(R.k, R.sc) /\ (R.res = "ok" => R.fsize = Len(bytes[R.k])) /\ RO /\ ObsOK
TList   == IsEvent("List") /\ Range(R.keys) = ListRes(R.sc) /\ RO /\ ObsOK
TMark   == IsEvent("MarkComplete") /\ R.res = MarkCompleteRes(R.k) /\ Lift(MarkComplete(R.k)) /\ ObsOK
TDelete == IsEvent("Delete") /\ R.res = DeleteRes(R.k, R.sc) /\ Lift(Delete(R.k, R.sc)) /\ ObsOK
TBan    == IsEvent("Ban") /\ R.res = BanRes(R.k, R.sc) /\ Lift(Ban(R.k, R.sc)) /\ ObsOK
TUnban  == IsEvent("Unban") /\ R.res = BanRes(R.k, R.sc) /\ Lift(Unban(R.k, R.sc)) /\ ObsOK
TSetMd  == IsEvent("SetMd") /\ R.res = SetMdRes(R.k, R.sc) /\ Lift(SetMd(R.k, R.s, R.v, R.sc)) /\ ObsOK
TDelMd  == IsEvent("DelMd") /\ R.res = SetMdRes(R.k, R.sc) /\ Lift(DelMd(R.k, R.s, R.sc)) /\ ObsOK
TGetMd  == IsEvent("GetMd") /\ <<R.res, R.v>> = GetMdRes(R.k, R.s, R.sc) /\ RO /\ ObsOK
TListMd == IsEvent("ListMd") /\ R.res = Gate(R.k, R.sc) /\ Range(R.sufs) = ListMdRes(R.k, R.sc) /\ RO /\ ObsOK

THDrop    == IsEvent("HDrop") /\ HDrop(R.h)
THRead    == IsEvent("HRead") /\ <<R.res, R.bytes>> = HReadRes(R.h, R.n) /\ HRead(R.h, R.n)
THReadAt  == IsEvent("HReadAt") /\ <<R.res, R.bytes>> = HReadAtRes(R.h, R.n, R.off) /\ RO
THWrite   == IsEvent("HWrite") /\ <<R.res, R.n>> = HWriteRes(R.h, R.p) /\ HWrite(R.h, R.p)
THWriteAt == IsEvent("HWriteAt") /\ <<R.res, R.n>> = HWriteRes(R.h, R.p) /\ HWriteAt(R.h, R.p, R.off, FALSE)
THSeek    == IsEvent("HSeek") /\ <<R.res, R.newoff>> = HSeekRes(R.h, R.off, R.wh) /\ HSeek(R.h, R.off, R.wh)
THSize    == IsEvent("HSize") /\ R.size = HSizeRes(R.h) /\ RO

TraceNext == TReset \/ TCreate \/ TOpen \/ THas \/ TStat \/ TList \/ TMark \/ TDelete \/ TBan \/ TUnban
             \/ TSetMd \/ TDelMd \/ TGetMd \/ TListMd
             \/ THDrop \/ THRead \/ THReadAt \/ THWrite \/ THWriteAt \/ THSeek \/ THSize
TraceSpec == TraceInit /\ [][TraceNext]_tvars

HW == TLCSet(1, IF TLCGet(1) < l THEN l ELSE TLCGet(1))
TraceAccepted == IF TLCGet(1) = Len(Trace) + 1 THEN TRUE
                 ELSE PrintT(<<"REJECTED_AT_LINE", TLCGet(1)>>) /\ FALSE
=============================================================================
