SPECIFICATION FSpec
CONSTANTS
  Files = {"f1","f2","f3"}
  Res = 2
  FCaps = {0, 2}
  FMaxT = 1
INVARIANT FInv
PROPERTY PersistNeverRemoved RemovedLeavesMap
CONSTRAINT FBound
