------------------------------ MODULE Cleanup ------------------------------
(* API-level specification of the cleanup passes over a FileMap store (property C10, second half):

     TTLPass     lib/store/cleanup.go ttlBasedCleanup   (normal pass, and aggressive pass with a shorter
                 TTL and an optional lower disk-utilisation threshold below which it stops deleting)
     PolicyPass  lib/store/cleanup.go customPolicyBasedCleanup with cachedInAgentPolicy
     Dispatch    cleanupManager.cleanup: which of the two runs, with which ttl / threshold
     ForcePass   origin/blobserver forceCleanupHandler/maybeDelete: deletes expired or not-owned blobs,
                 but a blob awaiting write-back only after its write-back task has been executed

   A pass is a loop of FileOp calls (GetFileStat, GetFileMetadata, DeleteFile ...) over ListNames();
   it is specified as a fold of the FileMap operations, so LRU side effects of the pass itself
   (reloading an evicted persisted file may evict - and delete - another file) are part of the model. *)
EXTENDS FileMap
CONSTANTS DT1,       \* "served to a consumer" threshold: |mtime - lat| > DT1    (1 second in the code)
          DT45       \* "for sure cached by an agent" threshold: |mtime - lat| > DT45 (45 minutes)
VARIABLES lastpass,  \* parameters of the pass taken in the last step ([kind |-> "none"] otherwise)
          own,       \* [Files -> BOOLEAN]  this origin owns the blob (hash ring)
          wb,        \* [Files -> Seq({"ok","fail"})]  pending write-back tasks of the blob (0..3, e.g. one per namespace),
                     \*                                in the order the manager returns them, each with the outcome its execution will have
          wbdone     \* [Files -> Nat]  number of write-back tasks of the blob executed successfully by the last forced pass
cvars == <<fvars, lastpass, own, wb, wbdone>>
NoPass == [kind |-> "none"]
OSame == UNCHANGED <<own, wb, wbdone>>

CInit(c) == FInit(c) /\ lastpass = NoPass /\ own = [f \in Files |-> TRUE]
            /\ wb = [f \in Files |-> <<>>] /\ wbdone = [f \in Files |-> 0]
\* FileMap actions lifted
Lift(A) == A /\ lastpass' = NoPass /\ OSame

Abs(x) == IF x < 0 THEN 0 - x ELSE x
\* ---------------------------------------------------------------- ttlBasedCleanup
\* thr = [on, used, low]: lower-threshold cut-off (aggressive mode only): stop deleting once
\* used - scanned <= low.  Reply: scanned bytes.
IdleAt(s, f, tti, ttl) == \/ ttl > 0 /\ now - s.mt[f] > ttl
                          \/ s.lat[f] # -1 /\ now - s.lat[f] > tti
RECURSIVE TTLFold(_, _, _, _, _, _, _)
TTLFold(s, ord, i, scanned, tti, ttl, thr) ==
  IF i > Len(ord) THEN [s |-> s, ret |-> scanned]
  ELSE LET f == ord[i] IN
       IF ~Found(s, f) THEN TTLFold(s, ord, i + 1, scanned, tti, ttl, thr)      \* GetFileStat fails: skipped
       ELSE LET s1 == PeekS(s, f)                                                \* GetFileStat (+ GetFileMetadata)
                ready == IdleAt(s1, f, tti, ttl)
                breached == thr.on /\ thr.used - scanned <= thr.low
                s2 == IF ready /\ ~breached THEN DeleteS(s1, f) ELSE s1          \* persisted files survive DeleteFile
            IN TTLFold(s2, ord, i + 1, scanned + s1.sz[f], tti, ttl, thr)
Thr(lower, used, totalb) == [on |-> lower # 0, used |-> used, low |-> (totalb * lower) \div 100]
TTLPassRes(ord, tti, ttl, lower, used, totalb) == TTLFold(St, ord, 1, 0, tti, ttl, Thr(lower, used, totalb)).ret
TTLPass(ord, tti, ttl, lower, used, totalb) ==
  /\ Put(TTLFold(St, ord, 1, 0, tti, ttl, Thr(lower, used, totalb)).s) /\ Same /\ OSame
  /\ lastpass' = [kind |-> "ttl", tti |-> tti, ttl |-> ttl, thr |-> lower # 0, ord |-> ord]

\* ---------------------------------------------------------------- customPolicyBasedCleanup
Consumer(mt, la) == Abs(mt - la) > DT1
Agent(mt, la)    == Abs(mt - la) > DT45
Rank(mt, la) == IF Agent(mt, la) THEN 0 ELSE IF Consumer(mt, la) THEN 1 ELSE 2
\* cachedInAgentPolicy as a strict order on candidates c = [f, mt, la, sz]
Less(a, b) == Rank(a.mt, a.la) < Rank(b.mt, b.la) \/ (Rank(a.mt, a.la) = Rank(b.mt, b.la) /\ a.la < b.la)
\* phase 1: scan; files without LAT metadata are counted but are no candidates
RECURSIVE ScanFold(_, _, _, _, _)
ScanFold(s, ord, i, usage, cands) ==
  IF i > Len(ord) THEN [s |-> s, usage |-> usage, cands |-> cands]
  ELSE LET f == ord[i] IN
       IF ~Found(s, f) THEN ScanFold(s, ord, i + 1, usage, cands)
       ELSE LET s1 == PeekS(s, f)
                c == [f |-> f, mt |-> s1.mt[f], la |-> s1.lat[f], sz |-> s1.sz[f]]
            IN ScanFold(s1, ord, i + 1, usage + s1.sz[f], IF s1.lat[f] = -1 THEN cands ELSE cands \cup {c})
\* phase 2: delete in policy order until enough bytes are gone; persisted files do not count
RECURSIVE DelFold(_, _, _, _)
DelFold(s, srt, i, remain) ==
  IF i > Len(srt) \/ remain <= 0 THEN s
  ELSE LET c == srt[i] IN
       DelFold(DeleteS(s, c.f), srt, i + 1, IF DeleteResS(s, c.f) = "ok" THEN remain - c.sz ELSE remain)
\* slices.SortFunc is not stable: any arrangement consistent with the policy order
Sortings(C) == {p \in [1..Cardinality(C) -> C] :
                  /\ \A i, j \in 1..Cardinality(C) : i # j => p[i] # p[j]
                  /\ \A i, j \in 1..Cardinality(C) : i < j => ~Less(p[j], p[i])}
PolicyRemain(lower, totalb) == totalb - (totalb * lower) \div 100
PolicyPassRes(ord) == ScanFold(St, ord, 1, 0, {}).usage
PolicyPass(ord, lower, totalb) ==
  LET sc == ScanFold(St, ord, 1, 0, {}) IN
  /\ \E srt \in Sortings(sc.cands) : Put(DelFold(sc.s, srt, 1, PolicyRemain(lower, totalb)))
  /\ Same /\ OSame
  /\ lastpass' = [kind |-> "policy", cands |-> sc.cands]

\* ---------------------------------------------------------------- cleanupManager.cleanup (dispatch)
\* cfgc = [tti, ttl, athr, attl, alow], util = disk utilisation in percent, withPolicy = a custom policy is given
Aggro(cfgc, util) == cfgc.athr # 0 /\ util >= cfgc.athr
Dispatch(cfgc, util, withPolicy) ==
  IF Aggro(cfgc, util) /\ withPolicy /\ cfgc.alow # 0 THEN [kind |-> "policy", ttl |-> 0, lower |-> cfgc.alow]
  ELSE IF Aggro(cfgc, util) THEN [kind |-> "ttl", ttl |-> cfgc.attl, lower |-> cfgc.alow]
  ELSE [kind |-> "ttl", ttl |-> cfgc.ttl, lower |-> 0]

\* ---------------------------------------------------------------- origin forced cleanup
\* Reply: the set of deleted names.  A blob is a candidate if it is older than ttl or not owned.
\* A candidate that awaits write-back (persist = true) is deleted - and its flag cleared - only if EVERY pending
\* write-back task of the blob has been executed successfully by this pass; if any task fails the blob is kept
\* with its flag.  (The code stops at the first failing task; how many of the other tasks an implementation
\* executes before giving up is left open: between the tasks in front of the first failure and all good ones.)
AllOk(ts)     == \A i \in 1..Len(ts) : ts[i] = "ok"
NumOk(ts)     == Cardinality({i \in 1..Len(ts) : ts[i] = "ok"})
FirstFail(ts) == CHOOSE i \in 1..Len(ts) : ts[i] = "fail" /\ \A j \in 1..(i - 1) : ts[j] = "ok"
RECURSIVE ForceFold(_, _, _, _, _, _, _)
ForceFold(s, ord, i, ttl, done, failed, del) ==
  IF i > Len(ord) THEN [s |-> s, done |-> done, failed |-> failed, del |-> del]
  ELSE LET f == ord[i] IN
       IF ~Found(s, f) THEN ForceFold(s, ord, i + 1, ttl, done, failed, del)
       ELSE LET s1 == PeekS(s, f)
                cand == now - s1.mt[f] > ttl \/ ~own[f]
            IN IF ~cand THEN ForceFold(s1, ord, i + 1, ttl, done, failed, del)
               ELSE IF s1.per[f] = "true" /\ ~AllOk(wb[f])
                    THEN ForceFold(s1, ord, i + 1, ttl, [done EXCEPT ![f] = FirstFail(wb[f]) - 1],
                                   failed \cup {f}, del)                         \* a write-back failed: keep blob and flag
               ELSE LET d1 == IF s1.per[f] = "true" THEN [done EXCEPT ![f] = Len(wb[f])] ELSE done
                        s2 == IF s1.per[f] = "true" THEN [TouchS(s1, f) EXCEPT !.per[f] = "none"] ELSE s1
                    IN ForceFold(DeleteS(s2, f), ord, i + 1, ttl, d1, failed, del \cup {f})
ForceRun(ord, ttl) == ForceFold(St, ord, 1, ttl, [f \in Files |-> 0], {}, {})
ForcePassRes(ord, ttl) == ForceRun(ord, ttl).del
\* dn = the number of successful task executions per blob observed in this pass
ForceDoneOK(r, dn) == \A f \in Files : IF f \in r.failed THEN dn[f] >= r.done[f] /\ dn[f] <= NumOk(wb[f])
                                                          ELSE dn[f] = r.done[f]
ForcePass(ord, ttl, dn) ==
  LET r == ForceRun(ord, ttl) IN
  /\ ForceDoneOK(r, dn)
  /\ Put(r.s) /\ wbdone' = dn /\ Same /\ UNCHANGED <<own, wb>>
  /\ lastpass' = [kind |-> "force", ttl |-> ttl]
\* environment: the pending write-back tasks of a blob are (re)registered, with the outcome each execution will have
SetTask(f, ts) == wb' = [wb EXCEPT ![f] = ts] /\ wbdone' = [wbdone EXCEPT ![f] = 0]
                  /\ lastpass' = NoPass /\ UNCHANGED <<fvars, own>>
SetOwn(f, b) == own' = [own EXCEPT ![f] = b] /\ lastpass' = NoPass /\ UNCHANGED <<fvars, wb, wbdone>>

----------------------------------------------------------------------------
CONSTANTS TTIs, TTLs, Lowers, Usages,     \* design-model parameter sets
          EnvFiles,                       \* files whose ownership / write-back tasks the design model varies
          TaskPats                        \* task outcome sequences the design model registers
MCTaskPats  == {<<"ok">>, <<"fail">>, <<"fail", "ok">>, <<"ok", "fail">>}
MCTaskPats3 == MCTaskPats \cup {<<>>, <<"ok", "ok">>, <<"ok", "fail", "ok">>, <<"fail", "ok", "ok">>, <<"ok", "ok", "fail">>}
Perms(S) == {p \in [1..Cardinality(S) -> S] : \A i, j \in 1..Cardinality(S) : i # j => p[i] # p[j]}
CNext == \/ \E f \in Files : Lift(Create(f, 1, now)) \/ Lift(Touch(f)) \/ Lift(Delete(f))
         \/ \E f \in Files, v \in {"true", "none"} : Lift(SetPersist(f, v))
         \/ \E f \in Files : Lift(SetLat(f, -1))
         \/ Lift(Tick(1))
         \/ \E ord \in Perms(ListRes), tti \in TTIs, ttl \in TTLs, lo \in Lowers, u \in Usages :
               TTLPass(ord, tti, ttl, lo, u, 4)
         \/ \E ord \in Perms(ListRes), lo \in Lowers \ {0} : PolicyPass(ord, lo, 4)
         \/ \E ord \in Perms(ListRes), ttl \in TTLs : ForcePass(ord, ttl, ForceRun(ord, ttl).done)
         \/ \E f \in EnvFiles, ts \in TaskPats : SetTask(f, ts)
         \/ \E f \in EnvFiles : SetOwn(f, FALSE)
CSpec == (\E c \in FCaps : CInit(c)) /\ [][CNext]_cvars

(* Properties (C10) *)
\* a file awaiting write-back is never removed by DeleteFile, LRU eviction, periodic or aggressive cleanup;
\* the forced cleanup of the origin may remove it, but only after its write-back task ran successfully
PersistProtectedStep ==
  \A f \in Files : (persist[f] = "true" /\ onDisk[f] /\ ~onDisk'[f]) =>
        /\ lastpass'.kind = "force"
        /\ AllOk(wb[f])
        /\ wbdone'[f] = Len(wb[f])
PersistProtected == [][PersistProtectedStep]_cvars
\* a normal pass (no threshold cut-off) removes exactly the unprotected idle / expired files; on a
\* capacity-bounded map the pass's own reloads may additionally evict unprotected files
Unprot(f) == onDisk[f] /\ persist[f] # "true"
NormalPassExact ==
  [][(lastpass'.kind = "ttl" /\ ~lastpass'.thr) =>
        \A f \in Files :
          /\ (Unprot(f) /\ f \in Range(lastpass'.ord) /\ IdleAt(St, f, lastpass'.tti, lastpass'.ttl)) => ~onDisk'[f]
          /\ (onDisk[f] /\ ~onDisk'[f]) => (Unprot(f) /\ (IdleAt(St, f, lastpass'.tti, lastpass'.ttl) \/ cap > 0))
          /\ (~onDisk[f]) => ~onDisk'[f]]_cvars
\* with the cut-off the pass removes a subset of the idle files
ThresholdPassSubset ==
  [][(lastpass'.kind = "ttl" /\ lastpass'.thr /\ cap = 0) =>
        \A f \in Files : (onDisk[f] /\ ~onDisk'[f]) => (Unprot(f) /\ IdleAt(St, f, lastpass'.tti, lastpass'.ttl))]_cvars
\* the usage-driven policy deletes in policy order: a deleted candidate implies every unprotected candidate
\* that the policy ranks strictly before it is deleted too (served-to-consumers first, then least recently accessed)
PolicyOrder ==
  [][(lastpass'.kind = "policy" /\ cap = 0) =>
        \A a, b \in lastpass'.cands :
          (Less(a, b) /\ persist[a.f] # "true" /\ ~onDisk'[b.f]) => ~onDisk'[a.f]]_cvars
CInv == FInv
\* design model only: the pass parameters are history, not state
CView == <<fvars, own, wb, wbdone>>
=============================================================================
