------------------------------ MODULE ByteFile ------------------------------
(* API-level specification of a seekable byte file (property C12).

   This is the behaviour of an operating-system file (os.File opened O_RDWR, never
   truncated) restricted to what the property names: bytes, byte counts, sizes and
   offsets.  The same module is the oracle for lib/store/base.BufferReadWriter and
   lib/store/memory.File: the harness runs identical operation sequences on all
   three and validates every recorded history against this one specification
   (the os.File histories validate the SPEC against the operating system).

   Abstract state: the file content (a sequence of byte values; index 1 = file
   offset 0) and the handle's current offset.  One action per public call.
   Error VALUES are not part of the property and are not modelled; a call that the
   operating system refuses (negative offset / negative seek target) transfers no
   bytes, answers count/position 0 and leaves the state unchanged.

   Domain (the property's quantifier): seeks stay within the written extent, i.e.
   the Seek action is only specified for targets <= Len(content); consequently
   off <= Len(content) always holds and only positional writes create gaps.       *)
EXTENDS Sequences, Integers
CONSTANTS PBytes,     \* byte values payloads may contain (gap filler 0 need not be a member)
          MaxP,       \* longest payload / read request (design model only)
          MaxLen      \* bound on the file length (design model only)
VARIABLES content,    \* Seq(0..255)
          off         \* Nat, current offset of the handle
fvars == <<content, off>>

Min(a, b) == IF a < b THEN a ELSE b
Max(a, b) == IF a > b THEN a ELSE b
Slice(s, from, to) == IF to < from THEN <<>> ELSE SubSeq(s, from, to)

\* content after writing p at file offset o (o >= 0); a hole between the old end and o reads as zeros.
\* A zero-length write transfers nothing and therefore never extends the file (pwrite(2) with count 0).
Put(s, p, o) == IF Len(p) = 0 THEN s
                ELSE [i \in 1..Max(Len(s), o + Len(p)) |->
                        IF i > o /\ i <= o + Len(p) THEN p[i - o]
                        ELSE IF i <= Len(s) THEN s[i] ELSE 0]
\* the bytes a read of n bytes at offset o transfers (short at end of file, nothing beyond it)
Get(s, n, o) == IF o < 0 \/ n <= 0 THEN <<>> ELSE Slice(s, o + 1, Min(o + n, Len(s)))

Init == content = <<>> /\ off = 0

\* ---- Write(p): at the current offset, advances the offset.  Reply: count.
WriteRes(p) == Len(p)
Write(p) == /\ content' = Put(content, p, off)
            /\ off' = off + Len(p)

\* ---- WriteAt(p, o): positional, offset of the handle untouched.  Reply: count.
WriteAtRes(p, o) == IF o < 0 THEN 0 ELSE Len(p)
WriteAt(p, o) == /\ content' = IF o < 0 THEN content ELSE Put(content, p, o)
                 /\ off' = off

\* ---- Read(n): up to n bytes at the current offset, advances by the count.  Reply: the bytes.
ReadRes(n) == Get(content, n, off)
Read(n) == /\ off' = off + Len(ReadRes(n))
           /\ content' = content

\* ---- ReadAt(n, o): positional.  Reply: the bytes.
ReadAtRes(n, o) == Get(content, n, o)
ReadAt(n, o) == UNCHANGED fvars

\* ---- Seek(o, wh): wh 0 = start, 1 = current, 2 = end.  Reply: new position (0 when refused).
SeekTarget(o, wh) == IF wh = 0 THEN o ELSE IF wh = 1 THEN off + o ELSE Len(content) + o
SeekInDomain(o, wh) == wh \in {0, 1, 2} /\ SeekTarget(o, wh) <= Len(content)
SeekRes(o, wh) == IF SeekTarget(o, wh) < 0 THEN 0 ELSE SeekTarget(o, wh)
Seek(o, wh) == /\ SeekInDomain(o, wh)
               /\ off' = IF SeekTarget(o, wh) < 0 THEN off ELSE SeekTarget(o, wh)
               /\ content' = content

\* ---- Size.  Reply: length of the content.
SizeRes == Len(content)
Size == UNCHANGED fvars

----------------------------------------------------------------------------
(* design model *)
Payloads == UNION {[1..n -> PBytes] : n \in 0..MaxP}
Offs == (0 - 1)..MaxLen

Next == \/ \E p \in Payloads : Write(p)
        \/ \E p \in Payloads, o \in Offs : WriteAt(p, o)
        \/ \E n \in 0..MaxP : Read(n)
        \/ \E n \in 0..MaxP, o \in Offs : ReadAt(n, o)
        \/ \E o \in (0 - MaxLen)..MaxLen, wh \in {0, 1, 2} : Seek(o, wh)
        \/ Size
Spec == Init /\ [][Next]_fvars
Bound == Len(content) <= MaxLen

----------------------------------------------------------------------------
(* Properties (C12) -- checked by TLC on the design model and on every state / step of the recorded traces *)
TypeOK == /\ content \in Seq(0..255)
          /\ off \in Nat
\* the handle never points beyond the written extent (seeks are restricted to it, writes extend it)
OffWithin == off <= Len(content)
Inv == TypeOK /\ OffWithin

\* no operation ever shrinks the file
StepNoTruncate == Len(content') >= Len(content)
NoTruncate == [][StepNoTruncate]_fvars
\* a step that changes the content either leaves the offset alone (WriteAt) or advances it inside the new extent (Write);
\* a step that does not change the content moves the offset only inside the extent (Read, Seek)
StepOffsetMoves == /\ (content' # content) => (off' = off \/ (off' > off /\ off' <= Len(content')))
                   /\ (content' = content) => off' <= Len(content)
OffsetMoves == [][StepOffsetMoves]_fvars
\* bytes appended by a step beyond the old end and before the old offset window are the zero hole or payload; a step that
\* leaves the offset alone and grows the file by more than it could have written at the old end leaves zeros right
\* after the old end -- stated exactly (with the payload known) as PutLaw below
\* read-your-writes: in every state the reply operators agree with the content (definitional sanity:
\* a full positional read of the extent returns the content, a read at the end returns nothing)
ReadBack == /\ ReadAtRes(Len(content), 0) = content
            /\ ReadAtRes(1, Len(content)) = <<>>
            /\ \A n \in 0..2 : Len(ReadRes(n)) = Min(n, Len(content) - off)
            /\ SizeRes = Len(content)
\* Put is exactly "old bytes, zero hole, payload" -- checked for every payload/offset of the model in every state
PutLaw == \A p \in Payloads, o \in 0..MaxLen :
            LET c2 == Put(content, p, o) IN
            /\ Len(c2) = (IF Len(p) = 0 THEN Len(content) ELSE Max(Len(content), o + Len(p)))
            /\ Len(p) > 0 => Get(c2, Len(p), o) = p
            /\ \A i \in 1..Len(c2) : (i <= o \/ i > o + Len(p)) =>
                   c2[i] = (IF i <= Len(content) THEN content[i] ELSE 0)
=============================================================================
