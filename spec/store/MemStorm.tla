------------------------------ MODULE MemStorm ------------------------------
(* Quiescent-point validation of real-concurrency storms on memory.Store (property C08, "stale
   handles fail cleanly"), complementing MemHandlesConc (short linearizability-checked histories):

   Each round of a storm history: a complete blob A fills the store; several goroutines hold
   handles on A and issue growing WriteAt calls while another goroutine admits blob B, which
   evicts A.  AFTER every goroutine has finished the driver records, for every old handle, what
   Size / ReadAt / WriteAt answer now, whether A is still in the store, and the store's accounting.

   What MemHandles says about that state: a handle of an evicted (or deleted) incarnation is dead
   for good -- Size is -1 and every read and write fails "evicted" -- and the bytes accounted by
   the store are exactly the reserved sizes of the live blobs.  Whatever the interleaving inside
   the round was, the state after it must satisfy this.                                         *)
EXTENDS Integers, Sequences, Json, TLC
Trace == ndJsonDeserialize("trace.ndjson")
VARIABLES l, rounds
vars == <<l, rounds>>
R == Trace[l]

TraceInit == TLCSet(1, 0) /\ l = 1 /\ rounds = 0
IsEvent(e) == l <= Len(Trace) /\ Trace[l].ev = e /\ l' = l + 1

Dead(r, i) == r.sizes[i] = -1 /\ r.reads[i] = "evicted" /\ r.writes[i] = "evicted"
Alive(r, i) == r.sizes[i] >= 0 /\ r.reads[i] # "evicted" /\ r.writes[i] # "evicted"
RoundOK(r) ==
  /\ \A i \in 1..Len(r.sizes) : IF r.hasA THEN Alive(r, i) ELSE Dead(r, i)   \* all handles agree with the store
  /\ r.used = r.reserved                                                   \* accounting = reserved sizes of the live blobs
  /\ r.hasB => ~r.hasA                                                     \* A filled the store: B was admitted only by evicting it

TReset == IsEvent("reset") /\ rounds' = 0
TRound == IsEvent("Round") /\ RoundOK(R) /\ rounds' = rounds + 1
TraceNext == TReset \/ TRound
TraceSpec == TraceInit /\ [][TraceNext]_vars

HW == TLCSet(1, IF TLCGet(1) < l THEN l ELSE TLCGet(1))
TraceAccepted == IF TLCGet(1) = Len(Trace) + 1 THEN TRUE
                 ELSE PrintT(<<"REJECTED_AT_LINE", TLCGet(1)>>) /\ FALSE
=============================================================================
