----------------------------- MODULE DiskCrash -----------------------------
(* Crash recovery of lib/store/disk (property C06), API level.

   The store runs as BlobStore says.  At any moment it may crash INSIDE a call: the
   call's file-system operations are cut at an arbitrary point.  What the property
   demands of the reopened store is stated per key, relative to the state before the
   in-flight call (pre) and the state the call would have produced (the current state
   after taking the call's action):

     * reopening succeeds;
     * each key shows EITHER its pre state OR its post state, never a mixture (so a blob
       completed before the crash is listed with bytes, ban and metadata, nothing
       incomplete is reported complete, a half-deleted blob is not listed) - metadata
       kinds touched by the in-flight call may individually be old or new;
     * incomplete blobs come back with their reserved size iff RebootIncomplete, else
       are dropped;
     * afterwards every key can be deleted (if listed), created and completed again.  *)
EXTENDS BlobStore
CONSTANTS RebootChoices      \* subset of BOOLEAN: settings of RebootIncompleteBlobs to explore
VARIABLES pre,     \* snapshot [st, size, banned, md, content] taken when the crash call starts
          phase,   \* "run" | "inflight" (snapshot taken, the call is executing) | "crashed"
          rbi      \* RebootIncompleteBlobs
cvars == <<bvars, pre, phase, rbi>>
Snap == [st |-> st, size |-> size, banned |-> banned, md |-> md, content |-> content]

CInit == Init /\ pre = Snap /\ phase = "run" /\ rbi \in RebootChoices

Run(A)      == phase = "run" /\ A /\ UNCHANGED <<pre, phase, rbi>>
BeginCrash  == phase = "run" /\ pre' = Snap /\ phase' = "inflight" /\ UNCHANGED <<bvars, rbi>>
Inflight(A) == phase = "inflight" /\ A /\ phase' = "crashed" /\ UNCHANGED <<pre, rbi>>
NoInflight  == phase = "inflight" /\ phase' = "crashed" /\ UNCHANGED <<bvars, pre, rbi>>

\* what a reopened store must show for key k, given one alternative (a snapshot-like record)
Proj(alt, k) == IF alt.st[k] = "inc" /\ ~rbi THEN "absent" ELSE alt.st[k]
MdEither(k, m) == \A s \in Suffixes : m[s] \in {pre.md[k][s], md[k][s]}
MatchAlt(alt, k, rst, rsize, rbanned, rmd, rcontent) ==
  /\ rst = Proj(alt, k)
  /\ rst = "comp" => (rcontent = alt.content[k] /\ rbanned = alt.banned[k])
  /\ rst = "inc"  => rsize = alt.size[k]
  /\ rst # "absent" => MdEither(k, rmd)
KeyOK(k, rst, rsize, rbanned, rmd, rcontent) ==
  \/ MatchAlt(pre, k, rst, rsize, rbanned, rmd, rcontent)
  \/ MatchAlt(Snap, k, rst, rsize, rbanned, rmd, rcontent)

\* Reboot: the new in-memory state is any per-key mixture of pre / post; sizes of complete blobs become
\* their byte length (the code stats the file), the LRU order is rebuilt from modification times.
Reboot(nst, nsize, nbanned, nmd, ncontent, nlru) ==
  /\ phase = "crashed"
  /\ \A k \in Keys : KeyOK(k, nst[k], nsize[k], nbanned[k], nmd[k], ncontent[k])
  /\ \A k \in Keys : nst[k] = "absent" => (nsize[k] = 0 /\ ~nbanned[k] /\ nmd[k] = NoMd /\ ncontent[k] = 0)
  /\ Range(nlru) = {k \in Keys : nst[k] = "comp" /\ ~nbanned[k]} /\ Len(nlru) = Cardinality(Range(nlru))
  /\ st' = nst /\ size' = nsize /\ banned' = nbanned /\ md' = nmd /\ content' = ncontent /\ lru' = nlru
  /\ used' = SumSizeOf(nsize, {k \in Keys : nst[k] # "absent"})
  /\ phase' = "run" /\ pre' = [st |-> nst, size |-> nsize, banned |-> nbanned, md |-> nmd, content |-> ncontent]
  /\ UNCHANGED <<cap, rbi>>

Perms(S) == {p \in [1..Cardinality(S) -> S] : \A i, j \in 1..Cardinality(S) : i # j => p[i] # p[j]}
Seq3 == UNION {Perms(S) : S \in SUBSET Keys}
StoreCall == \/ \E k \in Keys, sz \in Sizes, c \in Contents : Create(k, sz, c)
             \/ \E k \in Keys : MarkComplete(k) \/ Delete(k, "any") \/ Ban(k, "any") \/ Unban(k, "any")
             \/ \E k \in Keys, s \in Suffixes, v \in Vals \cup {0} : SetMd(k, s, v, "any")
\* design model: each key independently comes back in its pre or post state (metadata kinds likewise)
AltOf(p) == IF p = "pre" THEN pre ELSE Snap
RebootPick(pick, nlru) ==
  LET nst == [k \in Keys |-> Proj(AltOf(pick[k]), k)]
      live(k) == nst[k] # "absent"
  IN Reboot(nst,
            [k \in Keys |-> IF live(k) THEN AltOf(pick[k]).size[k] ELSE 0],
            [k \in Keys |-> IF live(k) THEN AltOf(pick[k]).banned[k] ELSE FALSE],
            [k \in Keys |-> IF live(k) THEN AltOf(pick[k]).md[k] ELSE NoMd],
            [k \in Keys |-> IF live(k) THEN AltOf(pick[k]).content[k] ELSE 0], nlru)
CNext == \/ Run(StoreCall) \/ BeginCrash \/ Inflight(StoreCall) \/ NoInflight
         \/ \E pick \in [Keys -> {"pre", "post"}], nlru \in Seq3 : RebootPick(pick, nlru)
CSpec == CInit /\ [][CNext]_cvars

(* Properties (C06) checked on the design model *)
\* the model invariants of the store survive every crash + reboot (space accounting, LRU membership, ...)
CInv == (phase = "run") => (UsedIsSum /\ LruExact /\ AbsentClean)
\* a blob complete before the crash call and not touched by it is complete, with the same bytes, afterwards
CompletedSurvive ==
  [][(phase = "crashed" /\ phase' = "run") =>
        \A k \in Keys : (pre.st[k] = "comp" /\ st[k] = "comp" /\ pre.content[k] = content[k])
                           => (st'[k] = "comp" /\ content'[k] = content[k])]_cvars
\* nothing that was not complete (before or by the in-flight call) is reported complete
NoFalseComplete ==
  [][(phase = "crashed" /\ phase' = "run") =>
        \A k \in Keys : st'[k] = "comp" => (pre.st[k] = "comp" \/ st[k] = "comp")]_cvars
=============================================================================
