SPECIFICATION Spec
CONSTANTS
  PBytes = {1, 2}
  MaxP = 2
  MaxLen = 4
INVARIANT Inv ReadBack PutLaw
PROPERTY NoTruncate OffsetMoves
CONSTRAINT Bound
