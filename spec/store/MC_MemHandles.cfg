SPECIFICATION HSpec
CONSTANTS
  Keys = {"k1","k2"}
  Suffixes = {"mov","fix"}
  Vals = {1}
  Contents = {1}
  Sizes = {1,2}
  Caps = {2}
  Hids = {1,2}
  Bytes = {7}
INVARIANT HInv
PROPERTY DeadStaysDead
CONSTRAINT Bound
