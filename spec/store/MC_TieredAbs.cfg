SPECIFICATION ASpec
CONSTANTS
  Keys = {"k1","k2"}
  MdVals = {1,2}
  Contents = {1,2}
INVARIANT ATypeOK
