---------------------------- MODULE CleanupTrace ----------------------------
(* Trace validation for property C10: recorded histories of the real base.FileOp / LRU file map,
   of the real cleanup passes of lib/store/cleanup.go (reached through an export-only shim) and of the
   origin's /forcecleanup handler, against modules FileMap and Cleanup.
   After every call the harness logs what it sees on disk WITHOUT going through FileOp (data file present,
   size, mtime, _persist and _last_access_time contents) and the order of the in-memory file map. *)
EXTENDS Cleanup, Json, TLC
Trace == ndJsonDeserialize("trace.ndjson")
VARIABLE l
tvars == <<cvars, l>>
R == Trace[l]
SetOf(s) == {s[i] : i \in 1..Len(s)}

TraceInit == TLCSet(1, 0) /\ CInit(0) /\ l = 1
IsEvent(e) == l <= Len(Trace) /\ Trace[l].ev = e /\ l' = l + 1
\* observations: the whole on-disk state and the map order after the call
ObsOK == /\ \A f \in Files : /\ onDisk'[f] = R.disk[f] /\ persist'[f] = R.per[f] /\ lat'[f] = R.lat[f]
                             /\ mtime'[f] = R.mt[f] /\ fsize'[f] = R.sz[f]
         /\ mapq' = R.map

TReset == /\ IsEvent("reset")
          /\ onDisk' = [f \in Files |-> FALSE] /\ persist' = [f \in Files |-> "none"]
          /\ mtime' = [f \in Files |-> 0] /\ lat' = [f \in Files |-> -1] /\ fsize' = [f \in Files |-> 0]
          /\ mapq' = <<>> /\ mlat' = [f \in Files |-> -1] /\ now' = R.cfg.now0 /\ cap' = R.cfg.cap
          /\ lastpass' = NoPass /\ own' = [f \in Files |-> TRUE]
          /\ wb' = [f \in Files |-> <<>>] /\ wbdone' = [f \in Files |-> 0]

TCreate  == IsEvent("Create") /\ R.res = CreateRes(R.f) /\ Lift(Create(R.f, R.size, R.mtime)) /\ ObsOK
TStat    == IsEvent("Stat") /\ <<R.res, R.size, R.mtime>> = StatRes(R.f) /\ Lift(Peek(R.f)) /\ ObsOK
TGetLat  == IsEvent("GetLat") /\ <<R.res, R.val>> = GetLatRes(R.f) /\ Lift(Peek(R.f)) /\ ObsOK
TGetPer  == IsEvent("GetPersist") /\ R.res = GetPersistRes(R.f) /\ Lift(Peek(R.f)) /\ ObsOK
TRead    == IsEvent("Read") /\ R.res = FoundRes(R.f) /\ Lift(Touch(R.f)) /\ ObsOK
TSetPer  == IsEvent("SetPersist") /\ R.res = FoundRes(R.f) /\ Lift(SetPersist(R.f, R.v)) /\ ObsOK
TSetLat  == IsEvent("SetLat") /\ R.res = FoundRes(R.f) /\ Lift(SetLat(R.f, R.val)) /\ ObsOK
TDelete  == IsEvent("Delete") /\ R.res = DeleteRes(R.f) /\ Lift(Delete(R.f)) /\ ObsOK
TSetMt   == IsEvent("SetMtime") /\ Lift(SetMtime(R.f, R.val)) /\ ObsOK
TTick    == IsEvent("Tick") /\ Lift(Tick(R.d))
TList    == IsEvent("List") /\ SetOf(R.names) = ListRes /\ UNCHANGED cvars

TTTL     == /\ IsEvent("TTLPass")
            /\ R.ret = TTLPassRes(R.ord, R.tti, R.ttl, R.lower, R.used, R.totalb)
            /\ TTLPass(R.ord, R.tti, R.ttl, R.lower, R.used, R.totalb) /\ ObsOK
TPolicy  == /\ IsEvent("PolicyPass")
            /\ R.ret = PolicyPassRes(R.ord)
            /\ PolicyPass(R.ord, R.lower, R.totalb) /\ ObsOK
\* cleanupManager.cleanup itself (real disk usage probe; the harness logs the utilisation it read)
TCleanup == /\ IsEvent("Cleanup")
            /\ LET d == Dispatch(R.c, R.util, R.policy) IN
               IF d.kind = "policy"
               THEN R.ret = PolicyPassRes(R.ord) /\ PolicyPass(R.ord, d.lower, R.totalb)
               ELSE /\ R.ret = TTLPassRes(R.ord, R.c.tti, d.ttl, d.lower, R.used, R.totalb)
                    /\ TTLPass(R.ord, R.c.tti, d.ttl, d.lower, R.used, R.totalb)
            /\ ObsOK
TAggro   == IsEvent("Aggro") /\ R.res = Aggro(R.c, R.util) /\ UNCHANGED cvars
TForce   == /\ IsEvent("ForcePass")
            /\ SetOf(R.deleted) = ForcePassRes(R.ord, R.ttl)
            /\ ForcePass(R.ord, R.ttl, [f \in Files |-> R.done[f]]) /\ ObsOK
TSetTask == IsEvent("SetTask") /\ SetTask(R.f, R.ts)
TSetOwn  == IsEvent("SetOwn") /\ SetOwn(R.f, R.b)

TraceNext == \/ TReset \/ TCreate \/ TStat \/ TGetLat \/ TGetPer \/ TRead \/ TSetPer \/ TSetLat \/ TDelete
             \/ TSetMt \/ TTick \/ TList \/ TTTL \/ TPolicy \/ TCleanup \/ TAggro \/ TForce \/ TSetTask \/ TSetOwn
TraceSpec == TraceInit /\ [][TraceNext]_tvars

\* a reset record is the boundary between two recorded histories (fresh store), not a step of the system
TPersistProtected == [][(l <= Len(Trace) /\ Trace[l].ev = "reset") \/ PersistProtectedStep]_tvars

HW == TLCSet(1, IF TLCGet(1) < l THEN l ELSE TLCGet(1))
TraceAccepted == IF TLCGet(1) = Len(Trace) + 1 THEN TRUE
                 ELSE PrintT(<<"REJECTED_AT_LINE", TLCGet(1)>>) /\ FALSE
=============================================================================
