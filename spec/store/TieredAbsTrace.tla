-------------------------- MODULE TieredAbsTrace --------------------------
(* Trace validation of replayed Tiered schedules (real tiered.Store) against TieredAbs. *)
EXTENDS TieredAbs, Json, TLC
Trace == ndJsonDeserialize("trace.ndjson")
VARIABLE l
tvars == <<avars, l>>
R == Trace[l]

TraceInit == TLCSet(1, 0) /\ AInit /\ l = 1
IsEvent(e) == l <= Len(Trace) /\ Trace[l].ev = e /\ l' = l + 1
ObsOK == ObsAllowedS(ts'[R.k], tc'[R.k], tmd'[R.k], R.open, R.md, R.has)

TReset  == IsEvent("reset") /\ ts' = [k \in Keys |-> "none"] /\ tc' = [k \in Keys |-> 0] /\ tmd' = [k \in Keys |-> 0]
TCreate == IsEvent("Create") /\ R.res = "ok" /\ ACreate(R.k, R.c) /\ ObsOK
TMark   == IsEvent("MarkComplete") /\ R.res = "ok" /\ AMarkComplete(R.k) /\ ObsOK
TDelete == IsEvent("Delete") /\ R.res = "ok" /\ ADelete(R.k) /\ ObsOK
TSetMd  == IsEvent("SetMd") /\ R.res = "ok" /\ ASetMd(R.k, R.v) /\ ObsOK
TIntern == (IsEvent("W") \/ IsEvent("Pressure") \/ IsEvent("Quiesce")) /\ AInternal /\ ObsOK
\* a schedule the replayer could not force (model drift) ends its trace without a verdict
TDrift  == IsEvent("Drift") /\ AInternal

TraceNext == TReset \/ TCreate \/ TMark \/ TDelete \/ TSetMd \/ TIntern \/ TDrift
TraceSpec == TraceInit /\ [][TraceNext]_tvars

HW == TLCSet(1, IF TLCGet(1) < l THEN l ELSE TLCGet(1))
TraceAccepted == IF TLCGet(1) = Len(Trace) + 1 THEN TRUE
                 ELSE PrintT(<<"REJECTED_AT_LINE", TLCGet(1)>>) /\ FALSE
=============================================================================
