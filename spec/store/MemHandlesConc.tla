--------------------------- MODULE MemHandlesConc ---------------------------
(* Linearizability of CONCURRENT memory.Store histories (C08, "concurrent readers/writers racing
   with evictions").  Three goroutines call the real store; every call is logged twice, when it is
   issued ("call") and when it returned ("ret", with the reply).  Between the two records the call
   takes effect at one instant: the silent step Lin(g) applies the MemHandles action and fixes the
   reply.  TLC accepts the trace iff some choice of those instants explains every logged reply.   *)
EXTENDS MemHandles, Json, TLC
CONSTANT G
Trace == ndJsonDeserialize("trace.ndjson")
VARIABLES l, pend, lin
tvars == <<mvars, l, pend, lin>>
R == Trace[l]
NoCall == [op |-> "none"]
NoLin == [res |-> "none", bytes |-> <<>>, n |-> 0]
Reply(res, b, n) == [res |-> res, bytes |-> b, n |-> n]

TraceInit == TLCSet(1, 0) /\ HInit /\ l = 1 /\ pend = [g \in G |-> NoCall] /\ lin = [g \in G |-> NoLin]
IsEvent(e) == l <= Len(Trace) /\ Trace[l].ev = e /\ l' = l + 1

TReset == /\ IsEvent("reset")
          /\ st' = [k \in Keys |-> "absent"] /\ size' = [k \in Keys |-> 0]
          /\ banned' = [k \in Keys |-> FALSE] /\ md' = [k \in Keys |-> NoMd]
          /\ content' = [k \in Keys |-> 0] /\ lru' = <<>> /\ used' = 0 /\ cap' = R.cfg.cap
          /\ inc' = [k \in Keys |-> 0] /\ bytes' = [k \in Keys |-> <<>>] /\ hd' = [h \in Hids |-> NoH]
          /\ pend' = [g \in G |-> NoCall] /\ lin' = [g \in G |-> NoLin]
TCall == IsEvent("call") /\ pend[R.g].op = "none" /\ pend' = [pend EXCEPT ![R.g] = R] /\ UNCHANGED <<mvars, lin>>
TRet  == /\ IsEvent("ret") /\ pend[R.g].op # "none" /\ lin[R.g].res # "none"
         /\ lin[R.g] = Reply(R.res, R.bytes, R.n)
         /\ pend' = [pend EXCEPT ![R.g] = NoCall] /\ lin' = [lin EXCEPT ![R.g] = NoLin] /\ UNCHANGED mvars

\* Create without the harness' content write (in concurrent histories bytes are written by separate HWriteAt calls)
MCreate0(k, sz, h) ==
  /\ Create(k, sz, 0)
  /\ IF CreateRes(k, sz) = "ok"
     THEN /\ inc' = [inc EXCEPT ![k] = @ + 1]
          /\ bytes' = [BytesAfter EXCEPT ![k] = <<>>]
          /\ hd' = [hd EXCEPT ![h] = [k |-> k, inc |-> inc[k] + 1, off |-> 0]]
     ELSE inc' = inc /\ bytes' = BytesAfter /\ hd' = hd

\* the call of goroutine g takes effect now
Lin(g) ==
  LET c == pend[g] IN
  /\ c.op # "none" /\ lin[g].res = "none" /\ UNCHANGED <<l, pend>>
  /\ \/ c.op = "Create" /\ lin' = [lin EXCEPT ![g] = Reply(CreateRes(c.k, c.sz), <<>>, 0)] /\ MCreate0(c.k, c.sz, c.h)
     \/ c.op = "Open" /\ lin' = [lin EXCEPT ![g] = Reply(OpenRes(c.k, "any"), <<>>, 0)] /\ MOpen(c.k, "any", c.h)
     \/ c.op = "MarkComplete" /\ lin' = [lin EXCEPT ![g] = Reply(MarkCompleteRes(c.k), <<>>, 0)] /\ Lift(MarkComplete(c.k))
     \/ c.op = "Delete" /\ lin' = [lin EXCEPT ![g] = Reply(DeleteRes(c.k, "any"), <<>>, 0)] /\ Lift(Delete(c.k, "any"))
     \/ c.op = "HReadAt" /\ lin' = [lin EXCEPT ![g] = Reply(HReadAtRes(c.h, c.n, c.off)[1], HReadAtRes(c.h, c.n, c.off)[2], 0)] /\ UNCHANGED mvars
     \/ c.op = "HWriteAt" /\ lin' = [lin EXCEPT ![g] = Reply(HWriteRes(c.h, c.p)[1], <<>>, HWriteRes(c.h, c.p)[2])] /\ HWriteAt(c.h, c.p, c.off, FALSE)
     \/ c.op = "HSize" /\ lin' = [lin EXCEPT ![g] = Reply("ok", <<>>, HSizeRes(c.h))] /\ UNCHANGED mvars

TraceNext == TReset \/ TCall \/ TRet \/ \E g \in G : Lin(g)
TraceSpec == TraceInit /\ [][TraceNext]_tvars

HW == TLCSet(1, IF TLCGet(1) < l THEN l ELSE TLCGet(1))
TraceAccepted == IF TLCGet(1) = Len(Trace) + 1 THEN TRUE
                 ELSE PrintT(<<"REJECTED_AT_LINE", TLCGet(1)>>) /\ FALSE
=============================================================================
