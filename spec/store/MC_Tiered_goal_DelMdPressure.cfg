SPECIFICATION Spec
CONSTANTS
  Keys = {"k1"}
  Workers = {1}
  MaxObj = 4
  MaxC = 2
  MdVals = {1,2}
  FixIdentity = FALSE
  FixCreateUnderLock = FALSE
  FixBanOnDirty = FALSE
  FixNoDoubleFlush = FALSE
  ClientAtomic = TRUE
  EagerNext = TRUE
  SimDepth = 0
INVARIANT NoGoalDelMdPressure
VIEW view3
CHECK_DEADLOCK FALSE
