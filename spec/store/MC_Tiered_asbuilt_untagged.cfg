SPECIFICATION Spec
CONSTANTS
  Keys = {"k1"}
  Workers = {1}
  MaxObj = 4
  MaxC = 3
  MdVals = {1,2}
  FixIdentity = FALSE
  FixCreateUnderLock = FALSE
  FixBanOnDirty = FALSE
  FixNoDoubleFlush = FALSE
  ClientAtomic = TRUE
  EagerNext = TRUE
  SimDepth = 0
INVARIANT UntaggedOK
CHECK_DEADLOCK FALSE
VIEW view2
