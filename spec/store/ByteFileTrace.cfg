SPECIFICATION TraceSpec
CONSTANTS
  PBytes = {1}
  MaxP = 0
  MaxLen = 0
INVARIANT Inv
PROPERTY TNoTruncate TOffsetMoves
CONSTRAINT HW
POSTCONDITION TraceAccepted
CHECK_DEADLOCK FALSE
