SPECIFICATION Spec
CONSTANTS
  Digests = {"d1","d2"}
  Kinds = {"exact","flipped","trunc"}
  VerifyMem = FALSE
  FenceWriters = TRUE
  MaxRetries = 2
INVARIANT Inv
PROPERTY FailedWriteLeavesNothing
CONSTRAINT Bound
