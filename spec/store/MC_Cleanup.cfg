SPECIFICATION CSpec
CONSTANTS
  Files = {"f1","f2"}
  Res = 2
  DT1 = 0
  DT45 = 1
  FCaps = {1}
  FMaxT = 1
  TTIs = {1}
  TTLs = {1}
  Lowers = {0, 50}
  Usages = {2}
  EnvFiles = {"f1"}
  TaskPats <- MCTaskPats3
INVARIANT CInv
PROPERTY PersistProtected NormalPassExact ThresholdPassSubset PolicyOrder
CONSTRAINT FBound
VIEW CView
