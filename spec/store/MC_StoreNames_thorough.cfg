SPECIFICATION Spec
CONSTANTS
  MaxLen = 4
  Rule = "fixed"
  AuxNames <- NoAux
INVARIANT Inv
