SPECIFICATION TraceSpec
CONSTANTS
  Digests = {"d1","d2","d3"}
  Kinds = {"exact","flipped","trunc","ext","abort"}
  VerifyMem = TRUE
  FenceWriters = TRUE
  MaxRetries = 2
INVARIANT Inv
CONSTRAINT HW
POSTCONDITION TraceAccepted
CHECK_DEADLOCK FALSE
