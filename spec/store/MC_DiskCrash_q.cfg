SPECIFICATION CSpec
CONSTANTS
  Keys = {"k1","k2"}
  Suffixes = {"mov"}
  Vals = {1}
  Contents = {1}
  Sizes = {1}
  Caps = {2}
  RebootChoices = {TRUE, FALSE}
INVARIANT CInv
PROPERTY CompletedSurvive NoFalseComplete
