SPECIFICATION FSpec
CONSTANTS
  Files = {"f1","f2"}
  Res = 2
  FCaps = {0, 1}
  FMaxT = 2
INVARIANT FInv
PROPERTY PersistNeverRemoved RemovedLeavesMap
CONSTRAINT FBound
