----------------------------- MODULE BlobStore -----------------------------
(* API-level reference model shared by lib/store/disk (C07), lib/store/memory (C08)
   and, as the two tiers, lib/store/tiered (C09): a capacity-bounded blob store with
   LRU eviction of complete, not eviction-banned blobs, completeness scopes and
   per-blob metadata.  One action per public call; the reply of every call is an
   operator evaluated in the pre-state (XxxRes) so that trace specifications can
   bind it to the logged reply.                                                   *)
EXTENDS Sequences, FiniteSets, Integers
CONSTANTS Keys,        \* blob keys "k1".."kN"
          Suffixes,    \* metadata kinds; "mov" is movable, "fix" is not
          Vals,        \* metadata values (positive ints); 0 = not set
          Contents,    \* abstract blob contents (positive ints); 0 = nothing written
          Sizes,       \* reserved sizes a Create may ask for
          Caps         \* capacities
VARIABLES st, size, banned, md, content, lru, used, cap
bvars == <<st, size, banned, md, content, lru, used, cap>>

Scopes == {"any", "comp", "inc"}
Range(s) == {s[i] : i \in 1..Len(s)}
NoMd == [s \in Suffixes |-> 0]
Movable(s) == s # "fix"

Init == /\ st = [k \in Keys |-> "absent"]
        /\ size = [k \in Keys |-> 0]
        /\ banned = [k \in Keys |-> FALSE]
        /\ md = [k \in Keys |-> NoMd]
        /\ content = [k \in Keys |-> 0]
        /\ lru = <<>>
        /\ used = 0
        /\ cap \in Caps

OutOfScope(k, sc) == (st[k] = "comp" /\ sc = "inc") \/ (st[k] = "inc" /\ sc = "comp")
\* reply class of every scoped single-key call that has no other failure mode
Gate(k, sc) == IF st[k] = "absent" THEN "notexist" ELSE IF OutOfScope(k, sc) THEN "outofscope" ELSE "ok"

RECURSIVE Freed(_)
Freed(n) == IF n = 0 THEN 0 ELSE size[lru[n]] + Freed(n - 1)
\* number of LRU heads evicted to admit `space` more bytes; Len(lru) (everything) when even that is not enough
Fits(space, n) == used - Freed(n) + space <= cap
EvOK(space) == \E n \in 0..Len(lru) : Fits(space, n)
EvN(space) == IF EvOK(space) THEN CHOOSE n \in 0..Len(lru) : Fits(space, n) /\ \A m \in 0..(n-1) : ~Fits(space, m)
              ELSE Len(lru)
Victims(n) == {lru[i] : i \in 1..n}

\* the store after evicting the first n entries of the LRU queue
Evicted(n, f, dflt) == [k \in Keys |-> IF k \in Victims(n) THEN dflt ELSE f[k]]
DropSeq(n) == SubSeq(lru, n + 1, Len(lru))
Without(k) == SelectSeq(lru, LAMBDA x : x # k)

----------------------------------------------------------------------------
CreateRes(k, sz) == IF st[k] # "absent" THEN "exist" ELSE IF EvOK(sz) THEN "ok" ELSE "nospace"
Create(k, sz, c) ==
  IF st[k] # "absent" THEN UNCHANGED bvars
  ELSE LET n == EvN(sz) ok == EvOK(sz) IN
       /\ st' = [Evicted(n, st, "absent") EXCEPT ![k] = IF ok THEN "inc" ELSE "absent"]
       /\ size' = [Evicted(n, size, 0) EXCEPT ![k] = IF ok THEN sz ELSE 0]
       /\ banned' = Evicted(n, banned, FALSE)
       /\ md' = Evicted(n, md, NoMd)
       /\ content' = [Evicted(n, content, 0) EXCEPT ![k] = IF ok THEN c ELSE 0]
       /\ lru' = DropSeq(n)
       /\ used' = used - Freed(n) + (IF ok THEN sz ELSE 0)
       /\ UNCHANGED cap

\* Create of a name the file system refuses (longer than NAME_MAX, or below an existing blob's data file): room is made as
\* for any admission (the LRU heads are evicted), the directory cannot be made, the reservation is handed back and nothing
\* is stored - reserved bytes stay the sum of the live sizes (disk store only; lib/store/disk/store.go Create, failure paths).
CreateBadRes(sz) == IF EvOK(sz) THEN "other" ELSE "nospace"
CreateBad(sz) == LET n == EvN(sz) IN
       /\ st' = Evicted(n, st, "absent") /\ size' = Evicted(n, size, 0)
       /\ banned' = Evicted(n, banned, FALSE) /\ md' = Evicted(n, md, NoMd)
       /\ content' = Evicted(n, content, 0)
       /\ lru' = DropSeq(n) /\ used' = used - Freed(n)
       /\ UNCHANGED cap

\* Open: reply class and (when ok) the content read back; touches the LRU position
OpenRes(k, sc) == Gate(k, sc)
Open(k, sc) == /\ lru' = IF Gate(k, sc) = "ok" /\ k \in Range(lru) THEN Append(Without(k), k) ELSE lru
               /\ UNCHANGED <<st, size, banned, md, content, used, cap>>

\* pure reads
HasRes(k, sc) == <<st[k] # "absent", st[k] # "absent" /\ ~OutOfScope(k, sc)>>
StatRes(k, sc) == Gate(k, sc)
ListRes(sc) == {k \in Keys : st[k] # "absent" /\ ~OutOfScope(k, sc)}
GetMdRes(k, s, sc) == IF Gate(k, sc) = "ok" THEN <<"ok", md[k][s]>> ELSE <<Gate(k, sc), 0>>
ListMdRes(k, sc) == IF Gate(k, sc) = "ok" THEN {s \in Suffixes : md[k][s] # 0} ELSE {}
Read == UNCHANGED bvars

MarkCompleteRes(k) == IF st[k] = "absent" THEN "notexist" ELSE "ok"
MarkComplete(k) ==
  IF st[k] # "inc" THEN UNCHANGED bvars
  ELSE /\ st' = [st EXCEPT ![k] = "comp"]
       /\ lru' = IF banned[k] THEN lru ELSE Append(lru, k)
       /\ md' = [md EXCEPT ![k] = [s \in Suffixes |-> IF Movable(s) THEN md[k][s] ELSE 0]]
       /\ UNCHANGED <<size, banned, content, used, cap>>

Remove(k) == /\ st' = [st EXCEPT ![k] = "absent"]
             /\ size' = [size EXCEPT ![k] = 0]
             /\ banned' = [banned EXCEPT ![k] = FALSE]
             /\ md' = [md EXCEPT ![k] = NoMd]
             /\ content' = [content EXCEPT ![k] = 0]
             /\ lru' = Without(k)
             /\ used' = used - size[k]
             /\ UNCHANGED cap
DeleteRes(k, sc) == Gate(k, sc)
Delete(k, sc) == IF Gate(k, sc) = "ok" THEN Remove(k) ELSE UNCHANGED bvars

BanRes(k, sc) == Gate(k, sc)
Ban(k, sc) == IF Gate(k, sc) = "ok" /\ ~banned[k]
              THEN /\ banned' = [banned EXCEPT ![k] = TRUE]
                   /\ lru' = Without(k)
                   /\ UNCHANGED <<st, size, md, content, used, cap>>
              ELSE UNCHANGED bvars
Unban(k, sc) == IF Gate(k, sc) = "ok" /\ banned[k]
                THEN /\ banned' = [banned EXCEPT ![k] = FALSE]
                     /\ lru' = IF st[k] = "comp" THEN Append(lru, k) ELSE lru
                     /\ UNCHANGED <<st, size, md, content, used, cap>>
                ELSE UNCHANGED bvars

SetMdRes(k, sc) == Gate(k, sc)
SetMd(k, s, v, sc) == IF Gate(k, sc) = "ok"
                      THEN md' = [md EXCEPT ![k][s] = v] /\ UNCHANGED <<st, size, banned, content, lru, used, cap>>
                      ELSE UNCHANGED bvars
DelMd(k, s, sc) == SetMd(k, s, 0, sc)

----------------------------------------------------------------------------
(* Clean(targetPercent, respectBan) -- disk store only.  Phase 1 evicts LRU heads until
   used <= target.  If that is not enough, phase 2 deletes blobs that are not banned
   (by then: incomplete ones) and, unless respectBan, phase 3 deletes banned blobs; the
   code ranges over a Go map in those phases, so WHICH blobs go is nondeterministic:
   a set D is a possible outcome iff deletion stops exactly when used <= target.     *)
Target(pct) == (cap * pct) \div 100
SumSize(S) == LET RECURSIVE Sum(_)
                  Sum(T) == IF T = {} THEN 0 ELSE LET x == CHOOSE x \in T : TRUE IN size[x] + Sum(T \ {x})
              IN Sum(S)
\* D is what a stop-when-satisfied loop over Cand (any order) may delete, starting from u bytes used
LoopOutcome(D, Cand, u, tgt) ==
  /\ D \subseteq Cand
  /\ IF D = {} THEN (Cand = {} \/ u <= tgt)
     ELSE /\ \E d \in D : u - SumSize(D \ {d}) > tgt
          /\ (D # Cand => u - SumSize(D) <= tgt)
SumSizeOf(f, S) == LET RECURSIVE Sum(_)
                         Sum(T) == IF T = {} THEN 0 ELSE LET x == CHOOSE x \in T : TRUE IN f[x] + Sum(T \ {x})
                     IN Sum(S)
CleanOutcome(pct, respectBan, D2, D3) ==
  LET tgt == Target(pct)
      n == EvN(cap - tgt)
      u1 == used - Freed(n)
      live1 == {k \in Keys : st[k] # "absent"} \ Victims(n)
      cand2 == {k \in live1 : ~banned[k]}
  IN IF EvOK(cap - tgt) THEN D2 = {} /\ D3 = {}
     ELSE /\ LoopOutcome(D2, cand2, u1, tgt)
          /\ IF respectBan THEN D3 = {}
             ELSE LoopOutcome(D3, live1 \ D2, u1 - SumSize(D2), tgt)
          /\ (D3 # {} => (D2 = cand2))
Clean(pct, respectBan, D2, D3) ==
  /\ CleanOutcome(pct, respectBan, D2, D3)
  /\ LET n == EvN(cap - Target(pct))
         gone == Victims(n) \cup D2 \cup D3
         G(f, dflt) == [k \in Keys |-> IF k \in gone THEN dflt ELSE f[k]]
     IN /\ st' = G(st, "absent") /\ size' = G(size, 0) /\ banned' = G(banned, FALSE)
        /\ md' = G(md, NoMd) /\ content' = G(content, 0)
        /\ lru' = SelectSeq(lru, LAMBDA x : x \notin gone)
        /\ used' = used - SumSize(gone)
        /\ UNCHANGED cap

----------------------------------------------------------------------------
Next == \/ \E k \in Keys, sz \in Sizes, c \in Contents : Create(k, sz, c)
        \/ \E sz \in Sizes : CreateBad(sz)
        \/ \E k \in Keys, sc \in Scopes : Open(k, sc) \/ Delete(k, sc) \/ Ban(k, sc) \/ Unban(k, sc)
        \/ \E k \in Keys : MarkComplete(k)
        \/ \E k \in Keys, s \in Suffixes, v \in Vals \cup {0}, sc \in Scopes : SetMd(k, s, v, sc)
        \/ \E pct \in {0, 50}, rb \in BOOLEAN, D2, D3 \in SUBSET Keys : Clean(pct, rb, D2, D3)
Spec == Init /\ [][Next]_bvars

----------------------------------------------------------------------------
(* Properties (C07 / C08) *)
Live == {k \in Keys : st[k] # "absent"}
UsedIsSum   == used = SumSize(Live)
WithinCap   == used <= cap
LruExact    == /\ Range(lru) = {k \in Keys : st[k] = "comp" /\ ~banned[k]}
               /\ \A i, j \in 1..Len(lru) : i # j => lru[i] # lru[j]
AbsentClean == \A k \in Keys : st[k] = "absent" => size[k] = 0 /\ ~banned[k] /\ md[k] = NoMd /\ content[k] = 0
FixGoneOnComplete == \A k \in Keys : st[k] = "comp" => md[k]["fix"] = 0
Inv == UsedIsSum /\ WithinCap /\ LruExact /\ AbsentClean

\* eviction by admission removes only complete, unbanned blobs, least recently used first
AdmissionStep == \E k \in Keys : st[k] = "absent" /\ st'[k] = "inc"
EvictLruFirst == [][AdmissionStep =>
                     \A v \in Keys : (st[v] # "absent" /\ st'[v] = "absent") =>
                        /\ st[v] = "comp" /\ ~banned[v]
                        /\ \E i \in 1..Len(lru) : lru[i] = v /\ \A j \in 1..i : st'[lru[j]] = "absent"]_bvars
NonMovableDropped == [][\A k \in Keys : (st[k] = "inc" /\ st'[k] = "comp") => md'[k]["fix"] = 0]_bvars
=============================================================================
