SPECIFICATION Spec
CONSTANTS
  Keys = {"k1"}
  Workers = {1,2}
  MaxObj = 3
  MaxC = 2
  MdVals = {1,2}
  FixIdentity = TRUE
  FixCreateUnderLock = TRUE
  FixBanOnDirty = TRUE
  FixNoDoubleFlush = TRUE
  ClientAtomic = FALSE
  EagerNext = FALSE
  SimDepth = 0
INVARIANT Inv
VIEW view
CHECK_DEADLOCK FALSE
