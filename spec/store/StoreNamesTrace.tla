--------------------------- MODULE StoreNamesTrace ---------------------------
(* Trace validation (C11): every record is one REAL request -- an HTTP request written byte by byte to a real
   build-index tagserver / origin blobserver handler, or a direct call of the store API -- with
     ev     operation (OpNames of StoreNames)
     toks   the client-supplied name as wire tokens (toks2: cache name of StMove, else [])
     res    reply class: 2xx/nil = "ok", os.IsExist = "exists", 404/os.IsNotExist = "notfound", else "rejected"
     chg    number of files that existed outside the store roots before the request and were changed/removed
     newout number of paths that appeared outside the store roots
     served TRUE iff the response carried the content of a canary file planted outside the store roots
   The decoded name, the resolved path and Inside are RECOMPUTED here from toks; the verdict is
   NoEscape /\ NoOutsideEffect evaluated after every record.                                               *)
EXTENDS StoreNames, Json
Trace == ndJsonDeserialize("trace.ndjson")
VARIABLE l
tvars == <<vars, l>>
R == Trace[l]

TraceInit == TLCSet(1, 0) /\ cache = {} /\ upload = {} /\ last = NoLast /\ cases = <<>> /\ l = 1
IsEvent(e) == l <= Len(Trace) /\ Trace[l].ev = e /\ l' = l + 1

TReset == IsEvent("reset") /\ cache' = {} /\ upload' = {} /\ last' = NoLast /\ UNCHANGED cases

\* ordinary name tokens used only by recorded histories: names of directories that lie NEXT TO the store roots and whose
\* names extend the roots' names ("cache" -> "cachex"); for the specification they are opaque ordinary characters
ExtraTokens == {"cachex", "uploadx"}
Toks(ts) == /\ \A i \in DOMAIN ts : ts[i] \in Tokens \cup ExtraTokens
Eff == R.chg > 0 \/ R.newout > 0 \/ R.served

TOp(op) == /\ IsEvent(op)
           /\ Toks(R.toks) /\ Toks(R.toks2)
           /\ Do(op, Descr(Via(op), R.toks), Descr(Via(op), R.toks2), R.res, Eff)

TTagPut         == TOp("TagPut")
TTagDupPut      == TOp("TagDupPut")
TTagGet         == TOp("TagGet")
TTagReplicate   == TOp("TagReplicate")
TTagHead        == TOp("TagHead")
TUpPatch        == TOp("UpPatch")
TUpIPatch       == TOp("UpIPatch")
TUpCommit       == TOp("UpCommit")
TUpICommit      == TOp("UpICommit")
TUpDupCommit    == TOp("UpDupCommit")
TStCreateCache  == TOp("StCreateCache")
TStGetCache     == TOp("StGetCache")
TStStatCache    == TOp("StStatCache")
TStSetMeta      == TOp("StSetMeta")
TStDeleteCache  == TOp("StDeleteCache")
TStCreateUpload == TOp("StCreateUpload")
TStWriteUpload  == TOp("StWriteUpload")
TStDeleteUpload == TOp("StDeleteUpload")
TStMove         == TOp("StMove")

TraceNext == \/ TReset
             \/ TTagPut \/ TTagDupPut \/ TTagGet \/ TTagReplicate \/ TTagHead
             \/ TUpPatch \/ TUpIPatch \/ TUpCommit \/ TUpICommit \/ TUpDupCommit
             \/ TStCreateCache \/ TStGetCache \/ TStStatCache \/ TStSetMeta \/ TStDeleteCache
             \/ TStCreateUpload \/ TStWriteUpload \/ TStDeleteUpload \/ TStMove
TraceSpec == TraceInit /\ [][TraceNext]_tvars

HW == TLCSet(1, IF TLCGet(1) < l THEN l ELSE TLCGet(1))
TraceAccepted == IF TLCGet(1) = Len(Trace) + 1 THEN TRUE
                 ELSE PrintT(<<"REJECTED_AT_LINE", TLCGet(1)>>) /\ FALSE
=============================================================================
