SPECIFICATION TraceSpec
CONSTANTS
  Keys = {"k1","k2","k3"}
  Suffixes = {"mov","fix"}
  Vals = {1,2,3}
  Contents = {1,2,3}
  Sizes = {1,2,3}
  Caps = {4}
  RebootChoices = {TRUE}
CONSTRAINT HW
POSTCONDITION TraceAccepted
CHECK_DEADLOCK FALSE
