SPECIFICATION TraceSpec
CONSTANTS
  Keys = {"k1"}
  MdVals = {1,2}
  Contents = {1}
INVARIANT ATypeOK
CONSTRAINT HW
POSTCONDITION TraceAccepted
CHECK_DEADLOCK FALSE
