------------------------------- MODULE CAStore -------------------------------
(* Property C01: a content-addressed origin/proxy store never makes content readable
   (data, size, torrent metainfo) under digest d unless it hashes to d.

   Write paths of lib/store.CAStore: client upload / internal transfer (upload file ->
   verify -> rename into the cache), refresh from a backend with the optional memory
   write-through cache (reserve -> buffer -> [verify] -> add to memory -> background drain
   to disk, which verifies again) and the read preference memory-then-disk.

   A content is [d, kind]: kind "exact" hashes to d, every other kind (flipped, truncated,
   extended, aborted stream) hashes to nothing we name.  VerifyMem = TRUE is the code after
   the fix (addToMemoryCache verifies); FALSE is the code as it was (F01).

   LateWrite(d, c): a writer handle of the upload file that was opened BEFORE the commit is
   used AFTER it (a PATCH still copying its body while the commit of the same upload verifies and
   renames the file).  FenceWriters = TRUE: the commit fences such handles (what the property
   needs); FALSE is the code as built: the handle follows the renamed file into the cache and
   changes the committed bytes (finding F01b; reproduced over HTTP by extension X03 as X03-1). *)
EXTENDS Integers, Sequences, FiniteSets
CONSTANTS Digests, Kinds, VerifyMem, MaxRetries, FenceWriters
None == [d |-> "none", kind |-> "none"]
Content == [d : Digests, kind : Kinds]
Good(c) == c.kind = "exact"
VARIABLES disk, dmeta,       \* cache directory: content and the content the stored metainfo was generated from
          mem, mmeta,        \* memory write-through entries
          drainq,            \* Seq of [d, tries]
          memOn              \* configuration
vars == <<disk, dmeta, mem, mmeta, drainq, memOn>>

Init == /\ disk = [d \in Digests |-> None] /\ dmeta = [d \in Digests |-> None]
        /\ mem = [d \in Digests |-> None] /\ mmeta = [d \in Digests |-> None]
        /\ drainq = <<>> /\ memOn \in BOOLEAN

\* what readers see: memory first
Visible(d)     == IF mem[d] # None THEN mem[d] ELSE disk[d]
VisibleMeta(d) == IF mem[d] # None THEN mmeta[d] ELSE dmeta[d]

\* disk path: upload file, verify, rename (a second rename onto an existing blob is a no-op "exist")
DiskWrite(d, c, withMeta) ==
  IF ~Good(c) THEN UNCHANGED <<disk, dmeta>>
  ELSE /\ disk' = [disk EXCEPT ![d] = IF @ = None THEN c ELSE @]
       /\ dmeta' = IF withMeta THEN [dmeta EXCEPT ![d] = c] ELSE dmeta
WriteRes(c) == IF Good(c) THEN "ok" ELSE "error"

Upload(d, c)   == c.d = d /\ DiskWrite(d, c, FALSE) /\ UNCHANGED <<mem, mmeta, drainq, memOn>>
\* refresh through the disk path (memory cache disabled, reservation refused, size mismatch, duplicate, or
\* verification failed in the memory path and the caller fell back)
RefreshDisk(d, c) == c.d = d /\ DiskWrite(d, c, TRUE) /\ UNCHANGED <<mem, mmeta, drainq, memOn>>
\* refresh through the memory path
RefreshMem(d, c) ==
  /\ c.d = d /\ memOn /\ mem[d] = None
  /\ (VerifyMem => Good(c))
  /\ mem' = [mem EXCEPT ![d] = c] /\ mmeta' = [mmeta EXCEPT ![d] = c]
  /\ drainq' = Append(drainq, [d |-> d, tries |-> 0])
  /\ UNCHANGED <<disk, dmeta, memOn>>

\* one drain step: write the entry to disk (verifying); on success or after MaxRetries failures drop it
DrainStep ==
  /\ drainq # <<>>
  /\ LET it == Head(drainq) c == mem[it.d] IN
     IF c = None THEN drainq' = Tail(drainq) /\ UNCHANGED <<disk, dmeta, mem, mmeta>>
     ELSE IF Good(c)
     THEN /\ disk' = [disk EXCEPT ![it.d] = IF @ = None THEN c ELSE @]
          /\ dmeta' = [dmeta EXCEPT ![it.d] = c]
          /\ mem' = [mem EXCEPT ![it.d] = None] /\ mmeta' = [mmeta EXCEPT ![it.d] = None]
          /\ drainq' = Tail(drainq)
     ELSE IF it.tries < MaxRetries
     THEN drainq' = Append(Tail(drainq), [d |-> it.d, tries |-> it.tries + 1]) /\ UNCHANGED <<disk, dmeta, mem, mmeta>>
     ELSE /\ mem' = [mem EXCEPT ![it.d] = None] /\ mmeta' = [mmeta EXCEPT ![it.d] = None]
          /\ drainq' = Tail(drainq) /\ UNCHANGED <<disk, dmeta>>
  /\ UNCHANGED memOn
\* memory TTL: an entry may vanish before it is drained
Expire(d) == mem[d] # None /\ mem' = [mem EXCEPT ![d] = None] /\ mmeta' = [mmeta EXCEPT ![d] = None]
             /\ UNCHANGED <<disk, dmeta, drainq, memOn>>

LateWrite(d, c) ==
  /\ c.d = d /\ disk[d] # None
  /\ disk' = IF FenceWriters THEN disk ELSE [disk EXCEPT ![d] = c]
  /\ UNCHANGED <<dmeta, mem, mmeta, drainq, memOn>>

Next == \/ \E d \in Digests, k \in Kinds : LET c == [d |-> d, kind |-> k] IN Upload(d, c) \/ RefreshDisk(d, c) \/ RefreshMem(d, c) \/ LateWrite(d, c)
        \/ DrainStep \/ \E d \in Digests : Expire(d)
Spec == Init /\ [][Next]_vars

Bound == Len(drainq) <= 3

(* Properties (C01) *)
ReadSafe == \A d \in Digests : Visible(d) # None => (Good(Visible(d)) /\ Visible(d).d = d)
MetaSafe == \A d \in Digests : VisibleMeta(d) # None => (Visible(d) # None /\ VisibleMeta(d) = Visible(d))
Inv == ReadSafe /\ MetaSafe
\* a write whose bytes do not match d leaves nothing (new) visible under d
FailedWriteLeavesNothing ==
  [][\A d \in Digests : (Visible(d) = None /\ Visible(d)' # None) => Good(Visible(d)')]_vars
=============================================================================
