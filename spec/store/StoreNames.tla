----------------------------- MODULE StoreNames -----------------------------
(* C11 -- no client-supplied name makes a store touch files outside its directory.

   API-level model of the path from a client-supplied name (tag, upload id, file name)
   to the file a local file store (lib/store/base, localFileEntryFactory) touches:

     wire tokens --Flat--> request bytes --net/http url.setPath + chi routing + ParseParam--> name
     name --filepath.Join(dir, Join(name,"data"))--> resolved path;   Inside(dir, path)?

   All string functions are defined on sequences of one-character strings, so that
   percent-unescaping, default re-escaping (RawPath), route splitting and filepath.Clean are
   the real algorithms restricted to the alphabet  x y . / % 2 5 E F e f .  Names are
   ENUMERATED as sequences of wire tokens (Tokens), but interpreted character by character.

   Stores: `cache` and `upload` are the sets of data-file paths (component sequences below the
   abstract root) present in the cache / upload directory of one server instance.

   One action per public operation (HTTP endpoint of build-index tagserver / origin blobserver
   that takes {tag} or {uid}, and the store API called directly).  A reply is one of
     "ok" "exists"  -- the name was accepted and the file at Resolved(name) was used
     "notfound"     -- no route, or the name was accepted and no file is at Resolved(name)
     "rejected"     -- the request was refused with an error
   The property is stated on `last` (what the last operation did):
     NoEscape         every path the model says was touched lies inside the store directory,
                      i.e.  accepted(name) => Inside(dir, Resolved(dir, name)), so names that
                      cannot be stored there are rejected
     NoOutsideEffect  no effect outside the store directory was observed (traces: canaries
                      changed / served, new paths outside the store roots)                     *)
EXTENDS Integers, Sequences, FiniteSets, TLC

CONSTANTS MaxLen,   \* design model: names of at most MaxLen wire tokens
          Rule,     \* "fixed" = name check of file_entry.go plus the F11 repair; "asbuilt" = as written
          AuxNames  \* design model: extra literal names that coexist with the enumerated one

VARIABLES cache, upload, last, cases
vars == <<cache, upload, last, cases>>

Range(s) == {s[i] : i \in DOMAIN s}

(* ------------------------------------------------------------------ wire tokens *)
Tokens == {"x", "y", ".", "..", "/", "%2E", "%2e", "%2F", "%2f", "%252E", "%252F", "%25", "%"}

TokChars(t) ==
  CASE t = "x"     -> <<"x">>
    [] t = "y"     -> <<"y">>
    [] t = "."     -> <<".">>
    [] t = ".."    -> <<".", ".">>
    [] t = "/"     -> <<"/">>
    [] t = "%2E"   -> <<"%", "2", "E">>
    [] t = "%2e"   -> <<"%", "2", "e">>
    [] t = "%2F"   -> <<"%", "2", "F">>
    [] t = "%2f"   -> <<"%", "2", "f">>
    [] t = "%252E" -> <<"%", "2", "5", "2", "E">>
    [] t = "%252F" -> <<"%", "2", "5", "2", "F">>
    [] t = "%25"   -> <<"%", "2", "5">>
    [] t = "%"     -> <<"%">>
    [] OTHER       -> <<t>>          \* trace-only tokens (ExtraTokens of StoreNamesTrace): one opaque ordinary character

RECURSIVE Flat(_)
Flat(ts) == IF ts = <<>> THEN <<>> ELSE TokChars(Head(ts)) \o Flat(Tail(ts))

Wires(n) == UNION {[1..k -> Tokens] : k \in 0..n}

(* ------------------------------------------------------------------ net/url *)
Bad == <<"!">>                       \* error value of the string functions

\* value of the escape %ab ; "!" = invalid.  With Tokens no other valid pair can arise.
HexPair(a, b) ==
  CASE a = "2" /\ b \in {"E", "e"} -> "."
    [] a = "2" /\ b \in {"F", "f"} -> "/"
    [] a = "2" /\ b = "5"          -> "%"
    [] OTHER                       -> "!"

\* url.unescape(s, encodePath) == url.PathUnescape(s): any malformed escape fails the whole string
RECURSIVE Unesc(_)
Unesc(s) ==
  IF s = <<>> THEN <<>>
  ELSE IF Head(s) = "%"
       THEN IF Len(s) < 3 THEN Bad
            ELSE LET c == HexPair(s[2], s[3])
                     r == Unesc(SubSeq(s, 4, Len(s)))
                 IN IF c = "!" \/ r = Bad THEN Bad ELSE <<c>> \o r
       ELSE LET r == Unesc(Tail(s)) IN IF r = Bad THEN Bad ELSE <<Head(s)>> \o r

\* url.escape(s, encodePath): of our alphabet only "%" is escaped
RECURSIVE Esc(_)
Esc(s) == IF s = <<>> THEN <<>>
          ELSE (IF Head(s) = "%" THEN <<"%", "2", "5">> ELSE <<Head(s)>>) \o Esc(Tail(s))

(* The name segment of a request path as chi sees it.  net/http: URL.Path = unescape(wire), URL.RawPath = wire
   unless wire is the default encoding of Path (then ""); chi v4 routes on RawPath if set, else on Path; a
   {param} never spans a "/"; httputil.ParseParam refuses "" and applies url.PathUnescape once more.
   (The fixed parts of the route contain no "%", so canonicity of the whole path = canonicity of the segment.) *)
NoName(k) == [k |-> k, r |-> <<>>, inside |-> TRUE, valid |-> FALSE]

(* ------------------------------------------------------------------ path/filepath *)
Dot    == <<".">>
DotDot == <<".", ".">>
DataC  == <<"data">>                   \* base.DefaultDataFileName, not expressible with Tokens
Dir    == << <<"R">>, <<"S">> >>       \* abstract absolute store directory /R/S

RECURSIVE SplitR(_, _, _)
SplitR(s, acc, cur) ==
  IF s = <<>> THEN Append(acc, cur)
  ELSE IF Head(s) = "/" THEN SplitR(Tail(s), Append(acc, cur), <<>>)
       ELSE SplitR(Tail(s), acc, Append(cur, Head(s)))
Split(s) == SplitR(s, <<>>, <<>>)      \* strings.Split(s, "/")

\* filepath.Clean on components (lexical): drop "" and ".", ".." pops, at the root ".." is dropped,
\* in a relative path leading ".." are kept
RECURSIVE CleanR(_, _, _)
CleanR(cs, rooted, acc) ==
  IF cs = <<>> THEN acc
  ELSE LET c == Head(cs)  rest == Tail(cs) IN
       IF c = <<>> \/ c = Dot THEN CleanR(rest, rooted, acc)
       ELSE IF c = DotDot
            THEN IF acc # <<>> /\ acc[Len(acc)] # DotDot THEN CleanR(rest, rooted, SubSeq(acc, 1, Len(acc) - 1))
                 ELSE IF rooted THEN CleanR(rest, rooted, acc)
                 ELSE CleanR(rest, rooted, Append(acc, c))
            ELSE CleanR(rest, rooted, Append(acc, c))

RECURSIVE JoinC(_)
JoinC(cs) == IF cs = <<>> THEN <<>>
             ELSE IF Len(cs) = 1 THEN cs[1] ELSE cs[1] \o <<"/">> \o JoinC(Tail(cs))

Rooted(n) == n # <<>> /\ Head(n) = "/"
CleanStr(n) ==                         \* filepath.Clean(n)
  IF n = <<>> THEN Dot
  ELSE LET cc == CleanR(Split(n), Rooted(n), <<>>) IN
       IF Rooted(n) THEN <<"/">> \o JoinC(cc) ELSE IF cc = <<>> THEN Dot ELSE JoinC(cc)

HasPrefix(s, p) == Len(s) >= Len(p) /\ SubSeq(s, 1, Len(p)) = p

\* localFileEntryFactory.GetRelativePath = filepath.Join(name, "data"); localFileEntry.GetPath = Join(dir, that)
Rel(n)      == CleanR(Split(n) \o <<DataC>>, Rooted(n), <<>>)
Resolved(n) == CleanR(Dir \o Rel(n), TRUE, <<>>)
Inside(p)   == Len(p) > Len(Dir) /\ SubSeq(p, 1, Len(Dir)) = Dir
EntryDir(p) == SubSeq(p, 1, Len(p) - 1)             \* directory holding the data file and its metadata
Under(d, p) == Len(p) > Len(d) /\ SubSeq(p, 1, Len(d)) = d
RemoveTree(S, d) == {p \in S : ~Under(d, p)}        \* os.RemoveAll(entry directory)

(* The name check: localFileEntryFactory.Create.  "fixed" adds the one missing condition (F11). *)
Valid(n) == /\ n = CleanStr(n)                      \* implies n # ""
            /\ Head(n) # "/" /\ n[Len(n)] # "/"
            /\ ~HasPrefix(n, <<".", ".", "/">>)
            /\ (Rule = "fixed" => n # DotDot)

\* descriptor of a decoded name: k = "name", r = resolved data-file path, inside, valid (passes the name check)
NameD(n) == LET r == Resolved(n) IN [k |-> "name", r |-> r, inside |-> Inside(r), valid |-> Valid(n)]

Route(wire) ==
  LET p == Unesc(wire) IN
  IF p = Bad THEN NoName("badreq")                  \* net/http answers 400 before routing
  ELSE LET rp == IF Esc(p) = wire THEN p ELSE wire IN
       IF "/" \in Range(rp) THEN NoName("noroute")
       ELSE IF rp = <<>> THEN NoName("empty")
       ELSE LET n == Unesc(rp) IN IF n = Bad THEN NoName("badparam") ELSE NameD(n)

\* what a server hands to its store for the wire tokens ts
Descr(via, ts) == IF via = "api" THEN NameD(Flat(ts)) ELSE Route(Flat(ts))

(* ------------------------------------------------------------------ operations *)
HttpOps   == {"TagPut", "TagDupPut", "TagGet", "TagReplicate", "TagHead",
              "UpPatch", "UpIPatch", "UpCommit", "UpICommit", "UpDupCommit"}
ApiOps    == {"StCreateCache", "StGetCache", "StStatCache", "StSetMeta", "StDeleteCache",
              "StCreateUpload", "StWriteUpload", "StDeleteUpload", "StMove"}
OpNames   == HttpOps \cup ApiOps
Via(op)   == IF op \in HttpOps THEN "http" ELSE "api"

CreateOps  == {"TagPut", "TagDupPut", "StCreateCache", "StCreateUpload"}
ReadOps    == {"TagGet", "TagReplicate", "StGetCache", "StStatCache", "StSetMeta", "UpPatch", "UpIPatch", "StWriteUpload"}
ConsumeOps == {"UpCommit", "UpICommit", "UpDupCommit", "StDeleteUpload", "StDeleteCache"}
OnUpload   == {"StCreateUpload", "UpPatch", "UpIPatch", "StWriteUpload", "UpCommit", "UpICommit", "UpDupCommit", "StDeleteUpload"}

Replies == {"ok", "exists", "notfound", "rejected"}
NoLast  == [res |-> "rejected", touch |-> FALSE, inside |-> TRUE, eff |-> FALSE]

\* the model knows nothing about files outside the store directory: presence is only bound for inside paths
Has(S, d)  == d.inside => d.r \in S
Lacks(S, d) == d.inside => d.r \notin S

Touch(d, res) == res \in {"ok", "exists"} \/ (res = "notfound" /\ d.k = "name")

SetLast(res, touch, inside, eff) == last' = [res |-> res, touch |-> touch, inside |-> inside, eff |-> eff]

\* reply guard of one single-name operation on store S (state binding + decode conformance)
Guard(op, S, d, res) ==
  /\ (d.k # "name") => res \in {"notfound", "rejected"}
  /\ IF op = "TagHead" THEN res \in {"notfound", "rejected"}      \* asks the (empty) backend only
     ELSE IF op \in CreateOps
     THEN CASE res = "ok"       -> d.k = "name" /\ (op = "StCreateUpload" => Lacks(S, d))
            [] res = "exists"   -> op = "StCreateUpload" /\ d.k = "name" /\ Has(S, d)
            [] res = "notfound" -> d.k # "name"
            [] res = "rejected" -> TRUE
     ELSE CASE res = "ok"       -> d.k = "name" /\ Has(S, d)       \* ReadOps and ConsumeOps
            [] res = "exists"   -> FALSE
            [] res = "notfound" -> d.k = "name" => Lacks(S, d)
            [] res = "rejected" -> TRUE

\* store S after the operation
After(op, S, d, res) ==
  IF res = "ok" /\ op \in CreateOps THEN S \cup {d.r}
  ELSE IF res = "ok" /\ op \in ConsumeOps THEN RemoveTree(S, EntryDir(d.r))   \* os.RemoveAll(entry dir)
  ELSE S

\* Do: operation op with decoded name d (and d2 for StMove), reply res, observed outside effect eff
Do(op, d, d2, res, eff) ==
  /\ op \in OpNames /\ res \in Replies
  /\ IF op = "StMove"
     THEN \* SimpleStore.MoveUploadFileToCache(upload name d, cache name d2): once the upload entry was found
          \* it is removed (deferred delete) whatever happens to the cache name
          IF d.k = "name" /\ d.r \in upload
          THEN /\ upload' = RemoveTree(upload, EntryDir(d.r))
               /\ CASE res = "ok"       -> d2.k = "name" /\ Lacks(cache, d2) /\ cache' = cache \cup {d2.r}
                    [] res = "exists"   -> d2.k = "name" /\ Has(cache, d2) /\ cache' = cache
                    [] res = "notfound" -> FALSE
                    [] res = "rejected" -> cache' = cache
               /\ SetLast(res, TRUE, d.inside /\ (res \in {"ok", "exists"} => d2.inside), eff)
          ELSE /\ (d.k = "name" /\ ~d.inside) \/ res \in {"notfound", "rejected"}
               /\ UNCHANGED <<cache, upload>>
               /\ SetLast(res, Touch(d, res), Touch(d, res) => d.inside, eff)
     ELSE /\ Guard(op, IF op \in OnUpload THEN upload ELSE cache, d, res)
          /\ IF op \in OnUpload
             THEN upload' = After(op, upload, d, res) /\ cache' = cache
             ELSE cache' = After(op, cache, d, res) /\ upload' = upload
          /\ LET t == op # "TagHead" /\ Touch(d, res) IN SetLast(res, t, t => d.inside, eff)
  /\ UNCHANGED cases

(* ------------------------------------------------------------------ the property *)
NoEscape        == last.touch => last.inside
NoOutsideEffect == ~last.eff
StoredInside    == \A p \in cache \cup upload : Inside(p)

TypeOK == /\ last.res \in Replies /\ last.touch \in BOOLEAN /\ last.inside \in BOOLEAN /\ last.eff \in BOOLEAN
          /\ IsFiniteSet(cache) /\ IsFiniteSet(upload)

Inv == TypeOK /\ NoEscape /\ NoOutsideEffect /\ StoredInside

(* ------------------------------------------------------------------ design model
   One behaviour = all operation histories around ONE enumerated wire name (cases.w) and the
   AuxNames; the servers reply as the intended implementation does (DesignRes: the name check
   Valid decides acceptance).  TLC therefore checks, for every wire name up to MaxLen tokens and
   both decodings,  Valid(name) => Inside(Resolved(name))  and that outside names are refused.   *)
Init == /\ cache = {} /\ upload = {} /\ last = NoLast
        /\ \E w \in Wires(MaxLen) :
             cases = [w |-> w, http |-> Descr("http", w), api |-> Descr("api", w),
                      aux |-> {Descr("api", a) : a \in AuxNames}]

Store(op) == IF op \in OnUpload THEN upload ELSE cache

DesignRes(op, d) ==
  IF d.k # "name" THEN (IF d.k = "noroute" THEN {"notfound"} ELSE {"rejected"})
  ELSE IF op = "TagHead" THEN {"notfound"}
  ELSE IF ~d.valid THEN {"rejected"}
  ELSE IF op \in CreateOps THEN (IF op = "StCreateUpload" /\ d.r \in upload THEN {"exists"} ELSE {"ok"})
  ELSE IF d.r \in Store(op) THEN {"ok"} ELSE {"notfound"}

DesignMoveRes(d, d2) ==
  IF ~d.valid THEN {"rejected"}
  ELSE IF d.r \notin upload THEN {"notfound"}
  ELSE IF ~d2.valid THEN {"rejected"}
  ELSE IF d2.r \in cache THEN {"exists"} ELSE {"ok"}

DesignEff(op, d, res) == op # "TagHead" /\ Touch(d, res) /\ ~d.inside   \* an accepted outside name has an outside effect

Names(via) == IF via = "http" THEN {cases.http} ELSE {cases.api} \cup cases.aux

Step(op) == \E d \in Names(Via(op)) : \E res \in DesignRes(op, d) : Do(op, d, d, res, DesignEff(op, d, res))

TagPut         == Step("TagPut")
TagDupPut      == Step("TagDupPut")
TagGet         == Step("TagGet")
TagReplicate   == Step("TagReplicate")
TagHead        == Step("TagHead")
UpPatch        == Step("UpPatch")
UpIPatch       == Step("UpIPatch")
UpCommit       == Step("UpCommit")
UpICommit      == Step("UpICommit")
UpDupCommit    == Step("UpDupCommit")
StCreateCache  == Step("StCreateCache")
StGetCache     == Step("StGetCache")
StStatCache    == Step("StStatCache")
StSetMeta      == Step("StSetMeta")
StDeleteCache  == Step("StDeleteCache")
StCreateUpload == Step("StCreateUpload")
StWriteUpload  == Step("StWriteUpload")
StDeleteUpload == Step("StDeleteUpload")
StMove         == \E d \in Names("api"), d2 \in Names("api") : \E res \in DesignMoveRes(d, d2) :
                     Do("StMove", d, d2, res, DesignEff("StMove", d, res) \/ (res \in {"ok", "exists"} /\ ~d2.inside))

Next == \/ TagPut \/ TagDupPut \/ TagGet \/ TagReplicate \/ TagHead
        \/ UpPatch \/ UpIPatch \/ UpCommit \/ UpICommit \/ UpDupCommit
        \/ StCreateCache \/ StGetCache \/ StStatCache \/ StSetMeta \/ StDeleteCache
        \/ StCreateUpload \/ StWriteUpload \/ StDeleteUpload \/ StMove

Spec == Init /\ [][Next]_vars

\* values for the CONSTANT AuxNames (a cfg cannot contain sequences)
NoAux  == {}
OneAux == { <<"y">>, <<"x", "/", "y">> }

=============================================================================
