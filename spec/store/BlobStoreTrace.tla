-------------------------- MODULE BlobStoreTrace --------------------------
(* Trace validation of recorded disk.Store histories (C07) against BlobStore.
   Every record carries the call, its reply class and three cheap observations taken
   after the call: eviction order (front first), reserved bytes, live keys.         *)
EXTENDS BlobStore, Json, TLC
Trace == ndJsonDeserialize("trace.ndjson")
VARIABLE l
tvars == <<bvars, l>>
R == Trace[l]

TraceInit == TLCSet(1, 0) /\ Init /\ l = 1
IsEvent(e) == l <= Len(Trace) /\ Trace[l].ev = e /\ l' = l + 1
ObsOK == /\ lru' = R.order
         /\ used' = R.used
         /\ {k \in Keys : st'[k] # "absent"} = Range(R.live)

TReset == /\ IsEvent("reset")
          /\ st' = [k \in Keys |-> "absent"] /\ size' = [k \in Keys |-> 0]
          /\ banned' = [k \in Keys |-> FALSE] /\ md' = [k \in Keys |-> NoMd]
          /\ content' = [k \in Keys |-> 0] /\ lru' = <<>> /\ used' = 0
          /\ cap' = R.cfg.cap

TCreate == IsEvent("Create") /\ R.res = CreateRes(R.k, R.sz) /\ Create(R.k, R.sz, R.c) /\ ObsOK
TCreateBad == IsEvent("CreateBad") /\ R.res = CreateBadRes(R.sz) /\ CreateBad(R.sz) /\ ObsOK
TOpen   == IsEvent("Open") /\ R.res = OpenRes(R.k, R.sc) /\ (R.res = "ok" => R.c = content[R.k])
                           /\ Open(R.k, R.sc) /\ ObsOK
THas    == IsEvent("Has") /\ <<R.instore, R.inscope>> = HasRes(R.k, R.sc) /\ Read /\ ObsOK
TStat   == IsEvent("Stat") /\ R.res = StatRes(R.k, R.sc)
                           /\ (R.res = "ok" => R.fsize = (IF content[R.k] = 0 THEN 0 ELSE content[R.k] + 1))
                           /\ Read /\ ObsOK
TList   == IsEvent("List") /\ Range(R.keys) = ListRes(R.sc) /\ Read /\ ObsOK
TMark   == IsEvent("MarkComplete") /\ R.res = MarkCompleteRes(R.k) /\ MarkComplete(R.k) /\ ObsOK
TDelete == IsEvent("Delete") /\ R.res = DeleteRes(R.k, R.sc) /\ Delete(R.k, R.sc) /\ ObsOK
TBan    == IsEvent("Ban") /\ R.res = BanRes(R.k, R.sc) /\ Ban(R.k, R.sc) /\ ObsOK
TUnban  == IsEvent("Unban") /\ R.res = BanRes(R.k, R.sc) /\ Unban(R.k, R.sc) /\ ObsOK
TSetMd  == IsEvent("SetMd") /\ R.res = SetMdRes(R.k, R.sc) /\ SetMd(R.k, R.s, R.v, R.sc) /\ ObsOK
TDelMd  == IsEvent("DelMd") /\ R.res = SetMdRes(R.k, R.sc) /\ DelMd(R.k, R.s, R.sc) /\ ObsOK
TGetMd  == IsEvent("GetMd") /\ <<R.res, R.v>> = GetMdRes(R.k, R.s, R.sc) /\ Read /\ ObsOK
TListMd == IsEvent("ListMd") /\ R.res = Gate(R.k, R.sc) /\ Range(R.sufs) = ListMdRes(R.k, R.sc) /\ Read /\ ObsOK
TClean  == /\ IsEvent("Clean") /\ R.res = "ok"
           /\ \E D2, D3 \in SUBSET Keys : Clean(R.pct, R.rb, D2, D3)
           /\ ObsOK
           /\ R.util = (used' * 100) \div cap

TraceNext == TReset \/ TCreate \/ TCreateBad \/ TOpen \/ THas \/ TStat \/ TList \/ TMark \/ TDelete \/ TBan \/ TUnban
             \/ TSetMd \/ TDelMd \/ TGetMd \/ TListMd \/ TClean
TraceSpec == TraceInit /\ [][TraceNext]_tvars

HW == TLCSet(1, IF TLCGet(1) < l THEN l ELSE TLCGet(1))
TraceAccepted == IF TLCGet(1) = Len(Trace) + 1 THEN TRUE
                 ELSE PrintT(<<"REJECTED_AT_LINE", TLCGet(1)>>) /\ FALSE
=============================================================================
