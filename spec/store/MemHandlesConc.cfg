SPECIFICATION TraceSpec
CONSTANTS
  Keys = {"k1","k2","k3"}
  Suffixes = {"mov","fix"}
  Vals = {1}
  Contents = {1,2,3}
  Sizes = {0}
  Caps = {1}
  Hids = {1,2,3,4,5,6}
  Bytes = {5,6,7}
  G = {"g1","g2","g3"}
INVARIANT Inv BytesOnlyLive
CONSTRAINT HW
POSTCONDITION TraceAccepted
CHECK_DEADLOCK FALSE
