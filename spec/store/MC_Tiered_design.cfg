SPECIFICATION Spec
CONSTANTS
  Keys = {"k1"}
  Workers = {1}
  MaxObj = 4
  MaxC = 3
  MdVals = {1,2}
  FixIdentity = TRUE
  FixCreateUnderLock = TRUE
  FixBanOnDirty = TRUE
  FixNoDoubleFlush = TRUE
  ClientAtomic = FALSE
  EagerNext = FALSE
  SimDepth = 0
INVARIANT Inv
VIEW view
CHECK_DEADLOCK FALSE
