SPECIFICATION Spec
CONSTANTS
  Keys = {"k1","k2","k3"}
  Suffixes = {"mov","fix"}
  Vals = {1}
  Contents = {1}
  Sizes = {0,1,2,3}
  Caps = {3}
INVARIANT Inv
PROPERTY EvictLruFirst NonMovableDropped
