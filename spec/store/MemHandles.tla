----------------------------- MODULE MemHandles -----------------------------
(* lib/store/memory (C08): the shared BlobStore model (Persistent = FALSE, no Clean)
   plus file handles.  A handle is bound to one INCARNATION of a key (the slice pointer
   allocated by Create).  It is live iff that incarnation is still in the store; every
   byte-transferring call on a dead handle must answer "evicted" (Size answers -1) and
   never bytes of another incarnation.
   Reading (DESIGN C08): zero-length Read/ReadAt answer (0, ok) and negative offsets
   answer an argument error before the store is consulted; neither transfers bytes.  *)
EXTENDS BlobStore
CONSTANTS Hids,       \* handle ids
          Bytes       \* byte values handles may write
VARIABLES inc,        \* [Keys -> Nat]  incarnation counter, bumped by every successful Create
          bytes,      \* [Keys -> Seq(Nat)] bytes of the current incarnation
          hd          \* [Hids -> [k, inc, off] or NoH]
hvars == <<inc, bytes, hd>>
mvars == <<bvars, hvars>>
NoH == [k |-> "none", inc |-> 0, off |-> 0]

HInit == Init /\ inc = [k \in Keys |-> 0] /\ bytes = [k \in Keys |-> <<>>] /\ hd = [h \in Hids |-> NoH]

HLive(h) == hd[h].k # "none" /\ st[hd[h].k] # "absent" /\ inc[hd[h].k] = hd[h].inc
B(h) == bytes[hd[h].k]
Min(a, b) == IF a < b THEN a ELSE b
Max(a, b) == IF a > b THEN a ELSE b
Pattern(c) == [i \in 1..(c + 1) |-> c]

\* bytes of every key that left the store in this step are dropped
BytesAfter == [k \in Keys |-> IF st'[k] = "absent" THEN <<>> ELSE bytes[k]]

\* store calls lifted: Create allocates incarnation and (harness) writes Pattern(c) through handle h
MCreate(k, sz, c, h) ==
  /\ Create(k, sz, c)
  /\ IF CreateRes(k, sz) = "ok"
     THEN /\ inc' = [inc EXCEPT ![k] = @ + 1]
          /\ bytes' = [BytesAfter EXCEPT ![k] = Pattern(c)]
          /\ hd' = IF h \in Hids THEN [hd EXCEPT ![h] = [k |-> k, inc |-> inc[k] + 1, off |-> c + 1]] ELSE hd
     ELSE inc' = inc /\ bytes' = BytesAfter /\ hd' = hd
MOpen(k, sc, h) ==
  /\ Open(k, sc)
  /\ hd' = IF OpenRes(k, sc) = "ok" /\ h \in Hids THEN [hd EXCEPT ![h] = [k |-> k, inc |-> inc[k], off |-> 0]] ELSE hd
  /\ UNCHANGED <<inc, bytes>>
\* any other store call A: handles untouched, bytes of removed keys dropped
Lift(A) == A /\ bytes' = BytesAfter /\ UNCHANGED <<inc, hd>>
HDrop(h) == hd' = [hd EXCEPT ![h] = NoH] /\ UNCHANGED <<bvars, inc, bytes>>

\* ---- handle calls: reply operators (pre-state) and effects
Slice(s, from, to) == IF to < from THEN <<>> ELSE SubSeq(s, from, to)
HReadRes(h, n) == IF n = 0 THEN <<"ok", <<>>>>
                  ELSE IF ~HLive(h) THEN <<"evicted", <<>>>>
                  ELSE IF hd[h].off >= Len(B(h)) THEN <<"eof", <<>>>>
                  ELSE <<"ok", Slice(B(h), hd[h].off + 1, Min(hd[h].off + n, Len(B(h))))>>
HRead(h, n) == /\ hd' = IF n > 0 /\ HLive(h) /\ hd[h].off < Len(B(h))
                        THEN [hd EXCEPT ![h].off = Min(@ + n, Len(B(h)))] ELSE hd
               /\ UNCHANGED <<bvars, inc, bytes>>
HReadAtRes(h, n, off) == IF n = 0 THEN <<"ok", <<>>>>
                         ELSE IF ~HLive(h) THEN <<"evicted", <<>>>>
                         ELSE IF off >= Len(B(h)) THEN <<"eof", <<>>>>
                         ELSE <<IF off + n > Len(B(h)) THEN "eof" ELSE "ok", Slice(B(h), off + 1, Min(off + n, Len(B(h))))>>
Put(s, p, off) == IF Len(p) = 0 THEN s ELSE    \* a zero-length write never extends the file (like pwrite)
                  [i \in 1..Max(Len(s), off + Len(p)) |->
                     IF i > off /\ i <= off + Len(p) THEN p[i - off] ELSE IF i <= Len(s) THEN s[i] ELSE 0]
HWriteRes(h, p) == IF HLive(h) THEN <<"ok", Len(p)>> ELSE <<"evicted", 0>>
HWriteAt(h, p, off, adv) ==
  /\ IF HLive(h)
     THEN /\ bytes' = [bytes EXCEPT ![hd[h].k] = Put(@, p, off)]
          /\ hd' = IF adv THEN [hd EXCEPT ![h].off = off + Len(p)] ELSE hd
     ELSE UNCHANGED <<bytes, hd>>
  /\ UNCHANGED <<bvars, inc>>
HWrite(h, p) == HWriteAt(h, p, hd[h].off, TRUE)
SeekTarget(h, off, wh) == IF wh = 0 THEN off ELSE IF wh = 1 THEN hd[h].off + off ELSE Len(B(h)) + off
HSeekRes(h, off, wh) == IF ~HLive(h) THEN <<"evicted", 0>>
                        ELSE IF SeekTarget(h, off, wh) < 0 \/ SeekTarget(h, off, wh) > Len(B(h)) THEN <<"other", 0>>
                        ELSE <<"ok", SeekTarget(h, off, wh)>>
HSeek(h, off, wh) == /\ hd' = IF HSeekRes(h, off, wh)[1] = "ok" THEN [hd EXCEPT ![h].off = SeekTarget(h, off, wh)] ELSE hd
                     /\ UNCHANGED <<bvars, inc, bytes>>
HSizeRes(h) == IF HLive(h) THEN Len(B(h)) ELSE 0 - 1

----------------------------------------------------------------------------
HNext == \/ \E k \in Keys, sz \in Sizes, c \in Contents, h \in Hids : MCreate(k, sz, c, h)
         \/ \E k \in Keys, sc \in Scopes, h \in Hids : MOpen(k, sc, h)
         \/ \E k \in Keys : Lift(MarkComplete(k)) \/ Lift(Delete(k, "any")) \/ Lift(Ban(k, "any")) \/ Lift(Unban(k, "any"))
         \/ \E h \in Hids : HDrop(h) \/ HRead(h, 1) \/ HSeek(h, 0, 0)
         \/ \E h \in Hids, b \in Bytes : HWrite(h, <<b>>) \/ HWriteAt(h, <<b>>, 1, FALSE)
HSpec == HInit /\ [][HNext]_mvars

(* Properties (C08) *)
\* a dead handle can never be revived: its incarnation is strictly older than the key's current one or the key is absent
DeadStaysDead == [][\A h \in Hids : (hd[h].k # "none" /\ ~HLive(h) /\ hd'[h] = hd[h]) => ~HLive(h)']_mvars
\* bytes belong to exactly the live incarnation
BytesOnlyLive == \A k \in Keys : st[k] = "absent" => bytes[k] = <<>>
\* no handle carries an incarnation from the future, offsets stay inside the content of live handles
HandleSane == \A h \in Hids : hd[h].k # "none" => /\ hd[h].inc <= inc[hd[h].k]
                                                  /\ (HLive(h) => hd[h].off <= Len(B(h)))
\* the reply to a read on a dead handle never carries bytes
StaleFailsEvicted == \A h \in Hids : (hd[h].k # "none" /\ ~HLive(h)) =>
                        /\ HReadRes(h, 1) = <<"evicted", <<>>>>
                        /\ HReadAtRes(h, 1, 0) = <<"evicted", <<>>>>
                        /\ HWriteRes(h, <<1>>) = <<"evicted", 0>>
                        /\ HSeekRes(h, 0, 0) = <<"evicted", 0>>
                        /\ HSizeRes(h) = 0 - 1
Bound == \A k \in Keys : inc[k] <= 2 /\ Len(bytes[k]) <= 3
HInv == Inv /\ BytesOnlyLive /\ HandleSane /\ StaleFailsEvicted
=============================================================================
