SPECIFICATION TraceSpec
CONSTANTS
  Files = {"f1","f2","f3","f4","f5"}
  Res = 300
  DT1 = 1
  DT45 = 2700
  FCaps = {0}
  FMaxT = 0
  TTIs = {0}
  TTLs = {0}
  Lowers = {0}
  Usages = {0}
  EnvFiles = {}
  TaskPats = {}
INVARIANT CInv
PROPERTY TPersistProtected NormalPassExact ThresholdPassSubset PolicyOrder
CONSTRAINT HW
POSTCONDITION TraceAccepted
CHECK_DEADLOCK FALSE
