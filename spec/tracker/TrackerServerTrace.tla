------------------------- MODULE TrackerServerTrace -------------------------
(* Trace validation of recorded tracker histories (extension X02) against TrackerServer.

   The Go driver (harness/engines/x02) runs the real origin store, the real tracker HTTP handler and
   the real origin cluster client over a scripted origin cluster / peer store.  Logged records:
     reset                       configuration of the history (effective TTLs, limit, interval, policy, hosts)
     Tick                        the mock clock advanced (atomically with respect to every clock reader)
     OCall/ORet, ACall/ARet, MCall/MRet, RCall/RRet    a request arrives / its reply left (caller c)
     Health, BadReq              requests that complete without touching a dependency
     HostLoc, PeerCtx, PSUpdate, PSGet, MiTry, Probe   a dependency was asked on behalf of caller c and
                                 answered this (logged by the fake, atomically with its answer)
   Not logged, inferred by TLC (silent steps, each advances a request's program counter, so their
   number per consumed record is bounded): LocHit, LocStore, CtxHit, CtxStore - what happens inside
   the dedup limiters.  With one caller the silent steps are determined; with concurrent callers TLC
   searches their interleaving, so a history is accepted iff it is a behaviour of TrackerServer in which
   every logged answer, argument and reply is the logged one (linearizability at step grain).       *)
EXTENDS TrackerServer, Json
Trace == ndJsonDeserialize("trace.ndjson")
VARIABLE l
tvars == <<now, cfg, loc, ctx, pc, last, l>>
R == Trace[l]

AnyCfg == [locTTL |-> 1, locErrTTL |-> 1, ctxTTL |-> 1, unavTTL |-> 1, limit |-> 1, interval |-> 1,
           policy |-> "default", nhosts |-> 1]
CfgOf(r) == [locTTL |-> r.locTTL, locErrTTL |-> r.locErrTTL, ctxTTL |-> r.ctxTTL, unavTTL |-> r.unavTTL,
             limit |-> r.limit, interval |-> r.interval, policy |-> r.policy, nhosts |-> r.nhosts]

TraceInit == /\ TLCSet(1, 0) /\ l = 1
             /\ now = 0 /\ cfg = AnyCfg
             /\ loc = [d \in Digests |-> NoEntry] /\ ctx = [o \in Origins |-> NoEntry]
             /\ pc = [c \in Callers |-> Idle] /\ last = NoLast
IsEvent(e) == l <= Len(Trace) /\ Trace[l].ev = e /\ l' = l + 1

TReset == /\ IsEvent("reset")
          /\ now' = 0 /\ cfg' = CfgOf(R.cfg)
          /\ loc' = [d \in Digests |-> NoEntry] /\ ctx' = [o \in Origins |-> NoEntry]
          /\ pc' = [c \in Callers |-> Idle] /\ last' = NoLast

Agents(r) == [i \in 1..Len(r.ids) |-> [id |-> r.ids[i], origin |-> FALSE, cpl |-> r.cpls[i]]]
RepOf(r)  == [i \in 1..Len(r.ids) |-> [id |-> r.ids[i], origin |-> r.origins[i], cpl |-> r.cpls[i]]]

TTick    == IsEvent("Tick") /\ Tick(R.d)
TOCall   == IsEvent("OCall") /\ OCall(R.c, R.d)
TORet    == IsEvent("ORet") /\ ORet(R.c, R.res, R.origins)
\* the dependency is asked for the digest / torrent / peer of THIS request, with the configured limit
THostLoc == IsEvent("HostLoc") /\ R.d = pc[R.c].d /\ HostLoc(R.c, R.o, R.ok, R.ring)
TPeerCtx == IsEvent("PeerCtx") /\ pc[R.c].st = "ctx" /\ R.o = pc[R.c].addrs[pc[R.c].i] /\ PeerCtx(R.c, R.ok)
TACall   == IsEvent("ACall") /\ ACall(R.c, R.h, R.d, R.p, R.cpl)
TPSUpd   == IsEvent("PSUpdate") /\ R.h = pc[R.c].h /\ R.p = pc[R.c].p /\ R.cpl = pc[R.c].cpl /\ PSUpdate(R.c, R.ok)
TPSGet   == IsEvent("PSGet") /\ R.h = pc[R.c].h /\ R.n = cfg.limit /\ PSGet(R.c, R.ok, Agents(R))
TARet    == IsEvent("ARet") /\ ARet(R.c, R.status, RepOf(R), R.interval)
TMCall   == IsEvent("MCall") /\ MCall(R.c, R.d)
\* the replica is asked for exactly the namespace and digest the client named
TMiTry   == IsEvent("MiTry") /\ pc[R.c].st = "mtry" /\ R.o = pc[R.c].addrs[pc[R.c].i] /\ R.d = pc[R.c].d /\ R.nsok
            /\ MiTry(R.c, R.code)
TMRet    == IsEvent("MRet") /\ MRet(R.c, R.status, R.src)
TRCall   == IsEvent("RCall") /\ RCall(R.c)
TProbe   == IsEvent("Probe") /\ Probe(R.c, R.o, R.ok)
TRRet    == IsEvent("RRet") /\ RRet(R.c, R.status)
THealth  == IsEvent("Health") /\ Health(R.c, R.status)
TBadReq  == IsEvent("BadReq") /\ BadReq(R.c, R.kind, R.status)

Silent == /\ \E c \in Callers : LocHit(c) \/ LocStore(c) \/ CtxHit(c) \/ CtxStore(c)
          /\ UNCHANGED l

TraceNext == \/ TReset \/ TTick \/ TOCall \/ TORet \/ THostLoc \/ TPeerCtx \/ TACall \/ TPSUpd \/ TPSGet \/ TARet
             \/ TMCall \/ TMiTry \/ TMRet \/ TRCall \/ TProbe \/ TRRet \/ THealth \/ TBadReq
             \/ Silent
TraceSpec == TraceInit /\ [][TraceNext]_tvars

\* the guarantees of TrackerServer on every step of every recorded history (the reset step starts a new one)
AtReset == l <= Len(Trace) /\ Trace[l].ev = "reset"
TServedWithinTTL  == [][AtReset \/ ServedWithinTTLStep]_tvars
TAskOnlyWhenStale == [][AtReset \/ AskOnlyWhenStaleStep]_tvars
TAnnounceReply    == [][AtReset \/ AnnounceReplyStep]_tvars
TMetaReply        == [][AtReset \/ (MetaReplyStep /\ MetaNotFoundStep)]_tvars
TReadyReply       == [][AtReset \/ (ReadyReplyStep /\ HealthReplyStep)]_tvars
TTypeOK == /\ now \in Nat
           /\ \A c \in Callers : pc[c].st \in {"idle", "loc", "locfetch", "locstore", "ctx", "ctxstore", "oret",
                                               "upd", "getpeers", "aret", "mloc", "mtry", "mret", "rloc", "rprobe", "rret"}

HW == TLCSet(1, IF TLCGet(1) < l THEN l ELSE TLCGet(1))
TraceAccepted == IF TLCGet(1) = Len(Trace) + 1 THEN TRUE
                 ELSE PrintT(<<"REJECTED_AT_LINE", TLCGet(1)>>) /\ FALSE
=============================================================================
