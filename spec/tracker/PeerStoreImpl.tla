--------------------------- MODULE PeerStoreImpl ---------------------------
(* Implementation-shaped model of one peer group of tracker/peerstore/local.go (property C27,
   "interleavings of cleanup with concurrent announcements").

   One action per critical section of the CURRENT code:
     Scan    cleanupExpiredPeerEntries, read-locked part: remember the INDEXES of expired entries
     Apply   cleanupExpiredPeerEntries, write-locked part: walk the remembered indexes backwards,
             skip an index beyond the list, (Recheck) skip an entry that is no longer expired,
             otherwise move the last entry into the hole, shorten the list, delete from the map
     Update  UpdatePeer under the group's write lock: append a new entry to list and map, or
             renew the existing one in place
     Tick    time passes (only while no pass is between Scan and Apply: the harness that binds
             this model to the code owns the clock; see PeerStoreTrace)
   Between Scan and Apply the group lock is free: any number of Updates may run there.

   TLC checks (a) the double index stays coherent, (b) no entry disappears unless its TTL has
   passed, (c) every step is a step of the API-level PeerStore (refinement).  With
   Recheck = FALSE (configuration MC_PeerStoreImpl_norecheck.cfg, expected to FAIL) TLC produces the
   schedule  Scan; Update(renew an expired entry); Apply  -- the schedule that the c27 engine
   forces on the real code through its clock gate.                                            *)
EXTENDS Integers, Sequences, FiniteSets, TLC
CONSTANTS Peers, TTL, MaxNow, Recheck

VARIABLES list,    \* peerList: sequence of peer ids
          map,     \* peerMap: set of peer ids having a map entry
          exp,     \* [Peers -> Nat] expiresAt of the entry object of that peer (meaningful while listed)
          lastExp, \* group lastExpiresAt (0 = group never written)
          now,
          pc,      \* "idle" | "gap"
          todo     \* remembered expired indexes, ascending (a sequence)
ivars == <<list, map, exp, lastExp, now, pc, todo>>

Range(s) == {s[i] : i \in 1..Len(s)}

IInit == /\ list = <<>> /\ map = {} /\ exp = [p \in Peers |-> 0] /\ lastExp = 0
         /\ now = 0 /\ pc = "idle" /\ todo = <<>>

IUpdate(p) ==
  /\ IF p \in map THEN UNCHANGED <<list, map>>
     ELSE list' = Append(list, p) /\ map' = map \cup {p}
  /\ exp' = [exp EXCEPT ![p] = now + TTL]
  /\ lastExp' = now + TTL
  /\ UNCHANGED <<now, pc, todo>>

ExpiredIdx == SelectSeq([i \in 1..Len(list) |-> i], LAMBDA i : now > exp[list[i]])
IScan == /\ pc = "idle"
         /\ todo' = ExpiredIdx
         /\ pc' = IF ExpiredIdx = <<>> THEN "idle" ELSE "gap"
         /\ UNCHANGED <<list, map, exp, lastExp, now>>

\* the write-locked loop, as a recursive function over the remembered indexes from the back
RECURSIVE Walk(_, _, _)
Walk(j, l, m) ==    \* j = position in todo still to handle; l, m = list and map so far; result <<l, m>>
  IF j = 0 THEN <<l, m>>
  ELSE LET i == todo[j] IN
       IF i > Len(l) THEN Walk(j - 1, l, m)
       ELSE IF Recheck /\ now < exp[l[i]] THEN Walk(j - 1, l, m)
       ELSE LET e  == l[i]
                l1 == [l EXCEPT ![i] = l[Len(l)]]
            IN Walk(j - 1, SubSeq(l1, 1, Len(l) - 1), m \ {e})
IApply == /\ pc = "gap"
          /\ LET r == Walk(Len(todo), list, map) IN list' = r[1] /\ map' = r[2]
          /\ pc' = "idle" /\ todo' = <<>>
          /\ UNCHANGED <<exp, lastExp, now>>

ITick == /\ pc = "idle" /\ now < MaxNow /\ now' = now + 1
         /\ UNCHANGED <<list, map, exp, lastExp, pc, todo>>

INext == (\E p \in Peers : IUpdate(p)) \/ IScan \/ IApply \/ ITick
ISpec == IInit /\ [][INext]_ivars

----------------------------------------------------------------------------
\* (a) peerList and peerMap index the same peers, each once
IndexCoherent == /\ Range(list) = map
                 /\ \A i, j \in 1..Len(list) : i # j => list[i] # list[j]
\* (b) C27: an announcement is forgotten only after its TTL passed without renewal
ForgetOnlyExpired == [][\A p \in Range(list) : p \notin Range(list') => now > exp[p]]_ivars
\* a remembered index never makes the pass touch a fresh entry, and the pass ends with nothing expired left
PassComplete == [][(pc = "gap" /\ pc' = "idle") => \A p \in Range(list') : ~(now > exp[p])]_ivars

\* (c) refinement: the API-level store this group implements
PS == INSTANCE PeerStore WITH
        Hashes <- {"h1"}, Addrs <- {"a1"}, TTLs <- {TTL}, Steps <- {1}, Asks <- {0},
        ann <- [h \in {"h1"} |-> [p \in Range(list) |-> [addr |-> "a1", complete |-> FALSE, exp |-> exp[p]]]],
        last <- [h \in {"h1"} |-> lastExp],
        ttl <- TTL,
        reply <- [op |-> "none", h |-> "", n |-> 0, peers |-> <<>>]
Refines == PS!Spec
=============================================================================
