SPECIFICATION Spec
CONSTANTS
  Callers = {"c1","c2"}
  Origins = {"o1","o2"}
  Digests = {"d1"}
  RDigest = "d1"
  Peers = {"p1","p2"}
  Rings <- Rings2
  Cfgs <- CfgStore
  Ops = {"origins"}
  MiCodes = {200}
  PeerLists <- NoLists
  Steps = {1}
  MaxNow = 3
VIEW view
INVARIANT TypeOK OneRunner EntryTTL NoHiding
PROPERTY ServedWithinTTL AskOnlyWhenStale AnnounceReply MetaReply MetaNotFoundOnlyIfSaid ReadyReply HealthReply
