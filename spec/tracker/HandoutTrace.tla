--------------------------- MODULE HandoutTrace ---------------------------
(* Trace validation of recorded tracker histories (C26) against Handout.
   The driver sends real announce requests (both protocol versions) to the real tracker HTTP
   handler built on a real LocalStore with a mock clock, a fake origin store and a real
   priority policy; between announcements it advances the clock and runs the peer store's
   cleanup passes.  Every record carries the call, the decoded reply and a projection of the
   peer store taken after the call.  The call is applied as the specification's action; reply
   and projection are stored in `hand` / `obs` and judged by the invariants of Handout (one per
   clause of C26) and the projection invariants below, so that a rejected history names the
   clause it breaks.  The history's configuration (limit, policy, TTL, origins per torrent)
   comes with the reset record.                                                              *)
EXTENDS Handout, Json
Trace == ndJsonDeserialize("trace.ndjson")
VARIABLES l, obs
tvars == <<ann, last, now, ttl, reply, orig, limit, policy, hand, l, obs>>
R == Trace[l]

NoObs == [valid |-> FALSE, ann |-> <<>>, last |-> <<>>, now |-> 0, idx |-> TRUE]
ObsOf(r) ==
  [valid |-> TRUE,
   ann |-> [h \in Hashes |->
              LET I == {i \in 1..Len(r.sh) : r.sh[i] = h} IN
              [p \in {r.sp[i] : i \in I} |->
                 LET i == CHOOSE i \in I : r.sp[i] = p IN
                 [addr |-> r.sa[i], complete |-> r.sc[i], exp |-> r.se[i]]]],
   last |-> [h \in Hashes |-> r.gl[h]],
   now |-> r.now,
   idx |-> r.idx]
RepOf(r) == [i \in 1..Len(r.ids) |->
               [p |-> r.ids[i], addr |-> r.addrs[i], origin |-> r.origins[i], complete |-> r.cs[i]]]

\* one arbitrary initial state; every history starts with a reset record that sets the configuration
TraceInit == /\ TLCSet(1, 0) /\ l = 1 /\ obs = NoObs
             /\ ann = [h \in Hashes |-> Nobody] /\ last = [h \in Hashes |-> 0] /\ now = 0
             /\ ttl = (CHOOSE x \in TTLs : TRUE) /\ reply = NoReply
             /\ orig = [h \in Hashes |-> {}] /\ limit = (CHOOSE x \in Limits : TRUE)
             /\ policy = (CHOOSE x \in Policies : TRUE) /\ hand = NoHand
IsEvent(e) == l <= Len(Trace) /\ Trace[l].ev = e /\ l' = l + 1

TReset == /\ IsEvent("reset")
          /\ ann' = [h \in Hashes |-> Nobody] /\ last' = [h \in Hashes |-> 0]
          /\ now' = 0 /\ ttl' = R.cfg.ttl /\ reply' = NoReply
          /\ orig' = [h \in Hashes |-> Range(R.cfg.orig[h])]
          /\ limit' = R.cfg.limit /\ policy' = R.cfg.policy
          /\ hand' = NoHand /\ obs' = NoObs

Seen(e) == IsEvent(e) /\ obs' = ObsOf(R) /\ UNCHANGED hcfg
TAnnounce == /\ Seen("Announce")
             /\ Update(R.h, R.p, R.a, R.c)
             /\ hand' = [op |-> "announce", h |-> R.h, p |-> R.p, complete |-> R.c, res |-> R.res, peers |-> RepOf(R)]
TTick   == Seen("Tick") /\ Tick(R.d) /\ hand' = NoHand
TCleanE == Seen("CleanEntries") /\ CleanEntries /\ hand' = NoHand
TCleanG == Seen("CleanGroups") /\ CleanGroups /\ hand' = NoHand

TraceNext == TReset \/ TAnnounce \/ TTick \/ TCleanE \/ TCleanG
TraceSpec == TraceInit /\ [][TraceNext]_tvars

\* the real peer store holds exactly the announcements, expiries, group deadlines and clock of the model
ObsEntries   == obs.valid => obs.ann = ann
ObsDeadlines == obs.valid => obs.last = last
ObsClock     == obs.valid => obs.now = now
ObsIndex     == obs.valid => obs.idx

AtReset == l <= Len(Trace) /\ Trace[l].ev = "reset"
TForgetOnlyExpired == [][AtReset \/ ForgetStep]_tvars
TAnnounceStores == [][AtReset \/ (hand'.op = "announce" =>
                         /\ hand'.p \in DOMAIN ann'[hand'.h]
                         /\ ann'[hand'.h][hand'.p].exp = now + ttl
                         /\ ann'[hand'.h][hand'.p].complete = hand'.complete)]_tvars

HW == TLCSet(1, IF TLCGet(1) < l THEN l ELSE TLCGet(1))
TraceAccepted == IF TLCGet(1) = Len(Trace) + 1 THEN TRUE
                 ELSE PrintT(<<"REJECTED_AT_LINE", TLCGet(1)>>) /\ FALSE
=============================================================================
