----------------------------- MODULE RedisPeers -----------------------------
(* API-level specification of the tracker's Redis-backed peer store
   (tracker/peerstore/redis.go, property C28).

   A peer announces with an identity, an address (IPv4, IPv6 or host name), a port and a
   completion flag.  The store keeps, per torrent and per time window, the SET of
   announcements made in that window; each announcement is stored as ONE string whose
   ':'-separated fields are  id : address : port : flag.  An address is modelled as the
   sequence of its ':'-free tokens ("10.0.0.1" is <<"10.0.0.1">>, "2001:db8::1" is
   <<"2001","db8","","1">>), so Ser/Deser below are exactly the field lists of the stored
   strings.  The REQUIRED behaviour is that decoding inverts encoding for every address
   (CodecRoundTrip) and hence that every announced peer comes back as announced.

   A window's set expires as a whole MaxWin windows after its start; GetPeers looks at the
   MaxWin most recent windows in random order and draws at random from each until it has n
   distinct identities; the completion flags of one identity (same id, address, port) are
   OR-ed over the drawn strings.  The specification is nondeterministic exactly where the
   code draws at random, and deterministic when n is large enough to draw everything.      *)
EXTENDS Integers, Sequences, FiniteSets, TLC

CONSTANTS Hashes, Peers,
          IPs,        \* addresses (token sequences) the codec is exercised with
          StoreIPs,   \* addresses announced to the store
          Ports,
          WinSizes,   \* window sizes (clock units)
          MaxWins,    \* numbers of windows kept
          Steps, Asks, MaxNow

VARIABLES mem,     \* [Hashes -> SUBSET [w, p, ip, port, c]]  announcements per torrent, tagged with their window start
          now, win, maxw,
          reply,   \* last GetPeers reply
          codec    \* last Codec call: a peer and what decoding its encoding gave
rvars == <<mem, now, win, maxw, reply, codec>>

Range(s) == {s[i] : i \in 1..Len(s)}
NoReply == [op |-> "none", h |-> "", n |-> 0, peers |-> <<>>]
NoCodec == [op |-> "none", peer |-> <<>>, ok |-> TRUE, back |-> <<>>]

----------------------------------------------------------------------------
(* The wire format of one set member *)
Ser(m)   == <<m.p>> \o m.ip \o <<m.port, m.c>>
\* required decoder: first field = id, last two = port and flag, everything between = the address
Deser(f) == [p |-> f[1], ip |-> SubSeq(f, 2, Len(f) - 2), port |-> f[Len(f) - 1], c |-> f[Len(f)]]
\* (as built, F28: deserializePeer demands Len(f) = 4, i.e. an address without ':'; any other member is dropped)
Peer(m)  == [p |-> m.p, ip |-> m.ip, port |-> m.port, c |-> m.c]
Ident(m) == [p |-> m.p, ip |-> m.ip, port |-> m.port]

----------------------------------------------------------------------------
WinOf(t)  == t - (t % win)
Live(h)   == {m \in mem[h] : now < m.w + win * maxw}     \* not yet expired = still inside the windows GetPeers reads
Idents(h) == {Ident(m) : m \in Live(h)}
FlagsOf(h, id) == {m.c : m \in {m \in Live(h) : Ident(m) = id}}

Init == /\ mem = [h \in Hashes |-> {}]
        /\ now = 0 /\ win \in WinSizes /\ maxw \in MaxWins
        /\ reply = NoReply /\ codec = NoCodec

Update(h, p, ip, port, c) ==
  /\ mem' = [mem EXCEPT ![h] = @ \cup {[w |-> WinOf(now), p |-> p, ip |-> ip, port |-> port, c |-> c]}]
  /\ reply' = NoReply /\ codec' = NoCodec
  /\ UNCHANGED <<now, win, maxw>>

\* time passes; expired windows vanish
Tick(d) ==
  /\ now' = now + d
  /\ mem' = [h \in Hashes |-> {m \in mem[h] : now + d < m.w + win * maxw}]
  /\ reply' = NoReply /\ codec' = NoCodec
  /\ UNCHANGED <<win, maxw>>

(* GetPeers(h, n).  rep is a sequence of [p, ip, port, c]. *)
GetOK(h, n, rep) ==
  LET ids == {Ident(rep[i]) : i \in 1..Len(rep)} IN
  /\ \A i, j \in 1..Len(rep) : i # j => Ident(rep[i]) # Ident(rep[j])
  /\ ids \subseteq Idents(h)
  /\ Len(rep) <= (IF n < 0 THEN 0 ELSE n)
  /\ (n >= 1 /\ Live(h) # {}) => Len(rep) >= 1
  /\ \A i \in 1..Len(rep) : rep[i].c \in FlagsOf(h, Ident(rep[i]))
  \* enough room to draw every stored string: everything comes back, flags OR-ed
  /\ n >= Cardinality(Live(h)) =>
        /\ ids = Idents(h)
        /\ \A i \in 1..Len(rep) : rep[i].c = (TRUE \in FlagsOf(h, Ident(rep[i])))
Orderings(T) == {f \in [1..Cardinality(T) -> T] : \A i, j \in 1..Cardinality(T) : i # j => f[i] # f[j]}
\* design model: the deterministic case only (n large), in any order
FullReply(h) == {[p |-> id.p, ip |-> id.ip, port |-> id.port, c |-> (TRUE \in FlagsOf(h, id))] : id \in Idents(h)}
Get(h, n) ==
  /\ n >= Cardinality(Live(h))
  /\ \E f \in Orderings(FullReply(h)) : reply' = [op |-> "get", h |-> h, n |-> n, peers |-> f]
  /\ codec' = NoCodec
  /\ UNCHANGED <<mem, now, win, maxw>>

\* the member codec on its own: encode, then decode
Codec(p, ip, port, c) ==
  LET m == [p |-> p, ip |-> ip, port |-> port, c |-> c] IN
  /\ codec' = [op |-> "codec", peer |-> m, ok |-> TRUE, back |-> Deser(Ser(m))]
  /\ reply' = NoReply
  /\ UNCHANGED <<mem, now, win, maxw>>

Next == \/ \E h \in Hashes, p \in Peers, ip \in StoreIPs, port \in Ports, c \in BOOLEAN : Update(h, p, ip, port, c)
        \/ \E h \in Hashes, n \in Asks : Get(h, n)
        \/ \E d \in Steps : now + d <= MaxNow /\ Tick(d)
        \/ \E p \in Peers, ip \in IPs, port \in Ports, c \in BOOLEAN : Codec(p, ip, port, c)
Spec == Init /\ [][Next]_rvars

----------------------------------------------------------------------------
TypeOK == /\ \A h \in Hashes : \A m \in mem[h] : m.w = WinOf(m.w) /\ m.w <= now /\ now < m.w + win * maxw
          /\ now \in Nat /\ win \in WinSizes /\ maxw \in MaxWins

(* Property C28 *)
IsGet == reply.op = "get"
\* every announced peer that is still stored is returned with the identity, address and port it announced ...
RoundTrip == IsGet /\ reply.n >= Cardinality(Live(reply.h)) =>
               \A m \in Live(reply.h) : \E i \in 1..Len(reply.peers) : Ident(reply.peers[i]) = Ident(m)
\* ... and with the completion flag it announced (when it announced one flag value only; otherwise the flags are OR-ed)
FlagRoundTrip == IsGet /\ reply.n >= Cardinality(Live(reply.h)) =>
               \A i \in 1..Len(reply.peers) :
                  LET fl == FlagsOf(reply.h, Ident(reply.peers[i])) IN
                  Cardinality(fl) = 1 => reply.peers[i].c \in fl
\* nothing is invented, nothing twice, never more than asked for
GetSound == IsGet => /\ \A i \in 1..Len(reply.peers) : Ident(reply.peers[i]) \in Idents(reply.h)
                     /\ \A i, j \in 1..Len(reply.peers) : i # j => Ident(reply.peers[i]) # Ident(reply.peers[j])
                     /\ Len(reply.peers) <= (IF reply.n < 0 THEN 0 ELSE reply.n)
GetConforms == IsGet => GetOK(reply.h, reply.n, reply.peers)
\* the codec inverts itself for every address
CodecRoundTrip == codec.op = "codec" => codec.ok /\ codec.back = codec.peer
\* ... which the required decoder does, for every member the model can build (sanity of Ser/Deser themselves)
DeserInvertsSer == \A h \in Hashes : \A m \in mem[h] : Deser(Ser(Peer(m))) = Peer(m)
RInv == RoundTrip /\ FlagRoundTrip /\ GetSound /\ GetConforms /\ CodecRoundTrip /\ DeserInvertsSer

\* an announcement stays visible until its window expires: nothing is lost before (win * maxw) after the window start
KeepStep == \A h \in Hashes : \A m \in mem[h] : m \notin mem'[h] => now' >= m.w + win * maxw
KeepUntilExpiry == [][KeepStep]_rvars

FromQuiet == reply = NoReply /\ codec = NoCodec

(* Constant values for the configurations (a .cfg file cannot contain tuples) *)
NoIPs == {}
\* every address made of 1..8 tokens, i.e. containing 0..7 colons, over an empty and a non-empty token:
\* covers IPv4 / host names (1 token), full IPv6 (8 tokens), every compressed form ("::1" = <<"","","a">>, "a::" ...)
AllTokenIPs == UNION {[1..k -> {"", "a"}] : k \in 1..8}
ShortTokenIPs == UNION {[1..k -> {"", "a"}] : k \in 1..4}
SomeIPs == {<<"10.0.0.1">>, <<"fe80", "", "1">>}
=============================================================================
