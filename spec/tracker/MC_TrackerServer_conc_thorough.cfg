SPECIFICATION Spec
CONSTANTS
  Callers = {"c1","c2"}
  Origins = {"o1","o2"}
  Digests = {"d1"}
  RDigest = "d1"
  Peers = {"p1"}
  Rings <- RingsOne
  Cfgs <- CfgQ
  Ops = {"origins","announce"}
  MiCodes = {200}
  PeerLists <- NoLists
  Steps = {2}
  MaxNow = 2
VIEW view
INVARIANT TypeOK OneRunner EntryTTL NoHiding
PROPERTY ServedWithinTTL AskOnlyWhenStale AnnounceReply MetaReply MetaNotFoundOnlyIfSaid ReadyReply HealthReply
