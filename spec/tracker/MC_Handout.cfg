INIT HInit
NEXT HNext
CONSTANTS
  Hashes = {"h1"}
  Peers = {"p1","p2","p3"}
  Addrs = {"a1"}
  TTLs = {1}
  Steps = {2}
  Asks = {0}
  MaxNow = 2
  OriginIds = {"o1"}
  Limits = {1,2}
  Policies = {"default","completeness"}
INVARIANT HTypeOK Deadlines HandInv
PROPERTY AnnounceStores
