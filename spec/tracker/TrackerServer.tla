--------------------------- MODULE TrackerServer ---------------------------
(* Extension module X02: the tracker's request handling.

   Implementation-shaped specification of
     tracker/originstore/store.go          store.GetOrigins, locations.Run, peerContexts.Run
     tracker/trackerserver/announce.go     announceHandlerV1/V2, announce, getPeerHandout
     tracker/trackerserver/metainfo.go     getMetaInfoHandler (on blobclient.clusterClient.GetMetaInfo)
     tracker/trackerserver/server.go       readinessCheckHandler, healthHandler
     origin/blobclient/cluster_client.go   Locations, clientResolver.Resolve, clusterClient.GetMetaInfo/CheckReadiness
                                           (the glue the tracker is deployed with, tracker/cmd/cmd.go)

   Treated abstractly (they have their own modules): the peer store (PeerStore, RedisPeers: here an
   environment whose UpdatePeer / GetPeers outcomes are parameters), the priority policy (Handout: here
   only "a priority-sorted ordering without the announcer") and utils/dedup.Limiter (Dedup: here one
   cache entry per key with an expiry, at most one runner in flight, waiters served by the runner's
   result).  The origin cluster is an environment too: what an origin answers on each of its four
   endpoints (locations: failure or a replica list; peer context; metainfo: status; readiness) is a
   parameter of the step that asks it.

   One action per handler step at which another actor can interleave (Callers are concurrent HTTP
   requests / goroutines):
     *Call     the request arrives (arguments fixed)
     HostLoc   blobclient.Locations asks one sampled cluster host               (cluster_client.go:47-53)
     LocHit    locations limiter serves its cached result                       (store.go:64, limiter getOutput)
     LocStore  locations.Run returns, limiter stores output + expiry            (store.go:115-120)
     CtxHit    peerContexts limiter serves a cached context / cached failure    (store.go:77)
     PeerCtx   peerContexts.Run asks the origin for its peer context            (store.go:142)
     CtxStore  limiter stores that result with OriginContextTTL / OriginUnavailableTTL (store.go:143-148)
     PSUpdate  peerStore.UpdatePeer                                             (announce.go:84)
     PSGet     peerStore.GetPeers                                               (announce.go:111)
     MiTry     clusterClient.GetMetaInfo asks the next replica                  (cluster_client.go:200-207)
     Probe     clusterClient.CheckReadiness asks one random replica             (cluster_client.go:121-122)
     *Ret      the reply leaves (status, body)
   and Tick (the clock).                                                                          *)
EXTENDS Integers, Sequences, FiniteSets, TLC

CONSTANTS Callers,    \* concurrent requests "c1".."cN"
          Origins,    \* origin hosts "o1".."oN"; the origin cluster's host list is all of them
          Digests,    \* blobs "d1".."dN"
          RDigest,    \* the digest the readiness check resolves (backend.ReadinessCheckDigest)
          Peers,      \* announcing agents "p1".."pN", disjoint from Origins
          Rings,      \* possible replica lists: non-empty sequences of distinct origins
          Cfgs,       \* configurations [locTTL, locErrTTL, ctxTTL, unavTTL, limit, interval, policy, nhosts] (effective values)
          Ops,        \* which operations the model issues: subset of {"origins","announce","metainfo","ready","health","bad"}
          MiCodes,    \* per-origin metainfo outcomes: 200 found, 202 being fetched, other status, 0 = network error
          PeerLists,  \* what the (abstract) peer store may answer to GetPeers
          Steps,      \* clock advances
          MaxNow      \* model bound on the clock
ASSUME RDigest \in Digests /\ Origins \cap Peers = {}

VARIABLES now, cfg,
          loc,        \* [Digests -> Entry]    tasks of the `locations` limiter
          ctx,        \* [Origins -> Entry]    tasks of the `peerContexts` limiter
          pc,         \* [Callers -> request state]
          last        \* observation only: the reply that left in this step (NoLast otherwise)
vars  == <<now, cfg, loc, ctx, pc, last>>
view  == <<now, cfg, loc, ctx, pc>>

Range(s) == {s[i] : i \in 1..Len(s)}
Min(a, b) == IF a < b THEN a ELSE b
Last(s) == s[Len(s)]
SampleSize == Min(3, cfg.nhosts)               \* cluster.Resolve().Sample(3); the host list has cfg.nhosts members

NoEntry == [set |-> FALSE, ok |-> FALSE, addrs |-> <<>>, at |-> 0, exp |-> 0, busy |-> FALSE]
\* dedup task.expired(now) == now.After(expiresAt): an entry is served up to and including its expiry instant
Fresh(e) == e.set /\ now <= e.exp
NoVal == [ok |-> FALSE, addrs |-> <<>>]
Idle == [op |-> "none", st |-> "idle", d |-> "", h |-> "", p |-> "", cpl |-> FALSE, tried |-> {},
         val |-> NoVal, addrs |-> <<>>, i |-> 0, seen |-> <<>>, got |-> <<>>, oerr |-> "",
         psok |-> FALSE, peers |-> <<>>, outs |-> <<>>, code |-> 0, src |-> ""]
NoLast == [op |-> "none"]

Init == /\ now = 0 /\ cfg \in Cfgs
        /\ loc = [d \in Digests |-> NoEntry] /\ ctx = [o \in Origins |-> NoEntry]
        /\ pc = [c \in Callers |-> Idle] /\ last = NoLast

----------------------------------------------------------------------------
(* originstore.GetOrigins as a sub-procedure of the callers with op "origins" (direct call) and
   "announce" (getPeerHandout).                                                                   *)
EndOrigins(r) == [r EXCEPT !.st = IF r.op = "announce" THEN "aret" ELSE "oret"]
\* store.go:69-71: a locations error ends the call; otherwise iterate the addresses in order
WithLoc(r, v) == IF v.ok THEN [r EXCEPT !.st = "ctx", !.addrs = v.addrs, !.i = 1, !.seen = <<>>, !.got = <<>>]
                 ELSE EndOrigins([r EXCEPT !.oerr = "locerr"])
\* store.go:75-89: an unavailable origin is skipped, never ends the loop; empty result => allUnavailableError
WithCtx(r, ok) ==
  LET r1 == [r EXCEPT !.st = "ctx", !.i = @ + 1, !.seen = Append(@, ok),
                      !.got = IF ok THEN Append(@, r.addrs[r.i]) ELSE @] IN
  IF r1.i > Len(r1.addrs) THEN EndOrigins([r1 EXCEPT !.oerr = IF r1.got = <<>> THEN "allunavail" ELSE ""])
  ELSE r1

OCall(c, d) == /\ "origins" \in Ops /\ pc[c].st = "idle"
               /\ pc' = [pc EXCEPT ![c] = [Idle EXCEPT !.op = "origins", !.st = "loc", !.d = d]]
               /\ last' = NoLast /\ UNCHANGED <<now, cfg, loc, ctx>>

LocHit(c) == LET r == pc[c] IN
  /\ r.st = "loc" /\ Fresh(loc[r.d])
  /\ pc' = [pc EXCEPT ![c] = WithLoc(r, [ok |-> loc[r.d].ok, addrs |-> loc[r.d].addrs])]
  /\ last' = NoLast /\ UNCHANGED <<now, cfg, loc, ctx>>

(* blobclient.Locations: up to three sampled cluster hosts are asked one after the other until one
   answers.  Used by the locations limiter (st loc/locfetch), by the metainfo handler through
   clientResolver.Resolve (mloc) and by the readiness handler (rloc).                              *)
HostLoc(c, o, ok, rg) == LET r == pc[c]
                         starting == r.st = "loc" /\ ~Fresh(loc[r.d]) /\ ~loc[r.d].busy
                         tried == IF r.st = "loc" THEN {} ELSE r.tried
                         t2 == tried \cup {o}
                         done == ~ok /\ Cardinality(t2) >= SampleSize
                         v == IF ok THEN [ok |-> TRUE, addrs |-> rg] ELSE NoVal IN
  /\ starting \/ r.st \in {"locfetch", "mloc", "rloc"}
  /\ o \notin tried /\ Cardinality(tried) < SampleSize
  /\ loc' = IF starting THEN [loc EXCEPT ![r.d].busy = TRUE] ELSE loc
  /\ pc' = [pc EXCEPT ![c] =
       IF r.st \in {"loc", "locfetch"}
       THEN IF ok \/ done THEN [r EXCEPT !.st = "locstore", !.val = v, !.tried = t2]
            ELSE [r EXCEPT !.st = "locfetch", !.tried = t2]
       ELSE IF r.st = "mloc"
       THEN IF ok THEN [r EXCEPT !.st = "mtry", !.addrs = v.addrs, !.i = 1, !.tried = t2]
            ELSE IF done THEN [r EXCEPT !.st = "mret", !.code = 500, !.tried = t2]   \* "resolve clients: ..." is a plain error
            ELSE [r EXCEPT !.tried = t2]
       ELSE IF ok THEN [r EXCEPT !.st = "rprobe", !.addrs = v.addrs, !.tried = t2]
            ELSE IF done THEN [r EXCEPT !.st = "rret", !.code = 503, !.tried = t2]
            ELSE [r EXCEPT !.tried = t2]]
  /\ last' = NoLast /\ UNCHANGED <<now, cfg, ctx>>

LocStore(c) == LET r == pc[c] IN
  /\ r.st = "locstore"
  /\ loc' = [loc EXCEPT ![r.d] = [set |-> TRUE, ok |-> r.val.ok, addrs |-> r.val.addrs, at |-> now,
                                  exp |-> now + (IF r.val.ok THEN cfg.locTTL ELSE cfg.locErrTTL), busy |-> FALSE]]
  /\ pc' = [pc EXCEPT ![c] = WithLoc(r, r.val)]
  /\ last' = NoLast /\ UNCHANGED <<now, cfg, ctx>>

CtxHit(c) == LET r == pc[c] IN
  /\ r.st = "ctx" /\ Fresh(ctx[r.addrs[r.i]])
  /\ pc' = [pc EXCEPT ![c] = WithCtx(r, ctx[r.addrs[r.i]].ok)]
  /\ last' = NoLast /\ UNCHANGED <<now, cfg, loc, ctx>>

PeerCtx(c, ok) == LET r == pc[c] IN
  /\ r.st = "ctx" /\ ~Fresh(ctx[r.addrs[r.i]]) /\ ~ctx[r.addrs[r.i]].busy
  /\ ctx' = [ctx EXCEPT ![r.addrs[r.i]].busy = TRUE]
  /\ pc' = [pc EXCEPT ![c] = [r EXCEPT !.st = "ctxstore", !.val = [ok |-> ok, addrs |-> <<>>]]]
  /\ last' = NoLast /\ UNCHANGED <<now, cfg, loc>>

CtxStore(c) == LET r == pc[c] IN
  /\ r.st = "ctxstore"
  /\ ctx' = [ctx EXCEPT ![r.addrs[r.i]] = [set |-> TRUE, ok |-> r.val.ok, addrs |-> <<>>, at |-> now,
                                           exp |-> now + (IF r.val.ok THEN cfg.ctxTTL ELSE cfg.unavTTL), busy |-> FALSE]]
  /\ pc' = [pc EXCEPT ![c] = WithCtx(r, r.val.ok)]
  /\ last' = NoLast /\ UNCHANGED <<now, cfg, loc>>

\* the reply of GetOrigins: "ok" + the healthy origins in replica order, or which error
ORes(r) == IF r.oerr = "" THEN "ok" ELSE r.oerr
ORet(c, res, origins) == LET r == pc[c] IN
  /\ r.st = "oret" /\ res = ORes(r) /\ origins = r.got
  /\ pc' = [pc EXCEPT ![c] = Idle]
  /\ last' = [op |-> "origins", c |-> c, res |-> res, origins |-> origins]
  /\ UNCHANGED <<now, cfg, loc, ctx>>

----------------------------------------------------------------------------
(* announce (V1 and V2 differ only in where the info hash comes from).                             *)
ACall(c, h, d, p, cpl) == /\ "announce" \in Ops /\ pc[c].st = "idle"
  /\ pc' = [pc EXCEPT ![c] = [Idle EXCEPT !.op = "announce", !.st = "upd", !.h = h, !.d = d, !.p = p, !.cpl = cpl]]
  /\ last' = NoLast /\ UNCHANGED <<now, cfg, loc, ctx>>

\* announce.go:84-88: the outcome of UpdatePeer is logged and otherwise ignored;
\* announce.go:103-107: a complete announcer gets no handout and causes no further calls
PSUpdate(c, ok) == LET r == pc[c] IN
  /\ r.st = "upd"
  /\ pc' = [pc EXCEPT ![c] = [r EXCEPT !.st = IF r.cpl THEN "aret" ELSE "getpeers"]]
  /\ last' = NoLast /\ UNCHANGED <<now, cfg, loc, ctx>>

\* announce.go:111-114: a peer store error only means "no peers from the store"; then GetOrigins(d)
PSGet(c, ok, peers) == LET r == pc[c] IN
  /\ r.st = "getpeers"
  /\ Len(peers) <= cfg.limit /\ (~ok => peers = <<>>)
  /\ pc' = [pc EXCEPT ![c] = [r EXCEPT !.st = "loc", !.psok = ok, !.peers = peers]]
  /\ last' = NoLast /\ UNCHANGED <<now, cfg, loc, ctx>>

OriginInfo(o) == [id |-> o, origin |-> TRUE, cpl |-> TRUE]
Prio(e) == IF cfg.policy = "default" THEN 0 ELSE IF e.origin THEN 1 ELSE IF e.cpl THEN 0 ELSE 2
Sorted(rep) == \A i, j \in 1..Len(rep) : i < j => Prio(rep[i]) <= Prio(rep[j])
\* peers of the store followed by the origins (announce.go:119), before the policy drops the announcer
Gathered(r) == r.peers \o [i \in 1..Len(r.got) |-> OriginInfo(r.got[i])]
Handed(r)   == SelectSeq(Gathered(r), LAMBDA e : e.id # r.p)
Count(s, e) == Cardinality({i \in 1..Len(s) : s[i] = e})
IsPerm(a, b) == /\ Len(a) = Len(b)
                /\ \A e \in Range(a) \cup Range(b) : Count(a, e) = Count(b, e)
AStatus(r) == IF ~r.cpl /\ Gathered(r) = <<>> THEN 500 ELSE 200      \* "no peers available"
AReplyOK(r, status, rep, interval) ==
  /\ status = AStatus(r)
  /\ IF status # 200 THEN rep = <<>> /\ interval = 0
     ELSE /\ interval = cfg.interval
          /\ IF r.cpl THEN rep = <<>> ELSE IsPerm(rep, Handed(r)) /\ Sorted(rep)

ARet(c, status, rep, interval) == LET r == pc[c] IN
  /\ r.st = "aret" /\ AReplyOK(r, status, rep, interval)
  /\ pc' = [pc EXCEPT ![c] = Idle]
  /\ last' = [op |-> "announce", c |-> c, status |-> status, peers |-> rep, interval |-> interval]
  /\ UNCHANGED <<now, cfg, loc, ctx>>

----------------------------------------------------------------------------
(* GET /namespace/<ns>/blobs/<d>/metainfo.  Nothing is cached or deduplicated in the tracker
   (Config.GetMetaInfoLimit is unused): every request resolves the replicas and asks them in order. *)
MCall(c, d) == /\ "metainfo" \in Ops /\ pc[c].st = "idle"
  /\ pc' = [pc EXCEPT ![c] = [Idle EXCEPT !.op = "metainfo", !.st = "mloc", !.d = d]]
  /\ last' = NoLast /\ UNCHANGED <<now, cfg, loc, ctx>>

\* cluster_client.go:200-207: 200 and 202 end the loop, anything else moves on; the LAST error is returned.
\* metainfo.go:37-43: a StatusError keeps its status, any other error is a 500.
MiTry(c, code) == LET r == pc[c]
                      o == r.addrs[r.i]
                      outs == Append(r.outs, code) IN
  /\ r.st = "mtry"
  /\ pc' = [pc EXCEPT ![c] =
       IF code \in {200, 202} THEN [r EXCEPT !.st = "mret", !.outs = outs, !.code = code, !.src = o]
       ELSE IF r.i = Len(r.addrs) THEN [r EXCEPT !.st = "mret", !.outs = outs, !.code = IF code = 0 THEN 500 ELSE code, !.src = o]
       ELSE [r EXCEPT !.i = @ + 1, !.outs = outs]]
  /\ last' = NoLast /\ UNCHANGED <<now, cfg, loc, ctx>>

\* src: the origin whose metainfo is in a 200 body ("" otherwise)
MRet(c, status, src) == LET r == pc[c] IN
  /\ r.st = "mret" /\ status = r.code /\ src = (IF r.code = 200 THEN r.src ELSE "")
  /\ pc' = [pc EXCEPT ![c] = Idle]
  /\ last' = [op |-> "metainfo", c |-> c, status |-> status, src |-> src]
  /\ UNCHANGED <<now, cfg, loc, ctx>>

----------------------------------------------------------------------------
(* GET /readiness: resolve the readiness digest, ask ONE random replica; GET /health.               *)
RCall(c) == /\ "ready" \in Ops /\ pc[c].st = "idle"
  /\ pc' = [pc EXCEPT ![c] = [Idle EXCEPT !.op = "ready", !.st = "rloc", !.d = RDigest]]
  /\ last' = NoLast /\ UNCHANGED <<now, cfg, loc, ctx>>
Probe(c, o, ok) == LET r == pc[c] IN
  /\ r.st = "rprobe" /\ o \in Range(r.addrs)
  /\ pc' = [pc EXCEPT ![c] = [r EXCEPT !.st = "rret", !.code = IF ok THEN 200 ELSE 503, !.src = o]]
  /\ last' = NoLast /\ UNCHANGED <<now, cfg, loc, ctx>>
RRet(c, status) == LET r == pc[c] IN
  /\ r.st = "rret" /\ status = r.code
  /\ pc' = [pc EXCEPT ![c] = Idle]
  /\ last' = [op |-> "ready", c |-> c, status |-> status]
  /\ UNCHANGED <<now, cfg, loc, ctx>>

Health(c, status) == /\ "health" \in Ops /\ pc[c].st = "idle" /\ status = 200
  /\ last' = [op |-> "health", c |-> c, status |-> status]
  /\ UNCHANGED <<now, cfg, loc, ctx, pc>>

(* Requests that do not parse never reach a dependency and change nothing.  The metainfo handler
   answers a malformed digest with 400; the announce handlers answer 500 (handler.Errorf default).
   The specification only demands a client/server error status.                                    *)
BadKinds == {"json", "digest", "infohash", "midigest", "nopeer"}
BadStatusOK(kind, status) == IF kind = "midigest" THEN status = 400 ELSE status >= 400 /\ status <= 599
BadReq(c, kind, status) == /\ "bad" \in Ops /\ pc[c].st = "idle" /\ kind \in BadKinds /\ BadStatusOK(kind, status)
  /\ last' = [op |-> "bad", c |-> c, status |-> status]
  /\ UNCHANGED <<now, cfg, loc, ctx, pc>>

----------------------------------------------------------------------------
(* Environment *)
Tick(d) == /\ now' = now + d /\ last' = NoLast /\ UNCHANGED <<cfg, loc, ctx, pc>>

PeerInfos == [id : Peers, origin : {FALSE}, cpl : BOOLEAN]
Replies(r) == IF AStatus(r) # 200 \/ r.cpl THEN {<<>>}
              ELSE {rep \in [1..Len(Handed(r)) -> Range(Handed(r))] : IsPerm(rep, Handed(r)) /\ Sorted(rep)}

Step(c) == \/ \E d \in Digests : OCall(c, d) \/ MCall(c, d)
           \/ \E d \in Digests, p \in Peers, cpl \in BOOLEAN : ACall(c, "h1", d, p, cpl)
           \/ RCall(c)
           \/ Health(c, 200)
           \/ \E k \in BadKinds : BadReq(c, k, 400)
           \/ LocHit(c) \/ LocStore(c) \/ CtxHit(c) \/ CtxStore(c)
           \/ \E o \in Origins, ok \in BOOLEAN : (\E rg \in Rings : HostLoc(c, o, ok, rg)) \/ Probe(c, o, ok)
           \/ \E ok \in BOOLEAN : PeerCtx(c, ok) \/ PSUpdate(c, ok)
           \/ \E ok \in BOOLEAN, ps \in PeerLists : PSGet(c, ok, ps)
           \/ \E code \in MiCodes : MiTry(c, code)
           \/ ORet(c, ORes(pc[c]), pc[c].got)
           \/ \E rep \in Replies(pc[c]) : ARet(c, AStatus(pc[c]), rep, IF AStatus(pc[c]) = 200 THEN cfg.interval ELSE 0)
           \/ MRet(c, pc[c].code, IF pc[c].code = 200 THEN pc[c].src ELSE "")
           \/ RRet(c, pc[c].code)

EnvStep == \E d \in Steps : now + d <= MaxNow /\ Tick(d)

Next == EnvStep \/ \E c \in Callers : Step(c)
Spec == Init /\ [][Next]_vars
\* every request that arrived is answered (a caller only ever waits for another caller's store)
FairSpec == Spec /\ \A c \in Callers : WF_vars(Step(c) /\ pc[c].st # "idle")

----------------------------------------------------------------------------
(* Guarantees *)
EntryOK(e) == /\ e.set \in BOOLEAN /\ e.ok \in BOOLEAN /\ e.busy \in BOOLEAN
              /\ e.at \in Nat /\ e.exp \in Nat /\ (e.addrs = <<>> \/ e.addrs \in Rings)
TypeOK == /\ now \in Nat /\ cfg \in Cfgs
          /\ \A d \in Digests : EntryOK(loc[d])
          /\ \A o \in Origins : EntryOK(ctx[o])
          /\ \A c \in Callers : pc[c].st \in {"idle", "loc", "locfetch", "locstore", "ctx", "ctxstore", "oret",
                                              "upd", "getpeers", "aret", "mloc", "mtry", "mret", "rloc", "rprobe", "rret"}

\* G1 (limiter contract as the origin store relies on it): per key at most one fetch is in flight, and the
\*    busy flag is exactly "some caller is between asking and storing".
LocRunners(d) == {c \in Callers : pc[c].st \in {"locfetch", "locstore"} /\ pc[c].d = d}
CtxRunners(o) == {c \in Callers : pc[c].st = "ctxstore" /\ pc[c].addrs[pc[c].i] = o}
OneRunner == /\ \A d \in Digests : Cardinality(LocRunners(d)) = (IF loc[d].busy THEN 1 ELSE 0)
             /\ \A o \in Origins : Cardinality(CtxRunners(o)) = (IF ctx[o].busy THEN 1 ELSE 0)

\* G2: a cache entry never outlives the TTL of its kind, counted from the instant it was stored:
\*     healthy contexts OriginContextTTL, remembered unavailability OriginUnavailableTTL,
\*     locations LocationsTTL, location errors LocationsErrorTTL.
EntryTTL == /\ \A o \in Origins : ctx[o].set => ctx[o].exp = ctx[o].at + (IF ctx[o].ok THEN cfg.ctxTTL ELSE cfg.unavTTL)
            /\ \A d \in Digests : loc[d].set => loc[d].exp = loc[d].at + (IF loc[d].ok THEN cfg.locTTL ELSE cfg.locErrTTL)

\* G3: whatever a request takes from a cache (without asking the origin in that step) was stored at most
\*     one TTL of its kind ago: cached contexts are served only within OriginContextTTL, unavailability is
\*     remembered no longer than OriginUnavailableTTL.
TookCtx(c) == pc[c].st = "ctx" /\ ctx' = ctx /\ Len(pc'[c].seen) = Len(pc[c].seen) + 1
ServedWithinTTLStep ==
     \A c \in Callers :
       /\ TookCtx(c) => LET e == ctx[pc[c].addrs[pc[c].i]] IN
                        /\ e.set /\ Last(pc'[c].seen) = e.ok
                        /\ now <= e.at + (IF e.ok THEN cfg.ctxTTL ELSE cfg.unavTTL)
       /\ (pc[c].st = "loc" /\ pc'[c].st # "loc" /\ loc' = loc) =>
                        LET e == loc[pc[c].d] IN
                        e.set /\ now <= e.at + (IF e.ok THEN cfg.locTTL ELSE cfg.locErrTTL)
ServedWithinTTL == [][ServedWithinTTLStep]_vars

\* G4: the origin cluster is asked again for a key only when nothing fresh is cached for it
\*     (this is what bounds the tracker's load on the origins to one request per key and TTL).
AskOnlyWhenStaleStep ==
     /\ \A o \in Origins : (ctx'[o].busy /\ ~ctx[o].busy) => ~Fresh(ctx[o])
     /\ \A d \in Digests : (loc'[d].busy /\ ~loc[d].busy) => ~Fresh(loc[d])
AskOnlyWhenStale == [][AskOnlyWhenStaleStep]_vars

\* G5: failures of some origins never hide healthy ones: when GetOrigins ends, its result is exactly the
\*     located origins that were seen healthy, in replica order, whatever the others answered;
\*     "all unavailable" only if every located origin was seen unavailable.
Healthy(r) == LET I == {i \in 1..Len(r.seen) : r.seen[i]} IN
              [k \in 1..Cardinality(I) |-> r.addrs[CHOOSE i \in I : Cardinality({j \in I : j < i}) = k - 1]]
NoHiding == \A c \in Callers : pc[c].st \in {"oret", "aret"} /\ pc[c].oerr # "locerr" /\ ~(pc[c].op = "announce" /\ pc[c].cpl) =>
              /\ Len(pc[c].seen) = Len(pc[c].addrs)
              /\ pc[c].got = Healthy(pc[c])
              /\ (pc[c].oerr = "allunavail") = (\A i \in 1..Len(pc[c].seen) : ~pc[c].seen[i])
              /\ (pc[c].oerr = "") = (pc[c].got # <<>>)

\* G6 (announce reply): never the announcer; peers of the store and all healthy origins, each once;
\*     priority order; a complete announcer gets nothing; the configured interval; 500 only when neither the
\*     peer store nor the origin store had anything (a failure of one never hides the other).
Ids(rep) == {rep[i].id : i \in 1..Len(rep)}
AnnounceReplyStep ==
     last'.op = "announce" =>
       LET r == pc[last'.c] rep == last'.peers IN
       /\ r.p \notin Ids(rep)
       /\ r.cpl => rep = <<>> /\ last'.status = 200
       /\ last'.status = 200 => last'.interval = cfg.interval
       /\ (last'.status = 200 /\ ~r.cpl) =>
            /\ Ids(rep) = (Ids(r.peers) \cup Range(r.got)) \ {r.p}
            /\ \A i \in 1..Len(rep) : rep[i].origin = (rep[i].id \in Origins)
            /\ Sorted(rep)
       /\ last'.status \in {200, 500}
       /\ last'.status = 500 <=> (~r.cpl /\ r.peers = <<>> /\ r.got = <<>>)
AnnounceReply == [][AnnounceReplyStep]_vars

\* G7 (metainfo status), stated on the list of replica outcomes independently of the step rules:
\*     the first 200/202 in replica order decides and no replica is asked after it; otherwise every
\*     replica was asked and the LAST one decides: its status if it answered, 500 if it did not.
MetaReplyStep ==
     last'.op = "metainfo" =>
       LET r == pc[last'.c] outs == r.outs
           D == {i \in 1..Len(outs) : outs[i] \in {200, 202}} IN
       IF outs = <<>> THEN last'.status = 500 /\ Cardinality(r.tried) = SampleSize    \* no cluster host answered Locations
       ELSE IF D # {} THEN /\ D = {Len(outs)} /\ last'.status = outs[Len(outs)]
                           /\ last'.src = (IF last'.status = 200 THEN r.addrs[Len(outs)] ELSE "")
       ELSE /\ Len(outs) = Len(r.addrs)
            /\ last'.status = (IF Last(outs) = 0 THEN 500 ELSE Last(outs))
            /\ last'.src = ""
MetaReply == [][MetaReplyStep]_vars
\*     in particular 404 is answered only if the last replica said 404, 202 only if a replica said 202
MetaNotFoundStep == (last'.op = "metainfo" /\ last'.status \in {202, 404}) =>
                       (pc[last'.c].outs # <<>> /\ Last(pc[last'.c].outs) = last'.status)
MetaNotFoundOnlyIfSaid == [][MetaNotFoundStep]_vars

\* G8 (readiness): 200 iff a replica of the readiness digest was probed and was ready; otherwise 503
ReadyReplyStep == last'.op = "ready" => /\ last'.status \in {200, 503}
                                        /\ last'.status = 200 <=> (pc[last'.c].src # "" /\ pc[last'.c].code = 200)
ReadyReply == [][ReadyReplyStep]_vars
HealthReplyStep == last'.op = "health" => last'.status = 200
HealthReply == [][HealthReplyStep]_vars

\* G9 (liveness, FairSpec): every request is eventually answered
Answered == \A c \in Callers : (pc[c].st # "idle") ~> (pc[c].st = "idle")
=============================================================================
