SPECIFICATION Spec
CONSTANTS
  Hashes = {"h1"}
  Peers = {"p1","p2","p3"}
  Addrs = {"a1","a2"}
  TTLs = {2}
  Steps = {1,3}
  Asks = {0,2,3}
  MaxNow = 3
INVARIANT TypeOK Deadlines GetInv
PROPERTY ForgetOnlyExpired ChangeIsRenewal ClockMonotone
ACTION_CONSTRAINT FromQuiet
