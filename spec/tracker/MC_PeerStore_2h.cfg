SPECIFICATION Spec
CONSTANTS
  Hashes = {"h1","h2"}
  Peers = {"p1","p2"}
  Addrs = {"a1"}
  TTLs = {1}
  Steps = {1,2}
  Asks = {1,2}
  MaxNow = 2
INVARIANT TypeOK Deadlines GetInv
PROPERTY ForgetOnlyExpired ChangeIsRenewal ClockMonotone
ACTION_CONSTRAINT FromQuiet
