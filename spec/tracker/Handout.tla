------------------------------ MODULE Handout ------------------------------
(* API-level specification of the tracker's announce operation (property C26):
   tracker/trackerserver/announce.go on top of the in-memory peer store (PeerStore, C27),
   the origin store and the peer handout policy (tracker/peerhandoutpolicy).

   Announce(h, p, a, c): the announcement is stored first (UpdatePeer); then, unless the
   announcer reports completion, the peer store is asked for `limit` random peers of the
   torrent, all origins of the blob are appended, the announcer itself is removed and the
   rest is ordered by the configured priority policy.  The specification is
   nondeterministic in which peers are drawn and in the order inside one priority class
   (sort.Slice is not stable), deterministic in everything else.

   Besides Announce the only things that happen to a tracker are the passage of time and
   the peer store's two cleanup passes; they are inherited from PeerStore.

   History: until /repo commit 483b8c2 SortPeers compared pointers and an incomplete announcer
   was handed out to itself whenever the store drew it (finding F26, known_findings.d/C26.json,
   fixes/F26.diff).  While that was open this module carried a flag admitting the as-built
   behaviour in the bulk of the recorded histories; with the repair committed the flag is gone
   and every recorded history is validated against the property as stated.                  *)
EXTENDS PeerStore

CONSTANTS OriginIds,   \* origin peers "o1".."oN" (their address is named like them); disjoint from Peers
          Limits,      \* handout limits (announce_limit >= 1; 0 means "default 50" in the code)
          Policies     \* subset of {"default", "completeness"}
ASSUME OriginIds \cap Peers = {}

VARIABLES orig,        \* [Hashes -> SUBSET OriginIds]  origins currently seeding the torrent's blob
          limit, policy,
          hand         \* the last call if it was an Announce: arguments and reply
hcfg  == <<orig, limit, policy>>
hvars == <<ann, last, now, ttl, reply, orig, limit, policy, hand>>

NoHand == [op |-> "none", h |-> "", p |-> "", complete |-> FALSE, res |-> "", peers |-> <<>>]
OriginInfo(o)     == [p |-> o, addr |-> o, origin |-> TRUE, complete |-> TRUE]
AgentInfo(st, q)  == [p |-> q, addr |-> st[q].addr, origin |-> FALSE, complete |-> st[q].complete]
\* priority class of a handed out peer: smaller is handed out earlier
Prio(e) == IF policy = "default" THEN 0
           ELSE IF e.origin THEN 1 ELSE IF e.complete THEN 0 ELSE 2
Sorted(rep) == \A i, j \in 1..Len(rep) : i < j => Prio(rep[i]) <= Prio(rep[j])

HInit == /\ Init
         /\ orig \in [Hashes -> SUBSET OriginIds]
         /\ limit \in Limits /\ policy \in Policies
         /\ hand = NoHand

(* The reply to an announcement by p (complete flag c) for h, given the torrent's announcements
   st AFTER p's own announcement was stored.                                                     *)
HandoutOK(st, h, p, c, res, rep) ==
  /\ res = "ok"
  /\ IF c THEN rep = <<>>
     ELSE LET known == DOMAIN st
              k     == Min(limit, Cardinality(known))
              ags   == {rep[i].p : i \in {i \in 1..Len(rep) : ~rep[i].origin}}
              ogs   == {rep[i].p : i \in {i \in 1..Len(rep) : rep[i].origin}}
          IN /\ \A i, j \in 1..Len(rep) : i # j => rep[i].p # rep[j].p
             /\ ogs = orig[h]
             /\ ags \subseteq known
             /\ p \notin ags /\ Cardinality(ags) \in {k - 1, k}         \* k drawn, the announcer (if drawn) removed
             /\ \A i \in 1..Len(rep) : rep[i] = IF rep[i].origin THEN OriginInfo(rep[i].p) ELSE AgentInfo(st, rep[i].p)
             /\ Sorted(rep)

Handouts(st, h, p, c) ==
  IF c THEN {<<>>}
  ELSE LET known   == DOMAIN st
           k       == Min(limit, Cardinality(known))
           samples == {S \in SUBSET known : Cardinality(S) = k}
           agsets  == {S \ {p} : S \in samples}
           members(A) == {AgentInfo(st, q) : q \in A} \cup {OriginInfo(o) : o \in orig[h]}
       IN UNION {{f \in Orderings(members(A)) : Sorted(f)} : A \in agsets}

Announce(h, p, a, c) ==
  /\ Update(h, p, a, c)
  /\ \E rep \in Handouts(Announced(h, p, a, c), h, p, c) :
        hand' = [op |-> "announce", h |-> h, p |-> p, complete |-> c, res |-> "ok", peers |-> rep]
  /\ UNCHANGED hcfg

Quietly(A) == A /\ hand' = NoHand /\ UNCHANGED hcfg
HNext == \/ \E h \in Hashes, p \in Peers, a \in Addrs, c \in BOOLEAN : Announce(h, p, a, c)
         \/ \E d \in Steps : now + d <= MaxNow /\ Quietly(Tick(d))
         \/ Quietly(CleanEntries)
         \/ Quietly(CleanGroups)
HSpec == HInit /\ [][HNext]_hvars

----------------------------------------------------------------------------
HTypeOK == /\ TypeOK /\ reply = NoReply
           /\ orig \in [Hashes -> SUBSET OriginIds] /\ limit \in Limits
           /\ policy \in Policies

(* Property C26, clause by clause, on the reply of the last announcement *)
IsAnn == hand.op = "announce"
Ids(rep) == {rep[i].p : i \in 1..Len(rep)}
\* never lists the announcing peer
NoSelf == IsAnn => hand.p \notin Ids(hand.peers)
\* never lists any peer twice
NoDup == IsAnn => \A i, j \in 1..Len(hand.peers) : i # j => hand.peers[i].p # hand.peers[j].p
\* holds at most the configured number of agents plus the blob's origins
Bounded == IsAnn => /\ Cardinality({i \in 1..Len(hand.peers) : ~hand.peers[i].origin}) <= limit
                    /\ {hand.peers[i].p : i \in {i \in 1..Len(hand.peers) : hand.peers[i].origin}} \subseteq orig[hand.h]
                    /\ Len(hand.peers) <= limit + Cardinality(orig[hand.h])
\* is empty for an announcer that reports completion
EmptyWhenComplete == IsAnn /\ hand.complete => hand.peers = <<>>
\* is ordered by the configured priority (completeness: seeders, then origins, then incomplete peers)
Ordered == IsAnn => Sorted(hand.peers)
\* every listed agent is a peer known for the torrent, with its latest address and completion flag;
\* every listed origin is an origin of the blob (marked origin and complete)
Truthful == IsAnn => \A i \in 1..Len(hand.peers) :
              LET e == hand.peers[i] IN
              IF e.origin THEN e.p \in orig[hand.h] /\ e = OriginInfo(e.p)
              ELSE e.p \in Known(hand.h) /\ e = AgentInfo(ann[hand.h], e.p)
\* the reply is one the specification allows (draw size, all origins present, status)
HandConforms == IsAnn => HandoutOK(ann[hand.h], hand.h, hand.p, hand.complete, hand.res, hand.peers)
HandInv == NoSelf /\ NoDup /\ Bounded /\ EmptyWhenComplete /\ Ordered /\ Truthful /\ HandConforms

\* an announcement always leaves the announcer stored with what it announced, for a full TTL
AnnounceStores ==
  [][hand'.op = "announce" =>
       /\ hand'.p \in DOMAIN ann'[hand'.h]
       /\ ann'[hand'.h][hand'.p].exp = now + ttl
       /\ ann'[hand'.h][hand'.p].complete = hand'.complete]_hvars
=============================================================================
