SPECIFICATION TraceSpec
CONSTANTS
  Callers = {"c1","c2","c3"}
  Origins = {"o1","o2","o3","o4"}
  Digests = {"d1","d2","dr"}
  RDigest = "dr"
  Peers = {"p1","p2","p3","p4","p5","p6"}
  Rings = {}
  Cfgs = {}
  Ops = {"origins","announce","metainfo","ready","health","bad"}
  MiCodes = {}
  PeerLists = {}
  Steps = {}
  MaxNow = 0
INVARIANT TTypeOK OneRunner EntryTTL NoHiding
PROPERTY TServedWithinTTL TAskOnlyWhenStale TAnnounceReply TMetaReply TReadyReply
CONSTRAINT HW
POSTCONDITION TraceAccepted
CHECK_DEADLOCK FALSE
