SPECIFICATION FairSpec
CONSTANTS
  Callers = {"c1","c2"}
  Origins = {"o1","o2"}
  Digests = {"d1"}
  RDigest = "d1"
  Peers = {"p1"}
  Rings <- RingsOne
  Cfgs <- CfgQ
  Ops = {"origins","ready"}
  MiCodes = {200,404}
  PeerLists <- NoLists
  Steps = {2}
  MaxNow = 2
INVARIANT TypeOK OneRunner
PROPERTY Answered
