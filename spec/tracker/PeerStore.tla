----------------------------- MODULE PeerStore -----------------------------
(* API-level specification of the tracker's in-memory peer store
   (tracker/peerstore/local.go, property C27; reused as the store half of Handout, C26).

   Abstract state: per torrent a partial map  peer -> latest announcement  and the
   expiry of the most recent announcement of the torrent (the "group" deadline).
   One action per public call (UpdatePeer, GetPeers) and per internal pass that the
   store's ticker goroutine runs (cleanupExpiredPeerEntries, cleanupExpiredPeerGroups),
   plus the passage of time.  The entry pass is not atomic in the code: it visits the
   groups one after the other and each visit takes effect at one instant (the moment
   the group's write lock is held, or the read-locked scan when nothing is expired);
   CleanEntriesOf(h) is that instant, CleanEntries is the whole pass without
   interference.  The group pass holds the store lock from start to end and is atomic.

   GetPeers samples uniformly at random: the specification is nondeterministic in
   which peers and in which order, and deterministic in everything else.            *)
EXTENDS Integers, Sequences, FiniteSets, TLC

CONSTANTS Hashes,   \* torrents "h1".."hN"
          Peers,    \* announcing peers "p1".."pN"
          Addrs,    \* abstract (ip,port) pairs "a1".."aN"
          TTLs,     \* time-to-live values a store may be configured with (clock units)
          Steps,    \* amounts by which the clock may advance in one Tick
          Asks,     \* values of n a GetPeers may ask for
          MaxNow    \* bound of the clock (design model only)

VARIABLES ann,    \* [Hashes -> [subset of Peers -> [addr, complete, exp]]]  latest announcement per peer
          last,   \* [Hashes -> Nat]  0 = no group; else expiry of the group's most recent announcement
          now,    \* clock
          ttl,    \* configured TTL
          reply   \* the reply of the last call if it was a GetPeers (NoReply otherwise)
svars == <<ann, last, now, ttl>>
vars  == <<ann, last, now, ttl, reply>>

Range(s)   == {s[i] : i \in 1..Len(s)}
Min(a, b)  == IF a < b THEN a ELSE b
Max0(n)    == IF n < 0 THEN 0 ELSE n
Nobody     == <<>>                       \* the empty map
NoReply    == [op |-> "none", h |-> "", n |-> 0, peers |-> <<>>]

Known(h)    == DOMAIN ann[h]
Expired(h)  == {p \in Known(h) : now > ann[h][p].exp}
Info(h, p)  == [p |-> p, addr |-> ann[h][p].addr, complete |-> ann[h][p].complete]
Restrict(f, S) == [x \in S |-> f[x]]

Init == /\ ann = [h \in Hashes |-> Nobody]
        /\ last = [h \in Hashes |-> 0]
        /\ now = 0
        /\ ttl \in TTLs
        /\ reply = NoReply

----------------------------------------------------------------------------
(* UpdatePeer(h, p): p's announcement for h is replaced as a whole and lives for ttl. *)
Announced(h, p, a, c) == (p :> [addr |-> a, complete |-> c, exp |-> now + ttl]) @@ ann[h]
Update(h, p, a, c) ==
  /\ ann' = [ann EXCEPT ![h] = Announced(h, p, a, c)]
  /\ last' = [last EXCEPT ![h] = now + ttl]
  /\ reply' = NoReply
  /\ UNCHANGED <<now, ttl>>

(* GetPeers(h, n): min(n, known) distinct known peers, each with its latest announcement,
   in any order.  Slightly expired, not yet cleaned entries may be returned (documented).  *)
GetOK(h, n, rep) ==
  /\ Len(rep) = Min(Max0(n), Cardinality(Known(h)))
  /\ \A i, j \in 1..Len(rep) : i # j => rep[i].p # rep[j].p
  /\ \A i \in 1..Len(rep) : rep[i].p \in Known(h) /\ rep[i] = Info(h, rep[i].p)
Orderings(T) == {f \in [1..Cardinality(T) -> T] : \A i, j \in 1..Cardinality(T) : i # j => f[i] # f[j]}
GetReplies(h, n) ==
  LET k == Min(Max0(n), Cardinality(Known(h))) IN
  UNION {{[i \in 1..k |-> Info(h, f[i])] : f \in Orderings(T)} : T \in {T \in SUBSET Known(h) : Cardinality(T) = k}}
Get(h, n) ==
  /\ \E rep \in GetReplies(h, n) : reply' = [op |-> "get", h |-> h, n |-> n, peers |-> rep]
  /\ UNCHANGED svars

Tick(d) == /\ now' = now + d
           /\ reply' = NoReply
           /\ UNCHANGED <<ann, last, ttl>>

(* cleanupExpiredPeerEntries, one group: exactly the entries whose TTL has passed disappear. *)
CleanEntriesOf(h) ==
  /\ ann' = [ann EXCEPT ![h] = Restrict(@, Known(h) \ Expired(h))]
  /\ reply' = NoReply
  /\ UNCHANGED <<last, now, ttl>>
(* the whole pass without interference *)
CleanEntries ==
  /\ ann' = [h \in Hashes |-> Restrict(ann[h], Known(h) \ Expired(h))]
  /\ reply' = NoReply
  /\ UNCHANGED <<last, now, ttl>>

(* cleanupExpiredPeerGroups: a torrent whose most recent announcement has expired is dropped as a whole. *)
GroupExpired(h) == last[h] # 0 /\ now > last[h]
CleanGroups ==
  /\ ann' = [h \in Hashes |-> IF GroupExpired(h) THEN Nobody ELSE ann[h]]
  /\ last' = [h \in Hashes |-> IF GroupExpired(h) THEN 0 ELSE last[h]]
  /\ reply' = NoReply
  /\ UNCHANGED <<now, ttl>>

Next == \/ \E h \in Hashes, p \in Peers, a \in Addrs, c \in BOOLEAN : Update(h, p, a, c)
        \/ \E h \in Hashes, n \in Asks : Get(h, n)
        \/ \E d \in Steps : now + d <= MaxNow /\ Tick(d)
        \/ \E h \in Hashes : CleanEntriesOf(h)
        \/ CleanEntries
        \/ CleanGroups

Spec == Init /\ [][Next]_vars

----------------------------------------------------------------------------
(* Well-formedness *)
TypeOK ==
  /\ \A h \in Hashes : /\ Known(h) \subseteq Peers
                       /\ \A p \in Known(h) : /\ ann[h][p].addr \in Addrs
                                              /\ ann[h][p].complete \in BOOLEAN
                                              /\ ann[h][p].exp \in Nat
  /\ last \in [Hashes -> Nat] /\ now \in Nat /\ ttl \in TTLs
\* an announcement never outlives its group deadline, nor the configured TTL from now
Deadlines == \A h \in Hashes : \A p \in Known(h) : ann[h][p].exp <= last[h] /\ ann[h][p].exp <= now + ttl

(* Property C27, reply half: asking for n peers returns at most n distinct peers, each
   reflecting that peer's most recent announcement for the torrent.                     *)
IsGet == reply.op = "get"
GetBounded  == IsGet => Len(reply.peers) <= Max0(reply.n)
GetDistinct == IsGet => \A i, j \in 1..Len(reply.peers) : i # j => reply.peers[i].p # reply.peers[j].p
GetLatest   == IsGet => \A i \in 1..Len(reply.peers) :
                   /\ reply.peers[i].p \in Known(reply.h)
                   /\ reply.peers[i] = Info(reply.h, reply.peers[i].p)
\* nothing that is still remembered is withheld when enough peers are asked for
GetAllWhenRoom == IsGet /\ reply.n >= Cardinality(Known(reply.h)) =>
                   {reply.peers[i].p : i \in 1..Len(reply.peers)} = Known(reply.h)
GetInv == GetBounded /\ GetDistinct /\ GetLatest /\ GetAllWhenRoom

(* Property C27, memory half: an announcement is forgotten only after its TTL passed without
   renewal, never while it is fresh.                                                          *)
ForgetStep == \A h \in Hashes : \A p \in Known(h) : p \notin DOMAIN ann'[h] => now > ann[h][p].exp
ForgetOnlyExpired == [][ForgetStep]_vars
\* an announcement only ever changes by being renewed as a whole for a full TTL
RenewStep == \A h \in Hashes : \A p \in DOMAIN ann'[h] :
               (p \notin Known(h) \/ ann'[h][p] # ann[h][p]) => ann'[h][p].exp = now + ttl
ChangeIsRenewal == [][RenewStep]_vars
ClockStep == now' >= now /\ ttl' = ttl
ClockMonotone == [][ClockStep]_vars

(* Design-model reduction: a state that carries a GetPeers reply has the same store state as its
   predecessor, whose successors are explored anyway; ACTION_CONSTRAINT FromQuiet stops there.   *)
FromQuiet == reply = NoReply
=============================================================================
