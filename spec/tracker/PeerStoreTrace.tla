-------------------------- MODULE PeerStoreTrace --------------------------
(* Trace validation of recorded peerstore.LocalStore histories (C27) against PeerStore.

   Two kinds of records share one log:
   * sequential records (Update, Get, Tick, CleanEntries, CleanGroups, Snap): one call of the
     real store while nothing else is in flight.  Each carries the call, its reply and a
     projection of the store taken right after the call (entries with expiry, group deadlines,
     clock, index consistency).  The call is applied as the specification's action; the logged
     reply and projection are put into `reply` / `obs` and judged by invariants, so that a
     rejected history names the clause it breaks.
   * concurrent records (call:X / ret:X with a goroutine id g): the driver ran several
     goroutines at once (announcers, readers, a cleaner, no clock movement).  A call is
     pending from its call record to its ret record and takes effect in one silent step in
     between (Lin), so a log is accepted iff the concurrent history is linearizable with
     respect to PeerStore.  The entry pass takes one silent step per torrent it has something
     to do for (CleanEntriesOf); it may return only when no torrent it has not visited holds
     an expired entry.                                                                       *)
EXTENDS PeerStore, Json
Trace == ndJsonDeserialize("trace.ndjson")
VARIABLES l,      \* next line to consume
          pend,   \* [goroutine id -> pending call]
          obs     \* projection of the real store logged with the last record (if any)
tvars == <<ann, last, now, ttl, reply, l, pend, obs>>
R == Trace[l]

NoObs == [valid |-> FALSE, ann |-> <<>>, last |-> <<>>, now |-> 0, idx |-> TRUE]
ObsOf(r) ==
  [valid |-> TRUE,
   ann |-> [h \in Hashes |->
              LET I == {i \in 1..Len(r.sh) : r.sh[i] = h} IN
              [p \in {r.sp[i] : i \in I} |->
                 LET i == CHOOSE i \in I : r.sp[i] = p IN
                 [addr |-> r.sa[i], complete |-> r.sc[i], exp |-> r.se[i]]]],
   last |-> [h \in Hashes |-> r.gl[h]],
   now |-> r.now,
   idx |-> r.idx]
RepOf(r) == [i \in 1..Len(r.ids) |-> [p |-> r.ids[i], addr |-> r.addrs[i], complete |-> r.cs[i]]]

\* one arbitrary initial state; every history starts with a reset record that sets the TTL
TraceInit == /\ TLCSet(1, 0) /\ l = 1 /\ pend = <<>> /\ obs = NoObs
             /\ ann = [h \in Hashes |-> Nobody] /\ last = [h \in Hashes |-> 0] /\ now = 0
             /\ ttl = (CHOOSE x \in TTLs : TRUE) /\ reply = NoReply
IsEvent(e) == l <= Len(Trace) /\ Trace[l].ev = e /\ l' = l + 1
Quiet == pend = <<>>

TReset == /\ IsEvent("reset")
          /\ ann' = [h \in Hashes |-> Nobody] /\ last' = [h \in Hashes |-> 0]
          /\ now' = 0 /\ ttl' = R.cfg.ttl /\ reply' = NoReply
          /\ pend' = <<>> /\ obs' = NoObs

(* ---- sequential records ---- *)
Solo(e) == IsEvent(e) /\ Quiet /\ UNCHANGED pend /\ obs' = ObsOf(R)
TUpdate == Solo("Update") /\ Update(R.h, R.p, R.a, R.c)
TGet    == Solo("Get") /\ reply' = [op |-> "get", h |-> R.h, n |-> R.n, peers |-> RepOf(R)] /\ UNCHANGED svars
TTick   == Solo("Tick") /\ Tick(R.d)
\* the clock moves while calls are pending (an announcer that is slow after reading the clock): a pending call still takes
\* effect at one instant between its call and its return, with the clock of that instant
TTickBusy == IsEvent("TickBusy") /\ Tick(R.d) /\ UNCHANGED pend /\ obs' = NoObs
TCleanE == Solo("CleanEntries") /\ CleanEntries
TCleanG == Solo("CleanGroups") /\ CleanGroups
\* Snap follows a concurrent phase: it selects the linearizations that lead to the projected store
TSnap   == /\ Solo("Snap") /\ UNCHANGED vars
           /\ ObsOf(R).ann = ann /\ ObsOf(R).last = last /\ ObsOf(R).now = now

(* ---- concurrent records ---- *)
Args(op, r) == [op |-> op, done |-> FALSE, todo |-> {},
                h |-> IF op \in {"Update", "Get"} THEN r.h ELSE "",
                p |-> IF op = "Update" THEN r.p ELSE "",
                a |-> IF op = "Update" THEN r.a ELSE "",
                c |-> IF op = "Update" THEN r.c ELSE FALSE,
                n |-> IF op = "Get" THEN r.n ELSE 0]
Call(e, op) == /\ IsEvent(e) /\ R.g \notin DOMAIN pend
               /\ pend' = (R.g :> Args(op, R)) @@ pend
               /\ obs' = NoObs /\ UNCHANGED vars
TCallUpdate == Call("call:Update", "Update")
TCallGet    == Call("call:Get", "Get")
TCallCleanG == Call("call:CleanGroups", "CleanGroups")
TCallCleanE == /\ IsEvent("call:CleanEntries") /\ R.g \notin DOMAIN pend
               /\ pend' = (R.g :> [Args("CleanEntries", R) EXCEPT !.done = TRUE, !.todo = Hashes]) @@ pend
               /\ obs' = NoObs /\ UNCHANGED vars

Rets == {"ret:Update", "ret:Get", "ret:CleanGroups", "ret:CleanEntries"}
RECURSIVE RetLine(_, _)
RetLine(g, j) == IF j > Len(Trace) \/ Trace[j].ev = "reset" THEN 0
                 ELSE IF Trace[j].ev \in Rets /\ Trace[j].g = g THEN j
                 ELSE RetLine(g, j + 1)

Done(g) == pend' = [pend EXCEPT ![g].done = TRUE]
Lin(g) == /\ ~pend[g].done /\ UNCHANGED <<l, obs>>
          /\ LET q == pend[g] IN
             \/ q.op = "Update" /\ Update(q.h, q.p, q.a, q.c) /\ Done(g)
             \/ q.op = "CleanGroups" /\ CleanGroups /\ Done(g)
             \/ /\ q.op = "Get" /\ RetLine(g, l) # 0
                /\ GetOK(q.h, q.n, RepOf(Trace[RetLine(g, l)]))
                /\ UNCHANGED vars /\ Done(g)
CleanStep(g, h) == /\ pend[g].op = "CleanEntries" /\ h \in pend[g].todo /\ Expired(h) # {}
                   /\ CleanEntriesOf(h)
                   /\ pend' = [pend EXCEPT ![g].todo = @ \ {h}]
                   /\ UNCHANGED <<l, obs>>
Ret(e, op) == /\ IsEvent(e) /\ R.g \in DOMAIN pend
              /\ pend[R.g].op = op /\ pend[R.g].done
              /\ \A h \in pend[R.g].todo : Expired(h) = {}
              /\ pend' = [x \in DOMAIN pend \ {R.g} |-> pend[x]]
              /\ obs' = NoObs /\ UNCHANGED vars
TRet == Ret("ret:Update", "Update") \/ Ret("ret:Get", "Get")
        \/ Ret("ret:CleanGroups", "CleanGroups") \/ Ret("ret:CleanEntries", "CleanEntries")

TraceNext == \/ TReset \/ TUpdate \/ TGet \/ TTick \/ TTickBusy \/ TCleanE \/ TCleanG \/ TSnap
             \/ TCallUpdate \/ TCallGet \/ TCallCleanG \/ TCallCleanE \/ TRet
             \/ \E g \in DOMAIN pend : Lin(g) \/ \E h \in Hashes : CleanStep(g, h)
TraceSpec == TraceInit /\ [][TraceNext]_tvars

(* ---- what the recorded reply / projection must satisfy (besides GetInv etc. of PeerStore) ---- *)
\* the reply is one the specification allows: exactly min(n, known) peers
GetConforms == IsGet => GetOK(reply.h, reply.n, reply.peers)
\* the real store holds exactly the announcements, expiries, group deadlines and clock of the model
ObsEntries   == obs.valid => obs.ann = ann
ObsDeadlines == obs.valid => obs.last = last
ObsClock     == obs.valid => obs.now = now
\* peerList and peerMap index the same entries (no peer listed twice, none missing from the map)
ObsIndex     == obs.valid => obs.idx

\* the action properties of PeerStore, on every recorded step except the driver's reset between histories
AtReset == l <= Len(Trace) /\ Trace[l].ev = "reset"
TForgetOnlyExpired == [][AtReset \/ ForgetStep]_tvars
TChangeIsRenewal   == [][AtReset \/ RenewStep]_tvars
TClockMonotone     == [][AtReset \/ ClockStep]_tvars

HW == TLCSet(1, IF TLCGet(1) < l THEN l ELSE TLCGet(1))
TraceAccepted == IF TLCGet(1) = Len(Trace) + 1 THEN TRUE
                 ELSE PrintT(<<"REJECTED_AT_LINE", TLCGet(1)>>) /\ FALSE
=============================================================================
