INIT HInit
NEXT HNext
CONSTANTS
  Hashes = {"h1"}
  Peers = {"p1","p2","p3"}
  Addrs = {"a1"}
  TTLs = {2}
  Steps = {1,3}
  Asks = {0}
  MaxNow = 3
  OriginIds = {"o1","o2"}
  Limits = {1,2}
  Policies = {"default","completeness"}
INVARIANT HTypeOK Deadlines HandInv
PROPERTY AnnounceStores
