SPECIFICATION Spec
CONSTANTS
  Hashes = {"h1"}
  Peers = {"p1"}
  IPs <- NoIPs
  StoreIPs <- SomeIPs
  Ports = {80}
  WinSizes = {2}
  MaxWins = {2}
  Steps = {1,3}
  Asks = {8}
  MaxNow = 5
INVARIANT TypeOK RInv
PROPERTY KeepUntilExpiry
ACTION_CONSTRAINT FromQuiet
