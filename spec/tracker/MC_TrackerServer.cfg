SPECIFICATION Spec
CONSTANTS
  Callers = {"c1"}
  Origins = {"o1","o2"}
  Digests = {"d1"}
  RDigest = "d1"
  Peers = {"p1","p2"}
  Rings <- RingsAB
  Cfgs <- CfgAnnQ
  Ops = {"origins","announce","metainfo","ready","health","bad"}
  MiCodes = {200,202,404,0}
  PeerLists <- PeerLists1
  Steps = {2}
  MaxNow = 4
VIEW view
INVARIANT TypeOK OneRunner EntryTTL NoHiding
PROPERTY ServedWithinTTL AskOnlyWhenStale AnnounceReply MetaReply MetaNotFoundOnlyIfSaid ReadyReply HealthReply
