-------------------------- MODULE TrackerServerMC --------------------------
(* Model-checking constants for TrackerServer (cfg files cannot hold tuples or records). *)
EXTENDS TrackerServer

C(lt, le, ct, ut, lim, pol) == [locTTL |-> lt, locErrTTL |-> le, ctxTTL |-> ct, unavTTL |-> ut,
                                limit |-> lim, interval |-> 3, policy |-> pol, nhosts |-> 2]
N3(S) == {[c EXCEPT !.nhosts = 3] : c \in S}
Rings2 == {<<"o1">>, <<"o1", "o2">>, <<"o2", "o1">>}
Rings3 == {<<"o1">>, <<"o3", "o1", "o2">>}
RingsFix == {<<"o1", "o2">>}
Rings1 == {<<"o1">>, <<"o2", "o1">>}
RingsAB == {<<"o1", "o2">>, <<"o2">>}
\* context TTL shorter than the unavailability TTL (as in the defaults: 10 s / 1 min), locations longer than their errors
CfgStore == {C(2, 1, 1, 2, 2, "completeness")}
CfgQ == {C(1, 1, 1, 1, 2, "completeness")}
CfgStore2 == {C(2, 1, 1, 2, 2, "completeness"), C(1, 2, 2, 1, 2, "default")}
CfgAnnQ == {C(3, 1, 3, 3, 2, "completeness")}
CfgAnn == {C(3, 1, 3, 3, 2, "completeness"), C(3, 1, 3, 3, 1, "default")}
P(id, c) == [id |-> id, origin |-> FALSE, cpl |-> c]
PeerLists2 == {<<>>, <<P("p1", FALSE)>>, <<P("p2", TRUE)>>, <<P("p1", FALSE), P("p2", TRUE)>>, <<P("p2", FALSE), P("p1", TRUE)>>}
PeerLists1 == {<<>>, <<P("p1", FALSE)>>, <<P("p2", TRUE), P("p1", FALSE)>>}
PeerLists0 == {<<>>, <<P("p1", FALSE)>>}
NoLists == {<<>>}
CfgAnn3 == N3(CfgAnn)
RingsOne == {<<"o1">>}
=============================================================================
