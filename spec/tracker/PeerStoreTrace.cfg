SPECIFICATION TraceSpec
CONSTANTS
  Hashes = {"h1","h2","h3"}
  Peers = {"p1","p2","p3","p4","p5"}
  Addrs = {"a1","a2","a3"}
  TTLs = {2,3,5}
  Steps = {1}
  Asks = {0}
  MaxNow = 1000000
INVARIANT TypeOK Deadlines GetInv GetConforms ObsEntries ObsDeadlines ObsClock ObsIndex
PROPERTY TForgetOnlyExpired TChangeIsRenewal TClockMonotone
CONSTRAINT HW
POSTCONDITION TraceAccepted
CHECK_DEADLOCK FALSE
