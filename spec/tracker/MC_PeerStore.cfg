SPECIFICATION Spec
CONSTANTS
  Hashes = {"h1"}
  Peers = {"p1","p2"}
  Addrs = {"a1","a2"}
  TTLs = {2}
  Steps = {1,2}
  Asks = {0,1,2}
  MaxNow = 4
INVARIANT TypeOK Deadlines GetInv
PROPERTY ForgetOnlyExpired ChangeIsRenewal ClockMonotone
ACTION_CONSTRAINT FromQuiet
