SPECIFICATION TraceSpec
CONSTANTS
  Hashes = {"h1","h2"}
  Peers = {"p1","p2","p3","p4","p5"}
  IPs <- NoIPs
  StoreIPs <- NoIPs
  Ports = {0}
  WinSizes = {2,3,10}
  MaxWins = {1,2,3}
  Steps = {1}
  Asks = {0}
  MaxNow = 1000000
INVARIANT TypeOK
INVARIANT CodecRoundTrip DeserInvertsSer RoundTrip FlagRoundTrip GetSound GetConforms
PROPERTY TKeepUntilExpiry
CONSTRAINT HW
POSTCONDITION TraceAccepted
CHECK_DEADLOCK FALSE
