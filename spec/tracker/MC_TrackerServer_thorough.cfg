SPECIFICATION Spec
CONSTANTS
  Callers = {"c1"}
  Origins = {"o1","o2","o3"}
  Digests = {"d1"}
  RDigest = "d1"
  Peers = {"p1","p2"}
  Rings <- Rings3
  Cfgs <- CfgAnn3
  Ops = {"origins","announce","metainfo","ready","health","bad"}
  MiCodes = {200,202,404,503,0}
  PeerLists <- PeerLists2
  Steps = {2}
  MaxNow = 4
VIEW view
INVARIANT TypeOK OneRunner EntryTTL NoHiding
PROPERTY ServedWithinTTL AskOnlyWhenStale AnnounceReply MetaReply MetaNotFoundOnlyIfSaid ReadyReply HealthReply
