INIT IInit
NEXT INext
CONSTANTS
  Peers = {"p1","p2","p3"}
  TTL = 2
  MaxNow = 6
  Recheck = TRUE
INVARIANT IndexCoherent
PROPERTY ForgetOnlyExpired PassComplete Refines
