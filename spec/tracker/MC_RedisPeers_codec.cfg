SPECIFICATION Spec
CONSTANTS
  Hashes = {"h1"}
  Peers = {"p1"}
  IPs <- ShortTokenIPs
  StoreIPs <- NoIPs
  Ports = {80}
  WinSizes = {2}
  MaxWins = {2}
  Steps = {1}
  Asks = {0}
  MaxNow = 0
INVARIANT TypeOK RInv
ACTION_CONSTRAINT FromQuiet
