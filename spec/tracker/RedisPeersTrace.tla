-------------------------- MODULE RedisPeersTrace --------------------------
(* Trace validation of recorded peerstore.RedisStore histories (C28) against RedisPeers.
   The driver runs the real RedisStore against an in-process Redis (miniredis) whose clock is
   kept in step with the store's mock clock.  Records: Update (announce), Get (GetPeers with
   the returned peers), Tick (both clocks advance), Codec (serializePeer followed by
   deserializePeer, reached through an export-only shim).  Addresses are logged as the list of
   their ':'-separated tokens.  Replies are stored in `reply` / `codec` and judged by the
   invariants of RedisPeers, so that a rejected history names the clause it breaks.          *)
EXTENDS RedisPeers, Json
Trace == ndJsonDeserialize("trace.ndjson")
VARIABLE l
tvars == <<mem, now, win, maxw, reply, codec, l>>
R == Trace[l]

RepOf(r) == [i \in 1..Len(r.ids) |-> [p |-> r.ids[i], ip |-> r.ips[i], port |-> r.ports[i], c |-> r.cs[i]]]

TraceInit == /\ TLCSet(1, 0) /\ l = 1
             /\ mem = [h \in Hashes |-> {}] /\ now = 0
             /\ win = (CHOOSE x \in WinSizes : TRUE) /\ maxw = (CHOOSE x \in MaxWins : TRUE)
             /\ reply = NoReply /\ codec = NoCodec
IsEvent(e) == l <= Len(Trace) /\ Trace[l].ev = e /\ l' = l + 1

TReset == /\ IsEvent("reset")
          /\ mem' = [h \in Hashes |-> {}] /\ now' = 0
          /\ win' = R.cfg.w /\ maxw' = R.cfg.m
          /\ reply' = NoReply /\ codec' = NoCodec
TUpdate == IsEvent("Update") /\ R.res = "ok" /\ Update(R.h, R.p, R.ip, R.port, R.c)
TTick   == IsEvent("Tick") /\ Tick(R.d)
TGet    == /\ IsEvent("Get") /\ R.res = "ok"
           /\ reply' = [op |-> "get", h |-> R.h, n |-> R.n, peers |-> RepOf(R)]
           /\ codec' = NoCodec /\ UNCHANGED <<mem, now, win, maxw>>
TCodec  == /\ IsEvent("Codec")
           /\ codec' = [op |-> "codec",
                        peer |-> [p |-> R.p, ip |-> R.ip, port |-> R.port, c |-> R.c],
                        ok |-> R.ok,
                        back |-> [p |-> R.bp, ip |-> R.bip, port |-> R.bport, c |-> R.bc]]
           /\ reply' = NoReply /\ UNCHANGED <<mem, now, win, maxw>>

TraceNext == TReset \/ TUpdate \/ TTick \/ TGet \/ TCodec
TraceSpec == TraceInit /\ [][TraceNext]_tvars

AtReset == l <= Len(Trace) /\ Trace[l].ev = "reset"
TKeepUntilExpiry == [][AtReset \/ KeepStep]_tvars

HW == TLCSet(1, IF TLCGet(1) < l THEN l ELSE TLCGet(1))
TraceAccepted == IF TLCGet(1) = Len(Trace) + 1 THEN TRUE
                 ELSE PrintT(<<"REJECTED_AT_LINE", TLCGet(1)>>) /\ FALSE
=============================================================================
