SPECIFICATION TraceSpec
CONSTANTS
  Hashes = {"h1","h2"}
  Peers = {"p1","p2","p3","p4","p5","p6"}
  Addrs = {"a1","a2","a3"}
  TTLs = {2,3,5}
  Steps = {1}
  Asks = {0}
  MaxNow = 1000000
  OriginIds = {"o1","o2","o3"}
  Limits = {1,2,3,4,5,50}
  Policies = {"default","completeness"}
INVARIANT HTypeOK Deadlines ObsEntries ObsDeadlines ObsClock ObsIndex
INVARIANT EmptyWhenComplete NoDup NoSelf Bounded Ordered Truthful HandConforms
PROPERTY TForgetOnlyExpired TAnnounceStores
CONSTRAINT HW
POSTCONDITION TraceAccepted
CHECK_DEADLOCK FALSE
