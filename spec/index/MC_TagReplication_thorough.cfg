SPECIFICATION Spec
CONSTANTS
  DepSeqs <- MCDepSeqs3
  MaxOrigins = 2
  MaxPolls = 2
  MaxFaults = 3
INVARIANT Inv TypeOK
PROPERTY RetriedWhileMissing
CHECK_DEADLOCK FALSE
