SPECIFICATION Spec
CONSTANTS
  Tags = {"t1","t2"}
  Digests = {"d1","d2"}
  Blobs = {"b1","b2"}
  DepLists <- MCDepLists
  Modes <- MCBoth
  MaxAtt = 3
INVARIANT Inv
PROPERTY Stable FailedDepNoEffect
