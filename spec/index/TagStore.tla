------------------------------ MODULE TagStore ------------------------------
(* API-level specification of one build-index node's tag storage (property C32):
   build-index/tagserver (PUT/GET/HEAD /tags/{tag}, PUT /internal/duplicate/tags/...),
   build-index/tagstore (disk first, backend fallback; write-through vs. write-back) and
   the write-back executor of lib/persistedretry/writeback run by the persistedretry manager.

   Abstract state: what the node has on disk for a tag, what the remote backend holds for
   it, which write-back tasks are persisted, which blobs the origin cluster has.
   One action per public call; the backend/origin fault pattern of a call is a parameter
   of the action (`ofail`, `att`, `dl`, `st`), i.e. every failure pattern is explored.

   Reading (DESIGN 4/C32): histories start from an empty backend for the tags under test;
   "a digest that was put for it" = the digest of some PUT for that tag that passed the
   dependency check and reached the store (the first one stored wins, also when that first
   PUT was answered with an error because the synchronous write-through failed).         *)
EXTENDS Sequences, FiniteSets, Naturals
CONSTANTS Tags,      \* tag names "t1".."tN"
          Digests,   \* manifest digests "d1".."dN"
          Blobs,     \* blobs a tag can depend on "b1".."bN"
          DepLists,  \* set of dependency lists (sequences over Blobs) the resolver may return
          Modes,     \* subset of BOOLEAN: TRUE = write-through configured
          MaxAtt     \* attempts of one synchronous execution (1 + sync retries)
None == "none"

VARIABLES wt,        \* BOOLEAN: node runs in write-through mode
          disk,      \* [Tags -> Digests \cup {None}] : tag file in the node's cache dir
          persist,   \* [Tags -> BOOLEAN] : persist metadata on that file (protects it from cleanup)
          backend,   \* [Tags -> Digests \cup {None}] : remote storage
          tasks,     \* SUBSET Tags : write-back tasks persisted in the node's task table
          present,   \* SUBSET Blobs : blobs present in the origin cluster
          acked,     \* [Tags -> BOOLEAN] : history: some put of the tag was answered 200
          attempted, \* [Tags -> SUBSET Digests] : history: digests of puts that reached the store
          last       \* history: kind and reply of the last call
vars == <<wt, disk, persist, backend, tasks, present, acked, attempted, last>>
Other == [op |-> "other", ok |-> FALSE, depsok |-> FALSE]

Range(s) == {s[i] : i \in 1..Len(s)}

Init == /\ wt \in Modes
        /\ disk = [t \in Tags |-> None] /\ persist = [t \in Tags |-> FALSE]
        /\ backend = [t \in Tags |-> None] /\ tasks = {} /\ present = {}
        /\ acked = [t \in Tags |-> FALSE] /\ attempted = [t \in Tags |-> {}]
        /\ last = Other

-----------------------------------------------------------------------------
(* Dependency check (tagserver.putTag): Stat each dependency in order on the origin cluster,
   stop at the first one that is missing or whose Stat fails (ofail = its index, 0 = no fault). *)
DepIdx(deps, ofail) ==
  IF \E i \in 1..Len(deps) : deps[i] \notin present \/ i = ofail
  THEN CHOOSE i \in 1..Len(deps) : /\ (deps[i] \notin present \/ i = ofail)
                                   /\ \A j \in 1..(i-1) : deps[j] \in present /\ j # ofail
  ELSE 0
DepsOK(deps, ofail) == DepIdx(deps, ofail) = 0
NStat(deps, ofail)  == IF DepsOK(deps, ofail) THEN Len(deps) ELSE DepIdx(deps, ofail)

(* One execution attempt of a write-back task (writeback.Executor.Exec) is <<stat, upload, content>>:
   stat   : "found" (already in backend: no upload), "nf", "err" (backend fault; upload is tried)
   upload : "ok", "err", "lost" (stored, but the call reported an error), "na"
   content: the digest uploaded (must be the node's disk value) or "na"                        *)
Wrote(a) == a[2] \in {"ok", "lost"}
Succ(a)  == a[1] = "found" \/ a[2] = "ok"
BkBefore(t, dsk, att, i) == IF \E j \in 1..(i-1) : Wrote(att[j]) THEN dsk ELSE backend[t]
AttLegal(t, dsk, att, i) ==
  LET a == att[i]  b == BkBefore(t, dsk, att, i) IN
  /\ a[1] \in {"found", "nf", "err"}
  /\ a[1] = "found" => (b # None /\ a[2] = "na" /\ a[3] = "na")
  /\ a[1] = "nf" => b = None
  /\ a[1] # "found" => (a[2] \in {"ok", "err", "lost"} /\ a[3] = dsk)
(* Synchronous execution (manager.SyncExec): retry in place until success, at most MaxAtt attempts. *)
SyncLegal(t, dsk, att) ==
  /\ Len(att) \in 1..MaxAtt
  /\ \A i \in 1..Len(att) : AttLegal(t, dsk, att, i)
  /\ \A i \in 1..(Len(att)-1) : ~Succ(att[i])
  /\ ~Succ(att[Len(att)]) => Len(att) = MaxAtt
SyncOK(att) == Len(att) > 0 /\ Succ(att[Len(att)])

DiskAfter(t, d) == IF disk[t] = None THEN d ELSE disk[t]      \* an existing tag file is never overwritten

(* tagstore.Put: write tag file unless present, set persist, then write through or queue a task. *)
StorePut(t, d, att) ==
  LET dsk == DiskAfter(t, d) IN
  /\ disk' = [disk EXCEPT ![t] = dsk]
  /\ attempted' = [attempted EXCEPT ![t] = @ \cup {d}]
  /\ IF wt
     THEN /\ SyncLegal(t, dsk, att)
          /\ backend' = [backend EXCEPT ![t] = BkBefore(t, dsk, att, Len(att) + 1)]
          /\ persist' = [persist EXCEPT ![t] = ~SyncOK(att)]
          /\ acked' = [acked EXCEPT ![t] = @ \/ SyncOK(att)]
          /\ UNCHANGED tasks
     ELSE /\ att = <<>>
          /\ tasks' = tasks \cup {t}                          \* a duplicate task is a no-op
          /\ persist' = [persist EXCEPT ![t] = TRUE]
          /\ acked' = [acked EXCEPT ![t] = TRUE]
          /\ UNCHANGED backend
StoreRes(att) == IF wt THEN (IF SyncOK(att) THEN "ok" ELSE "err") ELSE "ok"

(* PUT /tags/{t}/digest/{d} *)
PutRes(t, d, deps, ofail, att) == IF ~DepsOK(deps, ofail) THEN "err" ELSE StoreRes(att)
Put(t, d, deps, ofail, att) ==
  /\ ofail \in 0..Len(deps)
  /\ IF ~DepsOK(deps, ofail)
     THEN /\ att = <<>>
          /\ UNCHANGED <<disk, persist, backend, tasks, acked, attempted>>
     ELSE StorePut(t, d, att)
  /\ last' = [op |-> "Put", ok |-> PutRes(t, d, deps, ofail, att) = "ok",
              depsok |-> (Range(deps) \subseteq present /\ ofail = 0)]
  /\ UNCHANGED <<wt, present>>

(* PUT /internal/duplicate/tags/{t}/digest/{d} (a neighbour forwards a put; no dependency check) *)
DupPutRes(t, d, att) == StoreRes(att)
DupPut(t, d, att) ==
  /\ StorePut(t, d, att)
  /\ last' = [op |-> "Dup", ok |-> StoreRes(att) = "ok", depsok |-> FALSE]
  /\ UNCHANGED <<wt, present>>

(* One asynchronous execution of the persisted write-back task of t by a manager worker. *)
WbExecRes(t, a) == IF Succ(a) THEN "done" ELSE "failed"
WbExec(t, a) ==
  /\ ~wt /\ t \in tasks /\ disk[t] # None
  /\ AttLegal(t, disk[t], <<a>>, 1)
  /\ backend' = [backend EXCEPT ![t] = IF Wrote(a) THEN disk[t] ELSE @]
  /\ IF Succ(a) THEN tasks' = tasks \ {t} /\ persist' = [persist EXCEPT ![t] = FALSE]
                ELSE UNCHANGED <<tasks, persist>>
  /\ last' = Other
  /\ UNCHANGED <<wt, disk, present, acked, attempted>>

(* GET /tags/{t}: disk first, then backend (dl = outcome of the backend download, "na" on a disk hit;
   a backend fault is answered like a miss). *)
Resolve(t) == IF disk[t] # None THEN disk[t] ELSE backend[t]
GetLegal(t, dl) == IF disk[t] # None THEN dl = "na"
                   ELSE dl \in {"err", IF backend[t] = None THEN "nf" ELSE "ok"}
GetRes(t, dl) == IF disk[t] # None THEN disk[t]
                 ELSE IF dl = "ok" THEN backend[t] ELSE "notfound"
Get(t, dl) == GetLegal(t, dl) /\ last' = Other
              /\ UNCHANGED <<wt, disk, persist, backend, tasks, present, acked, attempted>>

(* HEAD /tags/{t}: asks the backend only. *)
HasLegal(t, st) == st \in {"err", IF backend[t] = None THEN "nf" ELSE "found"}
HasRes(t, st) == IF st = "found" THEN "ok" ELSE IF st = "nf" THEN "notfound" ELSE "err"
Has(t, st) == HasLegal(t, st) /\ last' = Other
              /\ UNCHANGED <<wt, disk, persist, backend, tasks, present, acked, attempted>>

(* Environment: a blob appears in / disappears from the origin cluster. *)
Origin(b, on) == /\ present' = IF on THEN present \cup {b} ELSE present \ {b}
                 /\ last' = Other
                 /\ UNCHANGED <<wt, disk, persist, backend, tasks, acked, attempted>>

(* The node's task manager is restarted on the same task table (pending tasks are re-queued). *)
Restart == last' = Other /\ UNCHANGED <<wt, disk, persist, backend, tasks, present, acked, attempted>>

-----------------------------------------------------------------------------
Attempts(dsk) == {<<"found", "na", "na">>} \cup
                 {<<s, u, dsk>> : s \in {"nf", "err"}, u \in {"ok", "err", "lost"}}
AttSeqs(dsk) == UNION {[1..n -> Attempts(dsk)] : n \in 1..MaxAtt}
Next ==
  \/ \E t \in Tags, d \in Digests, deps \in DepLists : \E ofail \in 0..Len(deps) :
        IF wt /\ DepsOK(deps, ofail)
        THEN \E att \in AttSeqs(DiskAfter(t, d)) : Put(t, d, deps, ofail, att)
        ELSE Put(t, d, deps, ofail, <<>>)
  \/ \E t \in Tags, d \in Digests :
        \E att \in (IF wt THEN AttSeqs(DiskAfter(t, d)) ELSE {<<>>}) : DupPut(t, d, att)
  \/ \E t \in Tags : \E a \in Attempts(disk[t]) : WbExec(t, a)
  \/ \E t \in Tags, dl \in {"na", "ok", "nf", "err"} : Get(t, dl)
  \/ \E t \in Tags, st \in {"found", "nf", "err"} : Has(t, st)
  \/ \E b \in Blobs, on \in BOOLEAN : Origin(b, on)
  \/ Restart
Spec == Init /\ [][Next]_vars

\* values for the model-checking configurations (a cfg cannot contain sequences or BOOLEAN)
MCDepLists  == {<<>>, <<"b1">>, <<"b1", "b2">>, <<"b2", "b1">>}
MCDepLists1 == {<<>>, <<"b1">>}
MCBoth == BOOLEAN
MCWriteBack == {FALSE}

(* Fairness for the "eventually" part: a persisted task is executed again and again, and the backend
   eventually answers truthfully (the good attempt below is always enabled while the task exists). *)
WbExecGood(t) == \E a \in {<<"nf", "ok", disk[t]>>, <<"found", "na", "na">>} : WbExec(t, a)
FairSpec == Spec /\ \A t \in Tags : WF_vars(WbExecGood(t))

-----------------------------------------------------------------------------
(* Properties (C32) *)
TypeOK == /\ wt \in BOOLEAN
          /\ disk \in [Tags -> Digests \cup {None}] /\ backend \in [Tags -> Digests \cup {None}]
          /\ persist \in [Tags -> BOOLEAN] /\ tasks \subseteq Tags /\ present \subseteq Blobs
          /\ acked \in [Tags -> BOOLEAN] /\ attempted \in [Tags -> SUBSET Digests]
\* a tag PUT succeeds only if every dependency is present in the origin cluster
DepChecked == (last.op = "Put" /\ last.ok) => last.depsok
\* after a successful put the node resolves the tag, and to a digest that was put for it
ResolvesToPut == \A t \in Tags : acked[t] => (Resolve(t) # None /\ Resolve(t) \in attempted[t])
\* the backend never holds anything but the digest the node resolves
BackendAgrees == \A t \in Tags : backend[t] # None => backend[t] = disk[t]
\* write-through: the backend holds the digest as soon as the put has succeeded
WriteThroughSync == \A t \in Tags : (wt /\ acked[t]) => backend[t] = disk[t]
\* write-back: until the backend holds the digest a persisted task exists (safety half of "eventually") ...
WriteBackPending == \A t \in Tags : (~wt /\ acked[t]) => (backend[t] = disk[t] \/ t \in tasks)
\* ... and a tag file that is not yet in the backend stays protected from cleanup
PersistUntilWritten == \A t \in Tags : (disk[t] # None /\ backend[t] # disk[t]) => persist[t]
\* a task only exists for a tag that is on disk
TaskHasFile == \A t \in tasks : disk[t] # None
Inv == TypeOK /\ DepChecked /\ ResolvesToPut /\ BackendAgrees /\ WriteThroughSync /\ WriteBackPending
       /\ PersistUntilWritten /\ TaskHasFile
\* tags do not change once stored on a node
StableStep == \A t \in Tags : (Resolve(t) # None => Resolve(t)' = Resolve(t)) /\ (acked[t] => acked'[t])
Stable == [][StableStep]_vars
\* a failed put whose dependency check failed changes nothing
FailedDepStep == (last'.op = "Put" /\ ~last'.depsok) => UNCHANGED <<disk, persist, backend, tasks, acked, attempted>>
FailedDepNoEffect == [][FailedDepStep]_vars
\* liveness (FairSpec): the backend eventually holds the digest of every acknowledged tag
EventuallyWritten == \A t \in Tags : acked[t] ~> (backend[t] = disk[t])
=============================================================================
