SPECIFICATION FairSpec
CONSTANTS
  Tags = {"t1","t2"}
  Digests = {"d1","d2"}
  Blobs = {"b1"}
  DepLists <- MCDepLists1
  Modes <- MCWriteBack
  MaxAtt = 1
INVARIANT Inv
PROPERTY EventuallyWritten
