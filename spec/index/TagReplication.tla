--------------------------- MODULE TagReplication ---------------------------
(* API-level specification of tag replication to a remote cluster (property C33):
   lib/persistedretry/tagreplication.Executor.Exec driven by a retry loop (persistedretry
   manager, C30), with origin/blobclient.ClusterClient.ReplicateToRemote (Poll) towards the
   LOCAL origin cluster, which pushes the blob to the REMOTE origin cluster, and the remote
   build-index (tagclient: Has / Origin / PutAndReplicate).

   One Exec:   Has? -> Origin -> (Rep d)* in dependency order -> Put.
   Every request is one action whose parameter r is the environment's answer:
     200, 202 (blob still being fetched by the local origin: poll again), 404, other 4xx,
     5xx, NetErr (0: request received, connection dropped, nothing done),
     Lost (1: the request was carried out but the connection dropped before the reply).
   World state: remoteTag (the remote index holds the tag), remoteBlobs (blobs present in
   the remote origin cluster; a 200 answer of a local origin to Rep(d) means exactly that).

   Put is recorded whenever it is observed, together with the dependencies that had not been
   confirmed at that moment (putMissing); the specification's own Next only issues Put after
   all of them (pc = "put").                                                            *)
EXTENDS Integers, Sequences, FiniteSets
CONSTANTS DepSeqs,      \* dependency lists a task may carry (sequences of blob ids)
          MaxOrigins,   \* local origins resolved for a blob: 0..MaxOrigins
          MaxPolls,     \* bound on consecutive 202 answers (model checking only)
          MaxFaults     \* bound on non-natural answers (model checking only)
NetErr == 0
Lost == 1
Err5xx == {500, 502, 503, 504}
Err4xx == {400, 403, 404, 409}

VARIABLES remoteTag, remoteBlobs,
          deps,        \* Seq: the task's dependencies
          no,          \* local origins
          pc,          \* "none" (no task) | "idle" | "has" | "origin" | "rep" | "put" | "ok" | "fail" | "stopped"
          di, oi, polls,
          confirmed,   \* dependencies whose replication was confirmed (200) in the current Exec
          putMissing,  \* dependencies not confirmed when the last Put was issued
          taskDone,    \* the last execution succeeded: the retry loop ends
          faults
vars == <<remoteTag, remoteBlobs, deps, no, pc, di, oi, polls, confirmed, putMissing, taskDone, faults>>

Range(s) == {s[i] : i \in 1..Len(s)}
DepSet == Range(deps)

Init == /\ remoteTag = FALSE /\ remoteBlobs = {} /\ deps = <<>> /\ no = 0 /\ pc = "none"
        /\ di = 1 /\ oi = 1 /\ polls = 0 /\ confirmed = {} /\ putMissing = {}
        /\ taskDone = FALSE /\ faults = 0

\* a replication task is created; pre: the remote already holds the tag (and therefore its blobs)
NewTask(ds, o, pre) ==
  /\ pc = "none"
  /\ pc' = "idle" /\ deps' = ds /\ no' = o
  /\ remoteTag' = pre /\ remoteBlobs' = IF pre THEN Range(ds) ELSE {}
  /\ UNCHANGED <<di, oi, polls, confirmed, putMissing, taskDone, faults>>

world == <<remoteTag, remoteBlobs, deps, no>>

\* the retry loop (re)starts the executor while the task is pending
Exec ==
  /\ pc = "idle" /\ ~taskDone
  /\ pc' = "has" /\ di' = 1 /\ oi' = 1 /\ polls' = 0 /\ confirmed' = {}
  /\ UNCHANGED <<world, putMissing, taskDone, faults>>

\* HEAD /tags/<tag>: 200 iff the remote holds the tag; every other answer (incl. errors) means "go on"
Has(r) ==
  /\ pc = "has"
  /\ r = 200 => remoteTag
  /\ r = 404 => ~remoteTag
  /\ pc' = IF r = 200 THEN "ok" ELSE "origin"
  /\ UNCHANGED <<world, di, oi, polls, confirmed, putMissing, taskDone>>

AfterOrigin == IF deps = <<>> THEN "put" ELSE IF no = 0 THEN "fail" ELSE "rep"
Origin(r) ==
  /\ pc = "origin"
  /\ pc' = IF r = 200 THEN AfterOrigin ELSE "fail"
  /\ UNCHANGED <<world, di, oi, polls, confirmed, putMissing, taskDone>>

\* POST /namespace/<tag>/blobs/<d>/remote/<dns> to local origin o
Rep(d, o, r) ==
  /\ pc = "rep" /\ di <= Len(deps) /\ d = deps[di] /\ o = oi /\ oi <= no
  /\ UNCHANGED <<remoteTag, deps, no, putMissing, taskDone>>
  /\ CASE r = 200 -> /\ remoteBlobs' = remoteBlobs \cup {d}
                     /\ confirmed' = confirmed \cup {d}
                     /\ di' = di + 1
                     /\ oi' = 1
                     /\ polls' = 0
                     /\ pc' = IF di = Len(deps) THEN "put" ELSE "rep"
       [] r = 202 -> /\ polls' = polls + 1
                     /\ UNCHANGED <<remoteBlobs, confirmed, di, oi, pc>>
       [] r \in Err5xx \cup {NetErr, Lost} ->
                     /\ IF oi < no THEN oi' = oi + 1 /\ polls' = 0 /\ pc' = pc
                                   ELSE oi' = oi /\ polls' = polls /\ pc' = "fail"
                     /\ remoteBlobs' = IF r = Lost THEN remoteBlobs \cup {d} ELSE remoteBlobs
                     /\ UNCHANGED <<confirmed, di>>
       [] r \in Err4xx -> /\ pc' = "fail"
                          /\ UNCHANGED <<remoteBlobs, confirmed, di, oi, polls>>

\* PUT /tags/<tag>/digest/<d>?replicate=true on the remote index
Put(r) ==
  /\ pc \in {"rep", "put"}
  /\ putMissing' = DepSet \ confirmed
  /\ remoteTag' = (remoteTag \/ r \in {200, Lost})
  /\ pc' = IF pc = "put" THEN (IF r = 200 THEN "ok" ELSE "fail") ELSE pc
  /\ UNCHANGED <<remoteBlobs, deps, no, di, oi, polls, confirmed, taskDone>>

ExecEnd(res) ==
  /\ \/ pc = "ok" /\ res = "ok"
     \/ pc = "fail" /\ res = "err"
  /\ pc' = "idle" /\ taskDone' = (res = "ok")
  /\ UNCHANGED <<world, di, oi, polls, confirmed, putMissing, faults>>

\* the retry loop ends (the task is removed) only after a successful execution
Stop ==
  /\ pc = "idle" /\ taskDone
  /\ pc' = "stopped"
  /\ UNCHANGED <<world, di, oi, polls, confirmed, putMissing, taskDone, faults>>

\* model-checking environment: natural answers are free, everything else is a fault
Natural(kind) == IF kind = "has" THEN (IF remoteTag THEN 200 ELSE 404) ELSE 200
Answers(kind) == {Natural(kind)} \cup (IF faults < MaxFaults THEN {202, 403, 503, NetErr, Lost} ELSE {})
Env(kind, r) == faults' = IF r = Natural(kind) THEN faults ELSE faults + 1
Next == \/ \E ds \in DepSeqs, o \in 0..MaxOrigins, pre \in BOOLEAN : NewTask(ds, o, pre)
        \/ Exec
        \/ \E r \in Answers("has") : (r \in {200, 404} => r = Natural("has")) /\ Has(r) /\ Env("has", r)
        \/ \E r \in Answers("origin") : Origin(r) /\ Env("origin", r)
        \/ \E d \in DepSet, o \in 1..MaxOrigins, r \in Answers("rep") :
              /\ (r = 202 => polls < MaxPolls)
              /\ Rep(d, o, r) /\ (IF r = 202 THEN UNCHANGED faults ELSE Env("rep", r))
        \/ \E r \in Answers("put") : pc = "put" /\ Put(r) /\ Env("put", r)
        \/ \E res \in {"ok", "err"} : ExecEnd(res)
        \/ Stop
Spec == Init /\ [][Next]_vars
FairSpec == Spec /\ WF_vars(Next)

----------------------------------------------------------------------------
MCDepSeqs == {<<>>, <<"d1">>, <<"d1", "d2">>}
MCDepSeqs3 == {<<>>, <<"d1">>, <<"d1", "d2">>, <<"d1", "d2", "d3">>}

(* Properties (C33) *)
\* the remote build-index is asked to store the tag only after every dependency was confirmed present
PutOnlyAfterBlobs == putMissing = {}
\* consequence for the world: a tag held by the remote index has all its blobs in the remote origin cluster
TagImpliesBlobs == remoteTag => DepSet \subseteq remoteBlobs
\* confirmations are real
ConfirmedPresent == confirmed \subseteq remoteBlobs
\* replication is retried until the remote holds the tag: the loop ends only then
DoneMeansHeld == (taskDone \/ pc = "stopped" \/ pc = "ok") => remoteTag
RetriedWhileMissing == [][(pc = "fail" /\ pc' = "idle") => ~taskDone']_vars
\* dependencies are replicated in order, each after the previous one was confirmed
InOrder == pc \in {"rep", "put"} => \A i \in 1..(di - 1) : deps[i] \in confirmed
TypeOK == /\ pc \in {"none", "idle", "has", "origin", "rep", "put", "ok", "fail", "stopped"}
          /\ di \in 1..(Len(deps) + 1) /\ oi \in 1..(MaxOrigins + 1) /\ confirmed \subseteq DepSet
Inv == PutOnlyAfterBlobs /\ TagImpliesBlobs /\ ConfirmedPresent /\ DoneMeansHeld /\ InOrder
\* with finitely many faults the remote eventually holds the tag (given at least one local origin)
EventuallyHeld == (pc = "idle" /\ (deps = <<>> \/ no > 0)) ~> (remoteTag /\ pc = "stopped")
=============================================================================
