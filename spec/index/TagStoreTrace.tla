--------------------------- MODULE TagStoreTrace ---------------------------
(* Trace validation of recorded histories of a real build-index node (real tagserver HTTP handler,
   real tagstore over store.SimpleStore, real persistedretry manager + write-back executor over
   sqlite, scripted origin and gated backend) against TagStore (C32).
   Every record carries the call, the fault pattern the environment applied during the call, the
   HTTP reply class, and four observations taken after the call: tag files on disk, persist
   metadata, backend contents, persisted write-back tasks.                                   *)
EXTENDS TagStore, Json, TLC
Trace == ndJsonDeserialize("trace.ndjson")
VARIABLE l
tvars == <<vars, l>>
R == Trace[l]

TraceInit == TLCSet(1, 0) /\ Init /\ l = 1
IsEvent(e) == l <= Len(Trace) /\ Trace[l].ev = e /\ l' = l + 1
ObsOK == /\ \A t \in Tags : /\ disk'[t] = R.disk[t]
                            /\ persist'[t] = R.pers[t]
                            /\ backend'[t] = R.bk[t]
         /\ tasks' = Range(R.tasks)

TReset == /\ IsEvent("reset")
          /\ wt' = R.cfg.wt
          /\ disk' = [t \in Tags |-> None] /\ persist' = [t \in Tags |-> FALSE]
          /\ backend' = [t \in Tags |-> None] /\ tasks' = {} /\ present' = {}
          /\ acked' = [t \in Tags |-> FALSE] /\ attempted' = [t \in Tags |-> {}]
          /\ last' = Other

TOrigin  == IsEvent("Origin") /\ Origin(R.b, R.on) /\ ObsOK
TPut     == /\ IsEvent("Put")
            /\ R.res = PutRes(R.tag, R.d, R.deps, R.ofail, R.att)
            /\ R.nstat = NStat(R.deps, R.ofail)
            /\ Put(R.tag, R.d, R.deps, R.ofail, R.att) /\ ObsOK
TDupPut  == /\ IsEvent("DupPut")
            /\ R.res = DupPutRes(R.tag, R.d, R.att)
            /\ DupPut(R.tag, R.d, R.att) /\ ObsOK
TWbExec  == /\ IsEvent("WbExec")
            /\ R.res = WbExecRes(R.tag, R.a)
            /\ WbExec(R.tag, R.a) /\ ObsOK
TGet     == IsEvent("Get") /\ R.res = GetRes(R.tag, R.dl) /\ Get(R.tag, R.dl) /\ ObsOK
THas     == IsEvent("Has") /\ R.res = HasRes(R.tag, R.st) /\ Has(R.tag, R.st) /\ ObsOK
TRestart == IsEvent("Restart") /\ Restart /\ ObsOK
\* end of a history: the backend was healthy and the node was given time; no task may be left
TDrain   == IsEvent("Drain") /\ tasks = {} /\ Restart /\ ObsOK

TraceNext == TReset \/ TOrigin \/ TPut \/ TDupPut \/ TWbExec \/ TGet \/ THas \/ TRestart \/ TDrain
TraceSpec == TraceInit /\ [][TraceNext]_tvars

\* the action properties of TagStore, within one history (a reset record starts a new node)
AtReset == l <= Len(Trace) /\ Trace[l].ev = "reset"
TStable == [][AtReset \/ StableStep]_tvars
TFailedDepNoEffect == [][AtReset \/ FailedDepStep]_tvars

HW == TLCSet(1, IF TLCGet(1) < l THEN l ELSE TLCGet(1))
TraceAccepted == IF TLCGet(1) = Len(Trace) + 1 THEN TRUE
                 ELSE PrintT(<<"REJECTED_AT_LINE", TLCGet(1)>>) /\ FALSE
=============================================================================
