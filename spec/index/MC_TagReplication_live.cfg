SPECIFICATION FairSpec
CONSTANTS
  DepSeqs <- MCDepSeqs
  MaxOrigins = 2
  MaxPolls = 1
  MaxFaults = 2
PROPERTY EventuallyHeld
CHECK_DEADLOCK FALSE
