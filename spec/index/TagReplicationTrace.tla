------------------------ MODULE TagReplicationTrace ------------------------
(* Trace validation of recorded executions of the real tagreplication.Executor (with the real
   blobclient.ClusterClient/Poll/HTTPClient towards scripted local origins and the real tagclient towards a
   scripted, stateful remote build-index) against TagReplication (C33).
   Events are logged by the scripted servers when a request arrives (Has / Origin / Rep / Put, with the answer
   they give) and by the retry loop of the driver (NewTask / Exec / ExecEnd / Stop).                       *)
EXTENDS TagReplication, Json, TLC
Trace == ndJsonDeserialize("trace.ndjson")
VARIABLE l
tvars == <<vars, l>>
R == Trace[l]
NF == faults' = faults      \* the fault budget is a model-checking device only

TraceInit == TLCSet(1, 0) /\ Init /\ l = 1
IsEvent(e) == l <= Len(Trace) /\ Trace[l].ev = e /\ l' = l + 1

TReset == /\ IsEvent("reset")
          /\ remoteTag' = FALSE /\ remoteBlobs' = {} /\ deps' = <<>> /\ no' = 0 /\ pc' = "none"
          /\ di' = 1 /\ oi' = 1 /\ polls' = 0 /\ confirmed' = {} /\ putMissing' = {}
          /\ taskDone' = FALSE /\ faults' = 0
TNewTask == IsEvent("NewTask") /\ NewTask(R.deps, R.no, R.pre)
TExec    == IsEvent("Exec") /\ Exec
\* the request named the right tag / digest / remote origin cluster (computed by the scripted server)
TargetOK == R.ok
THas     == IsEvent("Has") /\ TargetOK /\ Has(R.r) /\ NF
TOrigin  == IsEvent("Origin") /\ Origin(R.r) /\ NF
TRep     == IsEvent("Rep") /\ TargetOK /\ Rep(R.d, R.o, R.r) /\ NF
TPut     == IsEvent("Put") /\ TargetOK /\ Put(R.r) /\ NF
TExecEnd == IsEvent("ExecEnd") /\ ExecEnd(R.res)
TStop    == IsEvent("Stop") /\ Stop

TraceNext == TReset \/ TNewTask \/ TExec \/ THas \/ TOrigin \/ TRep \/ TPut \/ TExecEnd \/ TStop
TraceSpec == TraceInit /\ [][TraceNext]_tvars

HW == TLCSet(1, IF TLCGet(1) < l THEN l ELSE TLCGet(1))
TraceAccepted == IF TLCGet(1) = Len(Trace) + 1 THEN TRUE
                 ELSE PrintT(<<"REJECTED_AT_LINE", TLCGet(1)>>) /\ FALSE
=============================================================================
