SPECIFICATION Spec
CONSTANTS
  DepSeqs <- MCDepSeqs
  MaxOrigins = 2
  MaxPolls = 1
  MaxFaults = 2
INVARIANT Inv TypeOK
PROPERTY RetriedWhileMissing
CHECK_DEADLOCK FALSE
