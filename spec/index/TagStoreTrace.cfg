SPECIFICATION TraceSpec
CONSTANTS
  Tags = {"t1","t2","t3"}
  Digests = {"d1","d2","d3"}
  Blobs = {"b1","b2","b3"}
  DepLists <- MCDepLists
  Modes <- MCBoth
  MaxAtt = 3
INVARIANT Inv
PROPERTY TStable TFailedDepNoEffect
CONSTRAINT HW
POSTCONDITION TraceAccepted
CHECK_DEADLOCK FALSE
