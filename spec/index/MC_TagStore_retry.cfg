SPECIFICATION Spec
CONSTANTS
  Tags = {"t1"}
  Digests = {"d1","d2"}
  Blobs = {"b1","b2"}
  DepLists <- MCDepLists
  Modes <- MCBoth
  MaxAtt = 2
INVARIANT Inv
PROPERTY Stable FailedDepNoEffect
