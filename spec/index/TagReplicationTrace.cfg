SPECIFICATION TraceSpec
CONSTANTS
  DepSeqs <- MCDepSeqs
  MaxOrigins = 3
  MaxPolls = 3
  MaxFaults = 0
INVARIANT PutOnlyAfterBlobs TagImpliesBlobs ConfirmedPresent DoneMeansHeld InOrder
PROPERTY RetriedWhileMissing
CONSTRAINT HW
POSTCONDITION TraceAccepted
CHECK_DEADLOCK FALSE
