\* quick tier: one digest, two concurrent requests
SPECIFICATION Spec
CONSTANTS
  D = {"d1"}
  R = {"r1", "r2"}
  NSs = {"n1"}
  MaxNow = 0
  TTLs = {0}
VIEW AgentView
INVARIANT Inv
PROPERTY ServedFromCache StatusMap DeleteRemoves ReadyHonest ReadyCacheOnlySuccess CfgHonoured
