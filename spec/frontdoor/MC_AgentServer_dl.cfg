\* download / delete machinery: two digests, two concurrent requests, every interleaving with the environment
SPECIFICATION Spec
CONSTANTS
  D = {"d1", "d2"}
  R = {"r1", "r2"}
  NSs = {"n1"}
  MaxNow = 0
  TTLs = {0}
VIEW AgentView
INVARIANT Inv
PROPERTY ServedFromCache StatusMap DeleteRemoves ReadyHonest ReadyCacheOnlySuccess CfgHonoured
