--------------------------- MODULE AgentServer ---------------------------
(* Extension module X05 (agent half): the agent's front-door HTTP API, agent/agentserver/server.go.

   Implementation-shaped: the download handler is FIVE actions (request issued, first cache probe,
   scheduler return, second cache probe, body copy, handler return) because other actors -- concurrent
   requests, the scheduler committing / the store evicting a blob, DELETE requests -- interleave with
   it exactly at those points.  All other endpoints call one dependency once and are one action each.

   Abstract dependencies (specified elsewhere, faked by the driver):
     - the CA download store, reduced to  blob : digest -> absent | partial | cached   (see spec/store and spec/agent)
     - the scheduler: Download returns an outcome chosen by the environment, RemoveTorrent deletes the
       blob from the store when it succeeds (spec/p2p/Scheduler.tla)
     - tag client, announce client, container runtimes: outcome chosen by the environment.

   code locations (agent/agentserver/server.go):
     DlCall/DlFirst   downloadBlobHandler: parse params, first Cache().GetFileReader, sched.Download call
     SchedRet         return of s.sched.Download (error mapping: ErrTorrentNotFound -> 404, other -> 500)
     Reopen           second Cache().GetFileReader (error -> 500 "store")
     Serve            io.Copy(w, f) + deferred closers.Close(f)
     Return           handler.Wrap writes the status
     Delete           deleteBlobHandler -> sched.RemoveTorrent
     GetTag           getTagHandler -> tags.Get           (ErrTagNotFound -> 404, other -> 500)
     Health           healthHandler -> sched.Probe
     Ready            readinessCheckHandler (three probes, success cached for readinessCacheTTL)
     Preload          preloadTagHandler -> docker / containerd PullImage
     Patch            patchSchedulerConfigHandler -> sched.Reload
     Blacklist        getBlacklistHandler -> sched.BlacklistSnapshot
     CfgLoad          agentserver.Config read from YAML (the readiness_cache_ttl knob)               *)
EXTENDS Naturals, Integers, Sequences, FiniteSets

CONSTANTS D,        \* digests "d1".."dN"
          R,        \* request slots (concurrent download requests) "r1".."rN"
          NSs,      \* namespaces
          MaxNow,   \* clock bound (model checking only)
          TTLs      \* readiness cache TTLs to explore (0 = caching disabled)

VARIABLES blob,       \* [D -> {"absent","partial","cached"}]  state of the CA download store
          pc,         \* [R -> {"idle","start","sched","reopen","serve","fin"}]
          rq,         \* [R -> request record]   what the handler of slot r knows / did so far
          readers,    \* number of open cache-file readers held by handlers
          now,        \* abstract clock (unit: one TTL unit)
          ttl,        \* configured readiness cache TTL (0 = disabled)
          lastReady,  \* time of the last fully successful readiness check, -1 = never
          last        \* observation: the last completed call (what its client and its dependencies saw)
vars == <<blob, pc, rq, readers, now, ttl, lastReady, last>>
\* model-checking view: the observation variable is judged on every transition (action properties) but does not split states
AgentView == <<blob, pc, rq, readers, now, ttl, lastReady>>

Range(s) == {s[i] : i \in 1..Len(s)}

SchedOuts == {"ok", "notfound", "timeout", "removed", "stopped", "other"}
NoRq == [d |-> "none", ns |-> "none", first |-> "none", sched |-> "none", ncalls |-> 0, status |-> 0, wfail |-> FALSE]
\* observation of a completed call.  n flips on every completed call so that two equal observations in a row are distinguishable.
Obs(op, r, d, status, calls, q) ==
  [op |-> op, r |-> r, d |-> d, status |-> status, calls |-> calls, q |-> q, n |-> 1 - last.n]
NoObs == [op |-> "none", r |-> "none", d |-> "none", status |-> 0, calls |-> <<>>, q |-> NoRq, n |-> 0]

Init == /\ blob = [d \in D |-> "absent"]
        /\ pc = [r \in R |-> "idle"]
        /\ rq = [r \in R |-> NoRq]
        /\ readers = 0 /\ now = 0 /\ ttl \in TTLs /\ lastReady = -1
        /\ last = NoObs

----------------------------------------------------------------------------
(* GET /namespace/{ns}/blobs/{d} *)

\* the request arrives (handler goroutine started; nothing touched yet)
DlCall(r, d, ns) ==
  /\ pc[r] = "idle"
  /\ pc' = [pc EXCEPT ![r] = "start"]
  /\ rq' = [rq EXCEPT ![r] = [NoRq EXCEPT !.d = d, !.ns = ns]]
  /\ UNCHANGED <<blob, readers, now, ttl, lastReady, last>>

\* first cache probe: a cached blob is opened at once; an absent one, or one still in the download
\* directory, sends the handler into sched.Download
DlFirstRes(r) == IF blob[rq[r].d] = "cached" THEN "hit" ELSE "miss"
DlFirst(r) ==
  /\ pc[r] = "start"
  /\ IF DlFirstRes(r) = "hit"
     THEN /\ pc' = [pc EXCEPT ![r] = "serve"]
          /\ rq' = [rq EXCEPT ![r].first = "hit"]
          /\ readers' = readers + 1
     ELSE /\ pc' = [pc EXCEPT ![r] = "sched"]
          /\ rq' = [rq EXCEPT ![r].first = "miss", ![r].ncalls = @ + 1]
          /\ readers' = readers
  /\ UNCHANGED <<blob, now, ttl, lastReady, last>>

\* sched.Download returns (the outcome is the environment's)
SchedStatus(out) == IF out = "notfound" THEN 404 ELSE 500
SchedRet(r, out) ==
  /\ pc[r] = "sched" /\ out \in SchedOuts
  /\ IF out = "ok"
     THEN /\ pc' = [pc EXCEPT ![r] = "reopen"]
          /\ rq' = [rq EXCEPT ![r].sched = out]
     ELSE /\ pc' = [pc EXCEPT ![r] = "fin"]
          /\ rq' = [rq EXCEPT ![r].sched = out, ![r].status = SchedStatus(out)]
  /\ UNCHANGED <<blob, readers, now, ttl, lastReady, last>>

\* second cache probe after a successful download
ReopenRes(r) == IF blob[rq[r].d] = "cached" THEN "ok" ELSE "fail"
Reopen(r) ==
  /\ pc[r] = "reopen"
  /\ IF ReopenRes(r) = "ok"
     THEN /\ pc' = [pc EXCEPT ![r] = "serve"] /\ readers' = readers + 1 /\ rq' = rq
     ELSE /\ pc' = [pc EXCEPT ![r] = "fin"] /\ readers' = readers
          /\ rq' = [rq EXCEPT ![r].status = 500]
  /\ UNCHANGED <<blob, now, ttl, lastReady, last>>

\* copy the body and close the reader (wfail: the client went away, the copy fails -- the reader is closed all the same)
Serve(r, wfail) ==
  /\ pc[r] = "serve"
  /\ pc' = [pc EXCEPT ![r] = "fin"]
  /\ rq' = [rq EXCEPT ![r].status = 200, ![r].wfail = wfail]
  /\ readers' = readers - 1
  /\ UNCHANGED <<blob, now, ttl, lastReady, last>>

\* the handler returns; the client sees the status
Return(r) ==
  /\ pc[r] = "fin"
  /\ pc' = [pc EXCEPT ![r] = "idle"]
  /\ last' = Obs("Dl", r, rq[r].d, rq[r].status, <<>>, rq[r])
  /\ rq' = [rq EXCEPT ![r] = NoRq]
  /\ UNCHANGED <<blob, readers, now, ttl, lastReady>>

\* a digest that is neither 64 hex digits nor sha256:<64 hex>: 400, nothing is touched
DlBad ==
  /\ last' = Obs("DlBad", "none", "none", 400, <<>>, NoRq)
  /\ UNCHANGED <<blob, pc, rq, readers, now, ttl, lastReady>>

----------------------------------------------------------------------------
(* environment: the scheduler commits a download / leaves a partial file, the store evicts *)
EnvFetch(d)   == blob[d] # "cached" /\ blob' = [blob EXCEPT ![d] = "cached"]
                 /\ UNCHANGED <<pc, rq, readers, now, ttl, lastReady, last>>
EnvPartial(d) == blob[d] = "absent" /\ blob' = [blob EXCEPT ![d] = "partial"]
                 /\ UNCHANGED <<pc, rq, readers, now, ttl, lastReady, last>>
EnvEvict(d)   == blob[d] # "absent" /\ blob' = [blob EXCEPT ![d] = "absent"]
                 /\ UNCHANGED <<pc, rq, readers, now, ttl, lastReady, last>>
Tick(k)       == k >= 1 /\ now + k <= MaxNow /\ now' = now + k
                 /\ UNCHANGED <<blob, pc, rq, readers, ttl, lastReady, last>>

----------------------------------------------------------------------------
(* DELETE /blobs/{d}: one sched.RemoveTorrent(d); the scheduler removes the torrent and deletes the file *)
DeleteOuts == {"ok", "stopped", "err"}
DeleteRes(out) == IF out = "ok" THEN 200 ELSE 500
Delete(d, out) ==
  /\ out \in DeleteOuts
  /\ blob' = IF out = "ok" THEN [blob EXCEPT ![d] = "absent"] ELSE blob
  /\ last' = Obs("Delete", "none", d, DeleteRes(out), <<d>>, NoRq)
  /\ UNCHANGED <<pc, rq, readers, now, ttl, lastReady>>
DeleteBad ==
  /\ last' = Obs("DeleteBad", "none", "none", 400, <<>>, NoRq)
  /\ UNCHANGED <<blob, pc, rq, readers, now, ttl, lastReady>>

(* stateless endpoints: exactly one dependency call, the status is a function of its outcome *)
Stateless(op, d, status, calls) ==
  /\ last' = Obs(op, "none", d, status, calls, NoRq)
  /\ UNCHANGED <<blob, pc, rq, readers, now, ttl, lastReady>>

TagOuts == {"found", "notfound", "err"}
GetTagRes(out) == CASE out = "found" -> 200 [] out = "notfound" -> 404 [] OTHER -> 500
GetTag(t, out) == out \in TagOuts /\ Stateless("GetTag", t, GetTagRes(out), <<t>>)

ProbeRes(out) == IF out = "ok" THEN 200 ELSE 500
Health(out)    == out \in {"ok", "err"} /\ Stateless("Health", "none", ProbeRes(out), <<"probe">>)
Blacklist(out) == out \in {"ok", "err"} /\ Stateless("Blacklist", "none", ProbeRes(out), <<"snapshot">>)

\* GET /preload/tags/{repo:tag}?runtime=..&namespace=..
\* parts = the tag split at ":", rt = runtime argument ("" = default = docker)
PreloadCli(rt) == IF rt \in {"", "docker"} THEN "docker" ELSE IF rt = "containerd" THEN "containerd" ELSE "none"
PreloadCalls(parts, rt, ns) ==
  IF Len(parts) # 2 \/ PreloadCli(rt) = "none" THEN <<>>
  ELSE <<<<PreloadCli(rt), IF PreloadCli(rt) = "containerd" THEN ns ELSE "", parts[1], parts[2]>>>>
PreloadRes(parts, rt, out) ==
  IF Len(parts) # 2 \/ PreloadCli(rt) = "none" THEN 500 ELSE IF out = "ok" THEN 200 ELSE 500
Preload(parts, rt, ns, out) ==
  /\ out \in {"ok", "err"}
  /\ Stateless("Preload", "none", PreloadRes(parts, rt, out), PreloadCalls(parts, rt, ns))

\* PATCH /x/config/scheduler: undecodable body -> 400 and no reload; else exactly one Reload with the decoded value
PatchRes(kind) == IF kind = "json" THEN 200 ELSE 400
Patch(kind, val) ==
  /\ kind \in {"json", "bad"}
  /\ Stateless("Patch", "none", PatchRes(kind), IF kind = "json" THEN <<val>> ELSE <<>>)

----------------------------------------------------------------------------
(* GET /readiness: three probes (scheduler, build-index, tracker); a fully successful check is cached for ttl *)
AllProbes == <<"sched", "tags", "tracker">>
Fresh == ttl # 0 /\ lastReady >= 0 /\ now - lastReady < ttl
AllOk(outs) == \A i \in 1..Len(outs) : outs[i] = "ok"
ReadyRes(outs) == IF Fresh \/ AllOk(outs) THEN 200 ELSE 503
ReadyProbes == IF Fresh THEN <<>> ELSE AllProbes
Ready(outs) ==
  /\ Len(outs) = 3 /\ \A i \in 1..3 : outs[i] \in {"ok", "err"}
  /\ lastReady' = IF ~Fresh /\ AllOk(outs) THEN now ELSE lastReady
  /\ last' = Obs("Ready", "none", "none", ReadyRes(outs), ReadyProbes, [NoRq EXCEPT !.first = IF AllOk(outs) THEN "allok" ELSE "someerr"])
  /\ UNCHANGED <<blob, pc, rq, readers, now, ttl>>

\* agentserver.Config loaded from YAML: the configured TTL is the TTL the server uses
CfgLoadRes(t) == t
CfgLoad(t) == t \in TTLs /\ ttl' = CfgLoadRes(t) /\ lastReady' = -1
              /\ last' = Obs("CfgLoad", "none", "none", 0, <<t>>, NoRq)
              /\ UNCHANGED <<blob, pc, rq, readers, now>>

----------------------------------------------------------------------------
Outs3 == {<<a, b, c>> : a \in {"ok", "err"}, b \in {"ok", "err"}, c \in {"ok", "err"}}
\* The stateless endpoints neither read nor write the download machinery; the model checker explores them
\* only in quiet states (an independence reduction of Next, not of the actions: the trace specification
\* applies the actions themselves, in any state).
Quiet == (\A r \in R : pc[r] = "idle") /\ (\A d \in D : blob[d] = "absent")
NextDl ==
  \/ \E r \in R, d \in D, ns \in NSs : DlCall(r, d, ns)
  \/ \E r \in R : DlFirst(r) \/ Reopen(r) \/ Return(r) \/ (\E out \in SchedOuts : SchedRet(r, out)) \/ (\E w \in BOOLEAN : Serve(r, w))
  \/ \E d \in D : EnvFetch(d) \/ EnvPartial(d) \/ EnvEvict(d) \/ (\E out \in DeleteOuts : Delete(d, out))
Next ==
  \/ NextDl
  \/ /\ Quiet
     /\ \/ DlBad \/ DeleteBad
        \/ \E out \in TagOuts : GetTag("t1", out)
        \/ \E out \in {"ok", "err"} : Health(out) \/ Blacklist(out)
        \/ \E parts \in {<<"a">>, <<"a", "b">>, <<"a", "b", "c">>}, rt \in {"", "docker", "containerd", "rkt"}, out \in {"ok", "err"} :
              Preload(parts, rt, "n1", out)
        \/ \E kind \in {"json", "bad"} : Patch(kind, 7)
  \/ \E outs \in Outs3 : Ready(outs)
  \/ Tick(1)
  \/ \E t \in TTLs : CfgLoad(t)

Fairness == \A r \in R : /\ WF_vars(DlFirst(r)) /\ WF_vars(Reopen(r)) /\ WF_vars(Return(r))
                         /\ WF_vars(\E out \in SchedOuts : SchedRet(r, out))
                         /\ WF_vars(\E w \in BOOLEAN : Serve(r, w))
Spec == Init /\ [][Next]_vars
\* liveness is about the download machinery only (the other endpoints are single steps)
LiveSpec == Init /\ [][NextDl]_vars /\ Fairness

----------------------------------------------------------------------------
(* Guarantees *)
TypeOK == /\ blob \in [D -> {"absent", "partial", "cached"}]
          /\ pc \in [R -> {"idle", "start", "sched", "reopen", "serve", "fin"}]
          /\ readers \in Nat /\ now \in Nat /\ ttl \in Nat /\ lastReady \in Int

\* G1  no reader leak: a cache reader is open exactly while a handler is copying the body.  In particular
\*     when no request is in flight no file of the store is held open (the driver counts the real fds).
ReadersBalanced == readers = Cardinality({r \in R : pc[r] = "serve"})

\* G2  only after a successful download: a handler holds a reader (and can therefore answer 200) only if its first
\*     probe hit the cache or ITS OWN sched.Download returned nil.
OnlyAfterDownload == \A r \in R : /\ pc[r] = "serve" => (rq[r].first = "hit" \/ rq[r].sched = "ok")
                                  /\ pc[r] = "reopen" => rq[r].sched = "ok"

\* G3  the scheduler is asked at most once per request, and never when the blob is already cached
AtMostOneSched == \A r \in R : rq[r].ncalls <= 1 /\ (rq[r].first = "hit" => rq[r].ncalls = 0)

\* G4  only from the cache: a reader is opened only at an instant at which the blob is complete in the cache
\*     (never a partial download, never an absent file)
ServedFromCacheStep == \A r \in R : (pc[r] # "serve" /\ pc'[r] = "serve") => blob[rq[r].d] = "cached"
ServedFromCache == [][ServedFromCacheStep]_vars

\* G5  documented status mapping of the download endpoint
Completes(r) == pc[r] = "fin" /\ pc'[r] = "idle"
StatusMapStep ==
  \A r \in R : Completes(r) =>
     (LET q == rq[r] IN
      /\ last'.status \in {200, 404, 500}
      /\ ((last'.status = 404) <=> (q.sched = "notfound"))
      /\ ((last'.status = 200) <=> (q.first = "hit" \/ (q.sched = "ok" /\ q.status = 200)))
      /\ ((q.sched \in SchedOuts \ {"ok", "notfound"}) => last'.status = 500))
StatusMap == [][StatusMapStep]_vars

\* G6  delete: a 200 means RemoveTorrent(d) was called exactly once and the blob is gone from the store;
\*     a failing scheduler is reported as 500; a malformed digest never reaches the scheduler
Done(op) == last'.n # last.n /\ last'.op = op
DeleteRemovesStep ==
  /\ Done("Delete") => (/\ last'.calls = <<last'.d>>
                        /\ (last'.status = 200 => blob'[last'.d] = "absent")
                        /\ last'.status \in {200, 500})
  /\ Done("DeleteBad") => (last'.calls = <<>> /\ blob' = blob)
DeleteRemoves == [][DeleteRemovesStep]_vars

\* G7  readiness is honest: 200 only if all three probes succeeded now, or did so less than ttl ago;
\*     a failed check is never cached; with ttl = 0 every request probes all three dependencies
ReadyHonestStep ==
  Done("Ready") =>
     (/\ (last'.status = 200 => (last'.q.first = "allok" \/ (ttl # 0 /\ lastReady >= 0 /\ now - lastReady < ttl)))
      /\ last'.status \in {200, 503}
      /\ (ttl = 0 => last'.calls = AllProbes)
      /\ (last'.calls = <<>> \/ last'.calls = AllProbes))
ReadyHonest == [][ReadyHonestStep]_vars
ReadyCacheOnlySuccessStep ==
  lastReady' # lastReady =>
     (\/ (Done("Ready") /\ last'.status = 200 /\ last'.q.first = "allok" /\ lastReady' = now)
      \/ Done("CfgLoad"))
ReadyCacheOnlySuccess == [][ReadyCacheOnlySuccessStep]_vars

\* G8  the configured readiness TTL is the one in force
CfgHonouredStep == Done("CfgLoad") => ttl' = last'.calls[1]
CfgHonoured == [][CfgHonouredStep]_vars

\* G9  every request is answered (given that the scheduler answers)
Completion == \A r \in R : (pc[r] # "idle") ~> (pc[r] = "idle")

Inv == TypeOK /\ ReadersBalanced /\ OnlyAfterDownload /\ AtMostOneSched
=============================================================================
