--------------------------- MODULE ProxyServerMC ---------------------------
(* Model-checking instance of ProxyServer: one small registry with a manifest list whose two sub-manifests share a
   layer, a manifest that names the same layer twice, unparsable bytes and a digest the origins do not have. *)
EXTENDS ProxyServer

MCB == {"l1", "m1", "m2", "x1", "x2", "j1", "z0"}
MCCat == [kind |-> [b \in MCB |-> CASE b = "l1" -> "list" [] b \in {"m1", "m2"} -> "man" [] b \in {"x1", "x2"} -> "layer"
                                    [] b = "j1" -> "junk" [] OTHER -> "none"],
          refs |-> [b \in MCB |-> CASE b = "l1" -> <<"m1", "m2">> [] b = "m1" -> <<"x1", "x2">> [] b = "m2" -> <<"x2", "x2">>
                                    [] OTHER -> <<>>],
          size |-> [b \in MCB |-> CASE b = "x2" -> 3 [] b = "m2" -> 2 [] b = "z0" -> 0 [] OTHER -> 1]]
MCCats == {MCCat}
\* DefaultMax = 2: with max = 0 the default window skips x2 (size 3)
MCConfs == {[sync |-> s, min |-> w[1], max |-> w[2]] : s \in BOOLEAN, w \in {<<0, 0>>, <<2, 0>>, <<0, 3>>}}
MCConfsSync == {c \in MCConfs : c.sync}
MCConfsAsync == {c \in MCConfs : ~c.sync}
MT == "application/vnd.docker.distribution.manifest.v2+json"
Ev(a, mt, ns, d, tg) == [action |-> a, mt |-> mt, ns |-> ns, d |-> d, target |-> tg]
MCEnvelopes == {
  <<>>,
  <<Ev("push", MT, "n1", "m1", TRUE)>>,
  <<Ev("pull", MT, "n1", "m1", TRUE), Ev("push", "application/octet-stream", "n1", "m1", TRUE),
    Ev("push", MT, "n1", "bad", TRUE), Ev("push", "application/vnd.oci.image.manifest.v1+json", "n2", "m2", TRUE),
    Ev("push", MT, "n1", "j1", TRUE)>>,
  <<Ev("push", MT, "n1", "m1", TRUE), Ev("push", MT, "n1", "m1", TRUE), Ev("push", MT, "n1", "none", FALSE)>>,
  <<Ev("push", MT, "n2", "l1", TRUE), Ev("push", MT, "n1", "z0", TRUE)>>
}
\* thorough tier: a second registry -- a list whose second sub-manifest is junk (prepare fails after the first sub-manifest
\* was fetched), an empty list, a manifest with a config only
MCCat2 == [kind |-> [b \in MCB |-> CASE b \in {"l1", "z0"} -> "list" [] b \in {"m1", "m2"} -> "man" [] b \in {"x1", "x2"} -> "layer"
                                     [] OTHER -> "junk"],
           refs |-> [b \in MCB |-> CASE b = "l1" -> <<"m1", "j1", "m2">> [] b = "m1" -> <<"x1">> [] b = "m2" -> <<"x1", "x2", "x1">>
                                     [] OTHER -> <<>>],
           size |-> [b \in MCB |-> CASE b = "x1" -> 2 [] b = "l1" -> 3 [] OTHER -> 1]]
MCCatsThorough == {MCCat, MCCat2}
\* smaller instance for the liveness check (no VIEW there: the observation variable splits states)
MCConfsLive == {[sync |-> FALSE, min |-> 0, max |-> 0], [sync |-> TRUE, min |-> 2, max |-> 0]}
MCEnvelopesLive == {
  <<Ev("pull", MT, "n1", "m1", TRUE), Ev("push", MT, "n1", "bad", TRUE), Ev("push", MT, "n2", "m2", TRUE), Ev("push", MT, "n1", "j1", TRUE)>>,
  <<Ev("push", MT, "n1", "m1", TRUE), Ev("push", MT, "n1", "m1", TRUE)>>
}
=============================================================================
