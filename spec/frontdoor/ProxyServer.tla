--------------------------- MODULE ProxyServer ---------------------------
(* Extension module X05 (proxy half): the proxy's front-door HTTP API, proxy/proxyserver/
   {server.go, preheat.go, prefetch.go, registry_events.go}.

   Implementation-shaped: one action per dependency call of a handler (tag lookup, every manifest
   fetch attempt, every GetMetaInfo / blob download / PrefetchBlob), because the handlers fan those
   calls out to goroutines (any order, possibly after the HTTP reply) and because every one of them can
   fail independently.  The origin cluster client (spec/cluster) and the tag client (spec/index) are
   abstract: the outcome of each call is chosen by the environment.

   The registry content is a catalog  cat = [kind, refs, size]  over blob ids B:
     kind[b]  "man"   a schema2 / OCI image manifest;  refs[b] = <<config, layer, ...>>
              "list"  a manifest list / OCI index;     refs[b] = <<sub-manifest, ...>>
              "junk"  bytes that do not parse as a manifest;  "layer", "none": no manifest at all
     size[b]  the size of b as declared by the descriptors that reference it (for manifests: their real length)

   actions <-> code
     PhCall, PhFetch, PhMeta, PhRet      preheat.go  Handle / filterEvents, fetchManifest (one attempt), process (one
                                         GetMetaInfo), return of Handle
     PfCall, PfTag, PfMan, PfSub         prefetch.go preparePrefetch: decode + ParseTag, tagClient.Get, DownloadBlob of the
                                         top manifest + processManifest, getBlobInfos (one sub-manifest)
     PfFire                              downloadBlobs (V1) / triggerPrefetchBlobs (V2): one blob
     PfReturn                            the handler returns (V2: writes the status computed from all triggers)
     Quiesce                             no goroutine of the request is left
     PxHealth                            server.go healthHandler                                            *)
EXTENDS Naturals, Integers, Sequences, FiniteSets

CONSTANTS B,          \* blob ids
          NSs,        \* namespaces / repositories
          DefaultMax, \* proxyserver.DefaultPrefetchMaxBlobSize in size units
          Cats,       \* catalogs explored by the model checker
          Confs,      \* configurations [sync, min, max] explored by the model checker
          Envelopes,  \* notification envelopes explored by the model checker
          MaxAttempts \* manifest fetch attempts of a preheat (4 in preheat.go)

VARIABLES conf,     \* [sync |-> BOOLEAN, min |-> Nat, max |-> Nat]
          cat,      \* the registry content
          ph,       \* "idle" | "ph_run" | "pf_tag" | "pf_man" | "pf_sub" | "pf_fire" | "fail" | "tail"
          cur,      \* the request being handled
          evq,      \* preheat: accepted events not yet processed
          att,      \* preheat: failed attempts of the current manifest fetch
          subq,     \* prefetch: sub-manifests of a list not yet fetched
          blobs,    \* prefetch: blobs collected so far (the code's []blobInfo)
          pend,     \* [NSs \X B -> Nat] layer calls spawned and not yet made
          touched,  \* [NSs \X B -> Nat] layer calls made for this request (GetMetaInfo | discard download | PrefetchBlob)
          fetched,  \* [NSs \X B -> Nat] manifests successfully fetched into a buffer for this request
          flags,    \* [armed, hardfail, status]
          last      \* observation of the last completed request
vars == <<conf, cat, ph, cur, evq, att, subq, blobs, pend, touched, fetched, flags, last>>
ProxyView == <<conf, cat, ph, cur, evq, att, subq, blobs, pend, touched, fetched, flags>>

----------------------------------------------------------------------------
Range(s) == {s[i] : i \in 1..Len(s)}
Count(b, s) == Cardinality({i \in 1..Len(s) : s[i] = b})
Keys == NSs \X B
Empty == [p \in Keys |-> 0]
IsEmpty(bag) == \A p \in Keys : bag[p] = 0
AddSeq(bag, ns, s) == [p \in Keys |-> bag[p] + (IF p[1] = ns THEN Count(p[2], s) ELSE 0)]
Inc(bag, ns, b) == [bag EXCEPT ![<<ns, b>>] = @ + 1]
Dec(bag, ns, b) == [bag EXCEPT ![<<ns, b>>] = @ - 1]
Min(S) == CHOOSE x \in S : \A y \in S : x <= y

\* media types of registry events that denote an image manifest (preheat.go _manifestRegexp; the expression is
\* anchored at the start only, a parameter suffix is accepted)
ManifestMTs == {"application/vnd.docker.distribution.manifest.v2+json",
                "application/vnd.docker.distribution.manifest.v1+json",
                "application/vnd.docker.distribution.manifest.v1+prettyjws",
                "application/vnd.docker.distribution.manifest.v2+json; charset=utf-8",
                "application/vnd.oci.image.manifest.v1+json"}
\* an event of the envelope: [action, mt, ns (repository), d (blob id or "bad" = unparsable digest), target (FALSE = no target object)]
Accept(e) == e.target /\ e.mt \in ManifestMTs /\ e.action = "push"
Filter(evs) == SelectSeq(evs, Accept)
\* events whose digest does not parse are given up before any call
DropBad(q) == LET good == {i \in 1..Len(q) : q[i].d # "bad"} IN
              IF good = {} THEN <<>> ELSE SubSeq(q, Min(good), Len(q))

IsManifest(b) == cat.kind[b] \in {"man", "list"}
EffMax == IF conf.max = 0 THEN DefaultMax ELSE conf.max
InRange(b) == cat.size[b] >= conf.min /\ cat.size[b] <= EffMax
InRangeSeq(s) == SelectSeq(s, InRange)

\* outcomes of a layer call (GetMetaInfo | blob download | PrefetchBlob): fine, 202 "the origin is fetching it", 404, other error
LayerOuts == {"ok", "accepted", "notfound", "err"}
NoCur == [op |-> "none", ns |-> "none", tagq |-> "none", top |-> "none"]
NoFlags == [armed |-> FALSE, hardfail |-> FALSE, status |-> 0]
Obs(c, fl, tch, fch) == [op |-> c.op, ns |-> c.ns, top |-> c.top, status |-> fl.status, armed |-> fl.armed,
                         hardfail |-> fl.hardfail, touched |-> tch, fetched |-> fch, n |-> 1 - last.n]
NoObs == [op |-> "none", ns |-> "none", top |-> "none", status |-> 0, armed |-> FALSE, hardfail |-> FALSE,
          touched |-> Empty, fetched |-> Empty, n |-> 0]

\* every spawned layer call was made -- or is a repetition of a call that was made (the handlers do not de-duplicate
\* today; an implementation that does is equally correct: the origin needs to hear about a blob once)
Settled == \A p \in Keys : pend[p] = 0 \/ touched[p] >= 1

Init == /\ conf \in Confs /\ cat \in Cats
        /\ ph = "idle" /\ cur = NoCur /\ evq = <<>> /\ att = 0 /\ subq = <<>> /\ blobs = <<>>
        /\ pend = Empty /\ touched = Empty /\ fetched = Empty /\ flags = NoFlags /\ last = NoObs

Fresh == /\ att' = 0 /\ subq' = <<>> /\ blobs' = <<>> /\ pend' = Empty /\ touched' = Empty /\ fetched' = Empty

----------------------------------------------------------------------------
(* POST /registry/notifications *)

\* body = "ok": evs is the decoded envelope; body = "badjson": undecodable (500, nothing done)
PhCall(body, evs) ==
  /\ ph = "idle" /\ body \in {"ok", "badjson"}
  /\ cur' = [NoCur EXCEPT !.op = "preheat"]
  /\ IF body = "ok"
     THEN ph' = "ph_run" /\ evq' = DropBad(Filter(evs)) /\ flags' = NoFlags
     ELSE ph' = "fail" /\ evq' = <<>> /\ flags' = [NoFlags EXCEPT !.status = 500]
  /\ Fresh /\ UNCHANGED <<conf, cat, last>>

Pop == evq' = DropBad(Tail(evq)) /\ att' = 0
\* one attempt to fetch the manifest of the first unprocessed event
PhFetch(out) ==
  /\ ph = "ph_run" /\ evq # <<>> /\ out \in {"ok", "notfound", "accepted", "err"}
  /\ conf.sync => Settled                  \* synchronous mode: the layers of the previous event are done
  /\ LET e == Head(evq) IN
     CASE out = "ok" ->
            /\ Pop
            /\ fetched' = Inc(fetched, e.ns, e.d)
            /\ pend' = IF IsManifest(e.d) THEN AddSeq(pend, e.ns, cat.refs[e.d]) ELSE pend
       [] out = "notfound" ->
            /\ IF att + 1 < MaxAttempts THEN att' = att + 1 /\ evq' = evq ELSE Pop
            /\ UNCHANGED <<fetched, pend>>
       [] out \in {"err", "accepted"} -> Pop /\ UNCHANGED <<fetched, pend>>   \* any other error gives the event up at once
  /\ UNCHANGED <<conf, cat, ph, cur, subq, blobs, touched, flags, last>>

\* one GetMetaInfo (the origin starts to cache the layer); every outcome is only logged
PhMeta(ns, b, out) ==
  /\ cur.op = "preheat" /\ ph \in {"ph_run", "tail"} /\ pend[<<ns, b>>] > 0
  /\ out \in LayerOuts
  /\ pend' = Dec(pend, ns, b) /\ touched' = Inc(touched, ns, b)
  /\ UNCHANGED <<conf, cat, ph, cur, evq, att, subq, blobs, fetched, flags, last>>

PhRet ==
  /\ ph = "ph_run" /\ evq = <<>>
  /\ conf.sync => Settled
  /\ flags' = [flags EXCEPT !.status = 200]
  /\ ph' = "tail"
  /\ UNCHANGED <<conf, cat, cur, evq, att, subq, blobs, pend, touched, fetched, last>>

----------------------------------------------------------------------------
(* POST /proxy/v{1,2}/registry/prefetch *)

\* body: "ok" | "badjson" | "badtag" (fewer than three "/"-separated parts); tagq = the tag the build-index is asked for
PfCall(v, body, ns, tagq) ==
  /\ ph = "idle" /\ v \in {"v1", "v2"} /\ body \in {"ok", "badjson", "badtag"}
  /\ cur' = [op |-> v, ns |-> ns, tagq |-> tagq, top |-> "none"]
  /\ IF body = "ok" THEN ph' = "pf_tag" /\ flags' = NoFlags
                    ELSE ph' = "fail" /\ flags' = [NoFlags EXCEPT !.status = 400]
  /\ evq' = <<>> /\ Fresh /\ UNCHANGED <<conf, cat, last>>

Fail500 == ph' = "fail" /\ flags' = [flags EXCEPT !.status = 500]
\* the collected blobs are complete: spawn one call per blob inside the size window
Arm(bl) == /\ ph' = "pf_fire" /\ pend' = AddSeq(Empty, cur.ns, InRangeSeq(bl))
           /\ flags' = [flags EXCEPT !.armed = TRUE]

\* tagClient.Get: out = "err" or the blob id the tag resolves to
PfTag(tag, out) ==
  /\ ph = "pf_tag" /\ tag = cur.tagq /\ out \in B \cup {"err"}
  /\ IF out = "err" THEN Fail500 /\ cur' = cur
                    ELSE ph' = "pf_man" /\ cur' = [cur EXCEPT !.top = out] /\ flags' = flags
  /\ UNCHANGED <<conf, cat, evq, att, subq, blobs, pend, touched, fetched, last>>

\* DownloadBlob of the top manifest into a buffer, then dockerutil.ParseManifest
PfMan(out) ==
  /\ ph = "pf_man" /\ out \in {"ok", "notfound", "accepted", "err"}
  /\ LET t == cur.top IN
     IF out # "ok" \/ ~IsManifest(t)
     THEN /\ Fail500 /\ UNCHANGED <<subq, blobs, pend>>
          /\ fetched' = IF out = "ok" THEN Inc(fetched, cur.ns, t) ELSE fetched
     ELSE /\ fetched' = Inc(fetched, cur.ns, t)
          /\ IF cat.kind[t] = "man"
             THEN /\ blobs' = <<t>> \o cat.refs[t] /\ subq' = <<>>
                  /\ Arm(<<t>> \o cat.refs[t])
             ELSE /\ blobs' = <<t>> /\ subq' = cat.refs[t]
                  /\ IF cat.refs[t] = <<>> THEN Arm(<<t>>) ELSE ph' = "pf_sub" /\ pend' = pend /\ flags' = flags
  /\ UNCHANGED <<conf, cat, cur, evq, att, touched, last>>

\* DownloadBlob + parse of the next sub-manifest of a list
PfSub(out) ==
  /\ ph = "pf_sub" /\ subq # <<>> /\ out \in {"ok", "notfound", "accepted", "err"}
  /\ LET s == Head(subq) IN
     IF out # "ok" \/ ~IsManifest(s)
     THEN /\ Fail500 /\ UNCHANGED <<subq, blobs, pend>>
          /\ fetched' = IF out = "ok" THEN Inc(fetched, cur.ns, s) ELSE fetched
     ELSE /\ fetched' = Inc(fetched, cur.ns, s)
          /\ blobs' = blobs \o <<s>> \o cat.refs[s]
          /\ subq' = Tail(subq)
          /\ IF Tail(subq) = <<>> THEN Arm(blobs \o <<s>> \o cat.refs[s]) ELSE ph' = ph /\ pend' = pend /\ flags' = flags
  /\ UNCHANGED <<conf, cat, cur, evq, att, touched, last>>

\* one blob: V1 downloads it from the origin cluster and discards the bytes (202 = the origin is still fetching it:
\* tolerated), V2 asks the origin cluster to prefetch it (any error counts)
Tolerated(v, out) == out = "ok" \/ (v = "v1" /\ out = "accepted")
PfFire(ns, b, out) ==
  /\ cur.op \in {"v1", "v2"} /\ out \in LayerOuts
  /\ ph = "pf_fire" \/ (ph = "tail" /\ cur.op = "v1")
  /\ pend[<<ns, b>>] > 0
  /\ pend' = Dec(pend, ns, b) /\ touched' = Inc(touched, ns, b)
  /\ flags' = [flags EXCEPT !.hardfail = @ \/ ~Tolerated(cur.op, out)]
  /\ UNCHANGED <<conf, cat, ph, cur, evq, att, subq, blobs, fetched, last>>

\* the handler returns.  V1 has answered 200 when it armed; synchronous V1 and V2 return only after every call
\* returned, V2 answers 500 if any trigger failed.
PfStatus == IF ph = "fail" THEN flags.status
            ELSE IF cur.op = "v2" /\ flags.hardfail THEN 500 ELSE 200
PfReturn ==
  /\ cur.op \in {"v1", "v2"} /\ ph \in {"pf_fire", "fail"}
  /\ (ph = "pf_fire" /\ (cur.op = "v2" \/ conf.sync)) => Settled
  /\ flags' = [flags EXCEPT !.status = PfStatus]
  /\ ph' = "tail"
  /\ UNCHANGED <<conf, cat, cur, evq, att, subq, blobs, pend, touched, fetched, last>>
\* an undecodable notification envelope: 500
PhFailReturn ==
  /\ cur.op = "preheat" /\ ph = "fail" /\ ph' = "tail"
  /\ UNCHANGED <<conf, cat, cur, evq, att, subq, blobs, pend, touched, fetched, flags, last>>

\* every goroutine of the request is gone
Quiesce ==
  /\ ph = "tail" /\ Settled
  /\ last' = Obs(cur, flags, touched, fetched)
  /\ ph' = "idle" /\ cur' = NoCur /\ flags' = NoFlags /\ evq' = <<>> /\ Fresh
  /\ UNCHANGED <<conf, cat>>

PxHealth == /\ ph = "idle"
            /\ last' = [NoObs EXCEPT !.op = "health", !.status = 200, !.n = 1 - last.n]
            /\ UNCHANGED <<conf, cat, ph, cur, evq, att, subq, blobs, pend, touched, fetched, flags>>

----------------------------------------------------------------------------
Next ==
  \/ \E evs \in Envelopes : PhCall("ok", evs)
  \/ PhCall("badjson", <<>>)
  \/ \E out \in {"ok", "notfound", "accepted", "err"} : PhFetch(out)
  \/ \E p \in Keys, out \in LayerOuts : PhMeta(p[1], p[2], out) \/ PfFire(p[1], p[2], out)
  \/ PhRet \/ PhFailReturn \/ PfReturn \/ Quiesce \/ PxHealth
  \/ \E v \in {"v1", "v2"}, body \in {"ok", "badjson", "badtag"} : PfCall(v, body, "n1", "q1")
  \/ \E out \in B \cup {"err"} : PfTag("q1", out)
  \/ \E out \in {"ok", "notfound", "accepted", "err"} : PfMan(out) \/ PfSub(out)

Fairness == /\ WF_vars(\E out \in {"ok", "notfound", "accepted", "err"} : PhFetch(out))
            /\ WF_vars(\E p \in Keys, out \in LayerOuts : PhMeta(p[1], p[2], out) \/ PfFire(p[1], p[2], out))
            /\ WF_vars(PhRet) /\ WF_vars(PhFailReturn) /\ WF_vars(PfReturn) /\ WF_vars(Quiesce)
            /\ WF_vars(\E out \in B \cup {"err"} : PfTag("q1", out))
            /\ WF_vars(\E out \in {"ok", "notfound", "accepted", "err"} : PfMan(out) \/ PfSub(out))
Spec == Init /\ [][Next]_vars
LiveSpec == Spec /\ Fairness

----------------------------------------------------------------------------
(* Guarantees.  "Done(op)" = the transition completes a request of kind op; last' then holds everything its
   dependencies saw.  The expectations below are DECLARATIVE (computed from the catalog), independent of the
   step-by-step walk of the actions above.                                                                  *)
Done(ops) == last'.n # last.n /\ last'.op \in ops

\* number of occurrences of b among top, its sub-manifests and all their references
MaxRefs == 8
Occ(t, b) ==
  (IF b = t THEN 1 ELSE 0) +
  (IF cat.kind[t] = "man" THEN Count(b, cat.refs[t])
   ELSE Count(b, cat.refs[t]) +
        Cardinality({p \in (1..Len(cat.refs[t])) \X (1..MaxRefs) :
                       /\ p[2] <= Len(cat.refs[cat.refs[t][p[1]]])
                       /\ cat.refs[cat.refs[t][p[1]]][p[2]] = b}))
ExpectedPrefetch(ns, t) == [p \in Keys |-> IF p[1] = ns /\ InRange(p[2]) THEN Occ(t, p[2]) ELSE 0]

\* P1  prefetch coverage: once the manifests of the image were obtained, the image manifest itself, every sub-manifest
\*     of a list and every config/layer of every (sub-)manifest whose size lies in [min, max] is handed to the origin cluster
\*     at least once and at most as often as it is referenced -- nothing is skipped, nothing else is touched, no call is
\*     repeated beyond the references.
Covers(tch, exp) == \A p \in Keys : IF exp[p] = 0 THEN tch[p] = 0 ELSE tch[p] >= 1 /\ tch[p] <= exp[p]
PrefetchCoverageStep ==
  (Done({"v1", "v2"}) /\ last'.armed) => Covers(last'.touched, ExpectedPrefetch(last'.ns, last'.top))
PrefetchCoverage == [][PrefetchCoverageStep]_vars

\* P2  all or nothing: a prefetch that fails while resolving the tag or fetching / parsing a manifest answers 4xx/5xx
\*     and has not touched a single layer; and each manifest is fetched at most once per request.
PrefetchAllOrNothingStep ==
  Done({"v1", "v2"}) =>
     (/\ (~last'.armed => (last'.touched = Empty /\ last'.status \in {400, 500}))
      /\ (last'.status = 400 => last'.fetched = Empty)
      /\ IF last'.top = "none" THEN last'.fetched = Empty
         ELSE \A p \in Keys : last'.fetched[p] <= Occ(last'.top, p[2]))
PrefetchAllOrNothing == [][PrefetchAllOrNothingStep]_vars

\* P3  V2 reports: 200 iff the image was resolved and EVERY trigger succeeded; a failing trigger does not stop the others
\*     (coverage P1 holds for failed requests too) and the status is written only after all of them returned.
V2ReportsStep ==
  /\ Done({"v2"}) => (last'.status = 200 <=> (last'.armed /\ ~last'.hardfail))
  /\ (cur.op = "v2" /\ ph = "pf_fire" /\ ph' = "tail") => Settled
V2Reports == [][V2ReportsStep]_vars

\* P4  V1 swallows exactly what it documents: once armed it answers 200 whatever the downloads do.
V1SwallowsStep ==
  Done({"v1"}) => (last'.status = 200 <=> last'.armed)
V1Swallows == [][V1SwallowsStep]_vars

\* P5  preheat: a decodable envelope is always answered 200; only push events of image manifests cause origin traffic;
\*     for every such event whose manifest was obtained, each blob the manifest references gets a GetMetaInfo (one per
\*     reference; at least one per blob).
ExpectedPreheat(fch) ==
  [p \in Keys |-> LET S == {q \in Keys : q[1] = p[1] /\ fch[q] > 0 /\ IsManifest(q[2])} IN
                  IF S = {} THEN 0
                  ELSE LET f[T \in SUBSET S] == IF T = {} THEN 0
                                                ELSE LET q == CHOOSE q \in T : TRUE IN
                                                     fch[q] * Count(p[2], cat.refs[q[2]]) + f[T \ {q}]
                       IN f[S]]
PreheatExactlyOnceStep ==
  Done({"preheat"}) =>
     (/\ last'.status \in {200, 500}
      /\ (last'.status = 500 => (last'.touched = Empty /\ last'.fetched = Empty))
      /\ Covers(last'.touched, ExpectedPreheat(last'.fetched)))
PreheatExactlyOnce == [][PreheatExactlyOnceStep]_vars
\* manifests are fetched only for accepted events, in envelope order, at most MaxAttempts times, and a retry happens only
\* after "not found"
PreheatFetchDisciplineStep ==
  (cur.op = "preheat" /\ ph = "ph_run" /\ fetched' # fetched) => (evq # <<>> /\ fetched' = Inc(fetched, Head(evq).ns, Head(evq).d))
PreheatFetchDiscipline == [][PreheatFetchDisciplineStep]_vars
AttemptsBounded == att < MaxAttempts

\* P6  synchronous mode means what it says: when the handler returns nothing is left running
SyncIsSyncStep ==
  (conf.sync /\ ph # "tail" /\ ph' = "tail") => Settled
SyncIsSync == [][SyncIsSyncStep]_vars

\* P7  every request terminates: answered, and all spawned calls made
Terminates == (ph # "idle") ~> (ph = "idle")

TypeOK == /\ ph \in {"idle", "ph_run", "pf_tag", "pf_man", "pf_sub", "pf_fire", "fail", "tail"}
          /\ att \in 0..MaxAttempts
          /\ \A p \in Keys : pend[p] \in Nat /\ touched[p] \in Nat /\ fetched[p] \in Nat
\* nothing is pending outside a request, and layer calls exist only for preheat events / armed prefetches
PendDiscipline == /\ (ph = "idle" => IsEmpty(pend))
                  /\ (cur.op \in {"v1", "v2"} /\ ~flags.armed) => (IsEmpty(pend) /\ IsEmpty(touched))
Inv == TypeOK /\ AttemptsBounded /\ PendDiscipline
=============================================================================
