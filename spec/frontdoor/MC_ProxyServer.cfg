SPECIFICATION Spec
CONSTANTS
  B <- MCB
  NSs = {"n1", "n2"}
  DefaultMax = 2
  Cats <- MCCats
  Confs <- MCConfs
  Envelopes <- MCEnvelopes
  MaxAttempts = 4
VIEW ProxyView
INVARIANT Inv
PROPERTY PrefetchCoverage PrefetchAllOrNothing V2Reports V1Swallows PreheatExactlyOnce PreheatFetchDiscipline SyncIsSync
