------------------------- MODULE ProxyServerTrace -------------------------
(* Trace validation of recorded proxyserver histories against ProxyServer (X05, proxy traces).
   One record per request (PhCall / PfCall), one per call the faked tag client and origin cluster client
   received (TagGet, CDownload, CMeta, CPrefetch -- logged under the fake's lock, so the log is a linearization
   of the concurrent calls), one per handler return (PhRet / PfRet) and one when no goroutine of the request is
   left (Quiesce).  The reset record carries the registry catalog and the server configuration.            *)
EXTENDS ProxyServer, Json, TLC
Trace == ndJsonDeserialize("trace.ndjson")
VARIABLE l
tvars == <<vars, l>>
E == Trace[l]

Blank == /\ ph = "idle" /\ cur = NoCur /\ evq = <<>> /\ att = 0 /\ subq = <<>> /\ blobs = <<>>
         /\ pend = Empty /\ touched = Empty /\ fetched = Empty /\ flags = NoFlags /\ last = NoObs
TraceInit == /\ TLCSet(1, 0) /\ l = 1 /\ Blank
             /\ conf = [sync |-> TRUE, min |-> 0, max |-> 0]
             /\ cat = [kind |-> [b \in B |-> "none"], refs |-> [b \in B |-> <<>>], size |-> [b \in B |-> 0]]
IsEvent(e) == l <= Len(Trace) /\ Trace[l].ev = e /\ l' = l + 1

TReset == /\ IsEvent("reset")
          /\ conf' = [sync |-> E.cfg.sync, min |-> E.cfg.min, max |-> E.cfg.max]
          /\ cat' = [kind |-> [b \in B |-> E.cfg.ckind[b]], refs |-> [b \in B |-> E.cfg.crefs[b]],
                     size |-> [b \in B |-> E.cfg.csize[b]]]
          /\ ph' = "idle" /\ cur' = NoCur /\ evq' = <<>> /\ att' = 0 /\ subq' = <<>> /\ blobs' = <<>>
          /\ pend' = Empty /\ touched' = Empty /\ fetched' = Empty /\ flags' = NoFlags /\ last' = NoObs

TPhCall == IsEvent("PhCall") /\ PhCall(E.body, E.events)
TPfCall == IsEvent("PfCall") /\ E.ns \in NSs /\ PfCall(E.v, E.body, E.ns, E.tagq)
TTagGet == IsEvent("TagGet") /\ PfTag(E.tag, E.out)
\* a blob download: into a buffer = a manifest fetch of the phase the handler is in (with that phase's arguments);
\* discarded = a V1 layer download
TCDownload ==
  /\ IsEvent("CDownload") /\ E.ns \in NSs /\ E.d \in B
  /\ \/ /\ E.dst = "buf" /\ ph = "ph_run" /\ evq # <<>>
        /\ Head(evq).ns = E.ns /\ Head(evq).d = E.d /\ PhFetch(E.out)
     \/ E.dst = "buf" /\ ph = "pf_man" /\ E.ns = cur.ns /\ E.d = cur.top /\ PfMan(E.out)
     \/ E.dst = "buf" /\ ph = "pf_sub" /\ subq # <<>> /\ E.ns = cur.ns /\ E.d = Head(subq) /\ PfSub(E.out)
     \/ E.dst = "discard" /\ cur.op = "v1" /\ PfFire(E.ns, E.d, E.out)
TCMeta == IsEvent("CMeta") /\ E.ns \in NSs /\ E.d \in B /\ PhMeta(E.ns, E.d, E.out)
TCPrefetch == IsEvent("CPrefetch") /\ E.ns \in NSs /\ E.d \in B /\ cur.op = "v2" /\ PfFire(E.ns, E.d, E.out)
TPhRet == /\ IsEvent("PhRet") /\ cur.op = "preheat"
          /\ IF ph = "fail" THEN PhFailReturn /\ E.status = flags.status
                            ELSE PhRet /\ E.status = 200
TPfRet == IsEvent("PfRet") /\ PfReturn /\ E.status = PfStatus
\* V1 counts a request as failed iff a download failed with something else than 202
TQuiesce == /\ IsEvent("Quiesce") /\ Quiesce
            /\ E.failed = (IF cur.op = "v1" /\ flags.hardfail THEN 1 ELSE 0)
TPxHealth == IsEvent("PxHealth") /\ PxHealth /\ E.status = 200 /\ E.bodyok

TraceNext == \/ TReset \/ TPhCall \/ TPfCall \/ TTagGet \/ TCDownload \/ TCMeta \/ TCPrefetch
             \/ TPhRet \/ TPfRet \/ TQuiesce \/ TPxHealth
TraceSpec == TraceInit /\ [][TraceNext]_tvars

IsReset == l <= Len(Trace) /\ E.ev = "reset"
TPrefetchCoverage == [][IsReset \/ PrefetchCoverageStep]_tvars
TPrefetchAllOrNothing == [][IsReset \/ PrefetchAllOrNothingStep]_tvars
TV2Reports == [][IsReset \/ V2ReportsStep]_tvars
TV1Swallows == [][IsReset \/ V1SwallowsStep]_tvars
TPreheatExactlyOnce == [][IsReset \/ PreheatExactlyOnceStep]_tvars
TPreheatFetchDiscipline == [][IsReset \/ PreheatFetchDisciplineStep]_tvars
TSyncIsSync == [][IsReset \/ SyncIsSyncStep]_tvars

HW == TLCSet(1, IF TLCGet(1) < l THEN l ELSE TLCGet(1))
TraceAccepted == IF TLCGet(1) = Len(Trace) + 1 THEN TRUE
                 ELSE PrintT(<<"REJECTED_AT_LINE", TLCGet(1)>>) /\ FALSE
=============================================================================
