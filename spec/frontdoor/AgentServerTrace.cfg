SPECIFICATION TraceSpec
CONSTANTS
  D = {"d1", "d2", "d3"}
  R = {"r1", "r2", "r3"}
  NSs = {"n1", "n2", "team/repo"}
  MaxNow = 1000000
  TTLs = {0, 1, 2, 3}
INVARIANT ReadersBalanced OnlyAfterDownload AtMostOneSched
PROPERTY TServedFromCache TStatusMap TDeleteRemoves TReadyHonest TReadyCacheOnlySuccess TCfgHonoured
CONSTRAINT HW
POSTCONDITION TraceAccepted
CHECK_DEADLOCK FALSE
