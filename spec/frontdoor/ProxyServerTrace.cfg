SPECIFICATION TraceSpec
CONSTANTS
  B = {"b1", "b2", "b3", "b4", "b5", "b6", "b7", "b8", "b9", "b10", "b11", "b12"}
  NSs = {"n1", "n2"}
  DefaultMax = 52428800
  Cats = {}
  Confs = {}
  Envelopes = {}
  MaxAttempts = 4
INVARIANT Inv
PROPERTY TPrefetchCoverage TPrefetchAllOrNothing TV2Reports TV1Swallows TPreheatExactlyOnce TPreheatFetchDiscipline TSyncIsSync
CONSTRAINT HW
POSTCONDITION TraceAccepted
CHECK_DEADLOCK FALSE
