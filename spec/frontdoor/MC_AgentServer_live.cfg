\* liveness: under weak fairness of the handler steps and of the scheduler's answer every request is answered
SPECIFICATION LiveSpec
CONSTANTS
  D = {"d1"}
  R = {"r1", "r2"}
  NSs = {"n1"}
  MaxNow = 1
  TTLs = {0}
INVARIANT Inv
PROPERTY Completion
