------------------------- MODULE AgentServerTrace -------------------------
(* Trace validation of recorded agentserver histories against AgentServer (X05, agent traces).
   One record per gate arrival / gate release / handler return of the download endpoint, one record per
   call of the single-step endpoints.  Every record binds the arguments, the status the client saw, the
   calls the faked dependencies received and the number of file descriptors open below the store.      *)
EXTENDS AgentServer, Json, TLC
Trace == ndJsonDeserialize("trace.ndjson")
VARIABLE l
tvars == <<vars, l>>
E == Trace[l]

TraceInit == TLCSet(1, 0) /\ Init /\ l = 1
IsEvent(e) == l <= Len(Trace) /\ Trace[l].ev = e /\ l' = l + 1

TReset == /\ IsEvent("reset")
          /\ blob' = [d \in D |-> "absent"] /\ pc' = [r \in R |-> "idle"] /\ rq' = [r \in R |-> NoRq]
          /\ readers' = 0 /\ now' = 0 /\ ttl' = E.cfg.ttl /\ lastReady' = -1 /\ last' = NoObs

TDlCall == IsEvent("DlCall") /\ E.r \in R /\ E.d \in D /\ DlCall(E.r, E.d, E.ns)
\* the scheduler received Download: the first cache probe missed; the arguments are the request's
TSchedDl == /\ IsEvent("SchedDl") /\ E.r \in R /\ pc[E.r] = "start"
            /\ DlFirstRes(E.r) = "miss" /\ DlFirst(E.r)
            /\ E.d = rq[E.r].d /\ E.ns = rq[E.r].ns
\* the first body byte is being written: a reader was opened by the first or by the second cache probe
TServing == /\ IsEvent("Serving") /\ E.r \in R
            /\ \/ pc[E.r] = "start" /\ DlFirstRes(E.r) = "hit" /\ DlFirst(E.r)
               \/ pc[E.r] = "reopen" /\ ReopenRes(E.r) = "ok" /\ Reopen(E.r)
            /\ E.fds = readers'
TSchedRet == IsEvent("SchedRet") /\ E.r \in R /\ SchedRet(E.r, E.out)
TRelease == IsEvent("Release") /\ E.r \in R /\ Serve(E.r, E.wfail)
\* the handler returned.  After a successful download whose blob is not in the cache any more the second probe
\* fails and the handler returns 500 without another gate (Reopen followed by Return).
TDlRet == /\ IsEvent("DlRet") /\ E.r \in R
          /\ \/ /\ pc[E.r] = "fin" /\ Return(E.r)
                /\ IF rq[E.r].wfail THEN E.status \in {200, 500} ELSE E.status = rq[E.r].status
                /\ (rq[E.r].status = 200 /\ ~rq[E.r].wfail) => E.bodyok
             \/ /\ pc[E.r] = "reopen" /\ ReopenRes(E.r) = "fail" /\ E.status = 500
                /\ pc' = [pc EXCEPT ![E.r] = "idle"]
                /\ last' = Obs("Dl", E.r, rq[E.r].d, 500, <<>>, [rq[E.r] EXCEPT !.status = 500])
                /\ rq' = [rq EXCEPT ![E.r] = NoRq]
                /\ UNCHANGED <<blob, readers, now, ttl, lastReady>>
          /\ E.fds = readers'
TDlBad == IsEvent("DlBad") /\ DlBad /\ E.status = 400 /\ E.fds = readers

TEnvFetch == IsEvent("EnvFetch") /\ E.d \in D /\ EnvFetch(E.d)
TEnvPartial == IsEvent("EnvPartial") /\ E.d \in D /\ EnvPartial(E.d)
TEnvEvict == IsEvent("EnvEvict") /\ E.d \in D /\ EnvEvict(E.d)
TTick == IsEvent("Tick") /\ Tick(E.k)

TDelete == /\ IsEvent("Delete") /\ E.d \in D /\ Delete(E.d, E.out)
           /\ E.status = DeleteRes(E.out) /\ E.calls = <<E.d>> /\ E.fds = readers
TDeleteBad == IsEvent("DeleteBad") /\ DeleteBad /\ E.status = 400 /\ E.calls = <<>>
TGetTag == /\ IsEvent("GetTag") /\ GetTag(E.tag, E.out)
           /\ E.status = GetTagRes(E.out) /\ E.calls = <<E.tag>> /\ (E.status = 200 => E.bodyok)
THealth == /\ IsEvent("Health") /\ Health(E.out)
           /\ E.status = ProbeRes(E.out) /\ E.probes = 1 /\ (E.status = 200 => E.bodyok)
TBlacklist == /\ IsEvent("Blacklist") /\ Blacklist(E.out)
              /\ E.status = ProbeRes(E.out) /\ E.snapshots = 1 /\ (E.status = 200 => E.bodyok)
TPreload == /\ IsEvent("Preload") /\ Preload(E.parts, E.rt, E.ns, E.out)
            /\ E.status = PreloadRes(E.parts, E.rt, E.out) /\ E.calls = PreloadCalls(E.parts, E.rt, E.ns)
TPatch == /\ IsEvent("Patch") /\ Patch(E.kind, E.val)
          /\ E.status = PatchRes(E.kind) /\ E.calls = (IF E.kind = "json" THEN <<E.val>> ELSE <<>>)
TReady == /\ IsEvent("Ready") /\ Ready(E.outs)
          /\ E.status = ReadyRes(E.outs) /\ E.probes = ReadyProbes /\ (E.status = 200 => E.bodyok)
TCfgLoad == IsEvent("CfgLoad") /\ CfgLoad(E.ttl) /\ E.seen = CfgLoadRes(E.ttl)
\* end of a trace: every request was answered and nothing of the store is held open
TQuiesce == /\ IsEvent("Quiesce") /\ \A r \in R : pc[r] = "idle"
            /\ E.inflight = 0 /\ readers = 0 /\ E.fds = 0 /\ UNCHANGED vars

TraceNext == \/ TReset \/ TDlCall \/ TSchedDl \/ TServing \/ TSchedRet \/ TRelease \/ TDlRet \/ TDlBad
             \/ TEnvFetch \/ TEnvPartial \/ TEnvEvict \/ TTick \/ TDelete \/ TDeleteBad \/ TGetTag \/ THealth
             \/ TBlacklist \/ TPreload \/ TPatch \/ TReady \/ TCfgLoad \/ TQuiesce
TraceSpec == TraceInit /\ [][TraceNext]_tvars

\* the action properties of AgentServer, judged on every recorded step (a reset starts a new, unrelated history)
IsReset == l <= Len(Trace) /\ E.ev = "reset"
TServedFromCache == [][IsReset \/ ServedFromCacheStep]_tvars
TStatusMap == [][IsReset \/ StatusMapStep]_tvars
TDeleteRemoves == [][IsReset \/ DeleteRemovesStep]_tvars
TReadyHonest == [][IsReset \/ ReadyHonestStep]_tvars
TReadyCacheOnlySuccess == [][IsReset \/ ReadyCacheOnlySuccessStep]_tvars
TCfgHonoured == [][IsReset \/ CfgHonouredStep]_tvars

HW == TLCSet(1, IF TLCGet(1) < l THEN l ELSE TLCGet(1))
TraceAccepted == IF TLCGet(1) = Len(Trace) + 1 THEN TRUE
                 ELSE PrintT(<<"REJECTED_AT_LINE", TLCGet(1)>>) /\ FALSE
=============================================================================
