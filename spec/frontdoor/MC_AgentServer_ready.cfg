\* readiness cache machinery: clock 0..4, TTL 0 (disabled), 1, 2, reconfiguration; one request slot
SPECIFICATION Spec
CONSTANTS
  D = {"d1"}
  R = {"r1"}
  NSs = {"n1"}
  MaxNow = 4
  TTLs = {0, 1, 2}
VIEW AgentView
INVARIANT Inv
PROPERTY ServedFromCache StatusMap DeleteRemoves ReadyHonest ReadyCacheOnlySuccess CfgHonoured
