\* liveness: every request is answered and all its spawned calls are made (weak fairness of every step)
SPECIFICATION LiveSpec
CONSTANTS
  B <- MCB
  NSs = {"n1", "n2"}
  DefaultMax = 2
  Cats <- MCCats
  Confs <- MCConfsLive
  Envelopes <- MCEnvelopesLive
  MaxAttempts = 2
INVARIANT Inv
PROPERTY Terminates
