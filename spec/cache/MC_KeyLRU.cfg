SPECIFICATION LSpec
CONSTANTS
  LKeys = {"k1","k2","k3"}
  LCaps = {2}
  LTTLs = {2}
  LMaxT = 4
INVARIANT LInv
PROPERTY LRUFirst LStable
CONSTRAINT LBound
