SPECIFICATION MSpec
CONSTANTS
  Keys = {"k1","k2","k3"}
  MaxSz = 2
  Maxes = {2, 4}
INVARIANT MInv
CONSTRAINT MBound
PROPERTY AdmitOnlyWithinBudget RemoveGivesBack
