--------------------------- MODULE MemCacheTrace ---------------------------
(* Trace validation for property C13.  One log carries four kinds of traces (reset.cfg.kind):
     "mem"  sequential histories on a real cache.BlobMemoryCache            (module MemCache)
     "conc" 2-3 goroutines on one BlobMemoryCache, call/return records; each pending call is
            linearized by ONE silent step between its two records             (module MemCache)
     "wt"   histories on a real store.CAStore write-through path              (module MemCacheWT)
     "lru"  histories on a real cache.LRUCache with measured call intervals   (module KeyLRU)  *)
EXTENDS MemCacheWT, KeyLRU, Json, TLC
Trace == ndJsonDeserialize("trace.ndjson")
CONSTANTS Gs                       \* goroutine ids of concurrent traces
VARIABLES l, pend                  \* pend[g] = the call goroutine g is inside of
tvars == <<wvars, lvars, pend, l>>
R == Trace[l]
Idle == [op |-> "idle", k |-> "", sz |-> 0, done |-> FALSE, res |-> 0]
B2I(b) == IF b THEN 1 ELSE 0
SetOf(s) == {s[i] : i \in 1..Len(s)}

TraceInit == /\ TLCSet(1, 0) /\ l = 1
             /\ WInit(0, [enabled |-> FALSE, ttl |-> 0, retries |-> 0]) /\ LInit(1, 1)
             /\ pend = [g \in Gs |-> Idle]
IsEvent(e) == l <= Len(Trace) /\ Trace[l].ev = e /\ l' = l + 1
LSame == UNCHANGED lvars
WSame == UNCHANGED <<now, dq, cf>>
PSame == UNCHANGED pend
\* observations logged after a call: accounted bytes, number of entries, names
Obs == total' = R.total /\ Cardinality({k \in Keys : ent'[k] >= 0}) = R.n
ObsNames == {k \in Keys : ent'[k] >= 0} = SetOf(R.names)

TReset == /\ IsEvent("reset")
          /\ ent' = [k \in Keys |-> -1] /\ born' = [k \in Keys |-> 0] /\ resv' = [s \in Sz |-> 0]
          /\ total' = 0 /\ max' = R.cfg.max
          /\ now' = 0 /\ dq' = <<>>
          /\ cf' = [enabled |-> R.cfg.enabled, ttl |-> R.cfg.ttl, retries |-> R.cfg.retries]
          /\ lorder' = <<>> /\ llo' = [k \in LKeys |-> 0] /\ lhi' = [k \in LKeys |-> 0] /\ lnow' = 0
          /\ lcap' = R.cfg.lcap /\ lttl' = R.cfg.lttl /\ ldrop' = NoDrop
          /\ pend' = [g \in Gs |-> Idle]

\* ---- kind "mem"
Rest == WSame /\ LSame /\ PSame
TReserve == IsEvent("Reserve") /\ R.res = TryReserveRes(R.sz) /\ TryReserve(R.sz) /\ Obs /\ Rest
TRelease == IsEvent("Release") /\ Release(R.sz) /\ Obs /\ Rest
TAdd     == IsEvent("Add") /\ R.res = AddRes(R.k) /\ Add(R.k, R.sz, R.at) /\ Obs /\ Rest
TGet     == IsEvent("Get") /\ R.res = GetRes(R.k) /\ UNCHANGED mvars /\ Rest
TRemove  == IsEvent("Remove") /\ Remove(R.k) /\ Obs /\ Rest
TBatch   == IsEvent("RemoveBatch") /\ RemoveBatch(SetOf(R.ks)) /\ Obs /\ Rest
TExpired == IsEvent("Expired") /\ SetOf(R.ks) = ExpiredRes(R.at, R.ttl) /\ UNCHANGED mvars /\ Rest
TLook    == IsEvent("Look") /\ R.total = TotalBytesRes /\ R.n = NumEntriesRes /\ SetOf(R.names) = ListNamesRes
                            /\ UNCHANGED mvars /\ Rest

\* ---- kind "conc": call record, silent linearization step, return record
TCall == /\ IsEvent("call") /\ pend[R.g].op = "idle"
         /\ pend' = [pend EXCEPT ![R.g] = [op |-> R.op, k |-> R.k, sz |-> R.sz, done |-> FALSE, res |-> 0]]
         /\ UNCHANGED mvars /\ WSame /\ LSame
Done(g, r) == pend' = [pend EXCEPT ![g].done = TRUE, ![g].res = r]
Lin(g) == LET p == pend[g] IN
  /\ p.op # "idle" /\ ~p.done /\ l' = l /\ WSame /\ LSame
  /\ \/ p.op = "reserve" /\ TryReserve(p.sz) /\ Done(g, B2I(TryReserveRes(p.sz)))
     \/ p.op = "release" /\ Release(p.sz) /\ Done(g, 0)
     \/ p.op = "add" /\ Add(p.k, p.sz, 0) /\ Done(g, B2I(AddRes(p.k)))
     \/ p.op = "remove" /\ Remove(p.k) /\ Done(g, 0)
     \/ p.op = "get" /\ UNCHANGED mvars /\ Done(g, GetRes(p.k))
     \/ p.op = "total" /\ UNCHANGED mvars /\ Done(g, TotalBytesRes)
     \/ p.op = "num" /\ UNCHANGED mvars /\ Done(g, NumEntriesRes)
TRet == /\ IsEvent("ret") /\ pend[R.g].op # "idle" /\ pend[R.g].done /\ pend[R.g].res = R.res
        /\ pend' = [pend EXCEPT ![R.g] = Idle]
        /\ UNCHANGED mvars /\ WSame /\ LSame

\* ---- kind "wt"
TWrite  == /\ IsEvent("WriteThrough")
           /\ WriteThrough(R.k, R.claimed, R.actual, R.f1, R.metaok, R.good, R.added)
           /\ R.res = WTRes(R.claimed, R.added, R.f1, R.f2, R.good)
           /\ R.calls = WTCalls(R.claimed, R.added)
           /\ Obs /\ ObsNames /\ LSame /\ PSame
TDrain  == IsEvent("Drain") /\ Drain /\ Len(dq') = R.qlen /\ Obs /\ ObsNames /\ LSame /\ PSame
TExpire == IsEvent("Expire") /\ Expire /\ Obs /\ ObsNames /\ LSame /\ PSame
TTick   == IsEvent("Tick") /\ Tick(R.d) /\ LSame /\ PSame
TInMem  == IsEvent("InMem") /\ R.res = InMemRes(R.k) /\ UNCHANGED wvars /\ LSame /\ PSame

\* ---- kind "lru"
MSame == UNCHANGED wvars /\ PSame
TLAdd  == IsEvent("LAdd") /\ (\E X \in SUBSET MayExp(R.t1) : LAdd(R.k, R.t0, R.t1, X)) /\ Len(lorder') = R.size /\ MSame
TLHas  == IsEvent("LHas") /\ (\E X \in SUBSET MayExp(R.t1) : R.res = LHasRes(R.k, X) /\ LHas(R.k, R.t0, R.t1, X)) /\ MSame
TLDel  == IsEvent("LDelete") /\ LDelete(R.k) /\ Len(lorder') = R.size /\ MSame
TLSize == IsEvent("LSize") /\ R.res = LSizeRes /\ LSame /\ MSame
TLClr  == IsEvent("LClear") /\ LClear /\ MSame

TraceNext == \/ TReset
             \/ TReserve \/ TRelease \/ TAdd \/ TGet \/ TRemove \/ TBatch \/ TExpired \/ TLook
             \/ TCall \/ TRet \/ (\E g \in Gs : Lin(g))
             \/ TWrite \/ TDrain \/ TExpire \/ TTick \/ TInMem
             \/ TLAdd \/ TLHas \/ TLDel \/ TLSize \/ TLClr
TraceSpec == TraceInit /\ [][TraceNext]_tvars

\* invariants evaluated on every state of every recorded trace
TInv == Balance /\ WithinBudget /\ QuiescentExact /\ LBounded /\ LNoDup /\ LOrdered

HW == TLCSet(1, IF TLCGet(1) < l THEN l ELSE TLCGet(1))
TraceAccepted == IF TLCGet(1) = Len(Trace) + 1 THEN TRUE
                 ELSE PrintT(<<"REJECTED_AT_LINE", TLCGet(1)>>) /\ FALSE
=============================================================================
