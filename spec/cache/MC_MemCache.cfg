SPECIFICATION MSpec
CONSTANTS
  Keys = {"k1","k2"}
  MaxSz = 2
  Maxes = {3}
INVARIANT MInv
CONSTRAINT MBound
PROPERTY AdmitOnlyWithinBudget RemoveGivesBack
