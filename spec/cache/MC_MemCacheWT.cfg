SPECIFICATION WSpec
CONSTANTS
  Keys = {"k1","k2"}
  MaxSz = 2
  Maxes = {3}
  Cfgs <- MCCfgs
INVARIANT WInv
PROPERTY AdmitOnlyWithinBudget FailedWriteReleases
CONSTRAINT WBound
