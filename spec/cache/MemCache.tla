------------------------------ MODULE MemCache ------------------------------
(* API-level specification of utils/cache.BlobMemoryCache (property C13, first half).

   The cache accounts ONE number, total = bytes of stored entries + bytes of outstanding
   reservations.  The protocol of its only client (lib/store/ca_store.go) and of its doc
   comments is:  TryReserve(n) ;  then exactly one of  Add(entry of n bytes)  or
   ReleaseReservation(n).  A failed (duplicate) Add leaves the reservation outstanding and the
   caller must release it.  Add and ReleaseReservation are therefore specified only for a
   size that is currently reserved (caller contract, as in the code comment "TryReserve must
   have succeeded"); everything else is total.

   One action per public method; reply operators are evaluated in the pre-state.          *)
EXTENDS Integers, Sequences, FiniteSets
CONSTANTS Keys,      \* entry names  "k1".."kN"
          MaxSz,     \* largest size argument; sizes are 0..MaxSz
          Maxes      \* budgets explored by the design model (a trace sets max from its reset record)
VARIABLES ent,       \* [Keys -> -1..MaxSz]  size of the stored entry, -1 = absent
          born,      \* [Keys -> Int]        CreatedAt of the stored entry (0 when absent)
          resv,      \* [0..MaxSz -> Nat]    bag of outstanding reservations (count per size)
          total,     \* Nat                  the accounted bytes (TotalBytes)
          max        \* Nat                  configured budget (MaxSize)
mvars == <<ent, born, resv, total, max>>

Sz == 0..MaxSz
RECURSIVE MSum(_, _)
MSum(f, S) == IF S = {} THEN 0 ELSE LET x == CHOOSE x \in S : TRUE IN f[x] + MSum(f, S \ {x})
Present       == {k \in Keys : ent[k] >= 0}
EntBytes      == MSum([k \in Keys |-> IF ent[k] < 0 THEN 0 ELSE ent[k]], Keys)
ResvBytes     == MSum([s \in Sz |-> s * resv[s]], Sz)
ResvCount     == MSum(resv, Sz)
BytesOf(S)    == MSum([k \in Keys |-> IF k \in S /\ ent[k] >= 0 THEN ent[k] ELSE 0], Keys)

MInit(m) == /\ ent = [k \in Keys |-> -1] /\ born = [k \in Keys |-> 0]
            /\ resv = [s \in Sz |-> 0] /\ total = 0 /\ max = m

\* ---- TryReserve(size) bool
TryReserveRes(sz) == total + sz <= max
TryReserve(sz) == IF TryReserveRes(sz)
                  THEN /\ total' = total + sz
                       /\ resv' = [resv EXCEPT ![sz] = @ + 1]
                       /\ UNCHANGED <<ent, born, max>>
                  ELSE UNCHANGED mvars
\* ---- ReleaseReservation(size)           (contract: size is reserved)
Release(sz) == /\ resv[sz] > 0
               /\ resv' = [resv EXCEPT ![sz] = @ - 1]
               /\ total' = total - sz
               /\ UNCHANGED <<ent, born, max>>
\* ---- Add(entry) bool                    (contract: len(entry.Data) is reserved)
AddRes(k) == ent[k] < 0
Add(k, sz, t) == /\ resv[sz] > 0
                 /\ IF AddRes(k)
                    THEN /\ ent' = [ent EXCEPT ![k] = sz]
                         /\ born' = [born EXCEPT ![k] = t]
                         /\ resv' = [resv EXCEPT ![sz] = @ - 1]     \* the reservation becomes the entry
                         /\ UNCHANGED <<total, max>>
                    ELSE UNCHANGED mvars                            \* duplicate: reservation stays outstanding
\* ---- Get(name)  (answer: size of the entry, -1 = nil)
GetRes(k) == ent[k]
\* ---- Remove(name)
RemoveSet(S) == /\ ent' = [k \in Keys |-> IF k \in S THEN -1 ELSE ent[k]]
                /\ born' = [k \in Keys |-> IF k \in S THEN 0 ELSE born[k]]
                /\ total' = total - BytesOf(S)
                /\ UNCHANGED <<resv, max>>
Remove(k) == RemoveSet({k})
\* ---- RemoveBatch(names)
RemoveBatch(S) == RemoveSet(S)
\* ---- GetExpiredEntries(now, ttl)
ExpiredRes(t, ttl) == {k \in Present : t - born[k] > ttl}
\* ---- NumEntries / TotalBytes / ListNames
NumEntriesRes == Cardinality(Present)
TotalBytesRes == total
ListNamesRes  == Present

----------------------------------------------------------------------------
MNext == \/ \E s \in Sz : TryReserve(s) \/ Release(s)
         \/ \E k \in Keys, s \in Sz, t \in 0..1 : Add(k, s, t)
         \/ \E k \in Keys : Remove(k)
         \/ \E S \in SUBSET Keys : RemoveBatch(S)
MSpec == (\E m \in Maxes : MInit(m)) /\ [][MNext]_mvars
MBound == resv[0] <= 1      \* design model only: zero-byte reservations are free, bound their number

(* Properties (C13) *)
\* accounted bytes = bytes of stored entries + outstanding reservations
Balance      == total = EntBytes + ResvBytes
\* the budget is never exceeded (TryReserve is the only call that raises total, and it refuses to cross max)
WithinBudget == total <= max
\* no reservation outstanding => the accounted bytes are exactly the stored bytes
Quiescent    == ResvCount = 0
QuiescentExact == Quiescent => total = EntBytes
MTypeOK      == /\ ent \in [Keys -> -1..MaxSz] /\ resv \in [Sz -> Nat] /\ total \in Nat
                /\ \A k \in Keys : ent[k] < 0 => born[k] = 0
MInv         == MTypeOK /\ Balance /\ WithinBudget /\ QuiescentExact
\* a reservation is admitted only if it fits: total grows only by a TryReserve that stays within max
AdmitOnlyWithinBudget == [][total' > total => total' <= max]_mvars
\* Add never changes the accounted bytes; Remove gives back exactly the entry's bytes
RemoveGivesBack == [][(resv' = resv /\ ent' # ent) => total - total' = EntBytes - EntBytes']_mvars
=============================================================================
