SPECIFICATION WSpec
CONSTANTS
  Keys = {"k1","k2"}
  MaxSz = 2
  Maxes = {2, 4}
  Cfgs <- MCCfgs
INVARIANT WInv
PROPERTY AdmitOnlyWithinBudget FailedWriteReleases
CONSTRAINT WBound
