SPECIFICATION LSpec
CONSTANTS
  LKeys = {"k1","k2","k3"}
  LCaps = {1,2,3}
  LTTLs = {2}
  LMaxT = 5
INVARIANT LInv
PROPERTY LRUFirst LStable
CONSTRAINT LBound
