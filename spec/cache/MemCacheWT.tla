----------------------------- MODULE MemCacheWT -----------------------------
(* The write-through path of lib/store.CAStore on top of MemCache (property C13):
   WriteBlobToCacheWithMetaInfo / addToMemoryCache, the drain queue (drainNext) and the TTL
   sweep (cleanupMemoryCacheExpiredEntries).  Each action is the NET effect of the MemCache
   calls the code issues while holding no reservation across actions, i.e. after every
   action of this module the cache is quiescent:

     WriteThrough = TryReserve(claimed) ; write ; [Add(entry) | ReleaseReservation(claimed)]
     Drain        = dequeue ; write to disk ; [Remove(name) | requeue]
     Expire       = GetExpiredEntries(now, ttl) ; RemoveBatch

   "claimed" is the size announced by the caller (the backend-reported size), "actual" the
   number of bytes the write callback produced.  The property demands that what stays
   accounted after the call is exactly the stored entry (actual bytes) - never the claim.
   When claimed # actual an implementation may either refuse the memory path (fall back to
   disk; nothing accounted) or store the entry accounted with its real size if that fits;
   both are allowed here, keeping `claimed` accounted is not (suspect F13).             *)
EXTENDS MemCache
VARIABLES now,       \* Int: the store's clock
          dq,        \* Seq([k, r, good]) drain queue: name, retries so far, will the disk write verify
          cf         \* [enabled, ttl, retries] MemoryCacheConfig
wvars == <<mvars, now, dq, cf>>

WInit(m, c) == MInit(m) /\ now = 0 /\ dq = <<>> /\ cf = c

\* the write callback may be invoked twice: once for the memory path (if the reservation is admitted) and
\* once for the disk path.  f1 / f2 = "invocation number 1 / 2 returns an error" (mid-stream failure).
WTAttempted(claimed) == cf.enabled /\ TryReserveRes(claimed)
\* may the blob stay in memory (reservation admitted, stream ok, metainfo ok, no duplicate)
WTEligible(k, claimed, f1, metaok) == WTAttempted(claimed) /\ ~f1 /\ metaok /\ AddRes(k)
\* allowed values of "the blob is in the memory cache when the call returns, added by this call".
\* A blob whose bytes do not verify against its name (good = FALSE) may be refused by the memory path (that is
\* property C01's business); C13 only demands that whatever happens is accounted exactly.
WTAdded(k, claimed, actual, f1, metaok, good) ==
  IF ~WTEligible(k, claimed, f1, metaok) THEN {FALSE}
  ELSE IF actual = claimed /\ good THEN {TRUE}
  ELSE {FALSE} \cup (IF total + actual <= max THEN {TRUE} ELSE {})
\* number of callback invocations and reply of the whole call: the memory path never fails the call; the
\* disk path needs a good stream and a name that verifies
WTCalls(claimed, added) == IF added THEN 1 ELSE IF WTAttempted(claimed) THEN 2 ELSE 1
WTRes(claimed, added, f1, f2, good) ==
  IF added THEN "ok"
  ELSE LET dfail == IF WTAttempted(claimed) THEN f2 ELSE f1 IN IF ~dfail /\ good THEN "ok" ELSE "err"
WriteThrough(k, claimed, actual, f1, metaok, good, added) ==
  /\ added \in WTAdded(k, claimed, actual, f1, metaok, good)
  /\ IF added
     THEN /\ ent' = [ent EXCEPT ![k] = actual]
          /\ born' = [born EXCEPT ![k] = now]
          /\ total' = total + actual
          /\ dq' = Append(dq, [k |-> k, r |-> 0, good |-> good])
          /\ UNCHANGED <<resv, max, now, cf>>
     ELSE UNCHANGED wvars            \* every failed / abandoned / refused write leaves nothing accounted

\* one drain-worker tick
DrainRes == IF dq = <<>> THEN "idle"
            ELSE IF Head(dq).good THEN "flushed"
            ELSE IF Head(dq).r < cf.retries THEN "retry" ELSE "dropped"
Drain == /\ IF dq = <<>> THEN UNCHANGED <<mvars, dq>>
            ELSE IF DrainRes = "retry"
                 THEN dq' = Append(Tail(dq), [Head(dq) EXCEPT !.r = @ + 1]) /\ UNCHANGED mvars
                 ELSE Remove(Head(dq).k) /\ dq' = Tail(dq)
         /\ UNCHANGED <<now, cf>>

\* one TTL-worker tick
Expire == RemoveBatch(ExpiredRes(now, cf.ttl)) /\ UNCHANGED <<now, dq, cf>>
Tick(d) == now' = now + d /\ UNCHANGED <<mvars, dq, cf>>
\* readers that CAStore serves from the memory cache (CheckInMemCache, GetCacheFileStat)
InMemRes(k) == ent[k] >= 0

----------------------------------------------------------------------------
CONSTANTS Cfgs       \* configurations explored by the design model
MCCfgs == {[enabled |-> TRUE, ttl |-> 1, retries |-> 1], [enabled |-> FALSE, ttl |-> 1, retries |-> 0]}
WNext == \/ \E k \in Keys, c \in Sz \ {0}, a \in Sz \ {0}, wf \in BOOLEAN, mo \in BOOLEAN, g \in BOOLEAN :
              \E ad \in WTAdded(k, c, a, wf, mo, g) : WriteThrough(k, c, a, wf, mo, g, ad)
         \/ Drain \/ Expire \/ Tick(1)
WSpec == (\E m \in Maxes, c \in Cfgs : WInit(m, c)) /\ [][WNext]_wvars

(* Properties (C13, write-through) *)
\* after every call the accounted bytes are exactly the stored bytes (no reservation survives a call)
AlwaysQuiescent == Quiescent /\ total = EntBytes
\* a blob enters the memory cache only within budget, and every queued name was added
WInv == MInv /\ AlwaysQuiescent
\* a write that is not served from memory leaves the accounting untouched
FailedWriteReleases == [][(ent' = ent /\ resv' = resv) => total' = total]_wvars
\* bounded queue for the design model
WBound == Len(dq) <= 2 /\ now <= 2
=============================================================================
