------------------------------- MODULE KeyLRU -------------------------------
(* API-level specification of utils/cache.LRUCache (property C13, second half): a set of keys
   with a size limit and a time-to-live, ordered by the time of the last Add.

   The code reads the wall clock (time.Now()) inside Add, Has and evict.  A caller only knows
   an interval [t0,t1] in which a call ran, so the expiry instant of a key is known up to the
   interval of its last Add:  lo[k] = t0+ttl <= expiry <= hi[k] = t1+ttl.  For a call running in
   [t0,t1] a key is SURELY expired if t0 > hi[k], SURELY fresh if t1 <= lo[k]; in between the
   specification allows both (parameter X = the set of keys the call saw as expired).  With an
   exact clock (t0 = t1) the specification is deterministic.                                  *)
EXTENDS Integers, Sequences, FiniteSets
CONSTANTS LKeys
VARIABLES lorder,    \* Seq(LKeys)  least recently added/refreshed first (the next size-eviction victim)
          llo, lhi,  \* [LKeys -> Int]  bounds of the expiry instant of the key's last Add (0 when absent)
          lnow,      \* Int  latest instant known to have passed (end of the last call)
          lcap, lttl,\* configuration: Size, TTL
          ldrop      \* [exp, cap : SUBSET LKeys] keys dropped by the last Add as expired / by the size limit
lvars == <<lorder, llo, lhi, lnow, lcap, lttl, ldrop>>

LRange(s)      == {s[i] : i \in 1..Len(s)}
LWithout(s, S) == SelectSeq(s, LAMBDA x : x \notin S)
LIdx(s, k)     == CHOOSE i \in 1..Len(s) : s[i] = k
NoDrop         == [exp |-> {}, cap |-> {}]
LHeld          == LRange(lorder)

LInit(c, ttl) == /\ lorder = <<>> /\ llo = [k \in LKeys |-> 0] /\ lhi = [k \in LKeys |-> 0]
                 /\ lnow = 0 /\ lcap = c /\ lttl = ttl /\ ldrop = NoDrop

MustExp(t0) == {k \in LHeld : t0 > lhi[k]}
MayExp(t1)  == {k \in LHeld : t1 > llo[k]}
\* a call running in [t0,t1] that saw exactly X as expired
Seen(t0, t1, X) == /\ lnow <= t1 /\ t0 <= t1
                   /\ MustExp(t0) \subseteq X /\ X \subseteq MayExp(t1)
Forget(f, S) == [k \in LKeys |-> IF k \in S THEN 0 ELSE f[k]]

\* ---- Has(key) bool : exists and not expired.  Does not modify anything.
LHasRes(k, X) == k \in LHeld /\ k \notin X
LHas(k, t0, t1, X) == /\ Seen(t0, t1, X)
                      /\ lnow' = IF t1 > lnow THEN t1 ELSE lnow
                      /\ ldrop' = NoDrop
                      /\ UNCHANGED <<lorder, llo, lhi, lcap, lttl>>
\* ---- Add(key): refresh an existing key (even an expired one that was not swept yet) or append a
\*      new one, then sweep every expired key and trim the oldest keys down to the size limit.
Trim(s) == IF Len(s) > lcap THEN SubSeq(s, Len(s) - lcap + 1, Len(s)) ELSE s
LAdd(k, t0, t1, X) ==
  /\ Seen(t0, t1, X)
  /\ lnow' = IF t1 > lnow THEN t1 ELSE lnow
  /\ IF k \in LHeld
     THEN /\ lorder' = Append(LWithout(lorder, {k}), k)
          /\ llo' = [llo EXCEPT ![k] = t0 + lttl] /\ lhi' = [lhi EXCEPT ![k] = t1 + lttl]
          /\ ldrop' = NoDrop
     ELSE LET swept == LWithout(lorder, X)
              kept  == Trim(Append(swept, k))
              gone  == (LHeld \cup {k}) \ LRange(kept)
          IN /\ lorder' = kept
             /\ llo' = Forget([llo EXCEPT ![k] = t0 + lttl], gone)
             /\ lhi' = Forget([lhi EXCEPT ![k] = t1 + lttl], gone)
             /\ ldrop' = [exp |-> X, cap |-> gone \ X]
  /\ UNCHANGED <<lcap, lttl>>
\* ---- Delete(key)
LDelete(k) == /\ lorder' = LWithout(lorder, {k})
              /\ llo' = Forget(llo, {k}) /\ lhi' = Forget(lhi, {k})
              /\ ldrop' = NoDrop /\ UNCHANGED <<lnow, lcap, lttl>>
\* ---- Size() int : number of keys held (expired keys not yet swept are counted)
LSizeRes == Len(lorder)
\* ---- Clear()
LClear == /\ lorder' = <<>> /\ llo' = [k \in LKeys |-> 0] /\ lhi' = [k \in LKeys |-> 0]
          /\ ldrop' = NoDrop /\ UNCHANGED <<lnow, lcap, lttl>>

----------------------------------------------------------------------------
CONSTANTS LCaps, LTTLs, LMaxT     \* design-model bounds
\* design model: calls start at lnow or later and take 0 or 1 time units
LNext == \/ \E k \in LKeys, d \in {0, 2}, j \in 0..1, X \in SUBSET LHeld :
               LAdd(k, lnow + d, lnow + d + j, X) \/ LHas(k, lnow + d, lnow + d + j, X)
         \/ \E k \in LKeys : LDelete(k)
         \/ LClear
LSpec == (\E c \in LCaps, t \in LTTLs : LInit(c, t)) /\ [][LNext]_lvars
LBound == lnow <= LMaxT

(* Properties (C13) *)
\* never more keys than configured
LBounded == Len(lorder) <= lcap
LNoDup   == \A i, j \in 1..Len(lorder) : i # j => lorder[i] # lorder[j]
LTypeOK  == lorder \in Seq(LKeys) /\ \A k \in LKeys : (k \notin LHeld => llo[k] = 0 /\ lhi[k] = 0) /\ llo[k] <= lhi[k]
\* the queue is ordered by refresh time: a key further back was added later, so it expires later
LOrdered == \A i, j \in 1..Len(lorder) : i < j => llo[lorder[i]] <= lhi[lorder[j]]
\* an expired key is never reported: whatever the call may have seen, a surely-expired key answers false
LNeverReportsExpired == \A k \in LKeys, X \in SUBSET LKeys :
                           (Seen(lnow, lnow, X) /\ k \in MustExp(lnow)) => ~LHasRes(k, X)
LInv == LTypeOK /\ LBounded /\ LNoDup /\ LOrdered /\ LNeverReportsExpired
\* size eviction drops the least recently added/refreshed keys first: everything in front of a
\* size-evicted key is gone too; expiry eviction drops only keys that may have expired
LRUFirst == [][/\ \A b \in ldrop'.cap : b \in LHeld =>
                     \A i \in 1..LIdx(lorder, b) : lorder[i] \notin LRange(lorder')
               /\ ldrop'.exp \subseteq MayExp(lnow')]_lvars
\* keys disappear only through sweep, size eviction, Delete or Clear - and the survivor order is stable
LStable  == [][\A a, b \in LRange(lorder') \cap LHeld :
                  (LIdx(lorder, a) < LIdx(lorder, b) /\ a # lorder'[Len(lorder')]) =>
                      LIdx(lorder', a) < LIdx(lorder', b)]_lvars
=============================================================================
