SPECIFICATION TraceSpec
CONSTANTS
  Keys = {"k1","k2","k3","k4"}
  MaxSz = 64
  Maxes = {0}
  Cfgs = {0}
  LKeys = {"k1","k2","k3","k4","k5"}
  LCaps = {1}
  LTTLs = {1}
  LMaxT = 0
  Gs = {1,2,3}
INVARIANT TInv
PROPERTY LRUFirst LStable RemoveGivesBack FailedWriteReleases
CONSTRAINT HW
POSTCONDITION TraceAccepted
CHECK_DEADLOCK FALSE
