SPECIFICATION TraceSpec
CONSTANTS
  Labels = {"n1","n2","n3","n4","n5","n6","n7","n8"}
  Weights = {1}
  MaxScore = 1
INVARIANT TypeOK
CONSTRAINT HW
POSTCONDITION TraceAccepted
CHECK_DEADLOCK FALSE
