------------------------------ MODULE HashRing ------------------------------
(* API-level specification of lib/hashring.Ring (property C21).

   Several processes (Procs) each run their own Ring over what their hostlist.List
   resolves to and what their healthcheck.Filter reports.  Per process the abstract state is
   the membership and the healthy set as of the last Refresh, and the configured MaxReplica.
   One action per public call: New, Refresh (also what Monitor does periodically), Locations,
   Contains, Members, WaitForContains; the watcher notification is part of Refresh's reply.

   A digest is abstracted by the *ranking* it induces on hosts (rendezvous order, highest
   score first).  Rankings of a membership M are the restriction of the digest's ranking of
   all hosts to M -- that restriction property is exactly C22 (Rendezvous!AddOnlyInserts /
   RemoveOnlyRemoves), so the ranking is a function of (digest, membership) and of nothing
   else, in particular not of the process or of the order it discovered the hosts in.

   Locations is modelled as the scan the code performs; the property C21 is stated separately
   (NonEmpty, FromMembers, Healthy, Bounded, TopCase, NextCase, NoneCase, RankOrder,
   HostIndependent) and checked by TLC for every reachable state and every digest.

   Assumptions (contracts of the injected dependencies, documented in the code): the host
   list never resolves to the empty set; the filter returns a subset of what it was given. *)
EXTENDS Sequences, FiniteSets, Integers
CONSTANTS Hosts,      \* host addresses, strings "h1".."hN"
          Procs,      \* processes, strings "p1".."pK"
          Replicas    \* configured MaxReplica values (0 = unset, defaults to 3)
VARIABLES alive,      \* SUBSET Procs: processes whose ring has been constructed
          members,    \* [Procs -> SUBSET Hosts]
          healthy,    \* [Procs -> SUBSET Hosts]
          maxrep      \* [Procs -> Nat]: effective MaxReplica
vars == <<alive, members, healthy, maxrep>>

Range(s) == {s[i] : i \in 1..Len(s)}
Min2(a, b) == IF a < b THEN a ELSE b
DefaultReplica == 3
Effective(r) == IF r = 0 THEN DefaultReplica ELSE r

\* rank is a ranking of the host set M: every member exactly once
IsRanking(rank, M) == Len(rank) = Cardinality(M) /\ Range(rank) = M
\* all rankings of all hosts = the digests of the design model
Digests == {d \in [1..Cardinality(Hosts) -> Hosts] : Range(d) = Hosts}
RankOf(d, M) == SelectSeq(d, LAMBDA h : h \in M)

----------------------------------------------------------------------------
(* Locations as the code computes it: walk the ranking; collect healthy hosts; stop after
   MaxReplica positions unless nothing has been collected yet.  No healthy host at all:
   the top owner.                                                                          *)
RECURSIVE Scan(_, _, _, _, _)
Scan(rank, hs, r, i, locs) ==
  IF i > Len(rank) \/ ~(locs = <<>> \/ i <= r) THEN locs
  ELSE Scan(rank, hs, r, i + 1, IF rank[i] \in hs THEN Append(locs, rank[i]) ELSE locs)
Loc(rank, hs, r) == IF hs = {} THEN <<rank[1]>> ELSE Scan(rank, hs, r, 1, <<>>)

\* replies, evaluated in the current state
LocationsRes(p, rank) == Loc(rank, healthy[p], maxrep[p])
ContainsRes(p, a)     == a \in members[p]
MembersRes(p)         == members[p]
WaitRes(p, a)         == IF a \in members[p] THEN "ok" ELSE "timeout"   \* no refresh in between
NotifiedRes(p, latest) == latest # members[p]                          \* watchers hear about changes only

Init == /\ alive = {} /\ members = [p \in Procs |-> {}] /\ healthy = [p \in Procs |-> {}]
        /\ maxrep = [p \in Procs |-> DefaultReplica]

Install(p, latest, hs) == /\ latest # {} /\ hs \subseteq latest
                          /\ members' = [members EXCEPT ![p] = latest]
                          /\ healthy' = [healthy EXCEPT ![p] = hs]

New(p, r, latest, hs) == /\ p \notin alive
                         /\ alive' = alive \cup {p}
                         /\ maxrep' = [maxrep EXCEPT ![p] = Effective(r)]
                         /\ Install(p, latest, hs)

Refresh(p, latest, hs) == /\ p \in alive
                          /\ Install(p, latest, hs)
                          /\ UNCHANGED <<alive, maxrep>>

\* read-only calls leave the state alone
Read == UNCHANGED vars

Next == \E p \in Procs, latest \in (SUBSET Hosts) \ {{}} : \E hs \in SUBSET latest :
           \/ \E r \in Replicas : New(p, r, latest, hs)
           \/ Refresh(p, latest, hs)
Spec == Init /\ [][Next]_vars

----------------------------------------------------------------------------
(* Property C21 *)
TopR(rank, r)        == SubSeq(rank, 1, Min2(r, Len(rank)))
HealthyOf(s, hs)     == SelectSeq(s, LAMBDA h : h \in hs)
IsSubSeqOf(s, t)     == s = SelectSeq(t, LAMBDA h : h \in Range(s))   \* t has no repeats

\* the statement, for one ranking / healthy set / replica count
C21Statement(rank, hs, r, L) ==
  /\ L # <<>>                                                           \* non-empty
  /\ Range(L) \subseteq Range(rank)                                     \* drawn from current members
  /\ IsSubSeqOf(L, rank)                                                \* ordered by rank, no repeats
  /\ Len(L) <= r                                                        \* bounded by MaxReplica (>= 1)
  /\ (hs # {}) =>                                                       \* some member is healthy:
       IF HealthyOf(TopR(rank, r), hs) # <<>>
       THEN L = HealthyOf(TopR(rank, r), hs)                            \*   the healthy among the top MaxReplica owners
       ELSE L = <<Head(HealthyOf(rank, hs))>>                           \*   else the single highest-ranked healthy member
  /\ (hs = {}) => L = <<rank[1]>>                                       \* nobody healthy: the top owner

TypeOK == /\ alive \subseteq Procs
          /\ \A p \in Procs : /\ members[p] \subseteq Hosts /\ healthy[p] \subseteq members[p]
                              /\ maxrep[p] >= 1
                              /\ (p \in alive) <=> (members[p] # {})

ReplicaSetsOK == \A p \in alive : \A d \in Digests :
  LET rank == RankOf(d, members[p])
  IN  /\ IsRanking(rank, members[p])
      /\ C21Statement(rank, healthy[p], maxrep[p], LocationsRes(p, rank))

\* same membership (and the same health view and configuration) => same ordered replica set, whoever computes it
HostIndependent == \A p, q \in alive :
  (members[p] = members[q] /\ healthy[p] = healthy[q] /\ maxrep[p] = maxrep[q]) =>
     \A d \in Digests : LocationsRes(p, RankOf(d, members[p])) = LocationsRes(q, RankOf(d, members[q]))

Inv == TypeOK /\ ReplicaSetsOK /\ HostIndependent
=============================================================================
