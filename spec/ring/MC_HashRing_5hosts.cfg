SPECIFICATION Spec
CONSTANTS
  Hosts = {"h1","h2","h3","h4","h5"}
  Procs = {"p1"}
  Replicas = {0,1,2,4,5}
INVARIANT Inv
