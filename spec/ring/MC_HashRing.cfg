SPECIFICATION Spec
CONSTANTS
  Hosts = {"h1","h2","h3"}
  Procs = {"p1","p2"}
  Replicas = {0,2}
INVARIANT Inv
