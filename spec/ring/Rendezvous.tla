----------------------------- MODULE Rendezvous -----------------------------
(* API-level specification of lib/hrw.RendezvousHash (property C22).

   State: the nodes in the order they were added (the code keeps a slice) and their weights.
   A *key* is abstracted by its score function sc : label -> score (any totally ordered
   value; the Go side logs dense ranks of the real float64 scores, never the floats).
   One action per public call: AddNode, RemoveNode, GetNode, GetOrderedNodes (New = Init).

   GetOrderedNodes(key, n) is specified as: *some* arrangement of the current nodes by
   non-increasing score, cut to n entries.  Among equal scores the code has freedom
   (sort.Sort is not stable), so the specification is nondeterministic exactly there and
   deterministic whenever the scores of the current nodes are pairwise different.

   Properties (C22): the reply is the node set sorted by descending score (Sorted), it is the
   same for every insertion order (InsertionIndependent, stated on an implementation-shaped
   insertion sort that starts from the insertion order), removing a node only removes it from
   every key's list (RemoveOnlyRemoves) and adding one only inserts it (AddOnlyInserts).

   Assumption: labels are unique (AddNode is issued for a label not currently present; the
   ring feeds it from a set, ca_store from distinct volume locations).                      *)
EXTENDS Sequences, FiniteSets, Integers
CONSTANTS Labels,      \* node labels, strings "n1".."nK"
          Weights,     \* weights a node may be added with
          MaxScore     \* abstract scores are 0..MaxScore (design model only)
VARIABLES nodes,       \* Seq(Labels): insertion order, no duplicates
          weight       \* [Labels -> Weights \cup {0}]: 0 = not present
vars == <<nodes, weight>>

Range(s) == {s[i] : i \in 1..Len(s)}
Min2(a, b) == IF a < b THEN a ELSE b
Without(s, x) == SelectSeq(s, LAMBDA y : y # x)
Take(s, n) == SubSeq(s, 1, Min2(n, Len(s)))
IndexOf(s, x) == CHOOSE i \in 1..Len(s) : s[i] = x
Present == Range(nodes)

----------------------------------------------------------------------------
(* Orderings of a node set S under a score function sc. *)

\* o arranges exactly the members of S, highest score first (ties in any order)
IsOrdering(o, S, sc) ==
  /\ Len(o) = Cardinality(S)
  /\ Range(o) = S
  /\ \A i, j \in 1..Len(o) : i < j => sc[o[i]] >= sc[o[j]]

\* r is what GetOrderedNodes(key, n) may return: the first min(n,|S|) entries of some ordering.
\* Stated without enumerating orderings so that the trace specification can evaluate it cheaply.
IsTopN(r, n, S, sc) ==
  /\ Len(r) = Min2(n, Cardinality(S))
  /\ Range(r) \subseteq S
  /\ \A i, j \in 1..Len(r) : i < j => (r[i] # r[j] /\ sc[r[i]] >= sc[r[j]])
  /\ \A x \in S \ Range(r) : \A i \in 1..Len(r) : sc[r[i]] >= sc[x]

\* all orderings, built by repeatedly taking a maximal element (used by the design model's lemmas)
RECURSIVE Orderings(_, _)
Orderings(S, sc) ==
  IF S = {} THEN {<<>>}
  ELSE UNION { {<<m>> \o t : t \in Orderings(S \ {m}, sc)} :
               m \in {x \in S : \A y \in S : sc[x] >= sc[y]} }

Distinct(S, sc) == \A x, y \in S : x # y => sc[x] # sc[y]

\* implementation-shaped reference: insertion sort that walks the nodes in insertion order and
\* places each one behind every already placed node with a score >= its own (stable, like the
\* code's sort for short slices).  Only used to state insertion independence non-trivially.
InsertDesc(o, x, sc) ==
  LET k == Cardinality({i \in 1..Len(o) : sc[o[i]] >= sc[x]})
  IN  SubSeq(o, 1, k) \o <<x>> \o SubSeq(o, k + 1, Len(o))
RECURSIVE InsSort(_, _)
InsSort(s, sc) == IF s = <<>> THEN <<>>
                  ELSE InsertDesc(InsSort(SubSeq(s, 1, Len(s) - 1), sc), s[Len(s)], sc)

----------------------------------------------------------------------------
(* Public operations *)

Init == nodes = <<>> /\ weight = [l \in Labels |-> 0]

\* NewRendezvousHash: a fresh, empty object
New == nodes' = <<>> /\ weight' = [l \in Labels |-> 0]

AddNode(l, w) == /\ l \notin Present
                 /\ nodes' = Append(nodes, l)
                 /\ weight' = [weight EXCEPT ![l] = w]

\* removes the (only) node with that label; unknown labels are ignored
RemoveNode(l) == IF l \in Present
                 THEN nodes' = Without(nodes, l) /\ weight' = [weight EXCEPT ![l] = 0]
                 ELSE UNCHANGED vars

\* GetNode(name) -> (zero-based index in insertion order, weight) or (-1, 0)
GetNodeRes(l) == IF l \in Present THEN <<IndexOf(nodes, l) - 1, weight[l]>> ELSE <<-1, 0>>

\* GetOrderedNodes(key, n): r is an admissible reply for a key with score function sc
GetOrderedOK(r, n, sc) == IsTopN(r, n, Present, sc)

Next == \/ \E l \in Labels, w \in Weights : AddNode(l, w)
        \/ \E l \in Labels : RemoveNode(l)
        \/ New
Spec == Init /\ [][Next]_vars

----------------------------------------------------------------------------
(* Properties, checked by TLC for every reachable node list and every score function *)
ScoreFns == [Labels -> 0..MaxScore]
PermSeqs(S) == {p \in [1..Cardinality(S) -> S] : Range(p) = S}

TypeOK == /\ nodes \in Seq(Labels)
          /\ \A i, j \in 1..Len(nodes) : i # j => nodes[i] # nodes[j]
          /\ \A l \in Labels : (weight[l] # 0) <=> (l \in Present)

\* the two definitions of "sorted by descending score" agree, and IsTopN is exactly "prefix of an ordering"
Sorted == \A sc \in ScoreFns :
  /\ Orderings(Present, sc) = {p \in PermSeqs(Present) : IsOrdering(p, Present, sc)}
  /\ \A n \in 0..Len(nodes) + 1 :
        {Take(o, n) : o \in Orderings(Present, sc)}
          = {r \in [1..Min2(n, Len(nodes)) -> Present] : IsTopN(r, n, Present, sc)}

\* with pairwise different scores there is exactly one admissible reply, and sorting from ANY insertion order yields it
InsertionIndependent == \A sc \in ScoreFns :
  /\ InsSort(nodes, sc) \in Orderings(Present, sc)
  /\ Distinct(Present, sc) =>
       /\ Cardinality(Orderings(Present, sc)) = 1
       /\ \A p \in PermSeqs(Present) : InsSort(p, sc) = InsSort(nodes, sc)

Inv == TypeOK /\ Sorted /\ InsertionIndependent

\* removing node l only removes l from every key's list ...
RemoveOnlyRemoves ==
  [][\A l \in Labels : (l \in Present /\ nodes' = Without(nodes, l)) =>
        \A sc \in ScoreFns :
           Orderings(Range(nodes'), sc) = {Without(o, l) : o \in Orderings(Present, sc)}]_vars
\* ... and adding l only inserts it: the other nodes keep their relative order
AddOnlyInserts ==
  [][\A l \in Labels : (l \notin Present /\ nodes' = Append(nodes, l)) =>
        \A sc \in ScoreFns :
           {Without(o, l) : o \in Orderings(Range(nodes'), sc)} = Orderings(Present, sc)]_vars
=============================================================================
