---------------------------- MODULE HashRingTrace ----------------------------
(* Trace validation of recorded lib/hashring.Ring histories (C21) against HashRing.

   The Go driver (harness/engines/c21) runs up to three real rings ("processes") over fake
   hostlist.List / healthcheck.Filter dependencies, leads them to the same membership along
   different discovery histories, and after every change calls Ring.Locations on EVERY process
   for ALL 65536 shard ids.  For each call it computes the ranking of the current members
   independently (murmur3 + score formula re-implemented) and logs de-duplicated abstract
   cases with counts:

     Loc   p, rank = the independent ranking of a representative shard of the case, res = what
           the real ring returned for it; a case = (health bits along the ranking, positions of
           the returned hosts in the ranking), which determines the verdict.
   Every Loc record is checked against the modelled scan AND against the statement of C21
   (C21Statement), evaluated with the state the specification derived from the logged
   New/Refresh calls.  Because the ranking is computed without reference to any process, two
   processes whose Loc records are all accepted for the same membership and health view return
   identical ordered replica sets (discovery-order independence).                          *)
EXTENDS HashRing, Json, TLC
Trace == ndJsonDeserialize("trace.ndjson")
VARIABLE l
tvars == <<alive, members, healthy, maxrep, l>>
R == Trace[l]

TraceInit == TLCSet(1, 0) /\ Init /\ l = 1
IsEvent(e) == l <= Len(Trace) /\ Trace[l].ev = e /\ l' = l + 1

TReset == /\ IsEvent("reset")
          /\ alive' = {} /\ members' = [p \in Procs |-> {}] /\ healthy' = [p \in Procs |-> {}]
          /\ maxrep' = [p \in Procs |-> DefaultReplica]
\* constructing a ring notifies the watchers of the initial membership exactly once
TNew   == /\ IsEvent("New") /\ R.ncalls = 1 /\ Range(R.nset) = Range(R.latest)
          /\ New(R.p, R.r, Range(R.latest), Range(R.healthy))
\* Refresh, called directly or by Monitor (possibly several times with the same inputs: idempotent)
TRefresh == /\ IsEvent("Refresh")
            /\ R.ncalls = (IF NotifiedRes(R.p, Range(R.latest)) THEN 1 ELSE 0)
            /\ (R.ncalls = 1 => Range(R.nset) = Range(R.latest))
            /\ Refresh(R.p, Range(R.latest), Range(R.healthy))
TMembers  == IsEvent("Members") /\ R.p \in alive /\ Range(R.res) = MembersRes(R.p)
                                /\ Len(R.res) = Cardinality(MembersRes(R.p)) /\ Read
TContains == IsEvent("Contains") /\ R.p \in alive /\ R.res = ContainsRes(R.p, R.a) /\ Read
TWait     == IsEvent("Wait") /\ R.p \in alive /\ R.res = WaitRes(R.p, R.a) /\ Read
TLoc      == /\ IsEvent("Loc") /\ R.p \in alive
             /\ IsRanking(R.rank, members[R.p])
             /\ R.res = LocationsRes(R.p, R.rank)
             /\ C21Statement(R.rank, healthy[R.p], maxrep[R.p], R.res)
             /\ Read

TraceNext == TReset \/ TNew \/ TRefresh \/ TMembers \/ TContains \/ TWait \/ TLoc
TraceSpec == TraceInit /\ [][TraceNext]_tvars

HW == TLCSet(1, IF TLCGet(1) < l THEN l ELSE TLCGet(1))
TraceAccepted == IF TLCGet(1) = Len(Trace) + 1 THEN TRUE
                 ELSE PrintT(<<"REJECTED_AT_LINE", TLCGet(1)>>) /\ FALSE
=============================================================================
