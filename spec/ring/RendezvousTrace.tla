-------------------------- MODULE RendezvousTrace --------------------------
(* Trace validation of recorded lib/hrw.RendezvousHash histories (C22) against Rendezvous.

   The Go driver (harness/engines/c22) builds real RendezvousHash objects, sweeps
   GetOrderedNodes over all 65536 four-hex shard keys, the 256 two-hex volume keys and random
   64-hex keys after every AddNode/RemoveNode, and logs *abstract cases* with multiplicities:

     Get    one (score ranks of the current nodes, n, reply) class, label level:
              ls/rk = current labels and the dense rank (1 = highest) of their independently
              computed score, res = the reply's labels.  The reply must be an admissible
              top-n of the current node set under those ranks.
     GetR   rank level (used for every sweep, the only form for sets of > 5 nodes): ranks =
              the oracle rank of each reply position; must be ascending and dense, and the
              reply must consist exactly of the current nodes (setok).
     Delta  direct, oracle-free form of the add/remove statement on two real replies for the
              same key before/after one AddNode/RemoveNode.
     Perms  summary over all insertion permutations of a node set: every key got the identical
              reply from every permutation (agree).
     Unit   hrw.UInt64ToFloat64 on crafted hashes (incl. the 53-zero-bits rehash case).

   Scores never enter the log; a rank is smaller for a higher score (sc = -rank).          *)
EXTENDS Rendezvous, Json, TLC
Trace == ndJsonDeserialize("trace.ndjson")
VARIABLE l
tvars == <<nodes, weight, l>>
R == Trace[l]

TraceInit == TLCSet(1, 0) /\ Init /\ l = 1
IsEvent(e) == l <= Len(Trace) /\ Trace[l].ev = e /\ l' = l + 1

\* score function of the logged key class: higher score <=> smaller rank
ScOf(ls, rk) == [x \in Range(ls) |-> 0 - rk[IndexOf(ls, x)]]
Ascending(r) == \A i \in 1..Len(r) - 1 : r[i] <= r[i + 1] /\ r[i + 1] <= r[i] + 1

TReset  == IsEvent("reset") /\ New
TNew    == IsEvent("New") /\ New
TAdd    == IsEvent("AddNode") /\ AddNode(R.l, R.w)
TRemove == IsEvent("RemoveNode") /\ RemoveNode(R.l)
TGetNode == IsEvent("GetNode") /\ <<R.idx, R.w>> = GetNodeRes(R.l) /\ UNCHANGED vars
TGet    == /\ IsEvent("Get")
           /\ Range(R.ls) = Present /\ Len(R.ls) = Len(R.rk) /\ Len(R.ls) = Len(nodes)
           /\ GetOrderedOK(R.res, R.n, ScOf(R.ls, R.rk))
           /\ UNCHANGED vars
TGetR   == /\ IsEvent("GetR")
           /\ R.setok
           /\ Len(R.ranks) = Min2(R.n, Len(nodes))
           /\ (Len(R.ranks) > 0 => R.ranks[1] = 1)
           /\ Ascending(R.ranks)
           /\ UNCHANGED vars
\* logged right after the AddNode/RemoveNode it describes
TDelta  == /\ IsEvent("Delta")
           /\ Range(R.after) = Present /\ Len(R.after) = Len(nodes)
           /\ IF R.op = "remove"
              THEN R.x \notin Present /\ R.x \in Range(R.before) /\ R.after = Without(R.before, R.x)
              ELSE R.x \in Present /\ R.x \notin Range(R.before) /\ R.before = Without(R.after, R.x)
           /\ UNCHANGED vars
TPerms  == IsEvent("Perms") /\ R.agree /\ R.k = Len(nodes) /\ UNCHANGED vars
TUnit   == IsEvent("Unit") /\ R.in01 /\ R.same /\ (R.rehashed <=> R.cls = "zero53") /\ UNCHANGED vars

TraceNext == TReset \/ TNew \/ TAdd \/ TRemove \/ TGetNode \/ TGet \/ TGetR \/ TDelta \/ TPerms \/ TUnit
TraceSpec == TraceInit /\ [][TraceNext]_tvars

HW == TLCSet(1, IF TLCGet(1) < l THEN l ELSE TLCGet(1))
TraceAccepted == IF TLCGet(1) = Len(Trace) + 1 THEN TRUE
                 ELSE PrintT(<<"REJECTED_AT_LINE", TLCGet(1)>>) /\ FALSE
=============================================================================
