SPECIFICATION Spec
CONSTANTS
  Labels = {"n1","n2","n3"}
  Weights = {1,2}
  MaxScore = 2
INVARIANT Inv
PROPERTY RemoveOnlyRemoves AddOnlyInserts
