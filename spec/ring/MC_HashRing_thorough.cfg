SPECIFICATION Spec
CONSTANTS
  Hosts = {"h1","h2","h3","h4"}
  Procs = {"p1","p2"}
  Replicas = {0,1,2,4}
INVARIANT Inv
