SPECIFICATION TraceSpec
CONSTANTS
  Hosts = {"h1","h2","h3","h4","h5","h6","h7"}
  Procs = {"p1","p2","p3"}
  Replicas = {0}
INVARIANT TypeOK
CONSTRAINT HW
POSTCONDITION TraceAccepted
CHECK_DEADLOCK FALSE
