SPECIFICATION Spec
CONSTANTS
  Hosts = {h1, h2}
  MaxFails = 2
  MaxTimeout = 2
  MaxTime = 3
  MaxRec = 3
  Steps <- StepsSmall
INVARIANT Inv
PROPERTY QueriesPure Monotone
CONSTRAINT Bound
SYMMETRY HostSym
CHECK_DEADLOCK FALSE
