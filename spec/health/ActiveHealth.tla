---------------------------- MODULE ActiveHealth ----------------------------
(* API-level specification of the active health check of lib/healthcheck (property C23):
   healthcheck.Filter (NewFilter / Run, backed by the unexported `state`) and
   healthcheck.Monitor (NewMonitor / Resolve / Stop), which publishes the reply of
   the filter's most recent Run.

   One action per public call.  Run(addrs, out) is one call Filter.Run(addrs) during
   which the Checker answered out[h] for every host h it was asked about.

   The transitions are written with a saturating signed streak counter per host (what
   a reader of the documentation would implement); the PROPERTY is written independently
   of that mechanism, over the full per-host history of check outcomes since the host
   (re)joined the list (`hist`), and TLC proves the two agree (invariant Hysteresis).

   Reading of the statement (properties.jsonl C23):
     * "monitored host" = member of the list passed to the most recent Run;
     * a host "left" when a Run was given a list without it (whatever the size of that
       list), it "rejoins"/"appears" when a later Run's list contains it; from then on
       it is a new member: healthy, no checks counted;
     * only executed checks count.  For a list of two or more hosts every host is
       checked exactly once per Run.  For a single-host list the statement only fixes
       the reply; whether the host is checked is left open (the code does not check).  *)
EXTENDS Integers, Sequences, FiniteSets, TLC
CONSTANTS Hosts,      \* host addresses "h1".."hN"
          Outcomes,   \* results of one check; "pass" is success, everything else a failure
          MaxFails,   \* FilterConfig.Fails  ranges over 1..MaxFails
          MaxPasses,  \* FilterConfig.Passes ranges over 1..MaxPasses
          MaxHist     \* bound on the length of `hist` explored by the design model
VARIABLES F, P,       \* the filter's configuration (fixed for the life of a filter)
          members,    \* SUBSET Hosts: the list given to the most recent Run
          healthy,    \* SUBSET members: members currently considered healthy
          streak,     \* [Hosts -> Int]: +k = last k checks passed (saturates at P),
                      \*   -k = last k checks failed (saturates at F), 0 = not checked since joining
          hist,       \* [Hosts -> Seq({"p","f"})]: history variable, outcomes since the host joined
          rep,        \* reply of the most recent Run
          mon,        \* "off" | "on" | "stopped": life cycle of the Monitor that owns this filter
          pub         \* the set Monitor.Resolve returns
fvars == <<F, P, members, healthy, streak, hist, rep>>
vars  == <<F, P, members, healthy, streak, hist, rep, mon, pub>>

Min(a, b) == IF a < b THEN a ELSE b
Max(a, b) == IF a > b THEN a ELSE b
Range(s) == {s[i] : i \in 1..Len(s)}
IsPass(o) == o = "pass"

Init == /\ F \in 1..MaxFails /\ P \in 1..MaxPasses
        /\ members = {} /\ healthy = {}
        /\ streak = [h \in Hosts |-> 0]
        /\ hist = [h \in Hosts |-> <<>>]
        /\ rep = {} /\ mon = "off" /\ pub = {}

----------------------------------------------------------------------------
(* Filter.Run *)
Stay(addrs) == addrs \cap members                      \* members that remain members
BaseHealthy(addrs) == (healthy \cap addrs) \cup (addrs \ members)   \* joiners start healthy
BaseStreak(addrs) == [h \in Hosts |-> IF h \in Stay(addrs) THEN streak[h] ELSE 0]
BaseHist(addrs) == [h \in Hosts |-> IF h \in Stay(addrs) THEN hist[h] ELSE <<>>]
StepStreak(s, o) == IF IsPass(o) THEN Min(Max(s + 1, 1), P) ELSE Max(Min(s - 1, -1), -F)
NewStreak(addrs, out) ==
  [h \in Hosts |-> IF h \in DOMAIN out THEN StepStreak(BaseStreak(addrs)[h], out[h]) ELSE BaseStreak(addrs)[h]]
NewHealthy(addrs, out) ==
  {h \in addrs :
     IF h \notin DOMAIN out THEN h \in BaseHealthy(addrs)
     ELSE IF IsPass(out[h]) THEN h \in BaseHealthy(addrs) \/ NewStreak(addrs, out)[h] = P
     ELSE h \in BaseHealthy(addrs) /\ NewStreak(addrs, out)[h] # -F}
NewHist(addrs, out) ==
  [h \in Hosts |-> IF h \in DOMAIN out
                   THEN Append(BaseHist(addrs)[h], IF IsPass(out[h]) THEN "p" ELSE "f")
                   ELSE BaseHist(addrs)[h]]

\* which hosts a Run may check: all of a list of 0 or >= 2 hosts; optional for a single host
ChecksOK(addrs, out) == /\ DOMAIN out \subseteq addrs
                        /\ Cardinality(addrs) # 1 => DOMAIN out = addrs
                        /\ \A h \in DOMAIN out : out[h] \in Outcomes

\* reply of Run, evaluated in the pre-state
RunRes(addrs, out) == IF Cardinality(addrs) = 1 THEN addrs ELSE NewHealthy(addrs, out)

RunCore(addrs, out) ==
  /\ addrs \subseteq Hosts /\ ChecksOK(addrs, out)
  /\ members' = addrs
  /\ healthy' = NewHealthy(addrs, out)
  /\ streak' = NewStreak(addrs, out)
  /\ hist' = NewHist(addrs, out)
  /\ rep' = RunRes(addrs, out)
  /\ UNCHANGED <<F, P>>

----------------------------------------------------------------------------
(* Monitor: NewMonitor publishes the unfiltered list; every interval it publishes the
   reply of filter.Run(hosts.Resolve()); Stop ends the loop, Resolve keeps answering.
   While a Monitor runs it is the only caller of its filter.                          *)
Run(addrs, out) == mon = "off" /\ RunCore(addrs, out) /\ UNCHANGED <<mon, pub>>
MonStart(addrs) == /\ mon = "off" /\ addrs \subseteq Hosts
                   /\ mon' = "on" /\ pub' = addrs /\ UNCHANGED fvars
MonTick(addrs, out) == /\ mon = "on" /\ RunCore(addrs, out)
                       /\ pub' = RunRes(addrs, out) /\ UNCHANGED mon
MonStop == mon = "on" /\ mon' = "stopped" /\ UNCHANGED <<fvars, pub>>
MonResolveRes == pub

----------------------------------------------------------------------------
OutFns(addrs) == [addrs -> Outcomes] \cup (IF Cardinality(addrs) = 1 THEN {<<>>} ELSE {})
Next == \/ \E addrs \in SUBSET Hosts : \E out \in OutFns(addrs) : Run(addrs, out) \/ MonTick(addrs, out)
        \/ \E addrs \in SUBSET Hosts : MonStart(addrs)
        \/ MonStop
Spec == Init /\ [][Next]_vars

HistBound == \A h \in Hosts : Len(hist[h]) <= MaxHist
HostSym == Permutations(Hosts)

----------------------------------------------------------------------------
(* The property, stated on the history of check outcomes (independent of `streak`). *)
AllLast(s, n, k, v) == n >= k /\ \A i \in (n - k + 1)..n : s[i] = v
\* health after the first n checks of history s of a host that started healthy
RECURSIVE HealthyAfter(_, _)
HealthyAfter(s, n) ==
  IF n = 0 THEN TRUE                                         \* (re)joining hosts start healthy
  ELSE IF HealthyAfter(s, n - 1)
       THEN ~AllLast(s, n, F, "f")                           \* unhealthy exactly when the last F checks failed
       ELSE AllLast(s, n, P, "p")                            \* healthy again exactly after P consecutive passes
StmtHealthy(h) == HealthyAfter(hist[h], Len(hist[h]))

TypeOK == /\ F \in 1..MaxFails /\ P \in 1..MaxPasses
          /\ members \subseteq Hosts /\ healthy \subseteq members /\ rep \subseteq members
          /\ \A h \in Hosts : streak[h] \in (-F)..P
          /\ mon \in {"off", "on", "stopped"} /\ pub \subseteq Hosts
Hysteresis == healthy = {h \in members : StmtHealthy(h)}
\* the counter is the saturated length of the current run of equal outcomes
RunLen(s, v) == CHOOSE k \in 0..Len(s) : /\ \A i \in (Len(s) - k + 1)..Len(s) : s[i] = v
                                         /\ (k = Len(s) \/ s[Len(s) - k] # v)
StreakIsRun == \A h \in Hosts : streak[h] = Min(RunLen(hist[h], "p"), P) - Min(RunLen(hist[h], "f"), F)
Forgotten == \A h \in Hosts \ members : hist[h] = <<>> /\ streak[h] = 0
\* replies: a single-host list is reported healthy, otherwise exactly the healthy members
Replies == /\ Cardinality(members) = 1 => rep = members
           /\ Cardinality(members) # 1 => rep = healthy
Inv == TypeOK /\ Hysteresis /\ StreakIsRun /\ Forgotten /\ Replies

\* first appearance and re-appearance: the host was healthy before its first counted check
JoinHealthy == [][\A h \in members' \ members :
                    h \in healthy' <=> ~(F = 1 /\ hist'[h] = <<"f">>)]_vars
\* a running monitor publishes exactly the filter's latest reply
MonitorPublishes == [][(mon = "on" /\ mon' = "on") => pub' = rep']_vars
=============================================================================
