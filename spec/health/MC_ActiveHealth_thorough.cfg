SPECIFICATION Spec
CONSTANTS
  Hosts = {h1, h2}
  Outcomes = {"pass","fail"}
  MaxFails = 3
  MaxPasses = 3
  MaxHist = 6
INVARIANT Inv
PROPERTY JoinHealthy MonitorPublishes
CONSTRAINT HistBound
SYMMETRY HostSym
CHECK_DEADLOCK FALSE
