SPECIFICATION TraceSpec
CONSTANTS
  Hosts = {"h1","h2","h3"}
  MaxFails = 3
  MaxTimeout = 3
  MaxTime = 0
  MaxRec = 0
  Steps <- StepsSmall
INVARIANT Inv
CONSTRAINT HW
POSTCONDITION TraceAccepted
CHECK_DEADLOCK FALSE
