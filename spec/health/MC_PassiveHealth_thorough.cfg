SPECIFICATION Spec
CONSTANTS
  Hosts = {h1, h2}
  MaxFails = 3
  MaxTimeout = 3
  MaxTime = 7
  MaxRec = 4
  Steps <- StepsBig
INVARIANT Inv
PROPERTY QueriesPure Monotone
CONSTRAINT Bound
SYMMETRY HostSym
CHECK_DEADLOCK FALSE
