SPECIFICATION Spec
CONSTANTS
  Hosts = {h1, h2}
  MaxFails = 3
  MaxTimeout = 3
  MaxTime = 5
  MaxRec = 3
  Steps <- StepsSmall
INVARIANT Inv
PROPERTY QueriesPure Monotone
CONSTRAINT Bound
SYMMETRY HostSym
CHECK_DEADLOCK FALSE
