---------------------------- MODULE PassiveHealth ----------------------------
(* API-level specification of the passive health check of lib/healthcheck (property C24):
   healthcheck.PassiveFilter (NewPassiveFilter / Failed / Run) and healthcheck.Passive
   (NewPassive / Resolve / Failed), a hostlist.List that never resolves to nothing.

   Time is the injected clock (clock.Mock in the harness), in integer ticks; Tick(d)
   advances it.  One action per public call.

   The transitions keep, per host, the window of failures not older than FailTimeout at
   the time of the host's latest failure (`win`) and the time at which the host was last
   marked unhealthy (`mark`) -- the natural bookkeeping.  The PROPERTY is stated
   independently on the complete record of failures (`rec`, a history variable), and TLC
   proves that both agree (invariant WindowRule).

   Reading of the statement (properties.jsonl C24): "at least Fails of its recorded
   failures fall within FailTimeout of some failure that happened no more than FailTimeout
   ago" -- the window is the FailTimeout period ENDING at that failure (the documented
   meaning of PassiveFilterConfig.Fails: "failed requests that must occur during the
   FailTimeout period"), i.e. there is a recorded failure at time t with now - t <=
   FailTimeout such that at least Fails recorded failures f satisfy t - FailTimeout <= f <= t.
   Both bounds are inclusive.                                                          *)
EXTENDS Integers, Sequences, FiniteSets, TLC
CONSTANTS Hosts,       \* host addresses
          MaxFails,    \* PassiveFilterConfig.Fails ranges over 1..MaxFails
          MaxTimeout,  \* PassiveFilterConfig.FailTimeout ranges over 1..MaxTimeout (ticks)
          MaxTime,     \* design model: clock bound
          MaxRec,      \* design model: bound on recorded failures per host
          Steps        \* design model: possible clock advances
VARIABLES K, FT,       \* configuration: Fails, FailTimeout
          now,         \* the clock
          win,         \* [Hosts -> Seq(Int)]: failures of the host within FT of its latest failure, oldest first
          mark,        \* [Hosts -> Int]: time the host was last marked unhealthy, None if not marked / expired
          rec,         \* [Hosts -> Seq(Int)]: history variable, every failure ever recorded
          list         \* SUBSET Hosts: what the hostlist wrapped by Passive currently resolves to
vars == <<K, FT, now, win, mark, rec, list>>

None == -1
Range(s) == {s[i] : i \in 1..Len(s)}

Init == /\ K \in 1..MaxFails /\ FT \in 1..MaxTimeout
        /\ now = 0
        /\ win = [h \in Hosts |-> <<>>]
        /\ mark = [h \in Hosts |-> None]
        /\ rec = [h \in Hosts |-> <<>>]
        /\ list = {}

----------------------------------------------------------------------------
\* PassiveFilter.Failed(h) (= Passive.Failed(h)): record a failed request to h
Failed(h) ==
  LET w == Append(SelectSeq(win[h], LAMBDA t : now - t <= FT), now) IN
  /\ win' = [win EXCEPT ![h] = w]
  /\ mark' = [mark EXCEPT ![h] = IF Len(w) >= K THEN now ELSE @]
  /\ rec' = [rec EXCEPT ![h] = Append(@, now)]
  /\ UNCHANGED <<K, FT, now, list>>

Tick(d) == now' = now + d /\ UNCHANGED <<K, FT, win, mark, rec, list>>

Filtered(h) == mark[h] # None /\ now - mark[h] <= FT
Expire == mark' = [h \in Hosts |-> IF mark[h] # None /\ now - mark[h] > FT THEN None ELSE mark[h]]

\* PassiveFilter.Run(addrs): reply = addrs without the filtered hosts; expired marks are dropped
RunRes(addrs) == {h \in addrs : ~Filtered(h)}
Run(addrs) == addrs \subseteq Hosts /\ Expire /\ UNCHANGED <<K, FT, now, win, rec, list>>

\* the wrapped hostlist changes
SetList(S) == S \subseteq Hosts /\ list' = S /\ UNCHANGED <<K, FT, now, win, mark, rec>>

\* Passive.Resolve(): the healthy hosts of the list; if none is healthy, some non-empty part of the list
\* (the code returns the whole list -- ResolveRes; the statement only demands "not empty" -- ResolveReplies)
ResolveRes == IF RunRes(list) = {} THEN list ELSE RunRes(list)
ResolveReplies == IF RunRes(list) # {} THEN {RunRes(list)}
                  ELSE IF list = {} THEN {{}} ELSE (SUBSET list) \ {{}}
Resolve == Expire /\ UNCHANGED <<K, FT, now, win, rec, list>>

Next == \/ \E h \in Hosts : Failed(h)
        \/ \E d \in Steps : Tick(d)
        \/ \E S \in SUBSET Hosts : Run(S) \/ SetList(S)
        \/ Resolve
Spec == Init /\ [][Next]_vars

Bound == now <= MaxTime /\ \A h \in Hosts : Len(rec[h]) <= MaxRec
HostSym == Permutations(Hosts)
StepsSmall == {1, 2}
StepsBig == {1, 2, 3}

----------------------------------------------------------------------------
(* The property, stated on the complete record of failures. *)
InWindow(h, i) == {j \in 1..Len(rec[h]) : rec[h][j] <= rec[h][i] /\ rec[h][i] - rec[h][j] <= FT}
StmtFiltered(h) == \E i \in 1..Len(rec[h]) : now - rec[h][i] <= FT /\ Cardinality(InWindow(h, i)) >= K

TypeOK == /\ K \in 1..MaxFails /\ FT \in 1..MaxTimeout /\ now \in Nat /\ list \subseteq Hosts
          /\ \A h \in Hosts : mark[h] \in {None} \cup 0..now
WindowRule == \A h \in Hosts : Filtered(h) <=> StmtFiltered(h)
\* replies of Run: exactly the hosts of the argument that the statement does not filter
RunRule == \A S \in SUBSET Hosts : RunRes(S) = {h \in S : ~StmtFiltered(h)}
\* a passively checked list never resolves to nothing while it has hosts, and only to its own hosts
ResolveRule == \A r \in ResolveReplies :
                 /\ r \subseteq list
                 /\ list # {} => r # {}
                 /\ (\E h \in list : ~StmtFiltered(h)) => r = {h \in list : ~StmtFiltered(h)}
\* the kept window is exactly the failures within FT of the latest failure
WinIsRecent == \A h \in Hosts : rec[h] # <<>> =>
                 win[h] = SelectSeq(rec[h], LAMBDA t : rec[h][Len(rec[h])] - t <= FT)
Inv == TypeOK /\ WindowRule /\ RunRule /\ ResolveRule /\ WinIsRecent

\* queries never change what is filtered; time never runs backwards
QueriesPure == [][(now' = now /\ rec' = rec) => \A h \in Hosts : Filtered(h)' = Filtered(h)]_vars
Monotone == [][now' >= now]_vars
=============================================================================
