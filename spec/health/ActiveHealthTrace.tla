-------------------------- MODULE ActiveHealthTrace --------------------------
(* Trace validation of recorded healthcheck.Filter / healthcheck.Monitor histories (C23)
   against ActiveHealth.  Run / MonTick records carry the list (addrs), for every host of
   the list what the scripted Checker was asked and answered during the call (out, aligned
   with addrs; "skip" = Check was not called for that host) and the reply (res).          *)
EXTENDS ActiveHealth, Json
Trace == ndJsonDeserialize("trace.ndjson")
VARIABLE l
tvars == <<vars, l>>
R == Trace[l]

TraceInit == TLCSet(1, 0) /\ Init /\ l = 1
IsEvent(e) == l <= Len(Trace) /\ Trace[l].ev = e /\ l' = l + 1

Addrs == Range(R.addrs)
Checked == {R.addrs[i] : i \in {j \in 1..Len(R.addrs) : R.out[j] # "skip"}}
OutFn == [h \in Checked |-> R.out[CHOOSE i \in 1..Len(R.addrs) : R.addrs[i] = h]]

TReset == /\ IsEvent("reset")
          /\ F' = R.cfg.fails /\ P' = R.cfg.passes
          /\ members' = {} /\ healthy' = {} /\ rep' = {}
          /\ streak' = [h \in Hosts |-> 0] /\ hist' = [h \in Hosts |-> <<>>]
          /\ mon' = "off" /\ pub' = {}

TRun      == IsEvent("Run") /\ Len(R.out) = Len(R.addrs)
                            /\ Range(R.res) = RunRes(Addrs, OutFn) /\ Run(Addrs, OutFn)
TMonStart == IsEvent("MonStart") /\ MonStart(Addrs) /\ Range(R.res) = Addrs
TMonTick  == IsEvent("MonTick") /\ Len(R.out) = Len(R.addrs)
                                /\ Range(R.res) = RunRes(Addrs, OutFn) /\ MonTick(Addrs, OutFn)
TMonStop  == IsEvent("MonStop") /\ MonStop /\ Range(R.res) = MonResolveRes

TraceNext == TReset \/ TRun \/ TMonStart \/ TMonTick \/ TMonStop
TraceSpec == TraceInit /\ [][TraceNext]_tvars

HW == TLCSet(1, IF TLCGet(1) < l THEN l ELSE TLCGet(1))
TraceAccepted == IF TLCGet(1) = Len(Trace) + 1 THEN TRUE
                 ELSE PrintT(<<"REJECTED_AT_LINE", TLCGet(1)>>) /\ FALSE
=============================================================================
