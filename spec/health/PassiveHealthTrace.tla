-------------------------- MODULE PassiveHealthTrace --------------------------
(* Trace validation of recorded healthcheck.PassiveFilter / healthcheck.Passive histories
   (C24, real objects on a clock.Mock) against PassiveHealth.                         *)
EXTENDS PassiveHealth, Json
Trace == ndJsonDeserialize("trace.ndjson")
VARIABLE l
tvars == <<vars, l>>
R == Trace[l]

TraceInit == TLCSet(1, 0) /\ Init /\ l = 1
IsEvent(e) == l <= Len(Trace) /\ Trace[l].ev = e /\ l' = l + 1

TReset == /\ IsEvent("reset")
          /\ K' = R.cfg.fails /\ FT' = R.cfg.ft /\ now' = 0
          /\ win' = [h \in Hosts |-> <<>>] /\ mark' = [h \in Hosts |-> None]
          /\ rec' = [h \in Hosts |-> <<>>] /\ list' = {}

TFailed  == IsEvent("Failed") /\ R.h \in Hosts /\ Failed(R.h)       \* via PassiveFilter.Failed or Passive.Failed
TTick    == IsEvent("Tick") /\ R.d >= 0 /\ Tick(R.d) /\ now' = R.now
TRun     == IsEvent("Run") /\ Range(R.res) = RunRes(Range(R.addrs)) /\ Run(Range(R.addrs))
TSetList == IsEvent("SetList") /\ SetList(Range(R.hosts))
TResolve == IsEvent("Resolve") /\ Range(R.res) \in ResolveReplies /\ Resolve

TraceNext == TReset \/ TFailed \/ TTick \/ TRun \/ TSetList \/ TResolve
TraceSpec == TraceInit /\ [][TraceNext]_tvars

HW == TLCSet(1, IF TLCGet(1) < l THEN l ELSE TLCGet(1))
TraceAccepted == IF TLCGet(1) = Len(Trace) + 1 THEN TRUE
                 ELSE PrintT(<<"REJECTED_AT_LINE", TLCGet(1)>>) /\ FALSE
=============================================================================
