SPECIFICATION Spec
CONSTANTS
  Hosts = {h1, h2, h3}
  Outcomes = {"pass","fail"}
  MaxFails = 2
  MaxPasses = 2
  MaxHist = 1
INVARIANT Inv
PROPERTY JoinHealthy MonitorPublishes
CONSTRAINT HistBound
SYMMETRY HostSym
CHECK_DEADLOCK FALSE
