SPECIFICATION TraceSpec
CONSTANTS
  Hosts = {"h1","h2","h3","h4"}
  Outcomes = {"pass","fail","hang"}
  MaxFails = 3
  MaxPasses = 3
  MaxHist = 0
INVARIANT Inv
CONSTRAINT HW
POSTCONDITION TraceAccepted
CHECK_DEADLOCK FALSE
