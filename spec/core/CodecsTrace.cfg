SPECIFICATION TraceSpec
CONSTANTS
  HexLen = 64
  IdLen = 20
  Kinds = {}
  MaxBits = 0
INVARIANT Inv
PROPERTY TParseKeeps
CONSTRAINT HW
POSTCONDITION TraceAccepted
CHECK_DEADLOCK FALSE
