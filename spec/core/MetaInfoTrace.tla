--------------------------- MODULE MetaInfoTrace ---------------------------
(* Trace validation of recorded metainfo generations against MetaInfo (C02).
   The driver logs, for every call on the real code, the inputs and what the returned
   *core.MetaInfo reports (Length, PieceLength, NumPieces, every GetPieceLength(i), the
   out-of-range answers GetPieceLength(-1) / GetPieceLength(n), the info hash string), plus
   booleans computed with the Go standard library: sumOK[i] = crc32.ChecksumIEEE of the blob
   bytes in [starts[i], ends[i]) equals GetPieceSum(i); digestOK = Digest() is the digest given.
   The specification evaluates its own definitions on the logged inputs and compares.        *)
EXTENDS MetaInfo, Json, TLC
Trace == ndJsonDeserialize("trace.ndjson")
VARIABLE l
tvars == <<mvars, l>>
R == Trace[l]

TraceInit == TLCSet(1, 0) /\ Init /\ l = 1
IsEvent(e) == l <= Len(Trace) /\ Trace[l].ev = e /\ l' = l + 1

\* a logged table [[threshold, pieceLength], ...] (distinct thresholds) as a function
TableOf(s) == [x \in {s[i][1] : i \in DOMAIN s} |-> s[CHOOSE i \in DOMAIN s : s[i][1] = x][2]]
\* what the logged *core.MetaInfo reports
Seen == [length |-> R.len, pieceLength |-> R.pl, n |-> R.n, lens |-> R.lens, ih |-> R.ih]
AllTrue(s) == \A i \in DOMAIN s : s[i]

TReset == IsEvent("reset") /\ blob' = 0 /\ pl' = 1 /\ tb' = NoTable /\ known' = {} /\ mi' = NoMI /\ stored' = NoMI
TBlob  == IsEvent("Blob")  /\ NewBlob(R.len)
TSetPL == IsEvent("SetPL") /\ SetPieceLength(R.pl)
TPieceLength == IsEvent("PieceLength") /\ R.size = blob /\ R.res = ChooseRes(TableOf(R.table))
                                       /\ ChoosePieceLength(TableOf(R.table))
TNew == /\ IsEvent("New")
        /\ R.plarg = pl
        /\ R.ok = (GenerateRes = "ok")
        /\ Generate(R.ih)
        /\ R.ok => /\ mi' = Seen                                   \* exactly the layout of (blob, pl), hash as reported
                   /\ R.oob = <<0, 0>>
                   /\ Len(R.starts) = R.n /\ Len(R.ends) = R.n /\ Len(R.sumOK) = R.n
                   /\ \A i \in 1..R.n : <<R.starts[i], R.ends[i]>> = PieceRange(blob, pl, i - 1)
                   /\ AllTrue(R.sumOK)                             \* checksums are those of the corresponding bytes
                   /\ R.digestOK
TNewFail == IsEvent("NewFail") /\ ~R.ok /\ GenerateFailed
TSerialize == IsEvent("Serialize") /\ R.ok /\ Serialize
TDeserialize == /\ IsEvent("Deserialize")
                /\ R.ok
                /\ Seen = DeserializeRes                           \* layout and info hash preserved
                /\ R.digestOK /\ R.sumsEq /\ R.reser               \* digest, piece sums, and the bytes re-serialize identically
                /\ Deserialize

TraceNext == TReset \/ TBlob \/ TSetPL \/ TPieceLength \/ TNew \/ TNewFail \/ TSerialize \/ TDeserialize
TraceSpec == TraceInit /\ [][TraceNext]_tvars

\* (MetaInfoTrace.cfg checks TypeOK, Describes, OneHash, LookupLaw in every state; LayoutLaw quantifies over all pieces of
\*  the *current* (blob, pl) even when nothing was generated -- up to 2^30 pieces for the table probes -- and is therefore
\*  checked on the design model only; Describes applies the same definitions to every metainfo actually produced.)
TRoundTrip  == [][R.ev = "reset" \/ StepSerialize]_tvars
TParseExact == [][R.ev = "reset" \/ StepParse]_tvars

HW == TLCSet(1, IF TLCGet(1) < l THEN l ELSE TLCGet(1))
TraceAccepted == IF TLCGet(1) = Len(Trace) + 1 THEN TRUE
                 ELSE PrintT(<<"REJECTED_AT_LINE", TLCGet(1)>>) /\ FALSE
=============================================================================
