SPECIFICATION Spec
CONSTANTS
  HexLen = 3
  IdLen = 2
  Kinds = {"digest", "digesthex", "digestjson", "digestlist", "infohash", "peerid", "status", "lat", "persist", "bitfield", "handshake"}
  MaxBits = 8
INVARIANT Inv
PROPERTY ParseKeeps
CHECK_DEADLOCK FALSE
