---------------------------- MODULE CodecsTrace ----------------------------
(* Trace validation of recorded print / parse calls on the real kraken codecs against Codecs (C39).
   Print records carry the value and the bytes the real code produced; Parse records carry the input,
   whether the real code accepted it and the value it produced (empty when refused).  aux carries the
   second rendering of a parsed digest (Digest.String()) and is empty for the other kinds.           *)
EXTENDS Codecs, Json, TLC
Trace == ndJsonDeserialize("trace.ndjson")
VARIABLE l
tvars == <<printed, parsed, l>>
R == Trace[l]

TraceInit == TLCSet(1, 0) /\ Init /\ l = 1
IsEvent(e) == l <= Len(Trace) /\ Trace[l].ev = e /\ l' = l + 1

TReset == IsEvent("reset") /\ printed' = None /\ parsed' = None
TPrint == IsEvent("Print") /\ R.ok /\ R.out = PrintRes(R.k, R.v) /\ Print(R.k, R.v)
TParse == /\ IsEvent("Parse")
          /\ <<R.ok, R.v>> = ParseRes(R.k, R.in)
          /\ (R.ok /\ R.k \in {"digest", "digesthex", "digestjson"}) => R.aux = DigestStr(Dec(R.k, R.in))
          /\ Parse(R.k, R.in)
\* PeerID.LessThan
TLess == IsEvent("Less") /\ R.res = LexLess(R.a, R.b) /\ UNCHANGED cvars

TraceNext == TReset \/ TPrint \/ TParse \/ TLess
TraceSpec == TraceInit /\ [][TraceNext]_tvars
TParseKeeps == [][R.ev = "reset" \/ StepParse]_tvars

HW == TLCSet(1, IF TLCGet(1) < l THEN l ELSE TLCGet(1))
TraceAccepted == IF TLCGet(1) = Len(Trace) + 1 THEN TRUE
                 ELSE PrintT(<<"REJECTED_AT_LINE", TLCGet(1)>>) /\ FALSE
=============================================================================
