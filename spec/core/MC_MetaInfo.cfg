SPECIFICATION Spec
CONSTANTS
  MaxLen = 9
  MaxPL = 3
  Thresholds = {0, 2, 5}
  TableLens = {1, 3}
  Hashes = {"h1", "h2"}
INVARIANT Inv
PROPERTY RoundTrip ParseExact
CONSTRAINT Bound
