SPECIFICATION Spec
CONSTANTS
  MaxLen = 40
  MaxPL = 12
  Thresholds = {0, 1, 4, 9}
  TableLens = {1, 2, 5}
  Hashes = {"h1"}
INVARIANT Inv
PROPERTY RoundTrip ParseExact
CONSTRAINT Bound
