------------------------------- MODULE Codecs -------------------------------
(* API-level specification of kraken's identifier / metadata codecs (property C39):
   core.Digest (ParseSHA256Digest, NewSHA256DigestFromHex, ValidateSHA256, JSON, DigestList),
   core.InfoHash, core.PeerID, metadata.LastAccessTime, metadata.Persist, the agent's
   piece-status vector and the handshake bitfield message.

   The module is the executable DEFINITION of every textual / binary format (Enc), of
   well-formedness of an input (WF) and of the value a well-formed input denotes (Dec).
   All values and all printed forms are sequences of small integers (bytes, characters,
   bits, base-128 limbs), so that TLC evaluates the definitions on the inputs and outputs
   recorded from the real code.  sha1 / sha256 are not modelled.

   kinds, value -> printed form
     "digest"     hex characters (HexLen of them)          -> "sha256:" \o hex
     "digesthex"  hex characters                           -> the same characters (Digest.Hex)
     "digestjson" hex characters                           -> the JSON string "\"sha256:<hex>\""
     "digestlist" sequence of hex-character sequences      -> the compact JSON array of such strings
     "infohash"   IdLen bytes                              -> 2*IdLen lower-case hex characters
     "peerid"     IdLen bytes                              -> 2*IdLen lower-case hex characters
     "status"     sequence of 0 (empty) 1 (complete) 2 (dirty) -> one byte per piece
     "lat"        <<neg>> \o base-128 limbs of |seconds|   -> 8 bytes holding the zig-zag varint
     "persist"    <<0>> / <<1>>                            -> "false" / "true"
     "bitfield"   sequence of bits                         -> willf/bitset binary: 8-byte big-endian length, 64-bit big-endian words
     "handshake"  <<peer id, info hash, digest hex, bitfield, <<<<peer, bitfield>>, ...>>, namespace>>
                                                           -> <<hex, hex, hex, bitset bytes, <<<<hex, bitset bytes>>, ...>>, namespace>>

   State: the last value printed (with its printed form) and the last input parsed (with the
   verdict and the value).  One action per call: Print(k, v) and Parse(k, b).

   Readings (DESIGN C39):
    * hexadecimal characters are 0-9 a-f A-F; parsing keeps the characters of a digest as given
      and prints ids in lower case;
    * the piece-status file is one byte per piece; every byte string parses; a byte other than 1
      denotes "not complete" (dirty is a transient in-memory state and is never trusted from disk);
    * an access time is well-formed iff the buffer starts with a varint (<= 10 bytes, no overflow);
    * a persist flag is well-formed iff it is one of the spellings strconv.ParseBool documents;
    * a bitfield is well-formed iff it holds the 8-byte length and at least the words the length needs;
    * JSON inputs are compact (no insignificant white space, no escapes): that is what kraken prints. *)
EXTENDS Integers, Sequences, FiniteSets
CONSTANTS HexLen,     \* hex characters of a digest (64; small in the design model)
          IdLen,      \* bytes of an info hash / peer id (20; small in the design model)
          Kinds,      \* design model: kinds explored
          MaxBits     \* design model: longest exhaustively explored bit / status vector
VARIABLES printed,    \* [k, v, b]: kind, value, printed form of the last Print, or None
          parsed      \* [k, b, ok, v]: kind, input, verdict, value of the last Parse, or None
cvars == <<printed, parsed>>
None == [k |-> "none"]

----------------------------------------------------------------------------
(* characters *)
IsHex(c) == c \in 48..57 \/ c \in 97..102 \/ c \in 65..70
HexVal(c) == IF c \in 48..57 THEN c - 48 ELSE IF c \in 97..102 THEN c - 87 ELSE c - 55
HexChar(x) == IF x < 10 THEN 48 + x ELSE 87 + x
Lower(c) == IF c \in 65..90 THEN c + 32 ELSE c
WFHex(s, n) == Len(s) = n /\ \A i \in 1..Len(s) : IsHex(s[i])
HexEncode(bs) == [i \in 1..(2 * Len(bs)) |->
                    HexChar(IF i % 2 = 1 THEN bs[(i + 1) \div 2] \div 16 ELSE bs[i \div 2] % 16)]
HexDecode(s) == [i \in 1..(Len(s) \div 2) |-> 16 * HexVal(s[2 * i - 1]) + HexVal(s[2 * i])]
\* total sub-sequence: positions a..b of s that exist
Sub(s, a, b) == LET lo == IF a < 1 THEN 1 ELSE a
                    hi == IF b > Len(s) THEN Len(s) ELSE b
                IN IF hi < lo THEN <<>> ELSE SubSeq(s, lo, hi)

Prefix == <<115, 104, 97, 50, 53, 54, 58>>          \* "sha256:"
Quote == 34
DigestStr(h) == Prefix \o h
WFDigestStr(s) == /\ Len(s) = 7 + HexLen
                  /\ Sub(s, 1, 7) = Prefix
                  /\ WFHex(Sub(s, 8, Len(s)), HexLen)
DigestJSON(h) == <<Quote>> \o DigestStr(h) \o <<Quote>>
WFDigestJSON(s) == Len(s) >= 2 /\ s[1] = Quote /\ s[Len(s)] = Quote /\ WFDigestStr(Sub(s, 2, Len(s) - 1))

\* compact JSON array of digest strings; every element is W characters wide
W == 9 + HexLen
RECURSIVE JoinList(_)
JoinList(l) == IF Len(l) = 0 THEN <<>>
               ELSE IF Len(l) = 1 THEN DigestJSON(l[1])
               ELSE DigestJSON(l[1]) \o <<44>> \o JoinList(Tail(l))
ListJSON(l) == <<91>> \o JoinList(l) \o <<93>>
ListCount(s) == (Len(s) - 1) \div (W + 1)
ListElem(s, i) == Sub(s, 2 + (i - 1) * (W + 1), 1 + (i - 1) * (W + 1) + W)
WFListJSON(s) == \/ s = <<91, 93>>
                 \/ /\ Len(s) >= 2 + W /\ Len(s) = 1 + ListCount(s) * (W + 1)
                    /\ s[1] = 91 /\ s[Len(s)] = 93
                    /\ \A i \in 1..ListCount(s) : WFDigestJSON(ListElem(s, i))
                    /\ \A i \in 1..(ListCount(s) - 1) : s[1 + i * (W + 1)] = 44
ListDec(s) == IF s = <<91, 93>> THEN <<>>
              ELSE [i \in 1..ListCount(s) |-> Sub(ListElem(s, i), 9, 8 + HexLen)]

----------------------------------------------------------------------------
(* base-128 limb arithmetic (little endian, normalized: no most-significant zero limb; zero = <<>>).
   Needed because second counts and their zig-zag images exceed TLC's 32-bit integers. *)
RECURSIVE Norm(_)
Norm(x) == IF Len(x) > 0 /\ x[Len(x)] = 0 THEN Norm(Sub(x, 1, Len(x) - 1)) ELSE x
RECURSIVE DoubleC(_, _)
DoubleC(x, c) == IF Len(x) = 0 THEN (IF c = 0 THEN <<>> ELSE <<c>>)
                 ELSE <<(2 * x[1] + c) % 128>> \o DoubleC(Tail(x), (2 * x[1] + c) \div 128)
Double(x) == DoubleC(x, 0)
RECURSIVE IncL(_)
IncL(x) == IF Len(x) = 0 THEN <<1>>
           ELSE IF x[1] < 127 THEN <<x[1] + 1>> \o Tail(x) ELSE <<0>> \o IncL(Tail(x))
RECURSIVE DecL(_)                                   \* x > 0
DecL(x) == IF x[1] > 0 THEN <<x[1] - 1>> \o Tail(x) ELSE <<127>> \o DecL(Tail(x))
Half(x) == Norm([i \in 1..Len(x) |-> (x[i] \div 2) + (IF i < Len(x) THEN 64 * (x[i + 1] % 2) ELSE 0)])
IsOdd(x) == Len(x) > 0 /\ x[1] % 2 = 1
\* zig-zag: t >= 0 -> 2t ; t < 0 -> 2|t| - 1
ZigZag(neg, mag) == IF neg = 1 THEN Norm(DecL(Double(mag))) ELSE Double(mag)
UnZigZag(u) == IF IsOdd(u) THEN <<1>> \o IncL(Half(u)) ELSE <<0>> \o Half(u)
\* unsigned varint of a limb sequence: 7 bits per byte, continuation bit on all but the last
UvarintEnc(u) == IF Len(u) = 0 THEN <<0>>
                 ELSE [i \in 1..Len(u) |-> IF i < Len(u) THEN u[i] + 128 ELSE u[i]]
Pad(s, n) == [i \in 1..(IF Len(s) > n THEN Len(s) ELSE n) |-> IF i <= Len(s) THEN s[i] ELSE 0]
\* position of the byte that ends the varint at the start of b (0 if there is none within 10 bytes)
VarintEnd(b) == LET ends == {i \in 1..(IF Len(b) < 10 THEN Len(b) ELSE 10) : b[i] < 128}
                IN IF ends = {} THEN 0 ELSE CHOOSE i \in ends : \A j \in ends : i <= j
WFVarint(b) == VarintEnd(b) > 0 /\ ~(VarintEnd(b) = 10 /\ b[10] > 1)
VarintLimbs(b) == Norm([i \in 1..VarintEnd(b) |-> b[i] % 128])

LatEnc(v) == Pad(UvarintEnc(ZigZag(v[1], Tail(v))), 8)
LatDec(b) == UnZigZag(VarintLimbs(b))
LatFits(v) == Len(UvarintEnc(ZigZag(v[1], Tail(v)))) <= 8      \* |t| < 2^55: the 8-byte buffer of Serialize (O39 beyond)

----------------------------------------------------------------------------
(* persist flag *)
TrueStr == <<116, 114, 117, 101>>
FalseStr == <<102, 97, 108, 115, 101>>
TrueForms == {<<49>>, <<116>>, <<84>>, <<84, 82, 85, 69>>, TrueStr, <<84, 114, 117, 101>>}
FalseForms == {<<48>>, <<102>>, <<70>>, <<70, 65, 76, 83, 69>>, FalseStr, <<70, 97, 108, 115, 101>>}

(* bitset binary form *)
Pow2(n) == IF n = 0 THEN 1 ELSE IF n = 1 THEN 2 ELSE IF n = 2 THEN 4 ELSE IF n = 3 THEN 8
           ELSE IF n = 4 THEN 16 ELSE IF n = 5 THEN 32 ELSE IF n = 6 THEN 64 ELSE 128
Words(n) == (n + 63) \div 64
BE8(n) == <<0, 0, 0, 0, n \div 16777216, (n \div 65536) % 256, (n \div 256) % 256, n % 256>>
BitAt(v, k) == IF k < Len(v) THEN v[k + 1] ELSE 0                      \* k is 0-based
\* byte p (1-based) of the word area: word (p-1) \div 8, big-endian inside the word, bit 0 = least significant
WordByte(v, p) == LET w == (p - 1) \div 8
                      k0 == 64 * w + 8 * (7 - ((p - 1) % 8))
                  IN BitAt(v, k0) + 2 * BitAt(v, k0 + 1) + 4 * BitAt(v, k0 + 2) + 8 * BitAt(v, k0 + 3)
                     + 16 * BitAt(v, k0 + 4) + 32 * BitAt(v, k0 + 5) + 64 * BitAt(v, k0 + 6) + 128 * BitAt(v, k0 + 7)
BitsEnc(v) == BE8(Len(v)) \o [p \in 1..(8 * Words(Len(v))) |-> WordByte(v, p)]
BitsLenField(b) == b[5] * 16777216 + b[6] * 65536 + b[7] * 256 + b[8]
WFBits(b) == /\ Len(b) >= 8
             /\ Sub(b, 1, 4) = <<0, 0, 0, 0>> /\ b[5] < 128        \* lengths >= 2^31 can never be backed by the input
             /\ Len(b) >= 8 + 8 * Words(BitsLenField(b))
BitsDec(b) == [i \in 1..BitsLenField(b) |->
                 LET k == i - 1
                     pos == 8 + 8 * (k \div 64) + (7 - ((k % 64) \div 8)) + 1
                 IN (b[pos] \div Pow2(k % 8)) % 2]

----------------------------------------------------------------------------
(* The three definitions per kind *)
StatusCanon(v) == [i \in 1..Len(v) |-> IF v[i] = 1 THEN 1 ELSE 0]

Enc(k, v) ==
  CASE k = "digest"     -> DigestStr(v)
    [] k = "digesthex"  -> v
    [] k = "digestjson" -> DigestJSON(v)
    [] k = "digestlist" -> ListJSON(v)
    [] k = "infohash"   -> HexEncode(v)
    [] k = "peerid"     -> HexEncode(v)
    [] k = "status"     -> v
    [] k = "lat"        -> LatEnc(v)
    [] k = "persist"    -> IF v = <<1>> THEN TrueStr ELSE FalseStr
    [] k = "bitfield"   -> BitsEnc(v)
    [] k = "handshake"  -> <<HexEncode(v[1]), HexEncode(v[2]), v[3], BitsEnc(v[4]),
                              [i \in 1..Len(v[5]) |-> <<HexEncode(v[5][i][1]), BitsEnc(v[5][i][2])>>], v[6]>>

WF(k, b) ==
  CASE k = "digest"     -> WFDigestStr(b)
    [] k = "digesthex"  -> WFHex(b, HexLen)
    [] k = "digestjson" -> WFDigestJSON(b)
    [] k = "digestlist" -> WFListJSON(b)
    [] k = "infohash"   -> WFHex(b, 2 * IdLen)
    [] k = "peerid"     -> WFHex(b, 2 * IdLen)
    [] k = "status"     -> TRUE
    [] k = "lat"        -> WFVarint(b)
    [] k = "persist"    -> b \in TrueForms \cup FalseForms
    [] k = "bitfield"   -> WFBits(b)
    [] k = "handshake"  -> /\ WFHex(b[1], 2 * IdLen) /\ WFHex(b[2], 2 * IdLen) /\ WFHex(b[3], HexLen) /\ WFBits(b[4])
                           /\ \A i \in 1..Len(b[5]) : WFHex(b[5][i][1], 2 * IdLen) /\ WFBits(b[5][i][2])

Dec(k, b) ==
  CASE k = "digest"     -> Sub(b, 8, Len(b))
    [] k = "digesthex"  -> b
    [] k = "digestjson" -> Sub(b, 9, Len(b) - 1)
    [] k = "digestlist" -> ListDec(b)
    [] k = "infohash"   -> HexDecode(b)
    [] k = "peerid"     -> HexDecode(b)
    [] k = "status"     -> StatusCanon(b)
    [] k = "lat"        -> LatDec(b)
    [] k = "persist"    -> IF b \in TrueForms THEN <<1>> ELSE <<0>>
    [] k = "bitfield"   -> BitsDec(b)
    [] k = "handshake"  -> <<HexDecode(b[1]), HexDecode(b[2]), b[3], BitsDec(b[4]),
                              [i \in 1..Len(b[5]) |-> <<HexDecode(b[5][i][1]), BitsDec(b[5][i][2])>>], b[6]>>

\* what a value becomes by being printed and parsed back: itself, except that a dirty piece is not persisted
Canon(k, v) == IF k = "status" THEN StatusCanon(v) ELSE v
\* lexicographic order of ids (PeerID.LessThan)
RECURSIVE LexLess(_, _)
LexLess(a, b) == IF Len(a) = 0 \/ Len(b) = 0 THEN Len(a) < Len(b)
                 ELSE IF a[1] # b[1] THEN a[1] < b[1] ELSE LexLess(Tail(a), Tail(b))

----------------------------------------------------------------------------
(* The actions.  PrintRes / ParseRes are the replies, evaluated in the pre-state. *)
Init == printed = None /\ parsed = None

PrintRes(k, v) == Enc(k, v)
Print(k, v) == /\ printed' = [k |-> k, v |-> v, b |-> Enc(k, v)]
               /\ parsed' = None

ParseRes(k, b) == IF WF(k, b) THEN <<TRUE, Dec(k, b)>> ELSE <<FALSE, <<>>>>
Parse(k, b) == /\ parsed' = [k |-> k, b |-> b, ok |-> WF(k, b), v |-> ParseRes(k, b)[2]]
               /\ printed' = IF printed # None /\ printed.k = k /\ printed.b = b THEN printed ELSE None

----------------------------------------------------------------------------
(* design model: small value domains and small hostile inputs per kind *)
HexAlphabet == {48, 57, 97, 102, 65, 70}                     \* 0 9 a f A F
BadAlphabet == HexAlphabet \cup {103, 58, 71}                \* g : G
SeqsUpTo(S, n) == UNION {[1..m -> S] : m \in 0..n}
HexVals == [1..HexLen -> HexAlphabet]
IdVals == [1..IdLen -> {0, 9, 10, 171, 255}]
BitVals == SeqsUpTo({0, 1}, MaxBits) \cup {[i \in 1..64 |-> 1], [i \in 1..65 |-> IF i \in {1, 64, 65} THEN 1 ELSE 0]}
LimbVals == {x \in SeqsUpTo({0, 1, 63, 64, 127}, 3) : Norm(x) = x}
LatVals == {<<0>> \o x : x \in LimbVals} \cup {<<1>> \o x : x \in LimbVals \ {<<>>}}
Values(k) ==
  CASE k = "digest" -> HexVals [] k = "digesthex" -> HexVals [] k = "digestjson" -> HexVals
    [] k = "digestlist" -> SeqsUpTo({[i \in 1..HexLen |-> 97], [i \in 1..HexLen |-> 48]}, 2)
    [] k = "infohash" -> IdVals [] k = "peerid" -> IdVals
    [] k = "status" -> SeqsUpTo({0, 1, 2}, MaxBits)
    [] k = "lat" -> LatVals
    [] k = "persist" -> {<<0>>, <<1>>}
    [] k = "bitfield" -> BitVals
    [] k = "handshake" -> {<<i, i, h, bv, <<<<i, bv>>>>, <<110>>>> : i \in {[j \in 1..IdLen |-> 171]}, h \in {[j \in 1..HexLen |-> 70]},
                                                     bv \in SeqsUpTo({0, 1}, 2)}
Inputs(k) ==
  CASE k = "digest" -> {p \o h : p \in {Prefix, <<115, 104, 97, 49, 58>>, Sub(Prefix, 1, 6), <<>>},
                                 h \in UNION {[1..m -> BadAlphabet] : m \in (HexLen - 1)..(HexLen + 1)}}
    [] k = "digesthex" -> UNION {[1..m -> BadAlphabet] : m \in (HexLen - 1)..(HexLen + 1)}
    [] k = "digestjson" -> {q1 \o Prefix \o h \o q2 : q1 \in {<<Quote>>, <<>>}, q2 \in {<<Quote>>, <<>>},
                                                       h \in UNION {[1..m -> {48, 102, 103}] : m \in (HexLen - 1)..(HexLen + 1)}}
    [] k = "digestlist" -> {<<91, 93>>, <<91>>, <<93>>, <<>>}
                           \cup {<<91>> \o DigestJSON(h) \o sep \o DigestJSON(h) \o <<93>> :
                                   h \in {[i \in 1..HexLen |-> 97], [i \in 1..HexLen |-> 103]}, sep \in {<<44>>, <<59>>, <<>>}}
    [] k = "infohash" -> UNION {[1..m -> {48, 102, 70, 103}] : m \in (2 * IdLen - 1)..(2 * IdLen + 1)}
    [] k = "peerid" -> UNION {[1..m -> {48, 102, 70, 103}] : m \in (2 * IdLen - 1)..(2 * IdLen + 1)}
    [] k = "status" -> SeqsUpTo({0, 1, 2, 3, 255}, 3)
    [] k = "lat" -> SeqsUpTo({0, 1, 2, 127, 128, 129, 255}, 3)
                    \cup {[i \in 1..n |-> IF i < n THEN 255 ELSE c] : n \in 8..11, c \in {0, 1, 2, 127, 255}}
    [] k = "persist" -> TrueForms \cup FalseForms \cup {<<>>, <<50>>, <<116, 114>>, <<116, 114, 117, 101, 32>>, <<89>>, <<116, 82, 85, 69>>}
    [] k = "bitfield" -> {Sub(BitsEnc(v), 1, n) \o x : v \in {<<>>, <<1>>, <<1, 0, 1>>, [i \in 1..65 |-> 1]},
                                                        n \in {0, 7, 8, 15, 16, 23, 24}, x \in {<<>>, <<255>>}}
                         \cup {<<0, 0, 0, 0, 128, 0, 0, 0>>, <<1, 0, 0, 0, 0, 0, 0, 0>>, <<0, 0, 0, 0, 0, 0, 0, 9, 255, 255, 255, 255, 255, 255, 255, 255>>}
    [] k = "handshake" -> {<<i, i, h, bv, <<>>, <<>>>> : i \in {[j \in 1..(2 * IdLen) |-> 102], [j \in 1..(2 * IdLen) |-> 103]},
                                                   h \in {[j \in 1..HexLen |-> 70], [j \in 1..(HexLen + 1) |-> 70]},
                                                   bv \in {BE8(0), <<0>>}}

\* (design model only: every call is explored from the idle state and, for prints, followed by the parse-back;
\*  calls do not depend on earlier calls, so longer histories add transitions but no new call/argument/result triples)
Idle == printed = None /\ parsed = None
PrintAny == Idle /\ \E k \in Kinds : \E v \in Values(k) : Print(k, v)
ParseBack == printed # None /\ parsed = None /\ Parse(printed.k, printed.b)
ParseAny == Idle /\ \E k \in Kinds : \E b \in Inputs(k) : Parse(k, b)
Next == PrintAny \/ ParseBack \/ ParseAny
Spec == Init /\ [][Next]_cvars

----------------------------------------------------------------------------
(* Properties (C39) *)
\* lossless: whatever was printed parses, and parses back to exactly the value printed
RoundTrip == (printed # None /\ parsed # None /\ parsed.k = printed.k /\ parsed.b = printed.b) =>
                (parsed.ok /\ parsed.v = Canon(printed.k, printed.v))
\* every printed form is well-formed, and an access time that fits the buffer takes exactly 8 bytes
PrintWF == printed # None => /\ WF(printed.k, printed.b)
                             /\ (printed.k = "lat" /\ LatFits(printed.v)) => Len(printed.b) = 8
\* parsing accepts only well-formed input, and what it accepts re-prints to the canonical spelling of the input
Canonical(k, b, v) ==
  CASE k \in {"infohash", "peerid"} -> Enc(k, v) = [i \in 1..Len(b) |-> Lower(b[i])]
    [] k \in {"digest", "digesthex", "digestjson", "digestlist", "status"} -> Enc(k, v) = (IF k = "status" THEN StatusCanon(b) ELSE b)
    [] k = "persist" -> Enc(k, v) \in {TrueStr, FalseStr} /\ (Enc(k, v) = TrueStr <=> b \in TrueForms)
    [] k = "bitfield" -> Len(v) = BitsLenField(b) /\ Sub(Enc(k, v), 1, 8) = Sub(b, 1, 8)
    [] k = "lat" -> (LatFits(v) => WFVarint(Enc(k, v)) /\ Dec(k, Enc(k, v)) = v)
    [] OTHER -> TRUE
OnlyWF == parsed # None => /\ parsed.ok = WF(parsed.k, parsed.b)
                           /\ parsed.ok => Canonical(parsed.k, parsed.b, parsed.v)
                           /\ ~parsed.ok => parsed.v = <<>>
Inv == RoundTrip /\ PrintWF /\ OnlyWF
\* a parse never alters what was printed
StepParse == (printed' # printed /\ printed' # None) => parsed' = None
ParseKeeps == [][StepParse]_cvars
=============================================================================
