SPECIFICATION Spec
CONSTANTS
  HexLen = 2
  IdLen = 1
  Kinds = {"digest", "digesthex", "digestjson", "digestlist", "infohash", "peerid", "status", "lat", "persist", "bitfield", "handshake"}
  MaxBits = 3
INVARIANT Inv
PROPERTY ParseKeeps
CHECK_DEADLOCK FALSE
