------------------------------ MODULE MetaInfo ------------------------------
(* API-level specification of torrent metainfo generation (property C02):
   core.NewMetaInfo / NewMetaInfoFromBytes / MetaInfo.Serialize / DeserializeMetaInfo,
   metadata.TorrentMeta and metainfogen.Generator (piece-length table lookup, Generate).

   The specification is the executable DEFINITION of the piece layout of a blob
   (NumPieces, PieceLen, PieceRange, Layout), of well-formedness of a metainfo
   (WellFormed, stated declaratively and independently of Layout) and of the
   piece-length lookup (PieceLenFor).  Bytes, crc32 piece sums, the sha1 info hash
   and the sha256 digest are not modelled: on real executions they are computed with
   the Go standard library and enter the traces as booleans / opaque strings which
   the trace specification constrains (all piece sums match the bytes of PieceRange,
   the info hash is the same string for every generator and survives serialization).

   State: the blob under consideration (its length), the piece length in force and
   the table it was chosen from (if any), the metainfo last generated / parsed, and
   the last serialized metainfo.  One action per public call.                       *)
EXTENDS Integers, Sequences, FiniteSets
CONSTANTS MaxLen,      \* design model: blob lengths 0..MaxLen
          MaxPL,       \* design model: piece lengths -1..MaxPL (<= 0 must be refused)
          Thresholds,  \* design model: size thresholds tables may mention
          TableLens,   \* design model: piece lengths tables may configure
          Hashes       \* design model: opaque info-hash identities
VARIABLES blob,        \* Nat: length of the blob
          pl,          \* Int: piece length in force
          tb,          \* table the piece length was looked up in, or NoTable
          known,       \* set of <<piece length, info hash>> pairs generators have reported for this blob
          mi,          \* metainfo last generated or parsed, or NoMI
          stored       \* metainfo last serialized, or NoMI
mvars == <<blob, pl, tb, known, mi, stored>>

NoMI == [length |-> 0 - 1, pieceLength |-> 0, n |-> 0, lens |-> <<>>, ih |-> "none"]
NoTable == <<>>          \* a table is a function thresholds -> piece lengths with a non-empty domain

----------------------------------------------------------------------------
(* The definitions *)
MaxOf(S) == CHOOSE x \in S : \A y \in S : y <= x
MinOf(S) == CHOOSE x \in S : \A y \in S : x <= y
RECURSIVE SumSeq(_)
SumSeq(s) == IF s = <<>> THEN 0 ELSE Head(s) + SumSeq(Tail(s))

\* number of pieces of a blob of `len` bytes cut into pieces of p bytes (p > 0); an empty blob has none
NumPieces(len, p) == IF len = 0 THEN 0 ELSE ((len - 1) \div p) + 1
\* length of piece i (0-based); 0 outside 0..NumPieces-1 (GetPieceLength's documented answer)
PieceLen(len, p, i) == IF i < 0 \/ i >= NumPieces(len, p) THEN 0
                       ELSE IF i = NumPieces(len, p) - 1 THEN len - p * i
                       ELSE p
\* byte range [start, end) of piece i
PieceRange(len, p, i) == <<i * p, i * p + PieceLen(len, p, i)>>
\* the layout part of the metainfo of such a blob
Layout(len, p) == [length |-> len, pieceLength |-> p, n |-> NumPieces(len, p),
                   lens |-> [j \in 1..NumPieces(len, p) |-> PieceLen(len, p, j - 1)]]
WithHash(lay, h) == [length |-> lay.length, pieceLength |-> lay.pieceLength, n |-> lay.n, lens |-> lay.lens, ih |-> h]
LayoutOf(m) == [length |-> m.length, pieceLength |-> m.pieceLength, n |-> m.n, lens |-> m.lens]

\* Declarative well-formedness (the property's wording): records the length, consecutive pieces of the piece
\* length, only the last may be shorter (but not empty), an empty blob has none.
WellFormed(m) == /\ m.pieceLength > 0 /\ m.length >= 0
                 /\ m.n = Len(m.lens)
                 /\ (m.length = 0) <=> (m.n = 0)
                 /\ \A j \in 1..(m.n - 1) : m.lens[j] = m.pieceLength
                 /\ m.n > 0 => (m.lens[m.n] >= 1 /\ m.lens[m.n] <= m.pieceLength)
                 /\ SumSeq(m.lens) = m.length

\* Piece length configured for a blob of `size` bytes: the entry of the largest threshold not above size;
\* a blob smaller than every threshold takes the entry of the smallest threshold.
PieceLenFor(size, t) == LET below == {x \in DOMAIN t : x <= size}
                        IN IF below # {} THEN t[MaxOf(below)] ELSE t[MinOf(DOMAIN t)]

----------------------------------------------------------------------------
(* The actions *)
Init == blob = 0 /\ pl = 1 /\ tb = NoTable /\ known = {} /\ mi = NoMI /\ stored = NoMI

\* a new blob is considered: nothing generated for it yet; the piece length in force stays as a plain value
\* (it is no longer "the one looked up for this blob")
NewBlob(len) == /\ blob' = len /\ known' = {} /\ mi' = NoMI /\ stored' = NoMI
                /\ tb' = NoTable /\ UNCHANGED pl

\* the caller fixes the piece length
SetPieceLength(p) == /\ pl' = p /\ tb' = NoTable
                     /\ UNCHANGED <<blob, known, mi, stored>>

\* metainfogen: the piece length is looked up in table t for the current blob.  Reply: the piece length.
ChooseRes(t) == PieceLenFor(blob, t)
ChoosePieceLength(t) == /\ pl' = ChooseRes(t) /\ tb' = t
                        /\ UNCHANGED <<blob, known, mi, stored>>

\* NewMetaInfo (stream), NewMetaInfoFromBytes (buffer), Generator.Generate: all the same function of (blob, pl).
\* h is the info hash the generator reports; every generator must report the same one for the same (blob, pl).
GenerateRes == IF pl <= 0 THEN "err" ELSE "ok"
Generate(h) == /\ \/ pl <= 0 /\ UNCHANGED <<mi, known>>
                  \/ /\ pl > 0
                     /\ \A k \in known : k[1] = pl => k[2] = h
                     /\ known' = known \cup {<<pl, h>>}
                     /\ mi' = WithHash(Layout(blob, pl), h)
               /\ UNCHANGED <<blob, pl, tb, stored>>

Serialize == /\ mi # NoMI /\ stored' = mi
             /\ UNCHANGED <<blob, pl, tb, known, mi>>
\* Reply of DeserializeMetaInfo: the stored metainfo, unchanged (layout and info hash)
DeserializeRes == stored
Deserialize == /\ stored # NoMI /\ mi' = stored
               /\ UNCHANGED <<blob, pl, tb, known, stored>>

----------------------------------------------------------------------------
(* design model *)
Tables == UNION {[D -> TableLens] : D \in (SUBSET Thresholds) \ {{}}}
ChooseFresh(t) == mi = NoMI /\ ChoosePieceLength(t)   \* (design model only: tables are tried on fresh blobs)
\* the blob stream fails with an I/O error before its end: an error is returned, nothing is generated, and nothing
\* of the failed attempt is remembered (a later generation is the same function of (blob, piece length) as ever)
GenerateFailed == UNCHANGED mvars

Next == \/ \E len \in 0..MaxLen : NewBlob(len)
        \/ \E p \in (0 - 1)..MaxPL : SetPieceLength(p)
        \/ \E t \in Tables : ChooseFresh(t)
        \/ \E h \in Hashes : Generate(h)
        \/ Serialize \/ Deserialize
Spec == Init /\ [][Next]_mvars

----------------------------------------------------------------------------
(* Properties (C02) *)
TypeOK == blob \in Nat /\ pl \in Int

\* whatever is generated, stored or parsed is well-formed and is exactly the layout of its own length / piece length
Exact(m) == m # NoMI => (WellFormed(LayoutOf(m)) /\ LayoutOf(m) = Layout(m.length, m.pieceLength))
Describes == /\ Exact(mi) /\ Exact(stored)
             /\ mi # NoMI => mi.length = blob
             /\ stored # NoMI => stored.length = blob
\* one info hash per (blob, piece length), whoever computed it; every metainfo around for this blob -- generated,
\* serialized or parsed back -- carries the hash a generator reported for its piece length
OneHash == /\ \A k1, k2 \in known : k1[1] = k2[1] => k1[2] = k2[2]
           /\ mi # NoMI => <<mi.pieceLength, mi.ih>> \in known
           /\ stored # NoMI => <<stored.pieceLength, stored.ih>> \in known

\* ---- algebraic laws of the definitions, for the blob / piece length / table of the current state
\* NumPieces is THE n with (n-1)*p < len <= n*p; pieces are consecutive, abut, cover [0, len) and only the last is short
LayoutLaw == pl > 0 =>
  LET n == NumPieces(blob, pl) IN
  /\ n >= 0 /\ (n - 1) * pl < blob /\ blob <= n * pl
  /\ (blob = 0) <=> (n = 0)
  /\ \A i \in 0..(n - 1) : /\ PieceRange(blob, pl, i)[1] = i * pl
                           /\ PieceRange(blob, pl, i)[2] = (IF i = n - 1 THEN blob ELSE (i + 1) * pl)
                           /\ PieceLen(blob, pl, i) >= 1 /\ PieceLen(blob, pl, i) <= pl
  /\ PieceLen(blob, pl, 0 - 1) = 0 /\ PieceLen(blob, pl, n) = 0
  /\ (blob % pl = 0 /\ n > 0) => PieceLen(blob, pl, n - 1) = pl          \* exact multiple: no short, no empty last piece
  /\ WellFormed(Layout(blob, pl))
\* the lookup is the step function the configuration documents
LookupLaw == tb # NoTable =>
  /\ pl = PieceLenFor(blob, tb)
  /\ \E x \in DOMAIN tb : pl = tb[x]
  /\ \A x \in DOMAIN tb : (x <= blob /\ \A y \in DOMAIN tb : (y <= blob => y <= x)) => pl = tb[x]   \* largest threshold not above
  /\ (\A x \in DOMAIN tb : x > blob) => pl = tb[MinOf(DOMAIN tb)]                                \* below all: first entry
  /\ blob \in DOMAIN tb => pl = tb[blob]                                                            \* a threshold is inclusive
Inv == TypeOK /\ Describes /\ OneHash /\ LayoutLaw /\ LookupLaw

\* serialization stores exactly the current metainfo; the current metainfo only ever becomes the layout of the
\* current blob (a generator ran) or exactly what was stored (it was parsed back)
StepSerialize == (stored' # stored /\ stored' # NoMI) => stored' = mi
StepParse     == (mi' # mi /\ mi' # NoMI) => (mi' = stored \/ LayoutOf(mi') = Layout(blob, pl))
RoundTrip  == [][StepSerialize]_mvars
ParseExact == [][StepParse]_mvars
Bound == Cardinality(known) <= 2
=============================================================================
