SPECIFICATION TraceSpec
CONSTANTS
  MaxLen = 0
  MaxPL = 0
  Thresholds = {0}
  TableLens = {1}
  Hashes = {"h1"}
INVARIANT TypeOK Describes OneHash LookupLaw
PROPERTY TRoundTrip TParseExact
CONSTRAINT HW
POSTCONDITION TraceAccepted
CHECK_DEADLOCK FALSE
