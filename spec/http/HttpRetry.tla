----------------------------- MODULE HttpRetry -----------------------------
(* API-level specification of utils/httputil.Send (property C34).

   One Send call = one history:   Send(args)  Attempt*  Return(result).
   An Attempt is one execution of the helper's retry loop body (one client.Do);
   its record says what the ENVIRONMENT did (resp: the scripted server/network
   behaviour), what the SERVER RECEIVED for it (seen, m, u, h, blen, bok) and what the
   helper got back (got).  The specification's own Next only generates faithful
   attempts (the server receives exactly the original request); the trace
   specification appends the attempt that was really observed, and the C34
   invariants below judge every state of both.

   Environment responses:  a status code (server received the request and answered),
     Net    (0)  server received the complete request, then dropped the connection,
     Refuse (-1) the connection could not be established; nothing was sent.
   got: the status code handed to the helper, 0 = transport error.

   Reading (DESIGN C34): configurations in which a status code is both accepted and
   an extra retry code are excluded (ConfOK).
   Freedom left by the statement: a body that cannot be replayed (req.replay = FALSE: a
   plain io.Reader, neither one of the standard in-memory readers nor seekable) need
   not be retried -- the helper may give up instead (MustRetry is FALSE), but if it
   does retry, the attempt must carry the whole body. *)
EXTENDS Integers, Sequences, FiniteSets
CONSTANTS Methods, Urls, Hdrs, Lens,    \* request alphabet (strings, strings, strings, body lengths)
          Codes,                         \* status codes the server may answer
          AccSets, ExtraSets,            \* SendAcceptedCodes / RetryCodes configurations
          MaxBudget                      \* backoff budgets 0..MaxBudget (retries allowed)
Net == 0
Refuse == 0 - 1
DefaultRetry == {429, 502, 503, 504}     \* httputil.retryableCodes

VARIABLES phase,   \* "idle" | "busy" | "done"
          req,     \* [m, u, h, len, replay]  the original request
          conf,    \* [acc, extra, budget]
          att,     \* Seq of attempt records (see above)
          nbo,     \* number of NextBackOff consultations so far
          result   \* [res, code]
vars == <<phase, req, conf, att, nbo, result>>

NoReq  == [m |-> "", u |-> "", h |-> "", len |-> 0, replay |-> TRUE]
NoConf == [acc |-> {}, extra |-> {}, budget |-> 0]
NoRes  == [res |-> "none", code |-> 0]
ConfOK(acc, extra) == acc \cap extra = {}

Init == /\ phase = "idle" /\ req = NoReq /\ conf = NoConf
        /\ att = <<>> /\ nbo = 0 /\ result = NoRes

Last == att[Len(att)]
\* the helper retries an outcome iff it is a transport error, a default retryable status that is not
\* accepted, or an extra retry code
RetryWanted(g) == \/ g = 0
                  \/ (g \in DefaultRetry /\ g \notin conf.acc)
                  \/ g \in conf.extra
CanRetry  == att # <<>> /\ RetryWanted(Last.got) /\ nbo < conf.budget
\* requests whose body cannot be rewound may be given up on
MustRetry == CanRetry /\ req.replay

Send(m, u, h, len, replay, acc, extra, budget) ==
  /\ phase = "idle" /\ ConfOK(acc, extra)
  /\ phase' = "busy"
  /\ req' = [m |-> m, u |-> u, h |-> h, len |-> len, replay |-> replay]
  /\ conf' = [acc |-> acc, extra |-> extra, budget |-> budget]
  /\ att' = <<>> /\ nbo' = 0 /\ result' = NoRes

\* what a faithful attempt looks like for environment response r
Faithful(r) == IF r = Refuse
               THEN [resp |-> r, got |-> 0, seen |-> 0, m |-> "", u |-> "", h |-> "", blen |-> 0, bok |-> FALSE]
               ELSE [resp |-> r, got |-> IF r = Net THEN 0 ELSE r, seen |-> 1,
                     m |-> req.m, u |-> req.u, h |-> req.h, blen |-> req.len, bok |-> TRUE]

\* one loop iteration: the first, or a retry after consulting the backoff
Attempt(a) ==
  /\ phase = "busy"
  /\ att # <<>> => CanRetry
  /\ nbo' = IF att = <<>> THEN 0 ELSE nbo + 1
  /\ att' = Append(att, a)
  /\ UNCHANGED <<phase, req, conf, result>>

ResOf(g) == IF g = 0 THEN [res |-> "neterr", code |-> 0]
            ELSE IF g \in conf.acc THEN [res |-> "ok", code |-> g]
            ELSE [res |-> "status", code |-> g]
\* NextBackOff consultations at return: one more (answered Stop) iff the last outcome wanted a retry;
\* a helper that gives up on an unreplayable body may or may not have consulted it
NboAtReturn == IF ~RetryWanted(Last.got) THEN {nbo}
               ELSE IF CanRetry THEN {nbo, nbo + 1} ELSE {nbo + 1}
Return(r, n) ==
  /\ phase = "busy" /\ att # <<>>
  /\ ~MustRetry
  /\ r = ResOf(Last.got)
  /\ n \in NboAtReturn
  /\ result' = r /\ nbo' = n /\ phase' = "done"
  /\ UNCHANGED <<req, conf, att>>

\* the helper keeps no state between calls
Forget == /\ phase = "done"
          /\ phase' = "idle" /\ req' = NoReq /\ conf' = NoConf /\ att' = <<>> /\ nbo' = 0 /\ result' = NoRes

Next == \/ \E m \in Methods, u \in Urls, h \in Hdrs, len \in Lens, replay \in BOOLEAN,
              acc \in AccSets, extra \in ExtraSets, budget \in 0..MaxBudget :
                Send(m, u, h, len, replay, acc, extra, budget)
        \/ \E r \in Codes \cup {Net, Refuse} : Attempt(Faithful(r))
        \/ \E n \in 0..(MaxBudget + 1) : Return(ResOf(Last.got), n)
        \/ Forget
Spec == Init /\ [][Next]_vars

----------------------------------------------------------------------------
(* Properties (C34) *)
\* seen > 1: the transport itself re-sent an idempotent request on a fresh connection; every arrival counts (bok)
Delivered(a) == a.seen >= 1 /\ a.m = req.m /\ a.u = req.u /\ a.h = req.h /\ a.blen = req.len /\ a.bok
\* every attempt the environment let through carries the same method, URL, headers and the complete body;
\* a refused attempt reaches nobody
AttemptsCarryOriginal ==
  \A i \in 1..Len(att) : IF att[i].resp = Refuse THEN att[i].seen = 0 ELSE Delivered(att[i])
\* the helper sees what the environment answered
OutcomeIsAnswer ==
  \A i \in 1..Len(att) : att[i].got = (IF att[i].resp \in {Net, Refuse} THEN 0 ELSE att[i].resp)
\* success is never reported for an attempt whose body was not sent in full
NoFalseSuccess == result.res = "ok" => (Delivered(Last) /\ Last.got = result.code /\ result.code \in conf.acc)
\* accepted status codes are never retried; only retryable outcomes are
AcceptedNeverRetried == \A i \in 1..(Len(att) - 1) : att[i].got \notin conf.acc
RetriedOnlyIfWanted  == \A i \in 1..(Len(att) - 1) : RetryWanted(att[i].got)
\* retrying stops when the backoff is exhausted
BudgetRespected == Len(att) <= conf.budget + 1 /\ nbo <= conf.budget + 1
\* ... and not before (for bodies that can be replayed): a retryable final outcome means the budget is spent
StopsOnlyWhenExhausted ==
  (phase = "done" /\ RetryWanted(Last.got) /\ req.replay) => Len(att) = conf.budget + 1
ResultMatches == phase = "done" => result = ResOf(Last.got)
TypeOK == /\ phase \in {"idle", "busy", "done"}
          /\ Len(att) <= MaxBudget + 1
          /\ (phase = "idle") = (req = NoReq)
Inv == /\ AttemptsCarryOriginal /\ OutcomeIsAnswer /\ NoFalseSuccess /\ AcceptedNeverRetried
       /\ RetriedOnlyIfWanted /\ BudgetRespected /\ StopsOnlyWhenExhausted /\ ResultMatches
\* the request and configuration never change during a call; attempts are only appended
Stable == [][phase = "busy" => (req' = req /\ conf' = conf /\ Len(att') >= Len(att)
                                /\ \A i \in 1..Len(att) : att'[i] = att[i])]_vars
=============================================================================
