--------------------------- MODULE HttpRetryTrace ---------------------------
(* Trace validation of recorded httputil.Send executions against HttpRetry (C34).
   Events:  reset | Send (arguments) | Attempt (one per loop iteration, logged by the harness RoundTripper:
   scripted environment response + what the test server received + what the helper got) | Return.
   The observed attempt is appended as it was seen; the invariants of HttpRetry judge it. *)
EXTENDS HttpRetry, Json, TLC
Trace == ndJsonDeserialize("trace.ndjson")
VARIABLE l
tvars == <<vars, l>>
R == Trace[l]
Range(s) == {s[i] : i \in 1..Len(s)}

TraceInit == TLCSet(1, 0) /\ Init /\ l = 1
IsEvent(e) == l <= Len(Trace) /\ Trace[l].ev = e /\ l' = l + 1

TReset == /\ IsEvent("reset")
          /\ phase' = "idle" /\ req' = NoReq /\ conf' = NoConf /\ att' = <<>> /\ nbo' = 0 /\ result' = NoRes
TSend == /\ IsEvent("Send")
         /\ Send(R.m, R.u, R.h, R.len, R.replay, Range(R.acc), Range(R.extra), R.budget)
Observed == [resp |-> R.resp, got |-> R.got, seen |-> R.seen, m |-> R.m, u |-> R.u, h |-> R.h,
             blen |-> R.blen, bok |-> R.bok]
TAttempt == /\ IsEvent("Attempt")
            /\ R.i = Len(att) + 1
            /\ Attempt(Observed)
TReturn == /\ IsEvent("Return")
           /\ IF R.nbo >= 0 THEN Return([res |-> R.res, code |-> R.code], R.nbo)
              ELSE \E n \in 0..(MaxBudget + 1) : Return([res |-> R.res, code |-> R.code], n)  \* backoff not observable (library default)

TraceNext == TReset \/ TSend \/ TAttempt \/ TReturn
TraceSpec == TraceInit /\ [][TraceNext]_tvars

HW == TLCSet(1, IF TLCGet(1) < l THEN l ELSE TLCGet(1))
TraceAccepted == IF TLCGet(1) = Len(Trace) + 1 THEN TRUE
                 ELSE PrintT(<<"REJECTED_AT_LINE", TLCGet(1)>>) /\ FALSE
=============================================================================
