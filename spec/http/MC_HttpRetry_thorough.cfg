SPECIFICATION Spec
CONSTANTS
  Methods = {"GET", "POST"}
  Urls = {"u1"}
  Hdrs = {"h1"}
  Lens = {0, 1, 65536}
  Codes = {200, 204, 404, 409, 503}
  AccSets = {{200}, {200, 204}, {503}}
  ExtraSets = {{}, {404}, {409}}
  MaxBudget = 3
INVARIANT Inv TypeOK
PROPERTY Stable
