SPECIFICATION TraceSpec
CONSTANTS
  Methods = {"GET", "POST", "PUT"}
  Urls = {"u1", "u2"}
  Hdrs = {"h0", "h1", "h2"}
  Lens = {0, 1, 65536}
  Codes = {200, 204, 404, 409, 500, 503}
  AccSets = {{200}}
  ExtraSets = {{}}
  MaxBudget = 3
INVARIANT AttemptsCarryOriginal NoFalseSuccess OutcomeIsAnswer AcceptedNeverRetried RetriedOnlyIfWanted BudgetRespected StopsOnlyWhenExhausted ResultMatches
CONSTRAINT HW
POSTCONDITION TraceAccepted
CHECK_DEADLOCK FALSE
