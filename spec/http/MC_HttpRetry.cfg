SPECIFICATION Spec
CONSTANTS
  Methods = {"POST"}
  Urls = {"u1"}
  Hdrs = {"h1"}
  Lens = {0, 2}
  Codes = {200, 204, 404, 503}
  AccSets = {{200}, {200, 204}, {503}}
  ExtraSets = {{}, {404}}
  MaxBudget = 2
INVARIANT Inv TypeOK
PROPERTY Stable
