------------------------- MODULE RegistryPathsTrace -------------------------
(* Trace validation of the real lib/dockerregistry path functions (C38) against RegistryPaths.

   The Go driver (harness/engines/c38) builds registry storage paths from components over the
   token classes of the grammar (every kind x repositories of depth 1..3 x tags x digests x
   upload ids, including names that look like layout keywords), applies every single mutation
   (drop / duplicate / swap / insert / substitute by junk, other keywords, case flips, malformed
   digests), concretises each case several times with random valid strings, calls ParsePath and
   all seven Get* extractors on the real string and maps the answers back to tokens.  One record
   per distinct abstract outcome:

     Case  p = the token sequence, isbuilt / c = the components it was built from (unmutated
           paths), r = the abstracted answers of the eight functions, cnt = concretisations.  *)
EXTENDS RegistryPaths, Json, TLC
Trace == ndJsonDeserialize("trace.ndjson")
VARIABLE l
tvars == <<last, l>>
R == Trace[l]

TraceInit == TLCSet(1, 0) /\ Init /\ l = 1
IsEvent(e) == l <= Len(Trace) /\ Trace[l].ev = e /\ l' = l + 1

TReset == IsEvent("reset") /\ last' = <<>>
TCase  == /\ IsEvent("Case")
          /\ IF R.isbuilt THEN R.p = Build(R.c) /\ BuiltOK(R.r, R.c)
                          ELSE MutatedOK(R.r, R.p)
          /\ Classify(R.p)

TraceNext == TReset \/ TCase
TraceSpec == TraceInit /\ [][TraceNext]_tvars

HW == TLCSet(1, IF TLCGet(1) < l THEN l ELSE TLCGet(1))
TraceAccepted == IF TLCGet(1) = Len(Trace) + 1 THEN TRUE
                 ELSE PrintT(<<"REJECTED_AT_LINE", TLCGet(1)>>) /\ FALSE
=============================================================================
