SPECIFICATION TraceSpec
CONSTANTS
  D = {"d1", "d2", "d3"}
  U = {"u1", "u2"}
  T = {"t1", "t2"}
  G = {"g1", "g2", "g3"}
  W = {"w1", "w2", "w3"}
  Offs = {"o0", "o2"}
  MaxLen = 99
  Modes = {"rw", "ro"}
  Calls <- NoCalls
  FixUploadCleanup = TRUE
  FixRoNotFound = TRUE
INVARIANT Inv
PROPERTY TAppearsOnlyVerified TUploadOnlyCommitted TOkMeansUploaded TFailedCommitNotVisible TTagOnlyByPut TWriteFrame TRoNeverWrites TNotFoundJustified TNotFoundReported TFaultNotMasked TDeleteNoop
CONSTRAINT HW
POSTCONDITION TraceAccepted
CHECK_DEADLOCK FALSE
