SPECIFICATION Spec
CONSTANTS
  Hex64 = {"H1"}
  Len2 = {"sh-H1","v2"}
  Alnum = {"docker","registry","v2","repositories","blobs","revisions","tags","sha256","link","data","current","index","startedat","hashstates","H1","sh-H1","N1","J1","A1"}
  Digits = {"N1"}
  RepoComps = {"r1","repositories"}
  TagToks = {"t1","_uploads"}
  UuidToks = {"U1"}
  AlgoToks = {"sha256"}
  OffToks = {"N1"}
  MaxRepoDepth = 2
  JunkToks = {"J1","_manifests"}
INVARIANT Inv
CHECK_DEADLOCK FALSE
