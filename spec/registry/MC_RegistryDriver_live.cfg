SPECIFICATION FairSpec
CONSTANTS
  D = {"d3"}
  U = {"u1"}
  T = {"t1"}
  G = {"g1", "g2"}
  W = {"w1"}
  Offs = {"o0"}
  MaxLen = 2
  Modes = {"rw", "ro"}
  Calls <- CallsLive
  FixUploadCleanup = TRUE
  FixRoNotFound = TRUE
PROPERTY Termination
