--------------------------- MODULE RegistryDriver ---------------------------
(* Extension module X01: the Docker registry storage driver that the kraken proxy (read-write)
   and agent (read-only) embed, together with its two transferers.

     lib/dockerregistry/storage_driver.go   KrakenStorageDriver: GetContent PutContent Reader Writer Stat List
                                            Move Delete URLFor Walk, dispatch on the path kind, toDriverError
     lib/dockerregistry/uploads.go          casUploads / disabledUploads (the _uploads/<uuid>/... files)
     lib/dockerregistry/blobs.go            blobs (the /blobs/sha256/../data and _layers links)
     lib/dockerregistry/manifests.go        manifests (tag and revision links, tag listing, verification hook)
     lib/dockerregistry/metadata.go         startedat / hashstates upload metadata
     lib/dockerregistry/transfer/rw_transferer.go   proxy: local CAStore cache + origin cluster + build-index
     lib/dockerregistry/transfer/ro_transferer.go   agent: CADownloadStore cache + torrent scheduler + build-index

   Shape.  The driver is called concurrently by the registry's HTTP handlers.  One driver call is one or more
   SEGMENTS: the code from the call (or from the return of a dependency call) up to the next dependency call (or
   up to the driver's return).  Dependencies are the origin cluster client (Stat / DownloadBlob / UploadBlob),
   the build-index tag client (Get / PutAndReplicate / List), the torrent scheduler (Download) and the image
   verification hook.  Everything a segment does to the local stores happens under the stores' own locks
   (specified elsewhere: spec/store/CAStore.tla, StoreNames.tla) and is one action here; between two segments of a
   call every other caller and the environment may interleave.  A call parked at a dependency is  pc[g].st  =
   the name of that dependency ("odl" = origin DownloadBlob, ...).
   Path parsing is specified in RegistryPaths.tla; here a path is its KIND plus the components it carries.

   Blobs are content addressed: digest d names exactly the byte sequence Content(d).

   Replies are values  Rep(res, vs, vq, vn, vl)  computed in the pre-state of the segment that returns:
     res   "ok" | "notfound" (driver.PathNotFoundError for the requested path) | "invalid" (InvalidRequestError)
           | "badpath" (InvalidRegistryPathError) | "err" (anything else)
     vs    a digest ("" if none)    vq  a byte sequence    vn  a number (size / bytes written)   vl  a set of names

   Two switches describe REPAIRS of genuine defects of the code as built (see docs/ext/X01.md, fixes/X01-*.diff).
   The guarantees below hold for the repaired protocol (both TRUE); MC_RegistryDriver_asbuilt*.cfg show the
   counterexamples of the code as built.                                                                       *)
EXTENDS Integers, Sequences, FiniteSets, TLC

CONSTANTS
  D,        \* digests            (subset of {"d1","d2","d3"})
  U,        \* upload uuids
  T,        \* tags "repo:tag" of one repository
  G,        \* concurrent callers (registry handler goroutines)
  W,        \* file-writer handles
  Offs,     \* hash-state offsets (names)
  MaxLen,   \* bound on upload data length (design model only)
  Modes,    \* which drivers the design model starts as (subset of {"rw","ro"})
  Calls,    \* the argument records the design model tries (trace validation takes them from the log)
  FixUploadCleanup,  \* TRUE: a failed transferer.Upload removes the blob it just committed to the local cache
  FixRoNotFound      \* TRUE: read-only transferer maps scheduler.ErrTorrentNotFound to ErrBlobNotFound

VARIABLES
  mode,     \* "rw" (proxy) | "ro" (agent)
  up,       \* [U -> [ex, data, hs]]   upload files: exists, bytes, hash states (offset -> value, 0 = none)
  cache,    \* SUBSET D  blobs visible in the local cache (CAStore cache / CADownloadStore cache state)
  dl,       \* SUBSET D  (ro only) blobs sitting in the download state (partial torrents)
  origin,   \* SUBSET D  rw: blobs the origin cluster has; ro: blobs the torrent network can deliver
  tags,     \* [T -> D \cup {"none"}]  the build-index
  wr,       \* [W -> [u, off, open]]   writer handles
  pc,       \* [G -> call record with st]  calls in flight
  last      \* observation only: what the most recent step returned (excluded from the VIEW)

store == <<up, cache, dl, origin, tags, wr>>
vars  == <<mode, up, cache, dl, origin, tags, wr, pc, last>>
view  == <<mode, up, cache, dl, origin, tags, wr, pc>>

Range(s) == {s[i] : i \in 1..Len(s)}
Content(d) == CASE d = "d1" -> <<1, 2>> [] d = "d2" -> <<1, 2, 3>> [] d = "d3" -> <<>> [] OTHER -> <<9>>
Suffix(s, o) == IF o >= Len(s) THEN <<>> ELSE SubSeq(s, o + 1, Len(s))
Overwrite(s, o, b) ==     \* write b at offset o (o <= Len(s)), no truncation
  [i \in 1..(IF o + Len(b) > Len(s) THEN o + Len(b) ELSE Len(s)) |->
      IF i > o /\ i <= o + Len(b) THEN b[i - o] ELSE s[i]]

NoUp == [ex |-> FALSE, data |-> <<>>, hs |-> [o \in Offs |-> 0]]
NoW  == [u |-> "none", off |-> 0, open |-> FALSE]
Idle == [op |-> "idle", k |-> "-", k2 |-> "-", u |-> "-", d |-> "-", t |-> "-", o |-> 0, oo |-> "-", b |-> <<>>,
         hv |-> 0, ap |-> FALSE, w |-> "-", nr |-> FALSE, st |-> "idle"]
Rep(res, vs, vq, vn, vl) == [res |-> res, vs |-> vs, vq |-> vq, vn |-> vn, vl |-> vl]
R0(res) == Rep(res, "", <<>>, 0, {})
NoLast == [fin |-> FALSE, g |-> "-", p |-> Idle, r |-> R0("-"), out |-> "-"]

\* path kinds and the component of the driver they are dispatched to
UpKinds  == {"startedat", "hashstate", "hsdir", "updata"}
ManKinds == {"tagcur", "tagidx", "rev", "tagsdir"}
KindType(k) == IF k \in UpKinds THEN "uploads" ELSE IF k \in ManKinds THEN "manifests"
               ELSE IF k = "layer" THEN "layers" ELSE IF k = "blob" THEN "blobs" ELSE "bad"
\* storage_driver.go: which path types each operation accepts (everything else: InvalidRequestError)
Accepts(op) == CASE op = "GetContent" -> {"manifests", "uploads", "layers", "blobs"}
                 [] op = "PutContent" -> {"manifests", "uploads", "layers", "blobs"}
                 [] op = "Reader" -> {"uploads", "blobs"}
                 [] op = "Writer" -> {"uploads"}
                 [] op = "Stat" -> {"uploads", "blobs", "manifests"}
                 [] op = "List" -> {"uploads", "manifests"}
                 [] op = "Move" -> {"uploads"}
                 [] OTHER -> {}

Init == /\ mode \in Modes
        /\ up = [u \in U |-> NoUp] /\ cache = {} /\ dl = {}
        /\ origin \in SUBSET D
        /\ tags \in [T -> D \cup {"none"}]
        /\ wr = [w \in W |-> NoW] /\ pc = [g \in G |-> Idle] /\ last = NoLast

----------------------------------------------------------------------------
(* how a step ends *)
Fin(g, p, r, out) == /\ pc' = [pc EXCEPT ![g] = Idle]
                     /\ last' = [fin |-> TRUE, g |-> g, p |-> p, r |-> r, out |-> out]
Park(g, p, st)    == /\ pc' = [pc EXCEPT ![g] = [p EXCEPT !.st = st]]
                     /\ last' = NoLast

(* the blob p.d is in the local cache and a reader on it is open: what the caller does with it
   (blobs.getCacheReaderHelper / blobs.stat / manifests.getDigest) *)
AfterBlob(g, p, out) ==
  IF p.op = "Stat" THEN Fin(g, p, Rep("ok", "", <<>>, Len(Content(p.d)), {}), out)
  ELSE IF p.k = "blob" /\ p.op = "GetContent" THEN Fin(g, p, Rep("ok", "", Content(p.d), 0, {}), out)
  ELSE IF p.k = "blob" /\ p.op = "Reader"
       THEN IF p.o < 0 THEN Fin(g, p, R0("err"), out)
            ELSE Fin(g, p, Rep("ok", "", Suffix(Content(p.d), p.o), 0, {}), out)
  ELSE Park(g, p, "ver")          \* manifests.getDigest: the verification hook sees the blob next

(* transferer.Download / transferer.Stat(ro): cache hit, else ask origin (rw) / the scheduler (ro).
   rw Stat has its own miss path (origin Stat). *)
Fetch(g, p, out) ==
  IF p.d \in cache THEN AfterBlob(g, p, out)
  ELSE IF mode = "ro" THEN Park(g, p, "sdl")
  ELSE IF p.op = "Stat" THEN Park(g, p, "ost")
  ELSE Park(g, p, "odl")

----------------------------------------------------------------------------
(* Call(g, c): the first segment of a driver call.  c carries the arguments:
   op, k (path kind), k2 (Move: kind of the destination), u, d, t, o (reader offset), oo (hash-state offset),
   b (content / bytes to write), hv (hash-state value), ap (Writer append), w (handle), nr (context without repo) *)
NoHandleOn(u) == \A w \in W : wr[w].open => wr[w].u # u

CallUploadsRW(g, c) ==
  LET x == up[c.u] IN
  CASE c.op = "GetContent" ->
         /\ UNCHANGED store
         /\ IF c.k = "updata" THEN Fin(g, c, R0("invalid"), "call")
            ELSE IF c.k = "hsdir" THEN Fin(g, c, R0("badpath"), "call")
            ELSE IF ~x.ex THEN Fin(g, c, R0("notfound"), "call")
            ELSE IF c.k = "startedat" THEN Fin(g, c, R0("ok"), "call")
            ELSE IF x.hs[c.oo] = 0 THEN Fin(g, c, R0("notfound"), "call")
            ELSE Fin(g, c, Rep("ok", "", <<>>, x.hs[c.oo], {}), "call")
    [] c.op = "Reader" ->
         /\ UNCHANGED store
         /\ IF c.k # "updata" THEN Fin(g, c, R0("invalid"), "call")
            ELSE IF ~x.ex THEN Fin(g, c, R0("notfound"), "call")
            ELSE IF c.o < 0 THEN Fin(g, c, R0("err"), "call")
            ELSE Fin(g, c, Rep("ok", "", Suffix(x.data, c.o), 0, {}), "call")
    [] c.op = "PutContent" ->
         IF c.k = "updata" THEN UNCHANGED store /\ Fin(g, c, R0("invalid"), "call")
         ELSE IF c.k = "hsdir" THEN UNCHANGED store /\ Fin(g, c, R0("badpath"), "call")
         ELSE IF c.k = "startedat"
              THEN IF x.ex THEN UNCHANGED store /\ Fin(g, c, R0("err"), "call")     \* CreateUploadFile: exists
                   ELSE /\ up' = [up EXCEPT ![c.u] = [NoUp EXCEPT !.ex = TRUE]]
                        /\ UNCHANGED <<cache, dl, origin, tags, wr>> /\ Fin(g, c, R0("ok"), "call")
         ELSE IF ~x.ex THEN UNCHANGED store /\ Fin(g, c, R0("notfound"), "call")
         ELSE /\ up' = [up EXCEPT ![c.u].hs[c.oo] = c.hv]
              /\ UNCHANGED <<cache, dl, origin, tags, wr>> /\ Fin(g, c, R0("ok"), "call")
    [] c.op = "Writer" ->
         IF c.k # "updata" THEN UNCHANGED store /\ Fin(g, c, R0("invalid"), "call")
         ELSE IF ~x.ex THEN UNCHANGED store /\ Fin(g, c, R0("notfound"), "call")
         ELSE /\ ~wr[c.w].open
              /\ wr' = [wr EXCEPT ![c.w] = [u |-> c.u, off |-> IF c.ap THEN Len(x.data) ELSE 0, open |-> TRUE]]
              /\ UNCHANGED <<up, cache, dl, origin, tags>> /\ Fin(g, c, R0("ok"), "call")
    [] c.op = "Stat" ->
         /\ UNCHANGED store
         /\ IF ~x.ex THEN Fin(g, c, R0("notfound"), "call")
            ELSE Fin(g, c, Rep("ok", "", <<>>, Len(x.data), {}), "call")
    [] c.op = "List" ->
         /\ UNCHANGED store
         /\ IF c.k \notin {"hashstate", "hsdir"} THEN Fin(g, c, R0("invalid"), "call")
            ELSE IF ~x.ex THEN Fin(g, c, R0("notfound"), "call")
            ELSE Fin(g, c, Rep("ok", "", <<>>, 0, {o \in Offs : x.hs[o] # 0}), "call")
    [] c.op = "Move" ->
         \* uploads.move: MoveUploadFileToCache (verify, rename, the upload is deleted whatever happens),
         \* GetCacheFileReader, then transferer.Upload
         IF c.k2 # "blob" THEN UNCHANGED store /\ Fin(g, c, R0("err"), "call")
         ELSE IF ~x.ex THEN UNCHANGED store /\ Fin(g, c, R0("notfound"), "call")
         ELSE /\ NoHandleOn(c.u)             \* caller discipline: writers are closed before the commit
              /\ up' = [up EXCEPT ![c.u] = NoUp]
              /\ UNCHANGED <<dl, origin, tags, wr>>
              /\ IF x.data # Content(c.d) \/ c.d \in cache
                 THEN cache' = cache /\ Fin(g, c, R0("err"), "call")      \* digest mismatch / already cached
                 ELSE cache' = cache \cup {c.d} /\ Park(g, c, "oup")

CallBlobs(g, c) ==
  CASE c.op = "PutContent" ->
         \* uploads.putBlobContent: CreateCacheFile (verified; an existing file is fine) then transferer.Upload
         IF mode = "ro" THEN UNCHANGED store /\ Fin(g, c, R0("err"), "call")
         ELSE IF c.b # Content(c.d) THEN UNCHANGED store /\ Fin(g, c, R0("err"), "call")
         ELSE /\ cache' = cache \cup {c.d} /\ UNCHANGED <<up, dl, origin, tags, wr>> /\ Park(g, c, "oup")
    [] OTHER ->     \* GetContent / Reader / Stat: need the repository name from the context
         /\ UNCHANGED store
         /\ IF c.nr THEN Fin(g, c, R0("err"), "call") ELSE Fetch(g, c, "call")

CallManifests(g, c) ==
  CASE c.op = "GetContent" ->
         /\ UNCHANGED store
         /\ IF c.k = "tagsdir" THEN Fin(g, c, R0("err"), "call")
            ELSE IF c.k = "rev" THEN Fetch(g, c, "call")
            ELSE Park(g, c, "tget")
    [] c.op = "PutContent" ->
         /\ UNCHANGED store
         /\ IF c.k = "tagsdir" THEN Fin(g, c, R0("err"), "call")
            ELSE IF c.k # "tagidx" THEN Fin(g, c, R0("ok"), "call")        \* revisions, tags/<t>/current: no-op
            ELSE IF mode = "ro" THEN Fin(g, c, R0("err"), "call")          \* PutTag: not supported
            ELSE Park(g, c, "tput")
    [] c.op = "Stat" ->
         /\ UNCHANGED store
         /\ IF c.k \in {"tagcur", "tagidx"} THEN Park(g, c, "tget") ELSE Fin(g, c, R0("err"), "call")
    [] c.op = "List" ->
         /\ UNCHANGED store
         /\ IF mode = "ro" THEN Fin(g, c, R0("err"), "call") ELSE Park(g, c, "tlist")

\* handle methods of the FileWriter returned by Writer (store/base localFileReadWriter)
CallHandle(g, c) ==
  LET h == wr[c.w] IN
  /\ h.u # "none"
  /\ CASE c.op = "WWrite" ->
            IF ~h.open THEN UNCHANGED store /\ Fin(g, c, R0("err"), "call")
            ELSE /\ h.off + Len(c.b) <= MaxLen
                 /\ up' = [up EXCEPT ![h.u].data = Overwrite(@, h.off, c.b)]
                 /\ wr' = [wr EXCEPT ![c.w].off = @ + Len(c.b)]
                 /\ UNCHANGED <<cache, dl, origin, tags>>
                 /\ Fin(g, c, Rep("ok", "", <<>>, Len(c.b), {}), "call")
       [] c.op = "WSize" ->
            /\ UNCHANGED store
            /\ Fin(g, c, Rep("ok", "", <<>>, IF up[h.u].ex THEN Len(up[h.u].data) ELSE 0, {}), "call")
       [] OTHER ->       \* WClose / WCommit / WCancel: all three just close the descriptor
            IF ~h.open THEN UNCHANGED store /\ Fin(g, c, R0("err"), "call")
            ELSE /\ wr' = [wr EXCEPT ![c.w].open = FALSE]
                 /\ UNCHANGED <<up, cache, dl, origin, tags>> /\ Fin(g, c, R0("ok"), "call")

HandleOps == {"WWrite", "WSize", "WClose", "WCommit", "WCancel"}

Call(g, c) ==
  /\ pc[g].st = "idle"
  /\ UNCHANGED mode
  /\ IF c.op \in HandleOps THEN CallHandle(g, c)
     ELSE IF c.op = "Delete" THEN UNCHANGED store /\ Fin(g, c, R0("notfound"), "call")
     ELSE IF c.op \in {"URLFor", "Walk"} THEN UNCHANGED store /\ Fin(g, c, R0("err"), "call")
     ELSE IF KindType(c.k) = "bad" THEN UNCHANGED store /\ Fin(g, c, R0("badpath"), "call")
     ELSE IF KindType(c.k) \notin Accepts(c.op) THEN UNCHANGED store /\ Fin(g, c, R0("invalid"), "call")
     ELSE IF KindType(c.k) = "layers"
          THEN /\ UNCHANGED store
               /\ IF c.op = "GetContent" THEN Fin(g, c, Rep("ok", c.d, <<>>, 0, {}), "call")
                  ELSE Fin(g, c, R0("ok"), "call")
     ELSE IF KindType(c.k) = "uploads"
          THEN IF mode = "ro" THEN UNCHANGED store /\ Fin(g, c, R0("err"), "call")    \* disabledUploads
               ELSE CallUploadsRW(g, c)
     ELSE IF KindType(c.k) = "blobs" THEN CallBlobs(g, c)
     ELSE CallManifests(g, c)

----------------------------------------------------------------------------
(* Dep(g, out): the dependency call a caller is parked at returns outcome out, and the caller runs its next segment *)
Dep(g, out) ==
  LET p == pc[g] IN
  /\ UNCHANGED mode
  /\ \/ p.st = "tget" /\          \* tagclient.Get
            /\ UNCHANGED store
            /\ CASE out = "ok" -> /\ tags[p.t] # "none"
                                  /\ IF p.op = "Stat" THEN Fin(g, p, Rep("ok", "", <<>>, 64, {}), out)
                                     ELSE Fetch(g, [p EXCEPT !.d = tags[p.t]], out)
                 [] out = "nf" -> tags[p.t] = "none" /\ Fin(g, p, R0("notfound"), out)
                 [] out = "err" -> Fin(g, p, R0("err"), out)
     \/ p.st = "odl" /\           \* origin DownloadBlob into a temporary upload file, verified, moved into the cache
            /\ mode = "rw"
            /\ CASE out = "ok" -> /\ p.d \in origin
                                  /\ cache' = cache \cup {p.d} /\ UNCHANGED <<up, dl, origin, tags, wr>>
                                  /\ AfterBlob(g, p, out)
                 [] out = "corrupt" -> UNCHANGED store /\ Fin(g, p, R0("err"), out)   \* wrong bytes: verification refuses
                 [] out = "nf" -> p.d \notin origin /\ UNCHANGED store /\ Fin(g, p, R0("notfound"), out)
                 [] out = "err" -> UNCHANGED store /\ Fin(g, p, R0("err"), out)
     \/ p.st = "ost" /\           \* origin Stat: every failure counts as "not found" (documented: pushes must work
            /\ mode = "rw"          \* while remote storage is down)
            /\ UNCHANGED store
            /\ CASE out = "ok" -> p.d \in origin /\ Fin(g, p, Rep("ok", "", <<>>, Len(Content(p.d)), {}), out)
                 [] out = "nf" -> p.d \notin origin /\ Fin(g, p, R0("notfound"), out)
                 [] out = "err" -> Fin(g, p, R0("notfound"), out)
     \/ p.st = "oup" /\           \* transferer.Upload (origin UploadBlob) of the blob just committed to the cache
            /\ mode = "rw"
            /\ CASE out = "ok" -> /\ origin' = origin \cup {p.d} /\ UNCHANGED <<up, cache, dl, tags, wr>>
                                  /\ Fin(g, p, R0("ok"), out)
                 [] out = "err" -> /\ cache' = IF FixUploadCleanup THEN cache \ {p.d} ELSE cache
                                   /\ UNCHANGED <<up, dl, origin, tags, wr>>
                                   /\ Fin(g, p, R0("err"), out)
     \/ p.st = "tput" /\          \* tagclient.PutAndReplicate
            /\ mode = "rw"
            /\ CASE out = "ok" -> /\ tags' = [tags EXCEPT ![p.t] = p.d] /\ UNCHANGED <<up, cache, dl, origin, wr>>
                                  /\ Fin(g, p, R0("ok"), out)
                 [] out = "err" -> UNCHANGED store /\ Fin(g, p, R0("err"), out)
     \/ p.st = "tlist" /\         \* tagclient.List
            /\ mode = "rw"
            /\ UNCHANGED store
            /\ CASE out = "ok" -> Fin(g, p, Rep("ok", "", <<>>, 0, {t \in T : tags[t] # "none"}), out)
                 [] out = "err" -> Fin(g, p, R0("err"), out)
     \/ p.st = "sdl" /\           \* scheduler.Download (agent): the torrent lands in the cache, or not
            /\ mode = "ro"
            /\ CASE out = "ok" -> /\ p.d \in origin
                                  /\ cache' = cache \cup {p.d} /\ dl' = dl \ {p.d}
                                  /\ UNCHANGED <<up, origin, tags, wr>>
                                  /\ AfterBlob(g, p, out)
                 [] out = "partial" -> /\ dl' = IF p.d \in cache THEN dl ELSE dl \cup {p.d}
                                       /\ UNCHANGED <<up, cache, origin, tags, wr>>
                                       /\ Fin(g, p, R0("err"), out)
                 [] out = "nf" -> /\ p.d \notin origin /\ UNCHANGED store
                                  /\ Fin(g, p, R0(IF FixRoNotFound THEN "notfound" ELSE "err"), out)
                 [] out = "err" -> UNCHANGED store /\ Fin(g, p, R0("err"), out)
     \/ p.st = "ver" /\           \* image verification hook: its verdict (skip/allow/deny/err) is not enforced
            /\ out \in {"skip", "allow", "deny", "err"}
            /\ UNCHANGED store /\ Fin(g, p, Rep("ok", p.d, <<>>, 0, {}), out)

DepOuts(st) == CASE st = "tget" -> {"ok", "nf", "err"} [] st = "odl" -> {"ok", "corrupt", "nf", "err"}
                 [] st = "ost" -> {"ok", "nf", "err"} [] st = "oup" -> {"ok", "err"} [] st = "tput" -> {"ok", "err"}
                 [] st = "tlist" -> {"ok", "err"} [] st = "sdl" -> {"ok", "partial", "nf", "err"}
                 [] st = "ver" -> {"skip", "allow", "deny", "err"} [] OTHER -> {}

(* environment: the cache evicts a blob (TTL / capacity cleanup of the local store) *)
Evict(d) == /\ d \in cache /\ cache' = cache \ {d}
            /\ UNCHANGED <<mode, up, dl, origin, tags, wr, pc>> /\ last' = NoLast

\* one named action per dependency and per family of calls (so that coverage shows each of them taken)
DepTagGet(g, out)         == pc[g].st = "tget" /\ Dep(g, out)
DepTagPut(g, out)         == pc[g].st = "tput" /\ Dep(g, out)
DepTagList(g, out)        == pc[g].st = "tlist" /\ Dep(g, out)
DepOriginStat(g, out)     == pc[g].st = "ost" /\ Dep(g, out)
DepOriginDownload(g, out) == pc[g].st = "odl" /\ Dep(g, out)
DepOriginUpload(g, out)   == pc[g].st = "oup" /\ Dep(g, out)
DepSchedDownload(g, out)  == pc[g].st = "sdl" /\ Dep(g, out)
DepVerify(g, out)         == pc[g].st = "ver" /\ Dep(g, out)
CallUploadPath(g, c)   == c.op \notin HandleOps /\ KindType(c.k) = "uploads" /\ Call(g, c)
CallBlobPath(g, c)     == c.op \notin HandleOps /\ KindType(c.k) \in {"blobs", "layers"} /\ Call(g, c)
CallManifestPath(g, c) == c.op \notin HandleOps /\ KindType(c.k) = "manifests" /\ Call(g, c)
CallBadPath(g, c)      == c.op \notin HandleOps /\ KindType(c.k) = "bad" /\ Call(g, c)
CallWriterHandle(g, c) == c.op \in HandleOps /\ Call(g, c)
Next == \/ \E g \in G :
           \/ \E c \in Calls : \/ CallUploadPath(g, c) \/ CallBlobPath(g, c) \/ CallManifestPath(g, c)
                                \/ CallBadPath(g, c) \/ CallWriterHandle(g, c)
           \/ \E out \in DepOuts("tget") : DepTagGet(g, out)
           \/ \E out \in DepOuts("tput") : DepTagPut(g, out)
           \/ \E out \in DepOuts("tlist") : DepTagList(g, out)
           \/ \E out \in DepOuts("ost") : DepOriginStat(g, out)
           \/ \E out \in DepOuts("odl") : DepOriginDownload(g, out)
           \/ \E out \in DepOuts("oup") : DepOriginUpload(g, out)
           \/ \E out \in DepOuts("sdl") : DepSchedDownload(g, out)
           \/ \E out \in DepOuts("ver") : DepVerify(g, out)
        \/ \E d \in D : Evict(d)
Spec == Init /\ [][Next]_vars
\* every dependency call returns (with some outcome): then every driver call returns
FairSpec == Spec /\ \A g \in G : WF_vars(\E out \in DepOuts(pc[g].st) : Dep(g, out))
Termination == \A g \in G : (pc[g].st # "idle") ~> (pc[g].st = "idle")

----------------------------------------------------------------------------
(* Guarantees *)

Uploading(d) == \E g \in G : pc[g].st = "oup" /\ pc[g].d = d

\* G1 (no half-visible blob): on the proxy every blob visible in the local cache is in the origin cluster, except
\* while the call that committed it is still uploading it.  A blob that is visible but was never uploaded makes
\* Stat answer "exists", docker skips the layer, and the image can never be completed (until the cache evicts it).
VisibleImpliesUploaded == mode = "rw" => \A d \in cache : d \in origin \/ Uploading(d)

\* G2: an open writer never points beyond the end of its upload, and its upload exists
WriterWithin == \A w \in W : wr[w].open => up[wr[w].u].ex /\ wr[w].off <= Len(up[wr[w].u].data)

\* G3: the agent has no partial download of a blob it serves
RoStates == (mode = "rw" => dl = {}) /\ cache \cap dl = {}

\* G4 (commit visibility): a blob becomes visible only through a step that verified its content: the commit of an
\* upload whose bytes are exactly Content(d), a PutContent of exactly Content(d), or a download that delivered it
AppearsOnlyVerifiedA ==
  \A d \in cache' \ cache :
       \E g \in G :
          \/ pc[g].st = "idle" /\ pc'[g].st = "oup" /\ pc'[g].d = d
             /\ (pc'[g].op = "Move" => up[pc'[g].u].data = Content(d) /\ ~up'[pc'[g].u].ex)
             /\ (pc'[g].op = "PutContent" => pc'[g].b = Content(d))
          \/ pc[g].st \in {"odl", "sdl"} /\ pc[g].d = d /\ d \in origin
AppearsOnlyVerified == [][AppearsOnlyVerifiedA]_vars

\* G5 (only then uploaded): the origin receives a blob only from a call that first committed it locally, and the
\* upload starts only when the blob is visible
UploadOnlyCommittedA ==
  /\ \A d \in origin' \ origin : \E g \in G : pc[g].st = "oup" /\ pc[g].d = d /\ pc'[g].st = "idle"
  /\ \A g \in G : (pc'[g].st = "oup" /\ pc[g].st # "oup") => pc'[g].d \in cache'
UploadOnlyCommitted == [][UploadOnlyCommittedA]_vars

\* G6: Move / PutContent(blob) answer ok only when the blob is in the origin cluster (so the registry, which tags
\* after these calls succeeded, never tags an image whose blobs were not uploaded) ...
OkMeansUploadedA ==
  (last'.fin /\ last'.r.res = "ok" /\ (last'.p.op = "Move" \/ (last'.p.op = "PutContent" /\ last'.p.k = "blob")))
       => last'.p.d \in origin'
OkMeansUploaded == [][OkMeansUploadedA]_vars
\* ... and when they fail the blob is not left visible unless the origin has it
FailedCommitNotVisibleA ==
  (last'.fin /\ last'.r.res # "ok" /\ last'.out # "call"
      /\ (last'.p.op = "Move" \/ (last'.p.op = "PutContent" /\ last'.p.k = "blob")))
       => (last'.p.d \notin cache' \/ last'.p.d \in origin' \/ \E g \in G : pc'[g].st = "oup" /\ pc'[g].d = last'.p.d)
FailedCommitNotVisible == [][FailedCommitNotVisibleA]_vars

\* G7: a tag changes only by a successful PutAndReplicate of exactly (tag, digest); a failed one leaves no tag
TagOnlyByPutA ==
  tags' # tags => \E g \in G : pc[g].st = "tput" /\ tags' = [tags EXCEPT ![pc[g].t] = pc[g].d]
                                  /\ last'.fin /\ last'.r.res = "ok"
TagOnlyByPut == [][TagOnlyByPutA]_vars

\* G8 (offsets): upload bytes change only by a Write through a handle, exactly at the handle's offset; nothing else
\* of the upload changes; an upload disappears only by Move
WriteFrameA ==
  \A u \in U :
       /\ (up[u].ex /\ up'[u].ex /\ up'[u].data # up[u].data) =>
            \E w \in W : /\ wr[w].open /\ wr[w].u = u /\ last'.fin /\ last'.p.op = "WWrite" /\ last'.p.w = w
                         /\ up'[u].data = Overwrite(up[u].data, wr[w].off, last'.p.b)
                         /\ wr'[w].off = wr[w].off + Len(last'.p.b)
       /\ (up[u].ex /\ ~up'[u].ex) => (last'.p.op = "Move" \/ \E g \in G : pc'[g].op = "Move" /\ pc[g].st = "idle")
WriteFrame == [][WriteFrameA]_vars

\* G9: the read-only driver never writes: no upload, no tag, no writer handle, nothing pushed; its cache changes
\* only by scheduler downloads (and evictions)
RoNeverWritesA ==
  mode = "ro" => /\ up' = up /\ tags' = tags /\ wr' = wr /\ origin' = origin
                 /\ \A d \in cache' \ cache : \E g \in G : pc[g].st = "sdl" /\ pc[g].d = d
                 /\ \A g \in G : pc'[g].st \notin {"odl", "ost", "oup", "tput", "tlist"}
RoNeverWrites == [][RoNeverWritesA]_vars

\* G10 (error classes): "not found" is answered only when the thing is absent (or, documented, when the origin
\* cannot be asked about a blob); a failing dependency is never reported as success or as "not found"
NotFoundJustifiedA ==
  (last'.fin /\ last'.r.res = "notfound") =>
       LET p == last'.p IN
       \/ p.op = "Delete"
       \/ KindType(p.k) = "uploads" /\ last'.out = "call"
          /\ (~up[p.u].ex \/ (p.op = "GetContent" /\ p.k = "hashstate" /\ up[p.u].hs[p.oo] = 0))
       \/ p.st = "tget" /\ tags[p.t] = "none" /\ last'.out = "nf"
       \/ p.st \in {"odl", "sdl"} /\ p.d \notin origin /\ last'.out = "nf"
       \/ p.st = "ost" /\ last'.out \in {"nf", "err"}
NotFoundJustified == [][NotFoundJustifiedA]_vars
\* ... and conversely: when the dependency says the blob / tag does not exist, the driver answers "not found"
\* (docker then answers 404 "blob unknown" / "manifest unknown"; any other error class becomes a 500)
NotFoundReportedA ==
  (last'.fin /\ last'.out = "nf") => last'.r.res = "notfound"
NotFoundReported == [][NotFoundReportedA]_vars
FaultNotMaskedA ==
  (last'.fin /\ last'.out \in {"err", "corrupt", "partial"} /\ last'.p.st \notin {"ost", "ver"}) => last'.r.res = "err"
FaultNotMasked == [][FaultNotMaskedA]_vars
\* Delete is not supported: always "not found", nothing changes
DeleteNoopA ==
  (last'.fin /\ last'.p.op = "Delete") => (last'.r.res = "notfound" /\ store' = store)
DeleteNoop == [][DeleteNoopA]_vars

TypeOK == /\ mode \in {"rw", "ro"} /\ cache \subseteq D /\ dl \subseteq D /\ origin \subseteq D
          /\ \A t \in T : tags[t] \in D \cup {"none"}
          /\ \A u \in U : up[u].ex \in BOOLEAN /\ (~up[u].ex => up[u] = NoUp)

Inv == TypeOK /\ VisibleImpliesUploaded /\ WriterWithin /\ RoStates
=============================================================================
