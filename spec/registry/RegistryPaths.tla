--------------------------- MODULE RegistryPaths ---------------------------
(* Specification of lib/dockerregistry/paths.go (property C38): the docker registry storage
   layout as a grammar over path segments, and what ParsePath and the Get* extractors must
   answer for a path.

   A path is a sequence of segment tokens.  Tokens are either layout keywords (themselves) or
   stand for a class of real strings (repository component, tag, sha256 hex digest, two
   character shard, upload uuid, hash algorithm, offset, several kinds of junk); the classes
   the grammar cares about are given as constant sets (what the code tests with [0-9a-z]+,
   [a-zA-Z0-9]+, [0-9]+, "is a valid sha256 hex").

   Layout (root = the registry root, e.g. /docker/registry/v2; repo = one or more segments):
     root/repositories/repo/_manifests/revisions/sha256/<hex>/link          manifest revision
     root/repositories/repo/_manifests/revisions                            (directory)
     root/repositories/repo/_manifests/tags/<tag>/current/link              tag, current
     root/repositories/repo/_manifests/tags/<tag>/index/sha256/<hex>/link   tag, index entry
     root/repositories/repo/_manifests/tags                                 (directory, listed)
     root/repositories/repo/_layers/sha256/<hex>/link | data                layer link
     root/repositories/repo/_uploads/<uuid>/data | startedat
     root/repositories/repo/_uploads/<uuid>/hashstates/<algo>[/<offset>]
     root/blobs/sha256/<2 chars>/<hex>/data                                 blob

   Property C38, two halves:
   (1) BUILT paths -- built from the registry root, a valid repository, tag, digest or upload
       id: ParsePath returns the kind that was built and every extractor whose component the
       kind has returns exactly that component (BuiltOK).
   (2) any other path (the driver applies single mutations to built paths): if it cannot be
       built from ANY root / repository / components (Parses = {}) it must be rejected, i.e. not
       (ParsePath succeeds and the extractors the storage driver applies to the reported kind
       all succeed); if it can, the answers must be those of one way to build it (MutatedOK;
       when every such way needs a repository containing a reserved keyword, rejection is fine too).
       The code is deliberately root-agnostic ("^.+/"), so for mutated paths the root is any
       non-empty prefix and a repository is any non-empty segment sequence.                  *)
EXTENDS Sequences, FiniteSets, Integers
CONSTANTS Hex64,      \* tokens that are valid sha256 hex digests (64 lower-case hex characters)
          Len2,       \* tokens made of exactly two characters of [0-9a-z]
          Alnum,      \* tokens matching [a-zA-Z0-9]+
          Digits,     \* tokens matching [0-9]+
          RepoComps, TagToks, UuidToks, AlgoToks, OffToks,   \* universes for the design model
          MaxRepoDepth, JunkToks
VARIABLE last         \* the path most recently classified (the module is a pure function library)
vars == <<last>>
Root0 == <<"docker", "registry", "v2">>   \* the registry root the built paths use (cf. _repositoryRoot)

Range(s) == {s[i] : i \in 1..Len(s)}
Reserved == {"_manifests", "_layers", "_uploads"}
None == "-"                         \* absent component
Comp(kind, repo, tag, digest, uuid, algo, off) ==
  [kind |-> kind, repo |-> repo, tag |-> tag, digest |-> digest, uuid |-> uuid, algo |-> algo, off |-> off]

----------------------------------------------------------------------------
(* The grammar: which components a suffix (starting at its reserved keyword) encodes *)
SuffixParses(s, repo) ==
  LET n == Len(s) IN
  (IF n = 5 /\ s[1] = "_manifests" /\ s[2] = "revisions" /\ s[3] = "sha256" /\ s[4] \in Hex64 /\ s[5] = "link"
     THEN {Comp("revision", repo, None, s[4], None, None, None)} ELSE {})
  \cup (IF n = 2 /\ s[1] = "_manifests" /\ s[2] = "revisions"
     THEN {Comp("revisions_dir", repo, None, None, None, None, None)} ELSE {})
  \cup (IF n = 5 /\ s[1] = "_manifests" /\ s[2] = "tags" /\ s[4] = "current" /\ s[5] = "link"
     THEN {Comp("tag_current", repo, s[3], None, None, None, None)} ELSE {})
  \cup (IF n = 7 /\ s[1] = "_manifests" /\ s[2] = "tags" /\ s[4] = "index" /\ s[5] = "sha256" /\ s[6] \in Hex64 /\ s[7] = "link"
     THEN {Comp("tag_index", repo, s[3], s[6], None, None, None)} ELSE {})
  \cup (IF n = 2 /\ s[1] = "_manifests" /\ s[2] = "tags"
     THEN {Comp("tags_dir", repo, None, None, None, None, None)} ELSE {})
  \cup (IF n = 4 /\ s[1] = "_layers" /\ s[2] = "sha256" /\ s[3] \in Hex64 /\ s[4] \in {"link", "data"}
     THEN {Comp(IF s[4] = "link" THEN "layer_link" ELSE "layer_data", repo, None, s[3], None, None, None)} ELSE {})
  \cup (IF n = 3 /\ s[1] = "_uploads" /\ s[3] \in {"data", "startedat"}
     THEN {Comp(IF s[3] = "data" THEN "upload_data" ELSE "upload_startedat", repo, None, None, s[2], None, None)} ELSE {})
  \cup (IF n = 4 /\ s[1] = "_uploads" /\ s[3] = "hashstates" /\ s[4] \in Alnum
     THEN {Comp("upload_hs", repo, None, None, s[2], s[4], None)} ELSE {})
  \cup (IF n = 5 /\ s[1] = "_uploads" /\ s[3] = "hashstates" /\ s[4] \in Alnum /\ s[5] \in Digits
     THEN {Comp("upload_hs_off", repo, None, None, s[2], s[4], s[5])} ELSE {})

\* every way to build p from some root (non-empty), repository (non-empty) and components
RepoParses(p) ==
  UNION { UNION { SuffixParses(SubSeq(p, j, Len(p)), SubSeq(p, i + 1, j - 1)) :
                    j \in {k \in i + 2..Len(p) : p[k] \in Reserved} } :
          i \in {k \in 2..Len(p) : p[k] = "repositories"} }
BlobParses(p) ==
  LET n == Len(p) IN
  IF n >= 6 /\ p[n - 4] = "blobs" /\ p[n - 3] = "sha256" /\ p[n - 2] \in Len2 /\ p[n - 1] \in Hex64 /\ p[n] = "data"
  THEN {Comp("blob", <<>>, None, p[n - 1], None, None, None)} ELSE {}
Parses(p) == RepoParses(p) \cup BlobParses(p)

\* building a path from the registry root and components
Build(c) ==
  LET pre == Root0 \o <<"repositories">> \o c.repo IN
  CASE c.kind = "revision"         -> pre \o <<"_manifests", "revisions", "sha256", c.digest, "link">>
    [] c.kind = "revisions_dir"    -> pre \o <<"_manifests", "revisions">>
    [] c.kind = "tag_current"      -> pre \o <<"_manifests", "tags", c.tag, "current", "link">>
    [] c.kind = "tag_index"        -> pre \o <<"_manifests", "tags", c.tag, "index", "sha256", c.digest, "link">>
    [] c.kind = "tags_dir"         -> pre \o <<"_manifests", "tags">>
    [] c.kind = "layer_link"       -> pre \o <<"_layers", "sha256", c.digest, "link">>
    [] c.kind = "layer_data"       -> pre \o <<"_layers", "sha256", c.digest, "data">>
    [] c.kind = "upload_data"      -> pre \o <<"_uploads", c.uuid, "data">>
    [] c.kind = "upload_startedat" -> pre \o <<"_uploads", c.uuid, "startedat">>
    [] c.kind = "upload_hs"        -> pre \o <<"_uploads", c.uuid, "hashstates", c.algo>>
    [] c.kind = "upload_hs_off"    -> pre \o <<"_uploads", c.uuid, "hashstates", c.algo, c.off>>
    [] c.kind = "blob"             -> Root0 \o <<"blobs", "sha256", c.tag, c.digest, "data">>   \* c.tag carries the shard

\* what ParsePath must report for a kind
TypeOf(kind) ==
  CASE kind \in {"revision", "revisions_dir"} -> <<"_manifests", "revisions">>
    [] kind \in {"tag_current", "tag_index", "tags_dir"} -> <<"_manifests", "tags">>
    [] kind = "layer_link" -> <<"_layers", "link">>
    [] kind = "layer_data" -> <<"_layers", "data">>
    [] kind = "upload_data" -> <<"_uploads", "data">>
    [] kind = "upload_startedat" -> <<"_uploads", "startedat">>
    [] kind \in {"upload_hs", "upload_hs_off"} -> <<"_uploads", "hashstates">>
    [] kind = "blob" -> <<"blobs", "data">>

----------------------------------------------------------------------------
(* Replies of the real functions, as logged: a record
     [perr, type, sub,            ParsePath: error?, type, subtype
      repo,                       GetRepo: segment sequence, or <<"!err">>
      tag, cur,                   GetManifestTag: tag or "!err", isCurrent
      md, ld, bd,                 GetManifestDigest / GetLayerDigest / GetBlobDigest: hex token or "!err"
      uuid, algo, off]            GetUploadUUID, GetUploadAlgoAndOffset (both "!err" on error)            *)
E == "!err"

\* the answers agree with components c: ParsePath reports c's kind and every extractor whose component c
\* has returns exactly it (extractors for components c does not have are not constrained by the property).
\* strict = the path was built from c.  For other paths that can be read as c, a repository that itself
\* contains a reserved keyword (docker never generates one) may be reported up to any of those keywords.
RepoAgrees(x, repo, strict) ==
  \/ x = repo
  \/ ~strict /\ \E k \in 1..Len(repo) - 1 : repo[k + 1] \in Reserved /\ x = SubSeq(repo, 1, k)
Agrees(r, c, strict) ==
  /\ ~r.perr /\ <<r.type, r.sub>> = TypeOf(c.kind)
  /\ (c.kind # "blob" => RepoAgrees(r.repo, c.repo, strict))
  /\ (c.kind \in {"tag_current", "tag_index"} => r.tag = c.tag /\ r.cur = (c.kind = "tag_current"))
  /\ (c.kind \in {"revision", "tag_index"} => r.md = c.digest)
  /\ (c.kind \in {"layer_link", "layer_data"} => r.ld = c.digest)
  /\ (c.kind = "blob" => r.bd = c.digest)
  /\ (c.kind \in {"upload_data", "upload_startedat", "upload_hs", "upload_hs_off"} => r.uuid = c.uuid)
  /\ (c.kind = "upload_hs_off" => r.algo = c.algo /\ r.off = c.off)

\* the storage driver would act on the path: classification succeeds and so do the extractors it applies
\* to the reported kind (GetRepo for everything below a repository)
Accepted(r, p) ==
  /\ ~r.perr
  /\ CASE r.type = "_manifests" ->
            /\ r.repo # <<E>>
            /\ \/ p[Len(p)] \in {"tags", "revisions"}                       \* directory form
               \/ IF r.sub = "tags" THEN r.tag # E /\ (r.cur \/ r.md # E) ELSE r.md # E
       [] r.type = "_uploads" -> r.repo # <<E>> /\ r.uuid # E
       [] r.type = "_layers"  -> r.repo # <<E>> /\ r.ld # E
       [] r.type = "blobs"    -> r.bd # E
       [] OTHER -> FALSE

\* (1) a path built from components c
BuiltOK(r, c) == Agrees(r, c, TRUE)
\* (2) any other path.  If it can be built from components docker could have produced (no reserved keyword
\* inside the repository) the answers must be those of one way to build it.  If every way to build it needs a
\* repository that contains a reserved keyword, rejecting it is as good as answering for one of those ways.
\* If it cannot be built at all it must be rejected.
Plain(c) == \A k \in 1..Len(c.repo) : c.repo[k] \notin Reserved
MutatedOK(r, p) ==
  IF \E c \in Parses(p) : Plain(c) THEN \E c \in Parses(p) : Agrees(r, c, FALSE)
  ELSE ~Accepted(r, p) \/ \E c \in Parses(p) : Agrees(r, c, FALSE)

----------------------------------------------------------------------------
(* Design model: the case space (built paths and their single mutations) and the grammar lemmas *)
RepoSeqs == UNION {[1..n -> RepoComps] : n \in 1..MaxRepoDepth}
Shard(h) == "sh-" \o h
BuiltComps ==
     {Comp(k, rp, None, h, None, None, None) : k \in {"revision", "layer_link", "layer_data"}, rp \in RepoSeqs, h \in Hex64}
  \cup {Comp(k, rp, None, None, None, None, None) : k \in {"revisions_dir", "tags_dir"}, rp \in RepoSeqs}
  \cup {Comp("tag_current", rp, t, None, None, None, None) : rp \in RepoSeqs, t \in TagToks}
  \cup {Comp("tag_index", rp, t, h, None, None, None) : rp \in RepoSeqs, t \in TagToks, h \in Hex64}
  \cup {Comp(k, rp, None, None, u, None, None) : k \in {"upload_data", "upload_startedat"}, rp \in RepoSeqs, u \in UuidToks}
  \cup {Comp("upload_hs", rp, None, None, u, a, None) : rp \in RepoSeqs, u \in UuidToks, a \in AlgoToks}
  \cup {Comp("upload_hs_off", rp, None, None, u, a, o) : rp \in RepoSeqs, u \in UuidToks, a \in AlgoToks, o \in OffToks}
  \cup {Comp("blob", <<>>, Shard(h), h, None, None, None) : h \in Hex64}

\* single mutations of a path: drop, duplicate, swap neighbours, insert or substitute a junk token
Mutations(p) ==
     {SubSeq(p, 1, i - 1) \o SubSeq(p, i + 1, Len(p)) : i \in 1..Len(p)}
  \cup {SubSeq(p, 1, i) \o SubSeq(p, i, Len(p)) : i \in 1..Len(p)}
  \cup {SubSeq(p, 1, i - 1) \o <<p[i + 1], p[i]>> \o SubSeq(p, i + 2, Len(p)) : i \in 1..Len(p) - 1}
  \cup {SubSeq(p, 1, i) \o <<j>> \o SubSeq(p, i + 1, Len(p)) : i \in 0..Len(p), j \in JunkToks}
  \cup {SubSeq(p, 1, i - 1) \o <<j>> \o SubSeq(p, i + 1, Len(p)) : i \in 1..Len(p), j \in JunkToks}

\* the blob comp carries its shard in .tag for Build; a parse of a blob path does not report it
Norm(c) == IF c.kind = "blob" THEN [c EXCEPT !.tag = None] ELSE c

Init == last = <<>>
Classify(p) == last' = p
\* every case is classified from the initial state (the cases are independent of each other)
Next == last = <<>> /\ \E c \in BuiltComps : Classify(Build(c)) \/ \E m \in Mutations(Build(c)) : Classify(m)
Spec == Init /\ [][Next]_vars

\* with the registry root (which holds no "repositories") and repository components that are not reserved
\* keywords, every built path has exactly one parse below that root: the components it was built from
BelowRoot0(p, c) == c.kind = "blob" \/
   LET b == Len(Root0) + 1  e == b + Len(c.repo) IN
   /\ p[b] = "repositories" /\ SubSeq(p, b + 1, e) = c.repo
   /\ e < Len(p) /\ c \in SuffixParses(SubSeq(p, e + 1, Len(p)), c.repo)
Unambiguous == \A c \in BuiltComps : {d \in Parses(Build(c)) : BelowRoot0(Build(c), d)} = {Norm(c)}
\* distinct components never build the same path
Injective == \A c1, c2 \in BuiltComps : Build(c1) = Build(c2) => c1 = c2
ASSUME GrammarLemmas == Unambiguous /\ Injective

\* a parse is always a way to rebuild exactly this path from its own root
ParsesSound == \A c \in Parses(last) :
  \/ c.kind = "blob"
  \/ \E i \in 2..Len(last) : last[i] = "repositories" /\
        SubSeq(last, i + 1, i + Len(c.repo)) = c.repo /\ last[i + Len(c.repo) + 1] \in Reserved
Inv == ParsesSound
=============================================================================
