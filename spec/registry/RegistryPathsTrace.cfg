SPECIFICATION TraceSpec
CONSTANTS
  Hex64 = {"H1","H2"}
  Len2 = {"sh-H1","sh-H2","v2"}
  Alnum = {"docker","registry","v2","repositories","blobs","revisions","tags","sha256","link","data","current","index","startedat","hashstates","H1","H2","sh-H1","sh-H2","N1","J1","A1","r2","r3","HU1","HS1","HL1","HZ1","UP-docker","UP-registry","UP-v2","UP-repositories","UP-blobs","UP-revisions","UP-tags","UP-sha256","UP-link","UP-data","UP-current","UP-index","UP-startedat","UP-hashstates"}
  Digits = {"N1"}
  RepoComps = {"r1"}
  TagToks = {"t1"}
  UuidToks = {"U1"}
  AlgoToks = {"sha256"}
  OffToks = {"N1"}
  MaxRepoDepth = 1
  JunkToks = {"J1"}
INVARIANT Inv
CONSTRAINT HW
POSTCONDITION TraceAccepted
CHECK_DEADLOCK FALSE
