SPECIFICATION Spec
CONSTANTS
  D = {"d1", "d2"}
  U = {"u1"}
  T = {"t1"}
  G = {"g1", "g2"}
  W = {"w1"}
  Offs = {"o0"}
  MaxLen = 2
  Modes = {"rw"}
  Calls <- CallsReads
  FixUploadCleanup = TRUE
  FixRoNotFound = TRUE
VIEW view
INVARIANT Inv
PROPERTY AppearsOnlyVerified UploadOnlyCommitted OkMeansUploaded FailedCommitNotVisible TagOnlyByPut WriteFrame RoNeverWrites NotFoundJustified NotFoundReported FaultNotMasked DeleteNoop
