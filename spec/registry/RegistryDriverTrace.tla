------------------------ MODULE RegistryDriverTrace ------------------------
(* Trace validation of segment-level histories of the real KrakenStorageDriver + transferers (engine x01)
   against RegistryDriver.  One record per segment:
     reset  cfg.mode, cfg.origin, cfg.tagk/cfg.tagv (what the origin / network and the build-index hold)
     call   a driver call starts (arguments) and runs to its first dependency call (gate) or to its return (fin)
     dep    the dependency call g is parked at returns `out`; g runs to its next dependency call or to its return;
            a / a2 / ok2 = what the fake dependency was asked (tag, digest; namespace / bytes / prefix as expected)
     env    the cache evicts a blob
   Every record carries the reply when the driver returned (res vs vq vn vl) and a projection of the stores after
   the segment: cache (visible blobs), bad (visible blobs whose bytes do not hash to their name), dlst (partial
   downloads), ups (size of each upload file, -1 = absent).  No silent steps: the harness runs one goroutine at
   a time, so the log is the interleaving.                                                                   *)
EXTENDS RegistryDriver, Json
Trace == ndJsonDeserialize("trace.ndjson")
VARIABLE l
tvars == <<vars, l>>
R == Trace[l]
NoCalls == {}
USeq == <<"u1", "u2">>

TraceInit == /\ TLCSet(1, 0) /\ l = 1
             /\ mode = "rw" /\ up = [u \in U |-> NoUp] /\ cache = {} /\ dl = {} /\ origin = {}
             /\ tags = [t \in T |-> "none"] /\ wr = [w \in W |-> NoW] /\ pc = [g \in G |-> Idle] /\ last = NoLast
IsEvent(e) == l <= Len(Trace) /\ Trace[l].ev = e /\ l' = l + 1

UpSize(x) == IF x.ex THEN Len(x.data) ELSE -1
ObsOK == /\ cache' = Range(R.cache) /\ dl' = Range(R.dlst) /\ R.bad = <<>>
         /\ \A i \in 1..Len(USeq) : UpSize(up'[USeq[i]]) = R.ups[i]
FinOK == IF R.fin
         THEN /\ last'.fin /\ last'.g = R.g
              /\ last'.r.res = R.res /\ last'.r.vs = R.vs /\ last'.r.vq = R.vq /\ last'.r.vn = R.vn
              /\ last'.r.vl = Range(R.vl) /\ Len(R.vl) = Cardinality(Range(R.vl))
         ELSE ~last'.fin /\ pc'[R.g].st = R.gate

TReset == /\ IsEvent("reset")
          /\ mode' = R.cfg.mode /\ up' = [u \in U |-> NoUp] /\ cache' = {} /\ dl' = {}
          /\ origin' = Range(R.cfg.origin)
          /\ tags' = [t \in T |-> IF \E i \in 1..Len(R.cfg.tagk) : R.cfg.tagk[i] = t
                                  THEN R.cfg.tagv[CHOOSE i \in 1..Len(R.cfg.tagk) : R.cfg.tagk[i] = t] ELSE "none"]
          /\ wr' = [w \in W |-> NoW] /\ pc' = [g \in G |-> Idle] /\ last' = NoLast

CallRec == [op |-> R.op, k |-> R.k, k2 |-> R.k2, u |-> R.u, d |-> R.d, t |-> R.tg, o |-> R.o, oo |-> R.oo, b |-> R.b,
            hv |-> R.hv, ap |-> R.ap, w |-> R.w, nr |-> R.nr, st |-> "idle"]
TCall == /\ IsEvent("call")
         /\ Call(R.g, CallRec)
         /\ FinOK /\ ObsOK

\* the fake dependency was asked about the thing the call is about, in the right namespace, with the right bytes
ArgOK == LET p == pc[R.g] IN
         CASE R.dep = "tget" -> R.a = p.t
           [] R.dep = "tput" -> R.a = p.t /\ R.a2 = p.d
           [] R.dep = "tlist" -> (p.k = "tagsdir" => R.ok2)
           [] R.dep \in {"ost", "odl", "sdl", "oup", "ver"} -> R.a = p.d /\ R.ok2
           [] OTHER -> FALSE
TDep == /\ IsEvent("dep")
        /\ pc[R.g].st = R.dep
        /\ ArgOK
        /\ Dep(R.g, R.out)
        /\ FinOK /\ ObsOK

TEnv == /\ IsEvent("env") /\ R.what = "evict"
        /\ Evict(R.d)
        /\ ObsOK

TraceNext == TReset \/ TCall \/ TDep \/ TEnv
TraceSpec == TraceInit /\ [][TraceNext]_tvars

\* the action properties of RegistryDriver, exempting the step that starts the next trace
Rst == Trace[l].ev = "reset"
TAppearsOnlyVerified == [][Rst \/ AppearsOnlyVerifiedA]_tvars
TUploadOnlyCommitted == [][Rst \/ UploadOnlyCommittedA]_tvars
TOkMeansUploaded == [][Rst \/ OkMeansUploadedA]_tvars
TFailedCommitNotVisible == [][Rst \/ FailedCommitNotVisibleA]_tvars
TTagOnlyByPut == [][Rst \/ TagOnlyByPutA]_tvars
TWriteFrame == [][Rst \/ WriteFrameA]_tvars
TRoNeverWrites == [][Rst \/ RoNeverWritesA]_tvars
TNotFoundJustified == [][Rst \/ NotFoundJustifiedA]_tvars
TNotFoundReported == [][Rst \/ NotFoundReportedA]_tvars
TFaultNotMasked == [][Rst \/ FaultNotMaskedA]_tvars
TDeleteNoop == [][Rst \/ DeleteNoopA]_tvars

HW == TLCSet(1, IF TLCGet(1) < l THEN l ELSE TLCGet(1))
TraceAccepted == IF TLCGet(1) = Len(Trace) + 1 THEN TRUE
                 ELSE PrintT(<<"REJECTED_AT_LINE", TLCGet(1)>>) /\ FALSE
=============================================================================
