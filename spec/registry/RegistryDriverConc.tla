------------------------ MODULE RegistryDriverConc ------------------------
(* Linearizability, at segment grain, of FREE-RUNNING concurrent histories of the real KrakenStorageDriver
   (engine x01, family conc): two or three goroutines really run concurrently, nothing parks.
   Records:  call (g, arguments)  when a driver call is issued,
             dep  (g, dep, out, a, a2, ok2) when a dependency call of g answered,
             ret  (g, reply)  when the driver call returned,
             obs  the projection of the stores when every goroutine is done.
   A call's first segment takes effect somewhere between its call record and its next record (dep or ret), the
   segment after a dependency call somewhere between that dep record and the next record of the same goroutine:
   the silent step Lin(g) applies the RegistryDriver action of the pending segment.  TLC accepts the trace iff
   some choice of those instants explains every logged reply, every dependency call (which, for what, in which
   order) and the final projection.                                                                          *)
EXTENDS RegistryDriver, Json
Trace == ndJsonDeserialize("trace.ndjson")
VARIABLES l,
          pend,   \* [G -> the segment g has logged but not yet applied]
          got     \* [G -> the reply the model computed for g's call, once its last segment was applied]
tvars == <<vars, l, pend, got>>
R == Trace[l]
NoCalls == {}
USeq == <<"u1", "u2">>
NoPend == [kind |-> "none", c |-> Idle, out |-> "-"]
NoGot == R0("-")

TraceInit == /\ TLCSet(1, 0) /\ l = 1
             /\ mode = "rw" /\ up = [u \in U |-> NoUp] /\ cache = {} /\ dl = {} /\ origin = {}
             /\ tags = [t \in T |-> "none"] /\ wr = [w \in W |-> NoW] /\ pc = [g \in G |-> Idle] /\ last = NoLast
             /\ pend = [g \in G |-> NoPend] /\ got = [g \in G |-> NoGot]
IsEvent(e) == l <= Len(Trace) /\ Trace[l].ev = e /\ l' = l + 1

TReset == /\ IsEvent("reset")
          /\ mode' = R.cfg.mode /\ up' = [u \in U |-> NoUp] /\ cache' = {} /\ dl' = {}
          /\ origin' = Range(R.cfg.origin)
          /\ tags' = [t \in T |-> IF \E i \in 1..Len(R.cfg.tagk) : R.cfg.tagk[i] = t
                                  THEN R.cfg.tagv[CHOOSE i \in 1..Len(R.cfg.tagk) : R.cfg.tagk[i] = t] ELSE "none"]
          /\ wr' = [w \in W |-> NoW] /\ pc' = [g \in G |-> Idle] /\ last' = NoLast
          /\ pend' = [g \in G |-> NoPend] /\ got' = [g \in G |-> NoGot]

CallRec == [op |-> R.op, k |-> R.k, k2 |-> R.k2, u |-> R.u, d |-> R.d, t |-> R.tg, o |-> R.o, oo |-> R.oo, b |-> R.b,
            hv |-> R.hv, ap |-> R.ap, w |-> R.w, nr |-> R.nr, st |-> "idle"]
TCall == /\ IsEvent("call")
         /\ pend[R.g].kind = "none" /\ pc[R.g].st = "idle" /\ got[R.g] = NoGot
         /\ pend' = [pend EXCEPT ![R.g] = [kind |-> "call", c |-> CallRec, out |-> "-"]]
         /\ UNCHANGED <<vars, got>>

ArgOK == LET p == pc[R.g] IN
         CASE R.dep = "tget" -> R.a = p.t
           [] R.dep = "tput" -> R.a = p.t /\ R.a2 = p.d
           [] R.dep = "tlist" -> (p.k = "tagsdir" => R.ok2)
           [] R.dep \in {"ost", "odl", "sdl", "oup", "ver"} -> R.a = p.d /\ R.ok2
           [] OTHER -> FALSE
\* the dependency call answers: the segment before it has been applied, and the model is parked at this dependency
TDep == /\ IsEvent("dep")
        /\ pend[R.g].kind = "none" /\ pc[R.g].st = R.dep /\ ArgOK
        /\ pend' = [pend EXCEPT ![R.g] = [kind |-> "dep", c |-> Idle, out |-> R.out]]
        /\ UNCHANGED <<vars, got>>

TRet == /\ IsEvent("ret")
        /\ pend[R.g].kind = "none" /\ pc[R.g].st = "idle"
        /\ got[R.g].res = R.res /\ got[R.g].vs = R.vs /\ got[R.g].vq = R.vq /\ got[R.g].vn = R.vn
        /\ got[R.g].vl = Range(R.vl) /\ Len(R.vl) = Cardinality(Range(R.vl))
        /\ got' = [got EXCEPT ![R.g] = NoGot]
        /\ UNCHANGED <<vars, pend>>

UpSize(x) == IF x.ex THEN Len(x.data) ELSE -1
TObs == /\ IsEvent("obs")
        /\ \A g \in G : pend[g].kind = "none" /\ pc[g].st = "idle"
        /\ cache = Range(R.cache) /\ dl = Range(R.dlst) /\ R.bad = <<>>
        /\ \A i \in 1..Len(USeq) : UpSize(up[USeq[i]]) = R.ups[i]
        /\ UNCHANGED <<vars, pend, got>>

\* the pending segment of g takes effect now
Lin(g) == /\ pend[g].kind # "none"
          /\ IF pend[g].kind = "call" THEN Call(g, pend[g].c) ELSE Dep(g, pend[g].out)
          /\ pend' = [pend EXCEPT ![g] = NoPend]
          /\ got' = IF last'.fin THEN [got EXCEPT ![g] = last'.r] ELSE got
          /\ UNCHANGED l

TraceNext == TReset \/ TCall \/ TDep \/ TRet \/ TObs \/ \E g \in G : Lin(g)
TraceSpec == TraceInit /\ [][TraceNext]_tvars

Rst == l <= Len(Trace) /\ Trace[l].ev = "reset" /\ l' = l + 1
TAppearsOnlyVerified == [][Rst \/ AppearsOnlyVerifiedA]_tvars
TUploadOnlyCommitted == [][Rst \/ UploadOnlyCommittedA]_tvars
TOkMeansUploaded == [][Rst \/ OkMeansUploadedA]_tvars
TFailedCommitNotVisible == [][Rst \/ FailedCommitNotVisibleA]_tvars
TTagOnlyByPut == [][Rst \/ TagOnlyByPutA]_tvars
TWriteFrame == [][Rst \/ WriteFrameA]_tvars
TRoNeverWrites == [][Rst \/ RoNeverWritesA]_tvars
TNotFoundJustified == [][Rst \/ NotFoundJustifiedA]_tvars
TNotFoundReported == [][Rst \/ NotFoundReportedA]_tvars
TFaultNotMasked == [][Rst \/ FaultNotMaskedA]_tvars
TDeleteNoop == [][Rst \/ DeleteNoopA]_tvars

HW == TLCSet(1, IF TLCGet(1) < l THEN l ELSE TLCGet(1))
TraceAccepted == IF TLCGet(1) = Len(Trace) + 1 THEN TRUE
                 ELSE PrintT(<<"REJECTED_AT_LINE", TLCGet(1)>>) /\ FALSE
=============================================================================
