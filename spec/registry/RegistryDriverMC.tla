--------------------------- MODULE RegistryDriverMC ---------------------------
(* Design-model wrapper of RegistryDriver: the argument records TLC tries, by focus. *)
EXTENDS RegistryDriver

Mk(op, k) == [Idle EXCEPT !.op = op, !.k = k]
Chunks == {<<1>>, <<2>>, <<1, 2>>}

\* upload lifecycle on the proxy: startedat -> Writer/Write/Commit (resumable) -> hash states -> Move -> Upload
CallsUploads ==
  {[Mk("PutContent", "startedat") EXCEPT !.u = u] : u \in U}
  \cup {[Mk("PutContent", "hashstate") EXCEPT !.u = u, !.oo = oo, !.hv = 1] : u \in U, oo \in Offs}
  \cup {[Mk(op, k) EXCEPT !.u = u, !.oo = oo] : op \in {"GetContent", "List"}, k \in UpKinds, u \in U, oo \in Offs}
  \cup {[Mk("Stat", "updata") EXCEPT !.u = u] : u \in U}
  \cup {[Mk("Reader", "updata") EXCEPT !.u = u, !.o = o] : u \in U, o \in {0, 1}}
  \cup {[Mk("Reader", "startedat") EXCEPT !.u = u] : u \in U}
  \cup {[Mk("Writer", "updata") EXCEPT !.u = u, !.ap = ap, !.w = w] : u \in U, ap \in BOOLEAN, w \in W}
  \cup {[Mk("Writer", "startedat") EXCEPT !.u = u, !.w = w] : u \in U, w \in W}
  \cup {[Mk("WWrite", "-") EXCEPT !.w = w, !.b = b] : w \in W, b \in Chunks}
  \cup {[Mk(op, "-") EXCEPT !.w = w] : op \in {"WSize", "WCommit", "WClose", "WCancel"}, w \in W}
  \cup {[Mk("Move", "updata") EXCEPT !.u = u, !.d = d, !.k2 = "blob"] : u \in U, d \in D}
  \cup {[Mk("Move", "updata") EXCEPT !.u = u, !.d = d, !.k2 = "layer"] : u \in U, d \in D}
  \cup {[Mk("Move", "blob") EXCEPT !.d = d, !.k2 = "blob"] : d \in D}
  \cup {[Mk("Stat", "blob") EXCEPT !.d = d] : d \in D}
  \cup {[Mk("Delete", "updata") EXCEPT !.u = u] : u \in U}

\* blob / manifest / tag traffic (both drivers)
CallsReads ==
  {[Mk(op, "blob") EXCEPT !.d = d] : op \in {"GetContent", "Stat"}, d \in D}
  \cup {[Mk("Stat", "blob") EXCEPT !.d = d, !.nr = TRUE] : d \in D}
  \cup {[Mk("Reader", "blob") EXCEPT !.d = d, !.o = o] : d \in D, o \in {0, 1, -1}}
  \cup {[Mk("PutContent", "blob") EXCEPT !.d = d, !.b = Content(d)] : d \in D}
  \cup {[Mk("PutContent", "blob") EXCEPT !.d = d, !.b = <<3>>] : d \in D}
  \cup {[Mk(op, k) EXCEPT !.t = t, !.d = d] : op \in {"GetContent", "Stat", "PutContent"}, k \in {"tagcur", "tagidx"}, t \in T, d \in D}
  \cup {[Mk(op, "rev") EXCEPT !.d = d] : op \in {"GetContent", "Stat", "PutContent"}, d \in D}
  \cup {Mk(op, "tagsdir") : op \in {"GetContent", "Stat", "PutContent", "List"}}
  \cup {[Mk(op, "layer") EXCEPT !.d = d] : op \in {"GetContent", "PutContent", "Stat", "List"}, d \in D}
  \cup {[Mk("List", "blob") EXCEPT !.d = d] : d \in D}
  \cup {[Mk("Delete", "blob") EXCEPT !.d = d] : d \in D}
  \cup {Mk(op, "bad") : op \in {"GetContent", "Stat", "URLFor", "Walk"}}

\* the agent: everything above in a thinner version
CallsRo ==
  {c \in CallsReads : c.op \notin {"URLFor", "Walk"} /\ c.o >= 0}
  \cup {[Mk(op, "updata") EXCEPT !.u = u] : op \in {"Stat", "Reader", "Writer", "GetContent"}, u \in U}
  \cup {[Mk("PutContent", "startedat") EXCEPT !.u = u] : u \in U}
  \cup {[Mk("Move", "updata") EXCEPT !.u = u, !.d = d, !.k2 = "blob"] : u \in U, d \in D}
  \cup {[Mk("List", "hsdir") EXCEPT !.u = u] : u \in U}

CallsAll == CallsUploads \cup CallsReads
CallsPush ==   \* commit + read races on one digest
  {c \in CallsUploads : c.op \in {"PutContent", "Writer", "WWrite", "WCommit", "Move", "Stat"} /\ c.k # "hashstate" /\ c.k2 # "layer"}
  \cup {[Mk(op, "blob") EXCEPT !.d = d] : op \in {"GetContent", "Stat"}, d \in D}
  \cup {[Mk("PutContent", "blob") EXCEPT !.d = d, !.b = Content(d)] : d \in D}
\* quick tier: one compact push + pull scenario alphabet for both drivers
CallsQuick ==
  {[Mk("PutContent", "startedat") EXCEPT !.u = "u1"],
   [Mk("Writer", "updata") EXCEPT !.u = "u1", !.ap = TRUE, !.w = "w1"],
   [Mk("WWrite", "-") EXCEPT !.w = "w1", !.b = <<1, 2>>], [Mk("WWrite", "-") EXCEPT !.w = "w1", !.b = <<1>>],
   [Mk("WCommit", "-") EXCEPT !.w = "w1"],
   [Mk("Reader", "updata") EXCEPT !.u = "u1", !.o = 1],
   [Mk("Move", "updata") EXCEPT !.u = "u1", !.d = "d1", !.k2 = "blob"],
   [Mk("Stat", "blob") EXCEPT !.d = "d1"], [Mk("GetContent", "blob") EXCEPT !.d = "d1"],
   [Mk("PutContent", "blob") EXCEPT !.d = "d1", !.b = <<1, 2>>],
   [Mk("GetContent", "tagcur") EXCEPT !.t = "t1"], [Mk("PutContent", "tagidx") EXCEPT !.t = "t1", !.d = "d1"],
   Mk("List", "tagsdir")}
\* liveness: every multi-segment call shape once (d3 is the empty blob: a fresh upload already holds its content)
CallsLive ==
  {[Mk("PutContent", "startedat") EXCEPT !.u = "u1"],
   [Mk("Move", "updata") EXCEPT !.u = "u1", !.d = "d3", !.k2 = "blob"],
   [Mk("Stat", "blob") EXCEPT !.d = "d3"], [Mk("GetContent", "blob") EXCEPT !.d = "d3"],
   [Mk("PutContent", "blob") EXCEPT !.d = "d3"],
   [Mk("GetContent", "tagcur") EXCEPT !.t = "t1"], [Mk("Stat", "tagcur") EXCEPT !.t = "t1"],
   [Mk("PutContent", "tagidx") EXCEPT !.t = "t1", !.d = "d3"], [Mk("GetContent", "rev") EXCEPT !.d = "d3"],
   Mk("List", "tagsdir")}
=============================================================================
