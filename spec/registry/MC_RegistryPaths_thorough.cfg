SPECIFICATION Spec
CONSTANTS
  Hex64 = {"H1","H2"}
  Len2 = {"sh-H1","sh-H2","v2"}
  Alnum = {"docker","registry","v2","repositories","blobs","revisions","tags","sha256","link","data","current","index","startedat","hashstates","H1","H2","sh-H1","sh-H2","N1","J1","A1"}
  Digits = {"N1"}
  RepoComps = {"r1","repositories","tags"}
  TagToks = {"t1","_uploads","current","_manifests"}
  UuidToks = {"U1"}
  AlgoToks = {"sha256","A1"}
  OffToks = {"N1"}
  MaxRepoDepth = 2
  JunkToks = {"J1","W1","_manifests","_uploads","repositories","link","data","N1"}
INVARIANT Inv
CHECK_DEADLOCK FALSE
