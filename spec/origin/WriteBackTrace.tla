--------------------------- MODULE WriteBackTrace ---------------------------
(* Trace validation of step-by-step histories of a real origin (harness/engines/c31) against WriteBack.

   One record = one step released by the harness; it carries the step's arguments / reply code and, observed from
   outside the node after the step: cache (blobs whose data file exists and hashes to its name), pers (persist flag
   true), meta (metainfo file), tasks (rows of the sqlite table), bk (backend contents per namespace) and pcs (the
   gate at which every handler / worker / cleanup goroutine is parked now).

   Every record is consumed in two sub-steps: the WriteBack action bound to the record, whose successor state must
   be EXACTLY the observed one except that un-flagged files may be missing, then TObs, the LRU file map's deferred
   eviction of exactly those files.  The property (Safe, EndOK) is an invariant of every state.

   Where the candidate repairs change a step (FFindNone, XRead on a missing file, XClear, HGenMeta, FSxLast) the
   trace spec offers the as-built and the repaired behaviour; the observation picks one and the invariants judge.  *)
EXTENDS WriteBack, Json

Trace == ndJsonDeserialize("trace.ndjson")
VARIABLES l, ph, ended
tvars == <<vars, l, ph, ended>>

R == Trace[l]
S(q) == {q[i] : i \in 1..Len(q)}
RO == Trace[l - 1]                        \* the record whose observation is pending (ph = 1)
IsEv(e) == ph = 0 /\ l <= Len(Trace) /\ R.ev = e /\ ph' = 1 /\ l' = l + 1 /\ UNCHANGED ended

TraceInit == TLCSet(1, 0) /\ Init /\ l = 1 /\ ph = 0 /\ ended = FALSE

TReset ==
  /\ ph = 0 /\ l <= Len(Trace) /\ R.ev = "reset" /\ l' = l + 1 /\ ph' = 0 /\ ended' = FALSE
  /\ cache' = {} /\ persist' = {} /\ meta' = {}
  /\ task' = [t \in T |-> "none"] /\ queue' = {}
  /\ bk' = {} /\ bup' = [n \in NS |-> TRUE]
  /\ hd' = [h \in H |-> HIdle] /\ ex' = [x \in X |-> XIdle] /\ fc' = FIdle /\ cl' = CIdle
  /\ acked' = {} /\ cacked' = {}
  /\ nstart' = 0 /\ nfault' = 0 /\ nrestart' = 0 /\ ndel' = 0 /\ nforce' = 0 /\ naux' = 0

\* ---- upload handlers.  The reply code of a finished request is bound here; the gate of a parked one in TObs.
TStart  == IsEv("Start") /\ HStart(R.h, R.n, R.d, R.kind)
           /\ R.code = (IF R.d \in cache THEN 0 ELSE 200)
TPatch  == IsEv("Patch") /\ \/ HPatch(R.h) /\ R.code = 0
                            \/ /\ hd[R.h].pc = "open" /\ hd[R.h].d \notin cache /\ R.code = 200
                               /\ UNCHANGED vars
TCommit == IsEv("Commit") /\ HCommit(R.h)
           /\ (R.code # 0 => R.code = 409)                       \* duplicate commit that found the blob
TAbandon == IsEv("Abandon") /\ HAbandon(R.h)
TSetPersist == IsEv("SetPersist") /\ HSetPersist(R.h) /\ (R.code # 0 => R.code = 500)
TAddTask == IsEv("AddTask") /\ HAddTask(R.h) /\ R.code = 0
TGenMeta == IsEv("GenMeta") /\ \E re \in BOOLEAN : HGenMetaR(R.h, re)
            /\ R.code = (IF hd[R.h].d \notin cache THEN 500
                         ELSE IF hd[R.h].cf THEN 409 ELSE IF hd[R.h].kind = "dup" THEN 200 ELSE 0)
TAck == IsEv("Ack") /\ HAck(R.h) /\ R.code = 200

\* ---- executor
TWTake == IsEv("WTake") /\ WTake(R.x, [n |-> R.n, d |-> R.d])
TXStat == IsEv("XStat") /\ XStat(R.x)
TXRead == IsEv("XRead") /\ (XReadOk(R.x) \/ XReadMissingDrop(R.x) \/ XReadMissingFail(R.x))
TXUpload == IsEv("XUpload") /\ XUpload(R.x, R.out)
TXClear == IsEv("XClear") /\ (XClearAlways(R.x) \/ XClearUnlessShared(R.x))
TWRemove == IsEv("WRemove") /\ WRemove(R.x)
TWMarkFailed == IsEv("WMarkFailed") /\ WMarkFailed(R.x)
TPoll == IsEv("Poll") /\ LET P == {[n |-> R.s[i][1], d |-> R.s[i][2]] : i \in 1..Len(R.s)} IN
                         IF P = {} THEN UNCHANGED vars ELSE Poll(P)

\* ---- deletion paths
DelCode(r) == IF r = "ok" THEN 202 ELSE IF r = "notfound" THEN 404 ELSE 500
TDelete == IsEv("Delete") /\ R.code = DelCode(DelRes(R.d)) /\ DeleteBlob(R.d)
TClStart == IsEv("ClStart") /\ ClStart
TClFile == IsEv("ClFile") /\ ClFile(R.ready)
TFStart == IsEv("FStart") /\ FStart
TFOwn == IsEv("FOwn") /\ FOwn(R.cand)
TFFind == IsEv("FFind") /\ (FFindNoneDelete \/ FFindNoneRefuse \/ \E t \in T : FFindSome(t))
TFSx == IsEv("FSx") /\ (FSxLastR(TRUE) \/ FSxLastR(FALSE) \/ \E t \in T : FSxNext(t))

\* ---- environment
TTransfer == IsEv("Transfer") /\ \/ Transfer(R.d) /\ R.code = 200
                                 \/ R.d \in cache /\ R.code = 409 /\ UNCHANGED vars
TBackendDown == IsEv("BackendDown") /\ BackendDown(R.n)
TBackendUp == IsEv("BackendUp") /\ BackendUp(R.n)
TRestart == IsEv("Restart") /\ Restart
TEnd == ph = 0 /\ l <= Len(Trace) /\ R.ev = "End" /\ ph' = 1 /\ l' = l + 1 /\ ended' = R.strict /\ UNCHANGED vars

\* ---- the observation.  A record's action must produce EXACTLY the observed state, except that un-flagged files may
\* be missing (they are removed by TObs, the eviction sub-step).  The match is required of the action's successor
\* state, so a behaviour (as built / repaired) that the observation contradicts never becomes a state.
OT(r) == [t \in T |-> IF \E i \in 1..Len(r.tasks) : r.tasks[i][1] = t.n /\ r.tasks[i][2] = t.d
                      THEN r.tasks[CHOOSE i \in 1..Len(r.tasks) : r.tasks[i][1] = t.n /\ r.tasks[i][2] = t.d][3]
                      ELSE "none"]
OB(r) == {[n |-> r.bk[i][1], d |-> r.bk[i][2]] : i \in 1..Len(r.bk)}
PcsOK(p, vh, vx, vf, vc) ==
  /\ vh["h1"].pc = p.h1 /\ vh["h2"].pc = p.h2
  /\ vx["wi"].pc = p.wi /\ vx["wi"].t = [n |-> p.win, d |-> p.wid]
  /\ vx["wr"].pc = p.wr /\ vx["wr"].t = [n |-> p.wrn, d |-> p.wrd]
  /\ vx["fc"].pc = p.fx /\ vx["fc"].t = [n |-> p.fn, d |-> p.ft]
  /\ vf.pc = p.fc /\ (vf.pc # "idle" => vf.d = p.fd)
  /\ vc.pc = p.cl /\ (vc.pc # "idle" => vc.d = p.cd)
ObsAt(r, vcache, vpersist, vmeta, vtask, vbk, vh, vx, vf, vc) ==
  LET E == vcache \ S(r.cache) IN
  /\ S(r.cache) \subseteq vcache /\ E \cap vpersist = {}       \* an eviction never removes a flagged file
  /\ vpersist = S(r.pers) /\ vmeta \ E = S(r.meta)
  /\ vtask = OT(r) /\ vbk = OB(r)
  /\ Len(r.tasks) = Cardinality({t \in T : OT(r)[t] # "none"})   \* no row outside the modelled keys
  /\ PcsOK(r.pcs, vh, vx, vf, vc)
Match == ObsAt(R, cache', persist', meta', task', bk', hd', ex', fc', cl')

TObs ==                                   \* fileMap.TryStore's deferred eviction, if the record shows one
  /\ ph = 1 /\ ph' = 0 /\ l' = l /\ UNCHANGED ended
  /\ LET E == cache \ S(RO.cache) IN
       /\ cache' = S(RO.cache) /\ meta' = meta \ E /\ UNCHANGED persist
  /\ UNCHANGED <<task, queue, bk, bup, hd, ex, fc, cl, acked, cacked, cnt>>

TraceNext ==
  \/ TReset
  \/ /\ \/ TStart \/ TPatch \/ TCommit \/ TAbandon \/ TSetPersist \/ TAddTask \/ TGenMeta \/ TAck
        \/ TWTake \/ TXStat \/ TXRead \/ TXUpload \/ TXClear \/ TWRemove \/ TWMarkFailed \/ TPoll
        \/ TDelete \/ TClStart \/ TClFile \/ TFStart \/ TFOwn \/ TFFind \/ TFSx
        \/ TTransfer \/ TBackendDown \/ TBackendUp \/ TRestart \/ TEnd
     /\ Match
  \/ TObs
TraceSpec == TraceInit /\ [][TraceNext]_tvars

\* after the final drain (every backend up, every context run to completion, the poller run until the task table
\* is empty) every acknowledged blob is in its backend -- the finite-trace face of `acked ~> inBackend`
EndOK == ended => Acked \subseteq bk

\* high-water mark: index of the first record that has not been consumed AND matched by its observation
HW == TLCSet(1, IF TLCGet(1) < l - ph THEN l - ph ELSE TLCGet(1))
TraceAccepted == IF TLCGet(1) = Len(Trace) + 1 THEN TRUE
                 ELSE PrintT(<<"REJECTED_AT_LINE", TLCGet(1)>>) /\ FALSE
=============================================================================
