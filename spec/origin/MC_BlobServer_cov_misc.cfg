SPECIFICATION Spec
CONSTANTS
  Nodes = {"n1", "n2"}
  Digests = {"k2"}
  DOrder <- MCOrder
  Content <- MCContent
  DefPL = 4
  LegChunk = 1
  ErrTTL = 1
  FixLock = TRUE
  FixRange = TRUE
  Fix404 = TRUE
  FixCT = TRUE
  MaxReq = 2
  MaxConc = 2
  Ops = {"health", "readiness", "locations", "forcecleanup2", "prefetch", "replicate", "overwritemeta", "forcecleanup", "delete", "bad"}
  PatchKinds = {}
  EnvActs = {"rdown", "bdown", "ring", "hours", "down", "backend"}
  MaxHours = 2
  MaxEnv = 1
  Backend0 = {}
  ClientNodes = {"n1"}
  Cached0 = {"k2"}
INVARIANT Inv
PROPERTY CommitConsumes CacheOnlyVerified TasksOnlyGrow CleanupOnlyCandidates RemovalOnlyByDelete ReplicateTruthful
CHECK_DEADLOCK FALSE
