-------------------------- MODULE BlobServerTrace --------------------------
(* Trace validation of recorded histories of a cluster of real origin blob servers (X03, engine x03) against
   BlobServer.  The log holds, in real-time order, the arrival and the answer of every HTTP request at every node
   (driver requests and the requests origins send each other), the dependency calls the handlers make
   (manager.Add, backend.Download, remote upload), every change of the environment and, at quiescent points, the
   complete state of every node.  Everything else a handler does (its CAStore steps) is a silent step that TLC
   places between a request's Call and Ret records: the trace is accepted iff some interleaving of the handlers'
   steps explains every logged answer and every logged state, i.e. iff the concurrent history is linearizable
   with respect to the step semantics of BlobServer.  The guarantees of BlobServer are invariants of every state
   on the way.                                                                                                  *)
EXTENDS BlobServer, Json
Trace == ndJsonDeserialize("trace.ndjson")
VARIABLE l
tvars == <<vars, l>>
R == Trace[l]

TContent == [d \in Digests |-> CASE d = "k1" -> <<"k1.0", "k1.1">> [] d = "k2" -> <<"k2.0">> [] d = "k3" -> <<>>
                                 [] d = "k4" -> <<"k4.0", "k4.1", "k4.2">>]
TOrder == <<"k1", "k2", "k3", "k4">>

Fresh(ring, lchunk) ==
  /\ node = [n \in Nodes |-> NodeInit] /\ fdata = << >> /\ env = EnvInit(ring, lchunk)
  /\ reqs = {} /\ nrid = 0 /\ acked = {}
TraceInit == TLCSet(1, 0) /\ l = 1 /\ Fresh([d \in Digests |-> <<"n1">>], 1)
IsEvent(e) == l <= Len(Trace) /\ Trace[l].ev = e /\ l' = l + 1
IsReset == l <= Len(Trace) /\ Trace[l].ev = "reset"

TReset == /\ IsEvent("reset")
          /\ node' = [n \in Nodes |-> NodeInit] /\ fdata' = << >>
          /\ env' = EnvInit([d \in Digests |-> R.cfg.ring[d]], R.cfg.legchunk)
          /\ reqs' = {} /\ nrid' = 0 /\ acked' = {}

ReqOf(r) == NewReq(r.rid, r.node, r.op, r.ns, r.d, r.uid, r.a, r.b, r.data, r.short, r.flag, r.num, r.str, r.bad, r.src)
SameCall(c, r) == /\ c.node = r.node /\ c.op = r.op /\ c.ns = r.ns /\ c.d = r.d /\ c.uid = r.uid /\ c.a = r.a /\ c.b = r.b
                  /\ c.data = r.data /\ c.short = r.short /\ c.flag = r.flag /\ c.num = r.num /\ c.bad = r.bad

\* a request arrives: the driver's are free, an origin's must be the next request of one of its legs
TCall == /\ IsEvent("Call") /\ UNCHANGED nrid
         /\ IF R.src = "client" THEN Arrive(ReqOf(R))
            ELSE \E q \in reqs : \E lg \in q.legs : \E i \in 0..Cardinality(q.legs) :
                    /\ q.pc = "fan" /\ lg.st \in {"start", "patch", "commit"} /\ ~lg.busy
                    /\ (IF lg.kind = "dup" /\ lg.idx = 0 THEN i \in FreeIdx(q) ELSE i = lg.idx)
                    /\ SameCall(LegChild(q, lg, R.rid, i), R)
                    /\ LegSend(q, lg, R.rid, i)

\* an answer: status, payload and the harness' byte-level oracles (metainfo matches the blob, Location present ...)
CtOK == R.ct = "na" \/ R.ct = "ok" \/ ~FixCT
TRet == /\ IsEvent("Ret") /\ UNCHANGED nrid
        /\ \E q \in reqs :
             /\ q.rid = R.rid /\ q.pc = "done" /\ q.code = R.code /\ q.out = R.out /\ q.onum = R.onum
             /\ R.good /\ CtOK
             /\ IF q.src = "client" THEN Reply(q) ELSE LegRecv(q)

TWbAdd == /\ IsEvent("WbAdd")
          /\ \E q \in reqs : /\ q.pc = "wb2" /\ q.node = R.node /\ q.ns = R.ns /\ q.d = R.d /\ WbDelay(q) = R.num
                             /\ R.ok = (q.node \notin env.wbfail)
                             /\ WbAdd(q)
TDlCall == IsEvent("DlCall") /\ \E q \in reqs : q.node = R.node /\ q.d = R.d /\ DlCall(q)
TDlRet  == IsEvent("DlRet") /\ \E q \in reqs : q.node = R.node /\ q.d = R.d /\ DlRet(q, R.kind)
TRemote == /\ IsEvent("RemoteUp")
           /\ \E q \in reqs : /\ q.node = R.node /\ q.ns = R.ns /\ q.d = R.d /\ q.str = R.str
                              /\ R.ok = RemoteOK(env.rhosts) /\ R.good
                              /\ Remote(q)

TEnv == /\ IsEvent("Env")
        /\ CASE R.what = "up"      -> SetUp(R.node, R.on)
             [] R.what = "bdown"   -> SetBDown(R.on)
             [] R.what = "rhosts"  -> SetRHosts(R.locs)
             [] R.what = "wbfail"  -> SetWbFail(IF R.on THEN env.wbfail \cup {R.node} ELSE env.wbfail \ {R.node})
             [] R.what = "backend" -> SetBackend(env.backend \cup {R.d})
             [] R.what = "ring"    -> SetRing(R.d, R.locs)
             [] R.what = "hours"   -> Hours(R.num)
             [] R.what = "tick"    -> Tick

\* the whole cluster as seen from outside equals the state of the specification
ObsNode(n, o) ==
  /\ ToSet(o.cache)   = {<<d, CacheData(n, d) = Content[d]>> : d \in {x \in Digests : Cached(n, x)}}
  /\ ToSet(o.meta)    = {<<d, node[n].meta[d]>> : d \in {x \in Digests : node[n].meta[x] # 0}}
  /\ ToSet(o.persist) = node[n].persist
  /\ ToSet(o.uploads) = {<<u, fdata[u]>> : u \in node[n].uploads}
  /\ ToSet(o.tasks)   = node[n].tasks
  /\ ToSet(o.rst)     = {<<d, node[n].rst[d].s>> : d \in {x \in Digests : node[n].rst[x].s # "idle"}}
TObs == /\ IsEvent("Obs") /\ UNCHANGED vars
        /\ \A q \in reqs : q.op = "refresh" /\ q.pc = "dlw"       \* quiescent: only parked downloads remain
        /\ \A n \in DOMAIN R.nodes : ObsNode(n, R.nodes[n])
        /\ ToSet(R.backend) = env.backend /\ ToSet(R.remote) = env.remote

TSilent == UNCHANGED l /\ \E q \in reqs : Silent(q)

TraceNext == TReset \/ TCall \/ TRet \/ TWbAdd \/ TDlCall \/ TDlRet \/ TRemote \/ TEnv \/ TObs \/ TSilent
TraceSpec == TraceInit /\ [][TraceNext]_tvars

\* the action properties of BlobServer, exempting the step that starts the next trace
TCommitConsumes        == [][IsReset \/ CommitConsumesA]_tvars
TCacheOnlyVerified     == [][IsReset \/ CacheOnlyVerifiedA]_tvars
TTasksOnlyGrow         == [][IsReset \/ TasksOnlyGrowA]_tvars
TCleanupOnlyCandidates == [][IsReset \/ CleanupOnlyCandidatesA]_tvars
TRemovalOnlyByDelete   == [][IsReset \/ RemovalOnlyByDeleteA]_tvars
TReplicateTruthful     == [][IsReset \/ ReplicateTruthfulA]_tvars

HW == TLCSet(1, IF TLCGet(1) < l THEN l ELSE TLCGet(1))
TraceAccepted == IF TLCGet(1) = Len(Trace) + 1 THEN TRUE
                 ELSE PrintT(<<"REJECTED_AT_LINE", TLCGet(1)>>) /\ FALSE
=============================================================================
