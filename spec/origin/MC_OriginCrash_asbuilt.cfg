SPECIFICATION Spec
CONSTANTS
  AtomicCreate = FALSE
  AtomicOverwrite = FALSE
INVARIANT Inv
CHECK_DEADLOCK FALSE
