SPECIFICATION TraceSpec
CONSTANTS
  D = {"d1", "d2"}
  NS = {"n1", "n2"}
  H = {"h1", "h2"}
  W = {"wi", "wr"}
  MaxTries = 3
  MaxStart = 1000000
  MaxFault = 1000000
  MaxRestart = 1000000
  MaxDel = 1000000
  MaxForce = 1000000
  MaxAux = 1000000
  Kinds = {"pub", "dup"}
  FixLeak = FALSE
  FixShared = FALSE
INVARIANT TypeOK Safe EndOK
CONSTRAINT HW
POSTCONDITION TraceAccepted
CHECK_DEADLOCK FALSE
