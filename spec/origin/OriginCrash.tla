----------------------------- MODULE OriginCrash -----------------------------
(* Property C05: an origin/proxy crash at any point leaves its blob cache consistent.

   FS-level model of the write paths of lib/store.CAStore for one blob: upload + commit
   (MoveUploadFileToCache = verify, then rename into the cache), persist flag, metainfo
   generation (SetCacheFileMetadata -> compareAndWriteFile) and metainfo overwrite with another
   piece length; one step per file-system operation, Crash enabled everywhere, Restart = NewCAStore
   (the upload directory is wiped, the cache directory is taken as it is).

   AtomicCreate / AtomicOverwrite = TRUE model the repaired compareAndWriteFile (temp file + rename);
   FALSE models the code before the fix (create-empty-then-write, truncate-then-write), for which TLC
   finds the empty _torrentmeta that made metainfo requests fail for good (F05, F05b).            *)
EXTENDS Integers, Sequences
CONSTANTS AtomicCreate, AtomicOverwrite
VARIABLES up,      \* upload file: "absent" | "partial" | "full"
          cdir,    \* cache directory entry of the blob exists
          cdata,   \* cache data file: "absent" | "full"   (only a verified upload is ever renamed in)
          meta,    \* _torrentmeta: "absent" | "empty" | "v1" | "v2"  (v1/v2: valid for piece length 1/2)
          persist, \* _persist sidecar: "absent" | "empty" | "set"
          prog, phase
vars == <<up, cdir, cdata, meta, persist, prog, phase>>

Init == up = "absent" /\ cdir = FALSE /\ cdata = "absent" /\ meta = "absent" /\ persist = "absent"
        /\ prog = <<>> /\ phase = "run"

F(x) == <<"fs", x>>
CommitOps == <<F("crUp"), F("wrUp1"), F("wrUp2"), F("verify"), F("mkCdir"), F("rename"), F("rmUp")>>
SideOps(f, v) == IF AtomicCreate THEN <<<<f, v>>>> ELSE <<<<f, "empty">>, <<f, v>>>>
OverOps(v) == IF AtomicOverwrite THEN <<<<"meta", v>>>> ELSE <<<<"meta", "empty">>, <<"meta", v>>>>

Start(ops) == phase = "run" /\ prog = <<>> /\ prog' = ops /\ UNCHANGED <<up, cdir, cdata, meta, persist, phase>>
Commit    == cdata = "absent" /\ Start(CommitOps)
Persist   == cdata = "full" /\ persist = "absent" /\ Start(SideOps("persist", "set"))
Generate  == cdata = "full" /\ meta = "absent" /\ Start(SideOps("meta", "v1"))
Overwrite == cdata = "full" /\ meta \in {"v1", "v2"} /\ Start(OverOps(IF meta = "v1" THEN "v2" ELSE "v1"))

Step ==
  /\ phase = "run" /\ prog # <<>>
  /\ LET o == Head(prog) IN
     /\ prog' = Tail(prog)
     /\ up' = IF o = F("crUp") THEN "partial" ELSE IF o = F("wrUp2") THEN "full" ELSE IF o \in {F("rename"), F("rmUp")} THEN "absent" ELSE up
     /\ cdir' = IF o = F("mkCdir") THEN TRUE ELSE cdir
     /\ cdata' = IF o = F("rename") THEN up ELSE cdata       \* whatever the upload file holds is what the cache gets
     /\ meta' = IF o[1] = "meta" THEN o[2] ELSE meta
     /\ persist' = IF o[1] = "persist" THEN o[2] ELSE persist
  /\ UNCHANGED phase
Crash   == phase = "run" /\ phase' = "down" /\ prog' = <<>> /\ UNCHANGED <<up, cdir, cdata, meta, persist>>
Restart == phase = "down" /\ phase' = "run" /\ up' = "absent" /\ UNCHANGED <<cdir, cdata, meta, persist, prog>>

Next == Commit \/ Persist \/ Generate \/ Overwrite \/ Step \/ Crash \/ Restart
Spec == Init /\ [][Next]_vars

(* Properties (C05), true in EVERY state because a crash may freeze any of them *)
ListedHashes   == cdata # "absent" => cdata = "full"          \* what is readable under the digest is the whole verified blob
MetaAbsentOrValid == meta \in {"absent", "v1", "v2"}          \* never an undecodable metainfo file
PersistSane    == persist \in {"absent", "set"}
UploadWiped    == (phase = "run" /\ prog = <<>>) => up = "absent"
Inv == ListedHashes /\ MetaAbsentOrValid /\ PersistSane /\ UploadWiped

(* API-level acceptance of what the REAL reopened store reported at one crash point (trace validation).
   Reading: a listed name whose data file does not exist (directory left by a crashed move) is not a blob
   the store serves; it must simply not be readable and must not block writing the blob again.           *)
RecoverAllowed(res, listed, readable, hashok, rmeta, regen, rewrite, unknown, uploadleft) ==
  /\ res = "ok" /\ unknown = 0 /\ uploadleft = 0
  /\ \A i \in 1..Len(listed) :
       /\ readable[i] => (listed[i] /\ hashok[i] /\ rmeta[i] \in {"absent", "valid"} /\ regen[i] = "valid")
       /\ rewrite[i] = "ok"
=============================================================================
