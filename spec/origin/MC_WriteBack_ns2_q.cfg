SPECIFICATION Spec
CONSTANTS
  D = {"d1"}
  NS = {"n1", "n2"}
  H = {"h1"}
  W = {"w1"}
  MaxTries = 2
  MaxStart = 2
  MaxFault = 0
  MaxRestart = 0
  MaxDel = 1
  MaxForce = 1
  MaxAux = 0
  Kinds = {"pub"}
  FixLeak = TRUE
  FixShared = TRUE
INVARIANT Inv Protected
PROPERTY DeleteRespectsFlag BackendGrowsOnly
CHECK_DEADLOCK FALSE
