SPECIFICATION Spec
CONSTANTS
  Nodes = {"n1", "n2"}
  Digests = {"k2", "k3"}
  DOrder <- MCOrder
  Content <- MCContent
  DefPL = 4
  LegChunk = 1
  ErrTTL = 1
  FixLock = TRUE
  FixRange = TRUE
  Fix404 = TRUE
  FixCT = TRUE
  MaxReq = 5
  MaxConc = 1
  Ops = {"forcecleanup", "forcecleanup2", "overwritemeta", "locations", "health", "readiness", "bad", "start", "patch", "commit"}
  PatchKinds = {"full"}
  EnvActs = {"ring", "hours", "bdown"}
  MaxHours = 2
  MaxEnv = 1
  Backend0 = {}
  ClientNodes = {"n1"}
  Cached0 = {}
INVARIANT Inv
PROPERTY CommitConsumes CacheOnlyVerified TasksOnlyGrow CleanupOnlyCandidates RemovalOnlyByDelete ReplicateTruthful
CHECK_DEADLOCK FALSE
