SPECIFICATION LiveSpec
CONSTANTS
  Nodes = {"n1", "n2"}
  Digests = {"k2"}
  DOrder <- MCOrder
  Content <- MCContent
  DefPL = 4
  LegChunk = 1
  ErrTTL = 1
  FixLock = TRUE
  FixRange = TRUE
  Fix404 = TRUE
  FixCT = TRUE
  MaxReq = 2
  MaxConc = 2
  Ops = {"getmeta", "download", "delete"}
  PatchKinds = {}
  EnvActs = {"exact", "bad"}
  MaxHours = 0
  MaxEnv = 0
  Backend0 = {"k2"}
  ClientNodes = {"n1"}
  Cached0 = {}
INVARIANT Inv
PROPERTY AllAnswered
CHECK_DEADLOCK FALSE
