SPECIFICATION Spec
CONSTANTS
  D = {"d1"}
  NS = {"n1"}
  H = {"h1"}
  W = {"w1"}
  MaxTries = 2
  MaxStart = 2
  MaxFault = 1
  MaxRestart = 1
  MaxDel = 1
  MaxForce = 1
  MaxAux = 0
  Kinds = {"pub"}
  FixLeak = TRUE
  FixShared = FALSE
INVARIANT Inv Protected
PROPERTY DeleteRespectsFlag BackendGrowsOnly
CHECK_DEADLOCK FALSE
