SPECIFICATION TraceSpec
CONSTANTS
  Nodes = {"n1", "n2", "n3"}
  Digests = {"k1", "k2", "k3", "k4"}
  DOrder <- TOrder
  Content <- TContent
  DefPL = 4
  ErrTTL = 3
  FixLock = TRUE
  FixRange = TRUE
  Fix404 = TRUE
  FixCT = TRUE
INVARIANT Inv
PROPERTY TCommitConsumes TCacheOnlyVerified TTasksOnlyGrow TCleanupOnlyCandidates TRemovalOnlyByDelete TReplicateTruthful
CONSTRAINT HW
POSTCONDITION TraceAccepted
CHECK_DEADLOCK FALSE
