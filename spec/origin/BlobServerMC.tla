---------------------------- MODULE BlobServerMC ----------------------------
(* Design model of BlobServer (X03): a closed system -- clients that issue any request of the enabled kinds with
   any argument of a small alphabet, up to MaxConc of them in flight, the handlers' steps, and an environment that
   fails / restores dependencies, changes the ring and advances the clocks.                                     *)
EXTENDS BlobServer

CONSTANTS MaxReq,      \* requests (client and peer) per behaviour
          MaxConc,     \* client requests in flight
          Ops,         \* enabled client operations
          PatchKinds,  \* enabled PATCH argument classes
          EnvActs,     \* enabled environment actions
          MaxHours, LegChunk,
          MaxEnv,      \* environment changes per behaviour
          Backend0,    \* blobs the backend holds from the start
          ClientNodes, \* nodes clients talk to (the others only receive requests from origins)
          Cached0      \* blobs n1 holds from the start (as if refreshed from the backend earlier)

MCContent == [d \in Digests |-> IF d = "k1" THEN <<"k1.0", "k1.1">> ELSE IF d = "k2" THEN <<"k2.0">> ELSE <<>>]
MCOrder   == <<"k1", "k2", "k3">>
MCRing    == [d \in Digests |-> IF "n3" \in Nodes THEN <<"n1", "n2", "n3">> ELSE <<"n1", "n2">>]   \* every node owns every blob
RConfigs  == {<<"ok", "ok">>, <<"fail", "ok">>, <<"retry", "ok">>, <<"net", "retry">>, <<"retry", "fail">>}   \* remote cluster dispositions
MCRingAlt == <<"n2">>                                    \* the ring after a membership change: n1 lost its blobs

VARIABLES ncl,         \* client requests issued so far
          nenv         \* environment changes so far
mvars == <<vars, ncl, nenv>>

Init == /\ ncl = 0 /\ nenv = 0
        /\ node = [n \in Nodes |-> IF n = "n1" THEN [NodeInit EXCEPT !.cache = [d \in Digests |-> IF d \in Cached0 THEN "rf" ELSE "none"],
                                                                   !.meta = [d \in Digests |-> IF d \in Cached0 THEN DefPL ELSE 0]]
                                 ELSE NodeInit]
        /\ fdata = << >>
        /\ env = [EnvInit(MCRing, LegChunk) EXCEPT !.backend = Backend0]
        /\ reqs = {}
        /\ nrid = 0
        /\ acked = {}

Rid == ToString(nrid + 1)
C(n, op, ns, d, uid, a, b, data, short, flag, num, bad) ==
  NewReq(Rid, n, op, ns, d, uid, a, b, data, short, flag, num, "", bad, "client")
Simple(n, op, d) == C(n, op, "ns", d, "none", 0, 0, <<>>, FALSE, FALSE, 0, "none")

PatchArgs(d) ==
  LET c == Content[d]  len == Len(c) IN
  (IF "full" \in PatchKinds THEN {<<0, len, c, FALSE>>} ELSE {})
  \cup (IF "junk" \in PatchKinds /\ len > 0 THEN {<<0, len, [i \in 1..len |-> "j"], FALSE>>} ELSE {})
  \cup (IF "head" \in PatchKinds /\ len > 1 THEN {<<0, 1, <<c[1]>>, FALSE>>} ELSE {})
  \cup (IF "tail" \in PatchKinds /\ len > 1 THEN {<<1, len, SubSeq(c, 2, len), FALSE>>} ELSE {})
  \cup (IF "short" \in PatchKinds /\ len > 0 THEN {<<0, len, SubSeq(c, 1, len - 1), TRUE>>} ELSE {})
  \cup (IF "neg" \in PatchKinds THEN {<<1, 0, <<>>, FALSE>>} ELSE {})

UidsAt(n) == node[n].uploads \cup (IF "nouid" \in PatchKinds THEN {"x"} ELSE {})

Calls(n) ==
  UNION {
    {Simple(n, op, "k1") : op \in Ops \cap {"health", "readiness", "peerctx", "forcecleanup2"}},
    {Simple(n, op, d) : op \in Ops \cap {"locations", "download", "prefetch", "getmeta", "delete", "start", "tstart", "replicate"},
                        d \in Digests},
    IF "nob" \in Ops THEN {C(n, "stat", "nob", d, "none", 0, 0, <<>>, FALSE, FALSE, 0, "none") : d \in Digests}
                          \cup {C(n, "getmeta", "nob", d, "none", 0, 0, <<>>, FALSE, FALSE, 0, "none") : d \in Digests} ELSE {},
    IF "bad" \in Ops THEN {C(n, "stat", "ns", "k1", "none", 0, 0, <<>>, FALSE, FALSE, 0, "local"),
                           C(n, "download", "ns", "k1", "none", 0, 0, <<>>, FALSE, FALSE, 0, "digest"),
                           C(n, "patch", "ns", "k1", "x", 0, 0, <<>>, FALSE, FALSE, 0, "range"),
                           C(n, "dupcommit", "ns", "k1", "x", 0, 0, <<>>, FALSE, FALSE, 0, "json")} ELSE {},
    IF "stat" \in Ops THEN {C(n, "stat", "ns", d, "none", 0, 0, <<>>, FALSE, f, 0, "none") : d \in Digests, f \in BOOLEAN} ELSE {},
    IF "overwritemeta" \in Ops THEN {C(n, "overwritemeta", "ns", d, "none", 0, 0, <<>>, FALSE, FALSE, 2 * DefPL, "none") : d \in Digests} ELSE {},
    IF "forcecleanup" \in Ops THEN {C(n, "forcecleanup", "ns", "k1", "none", 0, 0, <<>>, FALSE, FALSE, 1, "none")} ELSE {},
    UNION {{C(n, op, "ns", d, u, p[1], p[2], p[3], p[4], FALSE, 0, "none") :
               op \in Ops \cap {"patch", "tpatch"}, u \in UidsAt(n), p \in PatchArgs(d)} : d \in Digests},
    {C(n, op, "ns", d, u, 0, 0, <<>>, FALSE, FALSE, IF op = "dupcommit" THEN 1 ELSE 0, "none") :
        op \in Ops \cap {"commit", "tcommit", "dupcommit"}, d \in Digests, u \in UidsAt(n)}
  }

\* answering a finished client request commutes with every other step (it only forgets the record), so it is taken
\* first (every other action is disabled while an answer is due): fewer interleavings, same reachable handler states
HasDone == \E q \in reqs : q.src = "client" /\ q.pc = "done"

ClientCall == /\ ~HasDone /\ ncl < MaxReq /\ ncl' = ncl + 1 /\ UNCHANGED nenv
              /\ Cardinality({q \in reqs : q.src = "client"}) < MaxConc
              /\ \E n \in ClientNodes : \E q \in Calls(n) : Arrive(q)
              /\ nrid' = nrid + 1

PeerCall == /\ ~HasDone /\ UNCHANGED <<ncl, nenv>>
            /\ \E q \in reqs : \E l \in q.legs : \E i \in 0..Cardinality(q.legs) : LegSend(q, l, Rid, i)
            /\ nrid' = nrid + 1

\* one named action per handler entry / handler step / environment change, so that TLC's coverage tells which of
\* them a configuration exercises
HHealth == ~HasDone /\ \E q \in reqs : q.op \in {"health", "peerctx"} /\ Entry(q) /\ UNCHANGED <<ncl, nenv>>
HReadiness == ~HasDone /\ \E q \in reqs : q.op \in {"readiness"} /\ Entry(q) /\ UNCHANGED <<ncl, nenv>>
HLocations == ~HasDone /\ \E q \in reqs : q.op \in {"locations"} /\ Entry(q) /\ UNCHANGED <<ncl, nenv>>
HStat == ~HasDone /\ \E q \in reqs : q.op \in {"stat"} /\ Entry(q) /\ UNCHANGED <<ncl, nenv>>
HDownload == ~HasDone /\ \E q \in reqs : q.op \in {"download"} /\ Entry(q) /\ UNCHANGED <<ncl, nenv>>
HPrefetch == ~HasDone /\ \E q \in reqs : q.op \in {"prefetch"} /\ Entry(q) /\ UNCHANGED <<ncl, nenv>>
HGetMeta == ~HasDone /\ \E q \in reqs : q.op \in {"getmeta"} /\ Entry(q) /\ UNCHANGED <<ncl, nenv>>
HReplicate == ~HasDone /\ \E q \in reqs : q.op \in {"replicate"} /\ Entry(q) /\ UNCHANGED <<ncl, nenv>>
HDelete == ~HasDone /\ \E q \in reqs : q.op \in {"delete"} /\ Entry(q) /\ UNCHANGED <<ncl, nenv>>
HOverwriteMeta == ~HasDone /\ \E q \in reqs : q.op \in {"overwritemeta"} /\ Entry(q) /\ UNCHANGED <<ncl, nenv>>
HStart == ~HasDone /\ \E q \in reqs : q.op \in {"start"} /\ Entry(q) /\ UNCHANGED <<ncl, nenv>>
HTransferStart == ~HasDone /\ \E q \in reqs : q.op \in {"tstart"} /\ Entry(q) /\ UNCHANGED <<ncl, nenv>>
HPatch == ~HasDone /\ \E q \in reqs : q.op \in {"patch"} /\ Entry(q) /\ UNCHANGED <<ncl, nenv>>
HTransferPatch == ~HasDone /\ \E q \in reqs : q.op \in {"tpatch"} /\ Entry(q) /\ UNCHANGED <<ncl, nenv>>
HCommit == ~HasDone /\ \E q \in reqs : q.op \in {"commit"} /\ Entry(q) /\ UNCHANGED <<ncl, nenv>>
HDupCommit == ~HasDone /\ \E q \in reqs : q.op \in {"dupcommit"} /\ Entry(q) /\ UNCHANGED <<ncl, nenv>>
HTransferCommit == ~HasDone /\ \E q \in reqs : q.op \in {"tcommit"} /\ Entry(q) /\ UNCHANGED <<ncl, nenv>>
HForceCleanup == ~HasDone /\ \E q \in reqs : q.op \in {"forcecleanup"} /\ Entry(q) /\ UNCHANGED <<ncl, nenv>>
HForceCleanupV2 == ~HasDone /\ \E q \in reqs : q.op \in {"forcecleanup2"} /\ Entry(q) /\ UNCHANGED <<ncl, nenv>>
SBStat == ~HasDone /\ \E q \in reqs : BStat(q) /\ UNCHANGED <<ncl, nenv>>
SOverwriteSet == ~HasDone /\ \E q \in reqs : OverwriteSet(q) /\ UNCHANGED <<ncl, nenv>>
SRf1 == ~HasDone /\ \E q \in reqs : Rf1(q) /\ UNCHANGED <<ncl, nenv>>
SRf2 == ~HasDone /\ \E q \in reqs : Rf2(q) /\ UNCHANGED <<ncl, nenv>>
SWorkerStore == ~HasDone /\ \E q \in reqs : WorkerStore(q) /\ UNCHANGED <<ncl, nenv>>
SWorkerMeta == ~HasDone /\ \E q \in reqs : WorkerMeta(q) /\ UNCHANGED <<ncl, nenv>>
SWorkerEnd == ~HasDone /\ \E q \in reqs : WorkerEnd(q) /\ UNCHANGED <<ncl, nenv>>
SP2 == ~HasDone /\ \E q \in reqs : P2(q) /\ UNCHANGED <<ncl, nenv>>
SPWrite == ~HasDone /\ \E q \in reqs : PWrite(q) /\ UNCHANGED <<ncl, nenv>>
SWb1 == ~HasDone /\ \E q \in reqs : Wb1(q) /\ UNCHANGED <<ncl, nenv>>
SWbAdd == ~HasDone /\ \E q \in reqs : WbAdd(q) /\ UNCHANGED <<ncl, nenv>>
SGen == ~HasDone /\ \E q \in reqs : Gen(q) /\ UNCHANGED <<ncl, nenv>>
SFan0 == ~HasDone /\ \E q \in reqs : Fan0(q) /\ UNCHANGED <<ncl, nenv>>
SFanDone == ~HasDone /\ \E q \in reqs : FanDone(q) /\ UNCHANGED <<ncl, nenv>>
SRemoteGone == ~HasDone /\ \E q \in reqs : RemoteGone(q) /\ UNCHANGED <<ncl, nenv>>
SRemote == ~HasDone /\ \E q \in reqs : Remote(q) /\ UNCHANGED <<ncl, nenv>>
SDlCall == ~HasDone /\ \E q \in reqs : DlCall(q) /\ UNCHANGED <<ncl, nenv>>
SLegRecv == ~HasDone /\ \E q \in reqs : LegRecv(q) /\ UNCHANGED <<ncl, nenv>>
SReply == \E q \in reqs : Reply(q) /\ UNCHANGED <<ncl, nenv>>
SLegBegin == ~HasDone /\ \E q \in reqs : \E lg \in q.legs : LegBegin(q, lg) /\ UNCHANGED <<ncl, nenv>>
SDlRet == ~HasDone /\ \E q \in reqs : \E k \in {"exact", "bad", "err", "nf"} : k \in EnvActs /\ DlRet(q, k) /\ UNCHANGED <<ncl, nenv>>

Steps == \/ HHealth \/ HReadiness \/ HLocations \/ HStat \/ HDownload \/ HPrefetch \/ HGetMeta \/ HReplicate \/ HDelete
         \/ HOverwriteMeta \/ HStart \/ HTransferStart \/ HPatch \/ HTransferPatch \/ HCommit \/ HDupCommit
         \/ HTransferCommit \/ HForceCleanup \/ HForceCleanupV2
         \/ SBStat \/ SOverwriteSet \/ SRf1 \/ SRf2 \/ SWorkerStore \/ SWorkerMeta \/ SWorkerEnd \/ SP2 \/ SPWrite
         \/ SWb1 \/ SWbAdd \/ SGen \/ SFan0 \/ SFanDone \/ SRemoteGone \/ SRemote \/ SDlCall
         \/ SLegRecv \/ SLegBegin \/ SDlRet

EDown == ~HasDone /\ UNCHANGED ncl /\ nenv < MaxEnv /\ nenv' = nenv + 1 /\ "down" \in EnvActs /\ \E n \in Nodes : SetUp(n, ~env.up[n])
EBackendDown == ~HasDone /\ UNCHANGED ncl /\ nenv < MaxEnv /\ nenv' = nenv + 1 /\ "bdown" \in EnvActs /\ SetBDown(~env.bdown)
ERemoteDown == ~HasDone /\ UNCHANGED ncl /\ nenv < MaxEnv /\ nenv' = nenv + 1 /\ "rdown" \in EnvActs /\ \E s \in RConfigs : s # env.rhosts /\ SetRHosts(s)
EWbFail == ~HasDone /\ UNCHANGED ncl /\ nenv < MaxEnv /\ nenv' = nenv + 1 /\ "wbfail" \in EnvActs /\ \E n \in Nodes : SetWbFail(IF n \in env.wbfail THEN env.wbfail \ {n} ELSE env.wbfail \cup {n})
EBackendPut == ~HasDone /\ UNCHANGED ncl /\ nenv < MaxEnv /\ nenv' = nenv + 1 /\ "backend" \in EnvActs /\ \E d \in Digests : d \notin env.backend /\ SetBackend(env.backend \cup {d})
ERing == ~HasDone /\ UNCHANGED ncl /\ nenv < MaxEnv /\ nenv' = nenv + 1 /\ "ring" \in EnvActs /\ \E d \in Digests : env.ring[d] # MCRingAlt /\ SetRing(d, MCRingAlt)
EHours == ~HasDone /\ UNCHANGED ncl /\ nenv < MaxEnv /\ nenv' = nenv + 1 /\ "hours" \in EnvActs /\ env.hours < MaxHours /\ Hours(1)
ETick == ~HasDone /\ UNCHANGED ncl /\ nenv < MaxEnv /\ nenv' = nenv + 1 /\ "tick" \in EnvActs /\ (\E n \in Nodes, d \in Digests : node[n].rst[d].s \in {"err", "nf"}) /\ Tick
Env == EDown \/ EBackendDown \/ ERemoteDown \/ EWbFail \/ EBackendPut \/ ERing \/ EHours \/ ETick

Next == SReply \/ ClientCall \/ PeerCall \/ Steps \/ Env
Spec == Init /\ [][Next]_mvars
\* every request that arrived is eventually answered (no handler, leg or worker gets stuck) provided its steps,
\* the dependencies it waits for and the other origins keep running
Fair == /\ WF_mvars(Steps) /\ WF_mvars(PeerCall) /\ WF_mvars(SReply)
LiveSpec == Spec /\ Fair
AllAnswered == /\ \A i \in 1..(4 * MaxReq) : (\E q \in reqs : q.rid = ToString(i)) ~> ~(\E q \in reqs : q.rid = ToString(i))
               /\ \A n \in Nodes, d \in Digests : (node[n].rst[d].s = "pending") ~> (node[n].rst[d].s # "pending")
=============================================================================
