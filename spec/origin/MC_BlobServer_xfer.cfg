SPECIFICATION Spec
CONSTANTS
  Nodes = {"n1", "n2"}
  Digests = {"k2"}
  DOrder <- MCOrder
  Content <- MCContent
  DefPL = 4
  LegChunk = 1
  ErrTTL = 1
  FixLock = TRUE
  FixRange = TRUE
  Fix404 = TRUE
  FixCT = TRUE
  MaxReq = 4
  MaxConc = 2
  Ops = {"tstart", "tpatch", "tcommit", "dupcommit", "start", "patch", "commit"}
  PatchKinds = {"full", "short", "neg", "nouid"}
  EnvActs = {"down"}
  MaxHours = 0
  MaxEnv = 1
  Backend0 = {}
  ClientNodes = {"n1"}
  Cached0 = {}
INVARIANT Inv
PROPERTY CommitConsumes CacheOnlyVerified TasksOnlyGrow CleanupOnlyCandidates RemovalOnlyByDelete ReplicateTruthful
CHECK_DEADLOCK FALSE
