SPECIFICATION Spec
CONSTANTS
  AtomicCreate = TRUE
  AtomicOverwrite = TRUE
INVARIANT Inv
CHECK_DEADLOCK FALSE
