----------------------------- MODULE BlobServer -----------------------------
(* Extension module X03: the HTTP API state machine of the origin blob server
   (origin/blobserver/{server.go,uploader.go,utils.go}).

   A cluster of origins (Nodes).  Each node has a content-addressed cache (CAStore, treated
   abstractly: a map digest -> inode, see spec/store/CAStore.tla for its internals), upload
   files, per-blob metadata (torrent metainfo, persist flag), a write-back task queue (the
   persistedretry manager, abstract: a set of tasks; see spec/origin/WriteBack.tla), a blob
   refresher (abstract: idle / pending / cached error per digest; see spec/dedup) and shares
   one storage backend, one hash ring (abstract: digest -> sequence of owners; see
   spec/ring) and one remote cluster with the others.

   The specification is implementation-shaped: an HTTP request is a record in `reqs` with a
   program counter; every step below is one critical section / linearization point of the
   handler (one CAStore call, one manager call, one backend call, one request to another
   origin), so that other requests interleave exactly where they can in the code.  Requests a
   node sends to another node (duplicate uploads, internal transfers) are ordinary requests of
   the receiving node (`src = "peer"`) driven by the leg state machine of the sender, which is
   the chunked-upload protocol of origin/blobclient (start, patch*, commit; 409 = done).

   File identity: an upload file is an inode named by its upload id; commit RENAMES it into
   the cache, so `cache[d]` holds the uid of the inode (or "rf" for a file the refresher
   wrote, whose bytes were verified and which nobody else can write).  A PATCH handler opens
   the inode, then copies the body: the write goes to the inode wherever it is by then.

   As-built switches (TRUE = behaviour a user relies on, FALSE = what the code does today;
   see docs/ext/X03.md, known_findings.d/X03.json):
     FixLock   commit waits for PATCH handlers that hold the upload file open       (X03-1)
     FixRange  a Content-Range with start > end is a bad request                    (X03-2)
     Fix404    overwriting the metainfo of an absent blob answers 404, not 500      (X03-3)
     FixCT     a successful download carries the documented content type          (X03-4)  *)
EXTENDS Integers, Sequences, FiniteSets, TLC

CONSTANTS Nodes,      \* origin addresses (strings)
          Digests,    \* blob names (strings)
          DOrder,     \* the digests as a sequence (canonical order of listings)
          Content,    \* [Digests -> Seq(token)]: the chunks that hash to each digest
          DefPL,      \* piece length metainfogen is configured with
          ErrTTL,     \* cached refresh errors expire when their age exceeds this many ticks
          FixLock, FixRange, Fix404, FixCT

VARIABLES node,    \* [Nodes -> [cache, meta, persist, uploads, tasks, rst]]
          fdata,   \* inode contents: [uid -> Seq(token)] (dynamic domain)
          env,     \* [ring, up, backend, bdown, wbfail, remote, rhosts, hours, lchunk]  (lchunk: chunk size, in tokens,
                   \*   of the blobclient the origins use among themselves)
          reqs,    \* in-flight requests and refresh workers (set of records)
          nrid,    \* number of request ids handed out (design model only)
          acked    \* history: <<node, ns, d>> for which a client was told "uploaded"
vars == <<node, fdata, env, reqs, nrid, acked>>

NS == {"ns", "nob"}          \* "ns" has a storage backend configured, "nob" has none
ToSet(s) == {s[i] : i \in 1..Len(s)}
Max(a, b) == IF a > b THEN a ELSE b
Min(a, b) == IF a < b THEN a ELSE b
FSet(f, k, v) == [x \in DOMAIN f \cup {k} |-> IF x = k THEN v ELSE f[x]]

Cached(n, d)    == node[n].cache[d] # "none"
CacheData(n, d) == IF node[n].cache[d] = "rf" THEN Content[d] ELSE fdata[node[n].cache[d]]
Owners(d)       == ToSet(env.ring[d])

\* bytes of an inode after writing `data` at token offset a (a seek beyond the end followed by a write leaves zeros)
Pad(f, n) == IF Len(f) >= n THEN f ELSE f \o [i \in 1..(n - Len(f)) |-> "z"]
WriteAt(f, a, data) ==
  IF data = <<>> THEN f
  ELSE LET g == Pad(f, a) IN
       [i \in 1..Max(Len(g), a + Len(data)) |-> IF i > a /\ i <= a + Len(data) THEN data[i - a] ELSE g[i]]

NoLegs == {}
NewReq(rid, n, op, ns, d, uid, a, b, data, short, flag, num, str, bad, src) ==
  [rid |-> rid, node |-> n, op |-> op, ns |-> ns, d |-> d, uid |-> uid, a |-> a, b |-> b, data |-> data,
   short |-> short, flag |-> flag, num |-> num, str |-> str, bad |-> bad, src |-> src,
   pc |-> "begin", code |-> 0, out |-> <<>>, onum |-> 0, ino |-> "none", conf |-> FALSE, hooks |-> FALSE,
   kind |-> "none", legs |-> NoLegs]
Leg(r, k) == [to |-> r, kind |-> k, st |-> "todo", busy |-> FALSE, uid |-> "none", pos |-> 0, idx |-> 0, ino |-> "none"]

Idle == [s |-> "idle", age |-> 0]
NodeInit == [cache |-> [d \in Digests |-> "none"], meta |-> [d \in Digests |-> 0], persist |-> {},
             uploads |-> {}, tasks |-> {}, rst |-> [d \in Digests |-> Idle]]
EnvInit(ring, lchunk) == [ring |-> ring, up |-> [n \in Nodes |-> TRUE], backend |-> {}, bdown |-> FALSE, wbfail |-> {},
                          remote |-> {}, rhosts |-> <<"ok", "ok">>, hours |-> 0, lchunk |-> lchunk]

\* inodes that are still reachable: upload files, cached blobs, files held open by a PATCH handler or read by a leg
Live(nd, rq) == UNION {nd[n].uploads : n \in Nodes}
                \cup {nd[n].cache[d] : n \in Nodes, d \in Digests}
                \cup {q.ino : q \in rq} \cup UNION {{l.ino : l \in q.legs} : q \in rq}
Gc(fd, nd, rq) == [u \in DOMAIN fd \cap Live(nd, rq) |-> fd[u]]

\* ---------------------------------------------------------------------------------------------
\* step helpers.  Every step rewrites one request q and possibly node q.node; Fin closes the frame.
Done(q, code)   == [q EXCEPT !.pc = "done", !.code = code, !.ino = "none"]
Fin(q, q2, nd, fd) ==
  /\ reqs' = (reqs \ {q}) \cup {q2}
  /\ node' = nd
  /\ fdata' = Gc(fd, nd, (reqs \ {q}) \cup {q2})
Only(q, q2)     == Fin(q, q2, node, fdata)
NodeUpd(n, rec) == [node EXCEPT ![n] = rec]
N(q)            == node[q.node]

\* status of a request whose parameters do not parse (httputil.ParseDigest/ParseParam, parseContentRange,
\* strconv in the handlers).  "local" is the stat handler's query argument: handler.Errorf without a status = 500
\* (the repository's TestStatHandlerInvalidParam pins that); a duplicate commit whose JSON body does not decode = 500.
BadCode(bad) == IF bad \in {"local", "json"} THEN 500 ELSE 400

\* a client was told that the blob is uploaded: commit 200, or 409 on a cluster upload endpoint (clients
\* short-circuit on conflict and report success: origin/blobclient/uploader.go runChunkedUpload)
ClusterOps == {"start", "patch", "commit"}
CommitOps  == {"commit", "dupcommit", "tcommit"}
AckNow(q, code) == IF (q.op \in {"commit", "dupcommit"} /\ code = 200) \/ (q.op \in ClusterOps /\ code = 409)
                   THEN acked \cup {<<q.node, q.ns, q.d>>} ELSE acked

\* where a request continues after writeBack (server.go writeBack) has finished
AfterWb(q) == IF q.conf THEN Done(q, 409)
              ELSE IF q.op = "commit" THEN [q EXCEPT !.pc = "fan0"]
              ELSE Done(q, 200)

\* ---------------------------------------------------------------------------------------------
\* arrival of a request (ClientCall in the design model; TCall in the trace specification)
Arrive(q) ==
  /\ reqs' = reqs \cup {IF env.up[q.node] THEN q ELSE Done(q, 503)}
  /\ UNCHANGED <<node, fdata, env, acked>>

\* ---------------------------------------------------------------------------------------------
\* silent steps of a request: everything the handler does on its own node's store
Begin(q) ==
  /\ q.pc = "begin" /\ q.op # "refresh"
  /\ (q.op \in CommitOps \cup {"forcecleanup"} => q.bad # "none")      \* their first step is Move / ForceCleanup
  /\ UNCHANGED <<env, nrid>>
  /\ LET n == q.node  d == q.d  me == N(q) IN
     IF q.op = "forcecleanup2"            \* forceCleanupHandlerV2: diskStore is never wired in => 501 before any parsing
     THEN Only(q, Done(q, 501)) /\ UNCHANGED acked
     ELSE IF q.bad # "none"
     THEN Only(q, Done(q, BadCode(q.bad))) /\ UNCHANGED acked
     ELSE CASE q.op \in {"health", "peerctx"} -> Only(q, Done(q, 200)) /\ UNCHANGED acked
       [] q.op = "readiness" ->              \* backends.CheckReadiness: the must-ready backend answers or 503
            Only(q, Done(q, IF env.bdown THEN 503 ELSE 200)) /\ UNCHANGED acked
       [] q.op = "locations" ->              \* getLocationsHandler: the ring's answer, in ring order
            Only(q, [Done(q, 200) EXCEPT !.out = env.ring[d]]) /\ UNCHANGED acked
       [] q.op = "stat" ->                   \* Server.stat: local cache first, backend only if local=false
            /\ UNCHANGED acked
            /\ IF Cached(n, d) THEN Only(q, [Done(q, 200) EXCEPT !.onum = Len(CacheData(n, d))])
               ELSE IF q.flag THEN Only(q, Done(q, 404))
               ELSE Only(q, [q EXCEPT !.pc = "bstat"])
       [] q.op \in {"download", "prefetch"} ->   \* downloadBlob / prefetchBlob
            /\ UNCHANGED acked
            /\ IF Cached(n, d)
               THEN Only(q, [Done(q, 200) EXCEPT !.out = IF q.op = "download" THEN CacheData(n, d) ELSE <<>>])
               ELSE Only(q, [q EXCEPT !.pc = "rf1", !.hooks = TRUE])
       [] q.op = "getmeta" ->                \* getMetaInfo: decided by the METADATA, not by the blob
            /\ UNCHANGED acked
            /\ IF me.meta[d] # 0 THEN Only(q, [Done(q, 200) EXCEPT !.onum = me.meta[d]])
               ELSE Only(q, [q EXCEPT !.pc = "rf1", !.hooks = TRUE])
       [] q.op = "replicate" ->              \* replicateToRemote
            /\ UNCHANGED acked
            /\ IF Cached(n, d) THEN Only(q, [q EXCEPT !.pc = "remote"])
               ELSE Only(q, [q EXCEPT !.pc = "rf1", !.hooks = FALSE])
       [] q.op = "delete" ->                 \* deleteBlob: data file and every piece of metadata go together; a blob
            /\ UNCHANGED acked               \* that awaits write-back (persist flag) is refused by the store (C10) => 500
            /\ IF ~Cached(n, d) THEN Only(q, Done(q, 404))
               ELSE IF d \in me.persist THEN Only(q, Done(q, 500))
               ELSE Fin(q, Done(q, 202), NodeUpd(n, [me EXCEPT !.cache[d] = "none", !.meta[d] = 0]), fdata)
       [] q.op = "overwritemeta" ->          \* overwriteMetaInfo, first half: open the cache file
            /\ UNCHANGED acked
            /\ IF Cached(n, d) THEN Only(q, [q EXCEPT !.pc = "om2"])
               ELSE Only(q, Done(q, IF Fix404 THEN 404 ELSE 500))
       [] q.op \in {"start", "tstart"} ->    \* uploader.start (startTransferHandler checks the same thing first)
            IF Cached(n, d)
            THEN IF q.op = "tstart" THEN Only(q, Done(q, 409)) /\ UNCHANGED acked
                 ELSE Only(q, [q EXCEPT !.conf = TRUE, !.pc = "wb1"]) /\ UNCHANGED acked
            ELSE /\ Fin(q, [Done(q, 200) EXCEPT !.out = <<q.rid>>],
                        NodeUpd(n, [me EXCEPT !.uploads = @ \cup {q.rid}]), FSet(fdata, q.rid, <<>>))
                 /\ UNCHANGED acked
       [] q.op \in {"patch", "tpatch"} ->    \* parseContentRange accepted the header; uploader.patch: blobExists first
            /\ UNCHANGED acked
            /\ IF q.a > q.b /\ FixRange THEN Only(q, Done(q, 400))
               ELSE IF Cached(n, d)
               THEN IF q.op = "tpatch" THEN Only(q, Done(q, 409)) ELSE Only(q, [q EXCEPT !.conf = TRUE, !.pc = "wb1"])
               ELSE Only(q, [q EXCEPT !.pc = "p2"])

\* Server.stat, second half: the namespace's backend
BStat(q) ==
  /\ q.pc = "bstat" /\ UNCHANGED <<env, nrid, acked>>
  /\ Only(q, IF q.ns = "nob" \/ env.bdown THEN Done(q, 500)
             ELSE IF q.d \in env.backend THEN [Done(q, 200) EXCEPT !.onum = Len(Content[q.d])]
             ELSE Done(q, 404))

\* overwriteMetaInfo, second half: SetCacheFileMetadata (the blob may have been deleted since it was read)
OverwriteSet(q) ==
  /\ q.pc = "om2" /\ UNCHANGED <<env, nrid, acked>>
  /\ IF Cached(q.node, q.d)
     THEN Fin(q, Done(q, 200), NodeUpd(q.node, [N(q) EXCEPT !.meta[q.d] = q.num]), fdata)
     ELSE Only(q, Done(q, 500))

\* startRemoteBlobDownload -> blobrefresh.Refresh, synchronous part 1: backend client + Stat
Rf1(q) ==
  /\ q.pc = "rf1" /\ UNCHANGED <<env, nrid, acked>>
  /\ Only(q, IF q.ns = "nob" \/ env.bdown THEN Done(q, 500)
             ELSE IF q.d \notin env.backend THEN Done(q, 404)
             ELSE [q EXCEPT !.pc = "rf2"])
\* part 2: dedup.RequestCache.Start: pending => 202, cached error => 500/404, else a worker starts => 202
WorkerId(n, d) == "w." \o n \o "." \o d
Rf2(q) ==
  /\ q.pc = "rf2" /\ UNCHANGED <<env, nrid, acked>>
  /\ LET n == q.node  d == q.d  s == N(q).rst[d].s IN
     CASE s = "pending" -> Only(q, Done(q, 202))
       [] s = "err"     -> Only(q, Done(q, 500))
       [] s = "nf"      -> Only(q, Done(q, 404))
       [] s = "idle"    ->
            LET w == [NewReq(WorkerId(n, d), n, "refresh", q.ns, d, "none", 0, 0, <<>>, FALSE, FALSE, 0, "", "none", "worker")
                      EXCEPT !.pc = "dl", !.hooks = q.hooks] IN
            /\ reqs' = (reqs \ {q}) \cup {Done(q, 202), w}
            /\ node' = NodeUpd(n, [N(q) EXCEPT !.rst[d] = [s |-> "pending", age |-> 0]])
            /\ UNCHANGED fdata

\* the worker stores what the backend delivered (CAStore.WriteBlobToCacheWithMetaInfo, disk path): verified
\* bytes become the cache file unless one exists already (ws1), then metainfo is (re)generated from the cache file
\* with the default piece length (ws2; the blob may have been deleted in between).  Anything that fails is an
\* error the request cache remembers.
WorkerFail(q, s) ==
  /\ reqs' = reqs \ {q}
  /\ node' = NodeUpd(q.node, [N(q) EXCEPT !.rst[q.d] = [s |-> s, age |-> 0]])
  /\ UNCHANGED fdata
WorkerStore(q) ==
  /\ q.op = "refresh" /\ q.pc = "store" /\ UNCHANGED <<env, nrid, acked>>
  /\ IF q.kind = "exact"
     THEN Fin(q, [q EXCEPT !.pc = "store2"],
              NodeUpd(q.node, [N(q) EXCEPT !.cache[q.d] = IF @ = "none" THEN "rf" ELSE @]), fdata)
     ELSE WorkerFail(q, IF q.kind = "nf" THEN "nf" ELSE "err")
WorkerMeta(q) ==
  /\ q.op = "refresh" /\ q.pc = "store2" /\ UNCHANGED <<env, nrid, acked>>
  /\ IF Cached(q.node, q.d)
     THEN Fin(q, [q EXCEPT !.pc = IF q.hooks THEN "fan0" ELSE "end"],
              NodeUpd(q.node, [N(q) EXCEPT !.meta[q.d] = DefPL]), fdata)
     ELSE WorkerFail(q, "err")
WorkerEnd(q) ==
  /\ q.op = "refresh" /\ q.pc = "end" /\ UNCHANGED <<env, nrid, acked, fdata>>
  /\ reqs' = reqs \ {q}
  /\ node' = NodeUpd(q.node, [N(q) EXCEPT !.rst[q.d] = Idle])

\* uploader.patch after blobExists: open the upload file, then copy the body through the open file
P2(q) ==
  /\ q.pc = "p2" /\ UNCHANGED <<env, nrid, acked>>
  /\ IF q.uid \in N(q).uploads THEN Only(q, [q EXCEPT !.pc = "write", !.ino = q.uid])
     ELSE Only(q, Done(q, 404))
PWrite(q) ==
  /\ q.pc = "write" /\ UNCHANGED <<env, nrid, acked>>
  /\ Fin(q, Done(q, IF q.short THEN 500 ELSE 200), node,
         FSet(fdata, q.ino, WriteAt(fdata[q.ino], q.a, q.data)))

\* uploader.commit = CAStore.MoveUploadFileToCache: locate, verify the digest, rename, delete the upload file
WriterOpen(n, u) == \E p \in reqs : p.node = n /\ p.pc = "write" /\ p.ino = u
Move(q) ==
  /\ q.pc = "begin" /\ q.op \in CommitOps /\ q.bad = "none" /\ UNCHANGED <<env, nrid>>
  /\ (FixLock => ~WriterOpen(q.node, q.uid))
  /\ LET n == q.node  d == q.d  u == q.uid  me == N(q)
         gone == NodeUpd(n, [me EXCEPT !.uploads = @ \ {u}]) IN
     IF u \notin me.uploads THEN Only(q, Done(q, 404)) /\ UNCHANGED acked
     ELSE IF fdata[u] # Content[d] THEN Fin(q, Done(q, 500), gone, fdata) /\ UNCHANGED acked
     ELSE IF Cached(n, d)
     THEN IF q.op = "commit" THEN Fin(q, [q EXCEPT !.conf = TRUE, !.pc = "wb1"], gone, fdata) /\ UNCHANGED acked
          ELSE Fin(q, Done(q, 409), gone, fdata) /\ UNCHANGED acked
     ELSE /\ Fin(q, [q EXCEPT !.pc = IF q.op = "tcommit" THEN "gen" ELSE "wb1"],
                 NodeUpd(n, [me EXCEPT !.uploads = @ \ {u}, !.cache[d] = u]), fdata)
          /\ UNCHANGED acked

\* writeBack step 1: SetCacheFileMetadata(persist)
Wb1(q) ==
  /\ q.pc = "wb1" /\ UNCHANGED <<env, nrid, acked>>
  /\ IF Cached(q.node, q.d)
     THEN Fin(q, [q EXCEPT !.pc = "wb2"], NodeUpd(q.node, [N(q) EXCEPT !.persist = @ \cup {q.d}]), fdata)
     ELSE Only(q, Done(q, 500))
\* writeBack step 2: writeBackManager.Add (a dependency: logged by the harness' manager)
WbDelay(q) == IF q.op = "dupcommit" /\ ~q.conf THEN q.num ELSE 0
WbAdd(q) ==
  /\ q.pc = "wb2" /\ UNCHANGED <<env, nrid, acked>>
  /\ IF q.node \in env.wbfail THEN Only(q, Done(q, 500))
     ELSE Fin(q, [q EXCEPT !.pc = "gen"],
              NodeUpd(q.node, [N(q) EXCEPT !.tasks = @ \cup {<<q.ns, q.d, WbDelay(q)>>}]), fdata)
\* writeBack step 3 / commitTransferHandler: metaInfoGenerator.Generate
Gen(q) ==
  /\ q.pc = "gen" /\ UNCHANGED <<env, nrid>>
  /\ IF Cached(q.node, q.d)
     THEN LET q2 == IF q.op = "tcommit" THEN Done(q, 200) ELSE AfterWb(q) IN
          /\ Fin(q, q2, NodeUpd(q.node, [N(q) EXCEPT !.meta[q.d] = DefPL]), fdata)
          /\ acked' = IF q2.pc = "done" THEN AckNow(q, q2.code) ELSE acked
     ELSE Only(q, Done(q, 500)) /\ UNCHANGED acked

\* applyToReplicas: the replica set is read from the ring once; never the node itself
Fan0(q) ==
  /\ q.pc = "fan0" /\ UNCHANGED <<env, nrid, acked>>
  /\ Only(q, [q EXCEPT !.pc = "fan",
                       !.legs = {Leg(r, IF q.op = "refresh" THEN "xfer" ELSE "dup") : r \in Owners(q.d) \ {q.node}}])
\* one goroutine per replica: open the cache file, then run the chunked upload
LegBegin(q, l) ==
  /\ q.pc = "fan" /\ l \in q.legs /\ l.st = "todo" /\ UNCHANGED <<env, nrid, acked>>
  /\ Only(q, [q EXCEPT !.legs = (@ \ {l}) \cup
        {IF Cached(q.node, q.d) THEN [l EXCEPT !.st = "start", !.ino = node[q.node].cache[q.d]]
         ELSE [l EXCEPT !.st = "err"]}])
LegData(l, d) == IF l.ino = "rf" THEN Content[d] ELSE fdata[l.ino]
\* the request the leg sends next
LegChild(q, l, rid, used) ==
  LET dat == LegData(l, q.d)
      hi  == Min(l.pos + env.lchunk, Len(dat)) IN
  CASE l.st = "start"  -> NewReq(rid, l.to, IF l.kind = "dup" THEN "start" ELSE "tstart", q.ns, q.d, "none", 0, 0, <<>>,
                                 FALSE, FALSE, 0, "", "none", "peer")
    [] l.st = "patch"  -> NewReq(rid, l.to, IF l.kind = "dup" THEN "patch" ELSE "tpatch", q.ns, q.d, l.uid, l.pos, hi,
                                 SubSeq(dat, l.pos + 1, hi), FALSE, FALSE, 0, "", "none", "peer")
    [] l.st = "commit" -> NewReq(rid, l.to, IF l.kind = "dup" THEN "dupcommit" ELSE "tcommit", q.ns, q.d, l.uid, 0, 0, <<>>,
                                 FALSE, FALSE, IF l.kind = "dup" THEN used ELSE 0, "", "none", "peer")
\* indices i+1 of DuplicateWriteBackStagger*(i+1) not yet used by this fan-out (Go map order decides who gets which)
FreeIdx(q) == (1..Cardinality(q.legs)) \ {l.idx : l \in q.legs}
LegSend(q, l, rid, idx) ==
  /\ q.pc = "fan" /\ l \in q.legs /\ l.st \in {"start", "patch", "commit"} /\ ~l.busy
  /\ (IF l.kind = "dup" /\ l.idx = 0 THEN idx \in FreeIdx(q) ELSE idx = l.idx)
  /\ UNCHANGED <<node, env, acked>>
  /\ LET c  == [LegChild(q, l, rid, idx) EXCEPT !.str = q.rid]
         l2 == [l EXCEPT !.busy = TRUE, !.idx = idx]
         q2 == [q EXCEPT !.legs = (@ \ {l}) \cup {l2}] IN
     /\ reqs' = (reqs \ {q}) \cup {q2, IF env.up[c.node] THEN c ELSE Done(c, 503)}
     /\ fdata' = fdata
\* the leg's request came back (runChunkedUpload: 409 anywhere = done, any other failure = give up)
LegNext(l, c, d) ==
  LET len == Len(LegData(l, d)) IN
  IF c.code = 409 THEN [l EXCEPT !.st = "ok", !.busy = FALSE, !.ino = "none"]
  ELSE IF c.code # 200 THEN [l EXCEPT !.st = "err", !.busy = FALSE, !.ino = "none"]
  ELSE CASE l.st = "start"  -> [l EXCEPT !.busy = FALSE, !.uid = c.out[1], !.st = IF len = 0 THEN "commit" ELSE "patch"]
         [] l.st = "patch"  -> [l EXCEPT !.busy = FALSE, !.pos = c.b, !.st = IF c.b >= len THEN "commit" ELSE "patch"]
         [] l.st = "commit" -> [l EXCEPT !.busy = FALSE, !.st = "ok", !.ino = "none"]
LegRecv(c) ==
  /\ c.src = "peer" /\ c.pc = "done" /\ UNCHANGED <<node, env, nrid, acked>>
  /\ \E q \in reqs : \E l \in q.legs :
       /\ q.rid = c.str /\ l.to = c.node /\ l.busy
       /\ LET q2 == [q EXCEPT !.legs = (@ \ {l}) \cup {LegNext(l, c, q.d)}] IN
          /\ reqs' = (reqs \ {q, c}) \cup {q2}
          /\ fdata' = Gc(fdata, node, (reqs \ {q, c}) \cup {q2})
\* wg.Wait(): replication errors are logged, never returned ("Don't fail the commit if replication fails")
FanDone(q) ==
  /\ q.pc = "fan" /\ \A l \in q.legs : l.st \in {"ok", "err"}
  /\ UNCHANGED <<env, nrid>>
  /\ IF q.op = "refresh" THEN Only(q, [q EXCEPT !.pc = "end", !.legs = NoLegs]) /\ UNCHANGED acked
     ELSE Only(q, [Done(q, 200) EXCEPT !.legs = NoLegs]) /\ acked' = AckNow(q, 200)

\* The remote cluster (abstract): its origins in the order the cluster client tries them, each with a disposition
\* towards an upload -- "ok" (stores the blob), "fail" (answers start, patch or commit with a non-retryable status such
\* as 500 / 400 / 403 / 404, or omits the Location header), "retry" (a retryable status: 429 / 502 / 503 / 504) or
\* "net" (drops the connection).  origin/blobclient's cluster client moves on to the next origin after "retry" and
\* "net" only; the upload reaches the remote cluster iff the first origin that is neither is "ok".
Decisive(s) == {i \in 1..Len(s) : s[i] \notin {"retry", "net"}}
RemoteOK(s) == Decisive(s) # {} /\ s[CHOOSE i \in Decisive(s) : \A j \in Decisive(s) : i <= j] = "ok"
\* replicateToRemote: the blob is streamed to the remote cluster (dependency: logged by the harness around the real
\* cluster client).  200 exactly if the remote cluster holds the blob afterwards; every failure is a 500.
RemoteGone(q) ==      \* the blob was deleted between the handler's stat and its open
  /\ q.pc = "remote" /\ ~Cached(q.node, q.d) /\ UNCHANGED <<env, nrid, acked>> /\ Only(q, Done(q, 500))
Remote(q) ==
  /\ q.pc = "remote" /\ Cached(q.node, q.d) /\ UNCHANGED <<node, nrid, acked>>
  /\ IF ~RemoteOK(env.rhosts) THEN reqs' = (reqs \ {q}) \cup {Done(q, 500)} /\ UNCHANGED <<env, fdata>>
     ELSE /\ reqs' = (reqs \ {q}) \cup {Done(q, 200)}
          /\ env' = [env EXCEPT !.remote = @ \cup {q.d}]
          /\ UNCHANGED fdata

\* forceCleanupHandler (one request = one pass over ListCacheFiles; the step-level protocol is C31's WriteBack.tla).
\* A blob is a candidate if it expired or this node is not one of its owners; a candidate with the persist flag
\* has its write-back tasks executed synchronously first (manager.SyncExec: the blob reaches the backend; the task
\* row itself stays) and survives if that fails.
FcCand(n, ttl)  == {d \in Digests : Cached(n, d) /\ (env.hours > ttl \/ n \notin Owners(d))}
FcTasks(n, d)   == {t \in node[n].tasks : t[2] = d}
FcBlocked(n, d) == d \in node[n].persist /\ FcTasks(n, d) # {} /\ env.bdown
ForceCleanup(q) ==
  /\ q.pc = "begin" /\ q.op = "forcecleanup" /\ q.bad = "none" /\ UNCHANGED <<nrid, acked>>
  /\ LET n == q.node  me == N(q)
         del  == {d \in FcCand(n, q.num) : ~FcBlocked(n, d)}
         exec == {d \in del : d \in me.persist}
         q2   == [Done(q, 200) EXCEPT !.out = SelectSeq(DOrder, LAMBDA d : d \in del),
                                      !.onum = Cardinality(FcCand(n, q.num) \ del)] IN
     /\ env' = [env EXCEPT !.backend = @ \cup {d \in exec : \E t \in FcTasks(n, d) : t[1] = "ns"}]
     /\ Fin(q, q2, NodeUpd(n, [me EXCEPT !.cache = [d \in Digests |-> IF d \in del THEN "none" ELSE @[d]],
                                         !.meta = [d \in Digests |-> IF d \in del THEN 0 ELSE @[d]],
                                         !.persist = @ \ del]), fdata)

Entry(q) == Begin(q) \/ Move(q) \/ ForceCleanup(q)          \* the first step of a handler
Silent(q) == \/ Entry(q) \/ BStat(q) \/ OverwriteSet(q) \/ Rf1(q) \/ Rf2(q) \/ WorkerStore(q) \/ WorkerMeta(q) \/ WorkerEnd(q)
             \/ P2(q) \/ PWrite(q) \/ Wb1(q) \/ Gen(q) \/ Fan0(q) \/ FanDone(q)
             \/ RemoteGone(q) \/ \E l \in q.legs : LegBegin(q, l)

\* the worker's backend.Download: call (the worker is at the backend) and return (what the backend delivered)
DlCall(q) == /\ q.op = "refresh" /\ q.pc = "dl" /\ UNCHANGED <<env, nrid, acked>> /\ Only(q, [q EXCEPT !.pc = "dlw"])
DlRet(q, kind) == /\ q.op = "refresh" /\ q.pc = "dlw" /\ UNCHANGED <<env, nrid, acked>>
                  /\ Only(q, [q EXCEPT !.pc = "store", !.kind = kind])

\* a finished client request is answered and forgotten
Reply(q) == /\ q.src = "client" /\ q.pc = "done"
            /\ reqs' = reqs \ {q} /\ UNCHANGED <<node, fdata, env, nrid, acked>>

\* ---------------------------------------------------------------------------------------------
\* environment
SetUp(n, b)     == env' = [env EXCEPT !.up[n] = b] /\ UNCHANGED <<node, fdata, reqs, nrid, acked>>
SetBDown(b)     == env' = [env EXCEPT !.bdown = b] /\ UNCHANGED <<node, fdata, reqs, nrid, acked>>
SetRHosts(s)    == env' = [env EXCEPT !.rhosts = s] /\ UNCHANGED <<node, fdata, reqs, nrid, acked>>
SetWbFail(s)    == env' = [env EXCEPT !.wbfail = s] /\ UNCHANGED <<node, fdata, reqs, nrid, acked>>
SetBackend(s)   == env' = [env EXCEPT !.backend = s] /\ UNCHANGED <<node, fdata, reqs, nrid, acked>>
SetRing(d, seq) == env' = [env EXCEPT !.ring[d] = seq] /\ UNCHANGED <<node, fdata, reqs, nrid, acked>>
Hours(h)        == env' = [env EXCEPT !.hours = @ + h] /\ UNCHANGED <<node, fdata, reqs, nrid, acked>>
\* the refresher's clock advances one tick: cached errors age and expire (dedup.RequestCache error TTL)
Tick == /\ node' = [n \in Nodes |-> [node[n] EXCEPT !.rst = [d \in Digests |->
                      IF @[d].s \in {"err", "nf"} THEN (IF @[d].age + 1 > ErrTTL THEN Idle ELSE [@[d] EXCEPT !.age = @ + 1])
                      ELSE @[d]]]]
        /\ UNCHANGED <<fdata, env, reqs, nrid, acked>>

\* =============================================================================================
\* Guarantees (checked by TLC on the design model and on every state of every recorded trace)

\* G1  content addressing: whatever is readable under d hashes to d -- "a commit succeeds only if the uploaded
\*     bytes hash to the digest", and nothing can change the bytes afterwards.
CacheGood == \A n \in Nodes, d \in Digests : Cached(n, d) => CacheData(n, d) = Content[d]
\* G2  metadata never outlives its blob (delete removes blob and metadata; a failed upload leaves neither)
MetaOnlyWithBlob == \A n \in Nodes, d \in Digests :
                      (node[n].meta[d] # 0 \/ d \in node[n].persist) => Cached(n, d)
\* G3  an inode is in one place: an upload file is not simultaneously a cache file, two digests never share one
NoAlias == \A n \in Nodes :
             /\ \A d \in Digests : node[n].cache[d] \notin node[n].uploads
             /\ \A d1, d2 \in Digests : (d1 # d2 /\ node[n].cache[d1] \notin {"none", "rf"}) => node[n].cache[d1] # node[n].cache[d2]
\* G4  at most one refresh of a digest runs on a node, and the refresher says "pending" exactly while it runs
OneRefresh == \A n \in Nodes, d \in Digests :
                /\ Cardinality({q \in reqs : q.op = "refresh" /\ q.node = n /\ q.d = d}) <= 1
                /\ (node[n].rst[d].s = "pending") <=> (\E q \in reqs : q.op = "refresh" /\ q.node = n /\ q.d = d)
\* G5  a client that was told "uploaded" (commit 200, or 409 from a cluster upload endpoint) can rely on the write-back:
\*     the node holds a task for (namespace, blob) or the blob is already in the backend.
AckedIsQueued == \A a \in acked : (\E t \in node[a[1]].tasks : t[1] = a[2] /\ t[2] = a[3]) \/ (a[2] = "ns" /\ a[3] \in env.backend)
\* G6  origins only talk to the other owners of a blob, never to themselves
LegsOnlyToOwners == \A q \in reqs : \A l \in q.legs : l.to # q.node
PeersOnlyFromLegs == \A c \in reqs : c.src = "peer" =>
                        \E q \in reqs : q.rid = c.str /\ q.node # c.node /\ \E l \in q.legs : l.to = c.node /\ l.busy
\* G7  status codes are the documented ones for the state the request met
Codes == {0, 200, 202, 400, 404, 409, 500, 501, 503}
CodeOK == \A q \in reqs : q.code \in Codes /\ (q.pc = "done" <=> q.code # 0)
TypeOK == /\ \A n \in Nodes : node[n].uploads \subseteq DOMAIN fdata
          /\ \A n \in Nodes, d \in Digests : node[n].cache[d] \in {"none", "rf"} \cup DOMAIN fdata
Inv == CacheGood /\ MetaOnlyWithBlob /\ NoAlias /\ OneRefresh /\ AckedIsQueued /\ LegsOnlyToOwners /\ PeersOnlyFromLegs
       /\ CodeOK /\ TypeOK

\* action properties ---------------------------------------------------------------------------
\* A1  a commit attempt consumes the upload file whatever the outcome, and a mismatching one changes no cache
CommitConsumesA ==
  \A q \in reqs : (q.pc = "begin" /\ q.op \in CommitOps /\ q.bad = "none" /\ q.uid \in node[q.node].uploads /\ q \notin reqs') =>
        /\ q.uid \notin node'[q.node].uploads
        /\ (fdata[q.uid] # Content[q.d] => \A n \in Nodes : node'[n].cache = node[n].cache)
CommitConsumes == [][CommitConsumesA]_vars
\* A2  a blob enters a cache only complete and verified, and only through a commit, a transfer or a refresh
CacheOnlyVerifiedA ==
  \A n \in Nodes, d \in Digests : (~Cached(n, d) /\ node'[n].cache[d] # "none") =>
        (IF node'[n].cache[d] = "rf" THEN TRUE ELSE fdata[node'[n].cache[d]] = Content[d])
CacheOnlyVerified == [][CacheOnlyVerifiedA]_vars
\* A3  no request ever drops a write-back task (not even DELETE or a forced cleanup)
TasksOnlyGrowA == \A n \in Nodes : node[n].tasks \subseteq node'[n].tasks
TasksOnlyGrow == [][TasksOnlyGrowA]_vars
\* A4  forced cleanup never removes a blob this node owns and that has not expired, nor one whose write-back failed
CleanupOnlyCandidatesA ==
  \A q \in reqs : (q.pc = "begin" /\ q.op = "forcecleanup" /\ q.bad = "none" /\ q \notin reqs') =>
        \A d \in Digests : (Cached(q.node, d) /\ node'[q.node].cache[d] = "none") =>
            /\ (env.hours > q.num \/ q.node \notin Owners(d)) /\ ~FcBlocked(q.node, d)
            /\ (d \in node[q.node].persist /\ (\E t \in FcTasks(q.node, d) : t[1] = "ns")) => d \in env'.backend
CleanupOnlyCandidates == [][CleanupOnlyCandidatesA]_vars
\* A5  only DELETE and a forced cleanup remove a cached blob, and a cached blob never changes identity
RemovalOnlyByDeleteA ==
  \A n \in Nodes, d \in Digests :
     /\ (Cached(n, d) /\ node'[n].cache[d] = "none") =>
           \E q \in reqs : q.node = n /\ q \notin reqs' /\ ((q.op = "delete" /\ q.d = d) \/ q.op = "forcecleanup")
     /\ (Cached(n, d) /\ node'[n].cache[d] # "none") => node'[n].cache[d] = node[n].cache[d]
RemovalOnlyByDelete == [][RemovalOnlyByDeleteA]_vars
\* A6  replicate-to-remote answers 200 only if the remote cluster really holds the blob, and the remote cluster gains
\*     blobs only that way
ReplicateTruthfulA ==
  /\ \A q \in reqs : (q.op = "replicate" /\ q.pc # "done") =>
        \A q2 \in reqs' : (q2.rid = q.rid /\ q2.pc = "done" /\ q2.code = 200) => q.d \in env'.remote
  /\ \A d \in env'.remote \ env.remote : \E q \in reqs : q.op = "replicate" /\ q.d = d /\ q.pc = "remote" /\ RemoteOK(env.rhosts)
ReplicateTruthful == [][ReplicateTruthfulA]_vars
=============================================================================
