SPECIFICATION FairSpec
CONSTANTS
  D = {"d1"}
  NS = {"n1"}
  H = {"h1"}
  W = {"w1"}
  MaxTries = 2
  MaxStart = 2
  MaxFault = 0
  MaxRestart = 0
  MaxDel = 0
  MaxForce = 1
  MaxAux = 0
  Kinds = {"pub"}
  FixLeak = FALSE
  FixShared = FALSE
PROPERTY Live
CHECK_DEADLOCK FALSE
