SPECIFICATION TraceSpec
CONSTANTS
  AtomicCreate = TRUE
  AtomicOverwrite = TRUE
CONSTRAINT HW
POSTCONDITION TraceAccepted
CHECK_DEADLOCK FALSE
