------------------------------ MODULE WriteBack ------------------------------
(* Implementation-shaped specification of the origin's upload commit / write-back protocol (property C31):
   origin/blobserver/server.go (commit, conflict handling, writeBack, deleteBlob, forceCleanup/maybeDelete),
   origin/blobserver/uploader.go, lib/persistedretry/writeback/executor.go on a persistedretry manager with
   the sqlite task table, lib/store (CAStore cache directory: persist flag, Delete, LRU eviction, cleanup pass).

   One action per step between two points at which another goroutine (or a process kill) can interleave AND
   that the harness can hold on the real code through a dependency (see harness/engines/c31):

     cluster upload   start | patch | commit(move) ; setPersist ; manager.Add ; genMeta ; (replicas) ; reply
                      HStart HPatch HCommit          HSetPersist  HAddTask      HGenMeta             HAck
                      (a start / patch / commit that finds the blob in the cache takes the conflict path:
                       handleUploadConflict -> the same writeBack steps, answered 409)
     worker           <-queue ; backend.Stat ; GetCacheFileReader ; backend.Upload ; DeleteCacheFileMetadata(persist) ;
                      WTake     XStat          XRead                XUpload          XClear
                      store.Remove | store.MarkFailed
                      WRemove       WMarkFailed
     retry poller     GetFailed ; (MarkPending ; enqueue)*                        Poll
     forced cleanup   ListCacheFiles ; per name: stat ; ring.Locations ; persist? ; manager.Find ;
                      FStart (+ first stat)             FOwn                        FFindNone | FFindSome
                      SyncExec(task)* (= the executor steps, retried in place) ; delete flag ; DeleteCacheFile
                      XStat XRead XUpload XClear           FSxNext             FSxLast
                      (every step that finishes a name goes on to stat the next listed name: FAdvance)
     cleanup pass     ListNames ; per name: stat, readyForDeletion, DeleteFile   ClStart ClFile
     DELETE blob      DeleteCacheFile                                            DeleteBlob
     LRU eviction     fileMap.TryStore's deferred syncRemoveOldestIfNeeded       Evict
     transfer commit  internal upload (no write-back)                            Transfer
     blob refresh     download from the backend into the cache                   Refresh
     backend          outage begins / ends                                       BackendDown BackendUp
     restart          process dies anywhere; sqlite table and disk survive       Restart

   Disk:     cache (data file present), persist (persist flag present and true), meta (torrent metainfo)
   sqlite:   task[(n,d)] in {"none","pending","failed"}    -- key is (namespace, name), writeback/store.go
   volatile: queue (tasks sitting in the two channels), worker / handler / forced-cleanup / cleanup-pass program counters
   ghost:    acked  -- (n,d) whose commit PUT was answered 2xx
             cacked -- (n,d) for which a start/patch/commit was answered 409 AFTER handleUploadConflict's writeBack
                       returned nil ("Clients short circuit on conflict and return success", server.go:707-710;
                       origin/blobclient/uploader.go:39 turns that 409 into success for the uploader)

   Reading of C31.  acknowledged = acked \cup cacked.  "the backend for its namespace" = bk restricted to n
   (each namespace of NS is configured with its own backend; a deployment in which several namespaces share one
   backend is the instance with a single element in NS).  The unconfigured-namespace branch of the executor
   (task dropped) is outside the statement.  The backend never loses a blob.

   Findings (both reproduced on the real code, known_findings.d/C31.json) and the Fix* constants.  FALSE models the
   code as built, TRUE the candidate repairs (fixes/F31a.diff, fixes/F31b.diff); MC_WriteBack_asbuilt*.cfg produce
   the counterexamples, the MC_WriteBack*.cfg used by the check have the repairs on and TLC proves the invariants.
     FixLeak    (F31a) forced cleanup: a flagged file without task row is NOT deleted.  As built it is classified
                "leaked, safe to delete" -- but a commit between setPersist and manager.Add looks exactly like
                that; the commit goes on, stores a task for a missing file, and either (i) is acknowledged after
                all because the file re-appeared (second uploader, replication), now without flag, or (ii) fails,
                its task is executed ("cache file missing": clear flag, remove row) while a retried commit of the
                same blob is acknowledged on top of the SAME row (Add is a no-op): flag and row of the
                acknowledged commit are gone.  Either way DELETE / cleanup / eviction remove the only copy and
                the blob never reaches the backend (Safe and Live fail).
     FixShared  (F31b) the persist flag is one per file but task rows are per (namespace, file): as built the
                first namespace that finishes clears the flag for all (and the forced cleanup deletes the file
                after executing only the rows it found).  Repair: executor and forced cleanup clear the flag /
                delete the file only when no OTHER task row exists for the file, writeBack sets the flag once
                more after manager.Add (a clear that slipped in between setPersist and Add -- when the row was
                not yet visible -- is undone), and a task whose cache file is missing FAILS (row kept, retried)
                instead of being dropped.                                                                     *)
EXTENDS Integers, FiniteSets, Sequences, TLC

CONSTANTS D, NS,            \* digests, namespaces
          H, W,             \* upload handler goroutines, manager workers
          MaxTries,         \* SyncExec attempts (SyncRetryBackoff.MaxRetries + 1)
          MaxStart, MaxFault, MaxRestart, MaxDel, MaxForce, MaxAux,   \* budgets of the environment (model checking only)
          Kinds,            \* subset of {"pub","dup"}: public commit / duplicate commit (delayed task)
          FixLeak, FixShared

VARIABLES cache, persist, meta, task, queue, bk, bup,
          hd, ex, fc, cl, acked, cacked,
          nstart, nfault, nrestart, ndel, nforce, naux

dvars == <<cache, persist, meta>>
cnt   == <<nstart, nfault, nrestart, ndel, nforce, naux>>
vars  == <<cache, persist, meta, task, queue, bk, bup, hd, ex, fc, cl, acked, cacked,
           nstart, nfault, nrestart, ndel, nforce, naux>>

T       == [n : NS, d : D]
NoT     == [n |-> "-", d |-> "-"]
X       == W \cup {"fc"}                   \* executor contexts: the workers and the forced cleanup's SyncExec
HIdle   == [pc |-> "idle", n |-> "-", d |-> "-", kind |-> "-", cf |-> FALSE]
XIdle   == [pc |-> "idle", t |-> NoT]
FIdle   == [pc |-> "idle", todo |-> {}, d |-> "-", ftodo |-> {}, done |-> {}, try |-> 0]
CIdle   == [pc |-> "idle", d |-> "-", todo |-> {}]
Stored(d) == {t \in T : t.d = d /\ task[t] # "none"}

Init ==
  /\ cache = {} /\ persist = {} /\ meta = {}
  /\ task = [t \in T |-> "none"] /\ queue = {}
  /\ bk = {} /\ bup = [n \in NS |-> TRUE]
  /\ hd = [h \in H |-> HIdle] /\ ex = [x \in X |-> XIdle] /\ fc = FIdle /\ cl = CIdle
  /\ acked = {} /\ cacked = {}
  /\ nstart = 0 /\ nfault = 0 /\ nrestart = 0 /\ ndel = 0 /\ nforce = 0 /\ naux = 0

\* removal of the directory of d: data file and every metadata file
Remove(d) == /\ cache' = cache \ {d} /\ persist' = persist \ {d} /\ meta' = meta \ {d}

\* FileEntry.Delete under the entry lock: reply in the pre-state
DelRes(d) == IF d \notin cache THEN "notfound" ELSE IF d \in persist THEN "persisted" ELSE "ok"

-----------------------------------------------------------------------------
(* cluster upload: start / patch / commit, conflict handling, writeBack *)

HStart(h, n, d, kind) ==                  \* a duplicate upload starts and patches through the public endpoints too
  /\ hd[h].pc = "idle" /\ nstart < MaxStart /\ kind \in Kinds
  /\ hd' = [hd EXCEPT ![h] = [pc |-> IF d \in cache THEN "wb0" ELSE "open",
                              n |-> n, d |-> d, kind |-> kind, cf |-> d \in cache]]
  /\ nstart' = nstart + 1
  /\ UNCHANGED <<dvars, task, queue, bk, bup, ex, fc, cl, acked, cacked, nfault, nrestart, ndel, nforce, naux>>

HPatch(h) ==                              \* uploader.patch re-checks blobExists
  /\ hd[h].pc = "open" /\ hd[h].d \in cache
  /\ hd' = [hd EXCEPT ![h].pc = "wb0", ![h].cf = TRUE]
  /\ UNCHANGED <<dvars, task, queue, bk, bup, ex, fc, cl, acked, cacked, cnt>>

\* uploader.commit: MoveUploadFileToCache; an existing cache file is a conflict
HCommit(h) ==
  /\ hd[h].pc = "open"
  /\ IF hd[h].d \in cache
     THEN /\ hd' = [hd EXCEPT ![h] = IF hd[h].kind = "pub" THEN [@ EXCEPT !.pc = "wb0", !.cf = TRUE] ELSE HIdle]
          /\ UNCHANGED cache                   \* the duplicate handler answers the conflict without write-back
     ELSE /\ cache' = cache \cup {hd[h].d}
          /\ hd' = [hd EXCEPT ![h].pc = "wb0"]
  /\ UNCHANGED <<persist, meta, task, queue, bk, bup, ex, fc, cl, acked, cacked, cnt>>

HAbandon(h) ==                            \* the client gives up an open upload (the upload file is not part of the model)
  /\ hd[h].pc = "open"
  /\ hd' = [hd EXCEPT ![h] = HIdle]
  /\ UNCHANGED <<dvars, task, queue, bk, bup, ex, fc, cl, acked, cacked, cnt>>

\* writeBack step 1: SetCacheFileMetadata(persist=true); fails (500) when the file is gone
HSetPersist(h) ==
  /\ hd[h].pc = "wb0"
  /\ IF hd[h].d \in cache
     THEN /\ persist' = persist \cup {hd[h].d} /\ hd' = [hd EXCEPT ![h].pc = "wb1"]
     ELSE /\ UNCHANGED persist /\ hd' = [hd EXCEPT ![h] = HIdle]
  /\ UNCHANGED <<cache, meta, task, queue, bk, bup, ex, fc, cl, acked, cacked, cnt>>

\* writeBack step 2: manager.Add -- AddPending + enqueue (ready) or AddFailed (delayed duplicate); an existing row is a no-op
HAddTask(h) ==
  /\ hd[h].pc = "wb1"
  /\ LET t == [n |-> hd[h].n, d |-> hd[h].d] IN
     IF task[t] = "none"
     THEN IF hd[h].kind = "pub" \/ hd[h].cf      \* handleUploadConflict always passes delay 0
          THEN task' = [task EXCEPT ![t] = "pending"] /\ queue' = queue \cup {t}
          ELSE task' = [task EXCEPT ![t] = "failed"] /\ UNCHANGED queue
     ELSE UNCHANGED <<task, queue>>
  /\ hd' = [hd EXCEPT ![h].pc = "wb2"]
  /\ UNCHANGED <<dvars, bk, bup, ex, fc, cl, acked, cacked, cnt>>

\* writeBack step 3: metainfo generation reads the cache file; then the conflict path answers 409, the duplicate
\* commit answers 200, the public commit goes on to replicate (HAck).
\* re = TRUE (candidate repair F31b only): the flag is set once more now that the task row exists.
HGenMetaR(h, re) ==
  /\ hd[h].pc = "wb2"
  /\ LET t == [n |-> hd[h].n, d |-> hd[h].d] IN
     IF hd[h].d \notin cache
     THEN /\ hd' = [hd EXCEPT ![h] = HIdle] /\ UNCHANGED <<meta, persist, acked, cacked>>          \* 500
     ELSE /\ meta' = meta \cup {hd[h].d}
          /\ persist' = IF re THEN persist \cup {hd[h].d} ELSE persist
          /\ IF hd[h].cf THEN /\ cacked' = cacked \cup {t} /\ hd' = [hd EXCEPT ![h] = HIdle] /\ UNCHANGED acked
             ELSE IF hd[h].kind = "dup" THEN /\ acked' = acked \cup {t} /\ hd' = [hd EXCEPT ![h] = HIdle] /\ UNCHANGED cacked
             ELSE /\ hd' = [hd EXCEPT ![h].pc = "wb3"] /\ UNCHANGED <<acked, cacked>>
  /\ UNCHANGED <<cache, task, queue, bk, bup, ex, fc, cl, cnt>>
HGenMeta(h) == HGenMetaR(h, FixShared)

HAck(h) ==                                \* replication to the other owners does not decide the reply: 200
  /\ hd[h].pc = "wb3"
  /\ acked' = acked \cup {[n |-> hd[h].n, d |-> hd[h].d]}
  /\ hd' = [hd EXCEPT ![h] = HIdle]
  /\ UNCHANGED <<dvars, task, queue, bk, bup, ex, fc, cl, cacked, cnt>>

-----------------------------------------------------------------------------
(* write-back executor (worker or SyncExec) *)

\* the forced cleanup goes on with the next listed name (or answers): names that vanished meanwhile fail their stat
\* and are skipped; the next existing name is stat'ed and the handler is parked in ring.Locations.  Uses cache'.
FAdvance(rest) ==
  IF rest \cap cache' = {} THEN fc' = FIdle
  ELSE \E d2 \in rest \cap cache', S \in SUBSET (rest \ cache') :
         fc' = [FIdle EXCEPT !.pc = "own", !.todo = rest \ (S \cup {d2}), !.d = d2]

WTake(w, t) ==
  /\ w \in W /\ ex[w].pc = "idle" /\ t \in queue
  /\ queue' = queue \ {t}
  /\ ex' = [ex EXCEPT ![w] = [pc |-> "stat", t |-> t]]
  /\ UNCHANGED <<dvars, task, bk, bup, hd, fc, cl, acked, cacked, cnt>>

\* client.Stat: only a nil error skips the upload ("already exists"); not-found and outage both go on
StatRes(t) == IF bup[t.n] /\ t \in bk THEN "found" ELSE IF bup[t.n] THEN "nf" ELSE "err"
XStat(x) ==
  /\ ex[x].pc = "stat"
  /\ ex' = [ex EXCEPT ![x].pc = IF StatRes(ex[x].t) = "found" THEN "clear" ELSE "read"]
  /\ UNCHANGED <<dvars, task, queue, bk, bup, hd, fc, cl, acked, cacked, cnt>>

\* GetCacheFileReader: a missing file drops the task ("Invariant violation: writeback cache file missing"):
\* Exec returns nil after clearing the flag, the row is removed
XReadOk(x) ==
  /\ ex[x].pc = "read" /\ ex[x].t.d \in cache
  /\ ex' = [ex EXCEPT ![x].pc = "upload"]
  /\ UNCHANGED <<dvars, task, queue, bk, bup, hd, fc, cl, acked, cacked, cnt>>
XReadMissingDrop(x) ==
  /\ ex[x].pc = "read" /\ ex[x].t.d \notin cache
  /\ ex' = [ex EXCEPT ![x].pc = "clear"]
  /\ UNCHANGED <<dvars, task, queue, bk, bup, hd, fc, cl, acked, cacked, cnt>>
XReadMissingFail(x) ==                    \* candidate repair F31b: the task fails (row kept, retried) instead of being dropped
  /\ ex[x].pc = "read" /\ ex[x].t.d \notin cache
  /\ UNCHANGED <<dvars, task, queue, bk, bup, hd, cl, acked, cacked, cnt>>
  /\ IF x # "fc" THEN ex' = [ex EXCEPT ![x].pc = "fail"] /\ UNCHANGED fc
     ELSE IF fc.try < MaxTries
          THEN ex' = [ex EXCEPT ![x].pc = "stat"] /\ fc' = [fc EXCEPT !.try = @ + 1]
          ELSE ex' = [ex EXCEPT ![x] = XIdle] /\ FAdvance(fc.todo)
XRead(x) == XReadOk(x) \/ (IF FixShared THEN XReadMissingFail(x) ELSE XReadMissingDrop(x))

\* client.Upload reads from the descriptor opened by XRead (survives a later deletion of the file).
\* out: "ok", "err" (nothing stored), "lost" (stored, reply lost); "ok"/"lost" need the backend up.
\* A failed Exec of a worker is followed by store.MarkFailed (WMarkFailed); inside SyncExec (x = "fc") backoff.Retry
\* starts the next attempt in place or gives up on this name (nothing observable lies between the two).
XUpload(x, out) ==
  /\ ex[x].pc = "upload" /\ out \in {"ok", "err", "lost"}
  /\ out # "err" => bup[ex[x].t.n]
  /\ (out = "lost" \/ (out = "err" /\ bup[ex[x].t.n])) => nfault < MaxFault
  /\ nfault' = IF out = "lost" \/ (out = "err" /\ bup[ex[x].t.n]) THEN nfault + 1 ELSE nfault
  /\ bk' = IF out = "err" THEN bk ELSE bk \cup {ex[x].t}
  /\ UNCHANGED dvars
  /\ IF out = "ok" THEN ex' = [ex EXCEPT ![x].pc = "clear"] /\ UNCHANGED fc
     ELSE IF x # "fc" THEN ex' = [ex EXCEPT ![x].pc = "fail"] /\ UNCHANGED fc
     ELSE IF fc.try < MaxTries
          THEN ex' = [ex EXCEPT ![x].pc = "stat"] /\ fc' = [fc EXCEPT !.try = @ + 1]
          ELSE ex' = [ex EXCEPT ![x] = XIdle] /\ FAdvance(fc.todo)
  /\ UNCHANGED <<task, queue, bup, hd, cl, acked, cacked, nstart, nrestart, ndel, nforce, naux>>

\* DeleteCacheFileMetadata(persist) (not-found tolerated)
XClearAlways(x) ==
  /\ ex[x].pc = "clear"
  /\ persist' = persist \ {ex[x].t.d}
  /\ ex' = [ex EXCEPT ![x].pc = "ok"]
  /\ UNCHANGED <<cache, meta, task, queue, bk, bup, hd, fc, cl, acked, cacked, cnt>>
XClearUnlessShared(x) ==
  /\ ex[x].pc = "clear"
  /\ persist' = IF Stored(ex[x].t.d) \ {ex[x].t} = {} THEN persist \ {ex[x].t.d} ELSE persist
  /\ ex' = [ex EXCEPT ![x].pc = "ok"]
  /\ UNCHANGED <<cache, meta, task, queue, bk, bup, hd, fc, cl, acked, cacked, cnt>>
XClear(x) == IF FixShared THEN XClearUnlessShared(x) ELSE XClearAlways(x)

WRemove(w) ==                             \* manager.exec: store.Remove after a nil Exec
  /\ w \in W /\ ex[w].pc = "ok"
  /\ task' = [task EXCEPT ![ex[w].t] = "none"]
  /\ ex' = [ex EXCEPT ![w] = XIdle]
  /\ UNCHANGED <<dvars, queue, bk, bup, hd, fc, cl, acked, cacked, cnt>>

WMarkFailed(w) ==                         \* manager.exec: store.MarkFailed after an Exec error (UPDATE: no row, no effect)
  /\ w \in W /\ ex[w].pc = "fail"
  /\ task' = [task EXCEPT ![ex[w].t] = IF @ = "none" THEN "none" ELSE "failed"]
  /\ ex' = [ex EXCEPT ![w] = XIdle]
  /\ UNCHANGED <<dvars, queue, bk, bup, hd, fc, cl, acked, cacked, cnt>>

\* pollRetries: every failed task in S is marked pending and enqueued
Poll(S) ==
  /\ S # {} /\ S \subseteq {t \in T : task[t] = "failed"}
  /\ task' = [t \in T |-> IF t \in S THEN "pending" ELSE task[t]]
  /\ queue' = queue \cup S
  /\ UNCHANGED <<dvars, bk, bup, hd, ex, fc, cl, acked, cacked, cnt>>

-----------------------------------------------------------------------------
(* deletion paths *)

DeleteBlob(d) ==                          \* DELETE /internal/blobs/{d}; reply DelRes(d)
  /\ ndel < MaxDel /\ ndel' = ndel + 1
  /\ IF DelRes(d) = "ok" THEN Remove(d) ELSE UNCHANGED dvars
  /\ UNCHANGED <<task, queue, bk, bup, hd, ex, fc, cl, acked, cacked, nstart, nfault, nrestart, nforce, naux>>

\* LRU eviction of the file map: a persisted victim only leaves the map, its files stay
Evict(d) ==
  /\ d \in cache /\ ndel < MaxDel /\ ndel' = ndel + 1
  /\ IF d \in persist THEN UNCHANGED dvars ELSE Remove(d)
  /\ UNCHANGED <<task, queue, bk, bup, hd, ex, fc, cl, acked, cacked, nstart, nfault, nrestart, nforce, naux>>

\* periodic cleanup pass (TTL / TTI / aggressive): ListNames, then per name GetFileStat, readyForDeletion, DeleteFile
ClAdvance(rest) ==
  IF rest = {} THEN cl' = CIdle
  ELSE \E d2 \in rest : cl' = [pc |-> "scan", d |-> d2, todo |-> rest \ {d2}]
ClStart ==
  /\ cl.pc = "idle" /\ ndel < MaxDel /\ ndel' = ndel + 1
  /\ ClAdvance(cache)
  /\ UNCHANGED <<dvars, task, queue, bk, bup, hd, ex, fc, acked, cacked, nstart, nfault, nrestart, nforce, naux>>
ClFile(ready) ==                          \* ready = the file's age qualifies it (environment)
  /\ cl.pc = "scan"
  /\ IF ready /\ DelRes(cl.d) = "ok" THEN Remove(cl.d) ELSE UNCHANGED dvars
  /\ ClAdvance(cl.todo)
  /\ UNCHANGED <<task, queue, bk, bup, hd, ex, fc, acked, cacked, cnt>>

\* forced cleanup: POST /forcecleanup -> ListCacheFiles, maybeDelete per listed name
FStart ==
  /\ fc.pc = "idle" /\ nforce < MaxForce /\ nforce' = nforce + 1
  /\ UNCHANGED dvars /\ FAdvance(cache)
  /\ UNCHANGED <<task, queue, bk, bup, hd, ex, cl, acked, cacked, nstart, nfault, nrestart, ndel, naux>>
\* cand = expired \/ ~owns.  Not a candidate: nothing.  Candidate without flag: DeleteCacheFile at once.
\* Candidate with flag: parked in manager.Find.
FOwn(cand) ==
  /\ fc.pc = "own"
  /\ IF ~cand \/ fc.d \notin cache
     THEN UNCHANGED dvars /\ FAdvance(fc.todo)
     ELSE IF fc.d \in persist
          THEN fc' = [fc EXCEPT !.pc = "find"] /\ UNCHANGED dvars
          ELSE Remove(fc.d) /\ FAdvance(fc.todo)
  /\ UNCHANGED <<task, queue, bk, bup, hd, ex, cl, acked, cacked, cnt>>
\* the final two calls of maybeDelete: DeleteCacheFileMetadata(persist) ; DeleteCacheFile
FinalDeleteAlways == IF fc.d \notin cache THEN UNCHANGED dvars ELSE Remove(fc.d)
FinalDeleteGuarded ==                     \* candidate repair F31b: not while a task row exists that was not executed
  IF fc.d \notin cache \/ Stored(fc.d) \ fc.done # {} THEN UNCHANGED dvars ELSE Remove(fc.d)
FinalDelete == IF FixShared THEN FinalDeleteGuarded ELSE FinalDeleteAlways
\* Find(NameQuery): no row = "leaked file, safe to delete" (as built) / refused (FixLeak)
FFindNoneDelete ==
  /\ fc.pc = "find" /\ Stored(fc.d) = {}
  /\ FinalDeleteAlways /\ FAdvance(fc.todo)
  /\ UNCHANGED <<task, queue, bk, bup, hd, ex, cl, acked, cacked, cnt>>
FFindNoneRefuse ==
  /\ fc.pc = "find" /\ Stored(fc.d) = {}
  /\ UNCHANGED dvars /\ FAdvance(fc.todo)
  /\ UNCHANGED <<task, queue, bk, bup, hd, ex, cl, acked, cacked, cnt>>
FFindNone == IF FixLeak THEN FFindNoneRefuse ELSE FFindNoneDelete
\* ... else SyncExec every row found (t first): parked in the executor's backend.Stat
FFindSome(t) ==
  /\ fc.pc = "find" /\ t \in Stored(fc.d) /\ ex["fc"].pc = "idle"
  /\ fc' = [fc EXCEPT !.pc = "sx", !.ftodo = Stored(fc.d) \ {t}, !.try = 1, !.done = Stored(fc.d)]
  /\ ex' = [ex EXCEPT !["fc"] = [pc |-> "stat", t |-> t]]
  /\ UNCHANGED <<dvars, task, queue, bk, bup, hd, cl, acked, cacked, cnt>>
\* SyncExec returned nil (the task row is NOT removed): next row, or delete flag and file
FSxNext(t) ==
  /\ fc.pc = "sx" /\ ex["fc"].pc = "ok" /\ t \in fc.ftodo
  /\ fc' = [fc EXCEPT !.ftodo = @ \ {t}, !.try = 1]
  /\ ex' = [ex EXCEPT !["fc"] = [pc |-> "stat", t |-> t]]
  /\ UNCHANGED <<dvars, task, queue, bk, bup, hd, cl, acked, cacked, cnt>>
FSxLastR(guarded) ==
  /\ fc.pc = "sx" /\ ex["fc"].pc = "ok" /\ fc.ftodo = {}
  /\ (IF guarded THEN FinalDeleteGuarded ELSE FinalDeleteAlways) /\ FAdvance(fc.todo)
  /\ ex' = [ex EXCEPT !["fc"] = XIdle]
  /\ UNCHANGED <<task, queue, bk, bup, hd, cl, acked, cacked, cnt>>
FSxLast == FSxLastR(FixShared)

-----------------------------------------------------------------------------
(* other ways into the cache, environment *)

Transfer(d) ==                            \* internal transfer commit (replication between origins): no write-back
  /\ d \notin cache /\ naux < MaxAux /\ naux' = naux + 1
  /\ cache' = cache \cup {d} /\ meta' = meta \cup {d} /\ UNCHANGED persist
  /\ UNCHANGED <<task, queue, bk, bup, hd, ex, fc, cl, acked, cacked, nstart, nfault, nrestart, ndel, nforce>>

Refresh(t) ==                             \* blobrefresh: download from the namespace's backend
  /\ t \in bk /\ bup[t.n] /\ t.d \notin cache /\ naux < MaxAux /\ naux' = naux + 1
  /\ cache' = cache \cup {t.d} /\ meta' = meta \cup {t.d} /\ UNCHANGED persist
  /\ UNCHANGED <<task, queue, bk, bup, hd, ex, fc, cl, acked, cacked, nstart, nfault, nrestart, ndel, nforce>>

BackendDown(n) ==
  /\ bup[n] /\ nfault < MaxFault /\ nfault' = nfault + 1
  /\ bup' = [bup EXCEPT ![n] = FALSE]
  /\ UNCHANGED <<dvars, task, queue, bk, hd, ex, fc, cl, acked, cacked, nstart, nrestart, ndel, nforce, naux>>
BackendUp(n) ==
  /\ ~bup[n]
  /\ bup' = [bup EXCEPT ![n] = TRUE]
  /\ UNCHANGED <<dvars, task, queue, bk, hd, ex, fc, cl, acked, cacked, cnt>>

\* the origin process dies and is started again on the same disk and sqlite file:
\* NewManager marks every pending task failed; requests in flight get no reply
Restart ==
  /\ nrestart < MaxRestart /\ nrestart' = nrestart + 1
  /\ task' = [t \in T |-> IF task[t] = "pending" THEN "failed" ELSE task[t]]
  /\ queue' = {} /\ hd' = [h \in H |-> HIdle] /\ ex' = [x \in X |-> XIdle] /\ fc' = FIdle /\ cl' = CIdle
  /\ UNCHANGED <<dvars, bk, bup, acked, cacked, nstart, nfault, ndel, nforce, naux>>

-----------------------------------------------------------------------------
Handler == \E h \in H : \/ \E n \in NS, d \in D, k \in Kinds : HStart(h, n, d, k)
                        \/ HPatch(h) \/ HCommit(h) \/ HAbandon(h) \/ HSetPersist(h) \/ HAddTask(h) \/ HGenMeta(h) \/ HAck(h)
Exec    == \/ \E w \in W, t \in T : WTake(w, t)
           \/ \E x \in X : XStat(x) \/ XRead(x) \/ XClear(x) \/ \E o \in {"ok", "err", "lost"} : XUpload(x, o)
           \/ \E w \in W : WRemove(w) \/ WMarkFailed(w)
           \/ \E S \in SUBSET T : Poll(S)
Deleters == \/ \E d \in D : DeleteBlob(d) \/ Evict(d)
            \/ ClStart \/ \E r \in BOOLEAN : ClFile(r)
            \/ FStart \/ FFindNone \/ FSxLast
            \/ \E c \in BOOLEAN : FOwn(c)
            \/ \E t \in T : FFindSome(t) \/ FSxNext(t)
Env     == \/ \E d \in D : Transfer(d)
           \/ \E t \in T : Refresh(t)
           \/ \E n \in NS : BackendDown(n) \/ BackendUp(n)
           \/ Restart

Next == Handler \/ Exec \/ Deleters \/ Env
Spec == Init /\ [][Next]_vars

-----------------------------------------------------------------------------
(* properties *)

Acked == acked \cup cacked

TypeOK ==
  /\ cache \subseteq D /\ persist \subseteq cache /\ meta \subseteq cache
  /\ task \in [T -> {"none", "pending", "failed"}] /\ queue \subseteq T
  /\ bk \subseteq T /\ acked \subseteq T /\ cacked \subseteq T

\* C31 safety: an acknowledged blob that has not reached its namespace's backend is still in the origin's cache
Safe == \A t \in Acked : t \notin bk => t.d \in cache

\* what keeps the write-back going: the row is stored (it is re-queued by Poll / Restart+Poll when not queued)
\* and the flag keeps every deletion path away
Protected == \A t \in Acked : t \notin bk => (t.d \in persist /\ task[t] # "none")

\* no deletion path removes a flagged file -- except the forced cleanup after it executed the rows it found
DeleteRespectsFlag ==
  [][\A d \in cache \ cache' : d \notin persist \/ fc.pc \in {"find", "sx"}]_vars

\* the backend is only ever written from the cache file
BackendGrowsOnly == [][bk \subseteq bk']_vars

Inv == TypeOK /\ Safe

\* liveness: under fair scheduling of the handlers' and workers' own steps and of the poller, a backend that
\* eventually stays up (budget MaxFault) and finitely many restarts (MaxRestart)
Fair ==
  /\ \A h \in H : WF_vars(HSetPersist(h) \/ HAddTask(h) \/ HGenMeta(h) \/ HAck(h))
  /\ \A w \in W : WF_vars(\E t \in T : WTake(w, t))
  /\ \A w \in W : WF_vars(WRemove(w) \/ WMarkFailed(w))
  /\ \A x \in X : WF_vars(XStat(x) \/ XRead(x) \/ XClear(x))
  /\ \A x \in X : WF_vars(XUpload(x, "ok")) /\ WF_vars(XUpload(x, "err"))
  /\ WF_vars(\E S \in SUBSET T : Poll(S))
  /\ \A n \in NS : WF_vars(BackendUp(n))
FairSpec == Spec /\ Fair
Live == \A t \in T : (t \in Acked) ~> (t \in bk)
=============================================================================
