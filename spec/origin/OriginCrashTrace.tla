-------------------------- MODULE OriginCrashTrace --------------------------
EXTENDS OriginCrash, Json, TLC
Trace == ndJsonDeserialize("trace.ndjson")
VARIABLE l
tvars == <<vars, l>>
R == Trace[l]
TraceInit == TLCSet(1, 0) /\ Init /\ l = 1
IsEvent(e) == l <= Len(Trace) /\ Trace[l].ev = e /\ l' = l + 1
TReset   == IsEvent("reset") /\ UNCHANGED vars
TCrash   == IsEvent("Crash") /\ UNCHANGED vars
TRecover == /\ IsEvent("Recover")
            /\ RecoverAllowed(R.res, R.listed, R.readable, R.hashok, R.meta, R.regen, R.rewrite, R.unknown, R.uploadleft)
            /\ UNCHANGED vars
TraceNext == TReset \/ TCrash \/ TRecover
TraceSpec == TraceInit /\ [][TraceNext]_tvars
HW == TLCSet(1, IF TLCGet(1) < l THEN l ELSE TLCGet(1))
TraceAccepted == IF TLCGet(1) = Len(Trace) + 1 THEN TRUE
                 ELSE PrintT(<<"REJECTED_AT_LINE", TLCGet(1)>>) /\ FALSE
=============================================================================
