SPECIFICATION Spec
CONSTANTS
  N = 3
  FreshOverwrites = TRUE
  CleanCreate = TRUE
  AtomicSidecar = TRUE
INVARIANT Inv
CHECK_DEADLOCK FALSE
