SPECIFICATION Spec
CONSTANTS
  N = 3
  AtomicSidecar = TRUE
INVARIANT Inv
CHECK_DEADLOCK FALSE
