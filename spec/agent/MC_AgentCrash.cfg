SPECIFICATION Spec
CONSTANTS
  N = 2
  AtomicSidecar = TRUE
INVARIANT Inv
CHECK_DEADLOCK FALSE
