SPECIFICATION Spec
CONSTANTS
  N = 2
  FreshOverwrites = TRUE
  CleanCreate = TRUE
  AtomicSidecar = TRUE
INVARIANT Inv
CHECK_DEADLOCK FALSE
