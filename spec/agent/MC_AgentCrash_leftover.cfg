SPECIFICATION Spec
CONSTANTS
  N = 2
  FreshOverwrites = TRUE
  CleanCreate = FALSE
  AtomicSidecar = TRUE
INVARIANT Inv
CHECK_DEADLOCK FALSE
