----------------------------- MODULE AgentCrash -----------------------------
(* Property C04: an agent crash at any point never yields a wrong cached blob.

   FS-level, implementation-shaped model of one download in lib/torrent/storage/agentstorage
   over lib/store (CADownloadStore): every file-system operation of CreateTorrent, WritePiece
   and the commit (MoveDownloadFileToCache) is one step (the operation lists follow the strace
   recordings of the real code); Crash is enabled in every state (process-crash model);
   Recover is the code's restart path (TorrentArchive.CreateTorrent -> NewTorrent ->
   restorePieces) as a function of the files.

   Evict is TorrentArchive.DeleteTorrent of the committed blob (TTL cleanup, manual removal); the
   blob can then be requested again and CreateTorrent runs on whatever an earlier crash left in the
   download directory (e.g. the sidecars of a commit that died between the rename of the data
   file and the removal of the download directory).

   FreshOverwrites = TRUE: a freshly created download entry initializes its sidecars even when
                          stale ones lie in its directory (as built: GetOrSetMetadata consults the
                          entry's own in-memory set, which is empty for a new entry).  FALSE: stale
                          sidecars are picked up -- TLC then finds the zero-filled blob committed
                          after crash-in-commit, restart, eviction and a new request
                          (MC_AgentCrash_stale.cfg, expected to fail; a seeded change did exactly this).
   CleanCreate = TRUE   : creating an entry first removes whatever lies in its directory (the repaired
                          localFileEntry.Create).  FALSE (as found): the new data file is created next
                          to stale sidecars, and a SECOND crash before the status sidecar is rewritten
                          lets the restart path trust the stale "all pieces complete" vector: the
                          zero-filled file is committed (F04c; MC_AgentCrash_leftover.cfg, expected to fail).
   AtomicSidecar = TRUE : a new metadata sidecar appears with its full content in one step
                          (temp file + rename; the repaired compareAndWriteFile).
   AtomicSidecar = FALSE: create-empty then write (as built before the fix; TLC then finds
                          F04a - empty _status read as "zero pieces, all complete" - and
                          F04b - empty _torrentmeta makes CreateTorrent fail for good).       *)
EXTENDS Integers, Sequences, FiniteSets
CONSTANTS N,               \* number of pieces (0..3)
          AtomicSidecar, FreshOverwrites, CleanCreate
Pieces == 1..N
VARIABLES dl, ca,     \* download / cache directory entry of the blob
          prog,       \* remaining file-system operations of the running call
          mem,        \* in-memory torrent (lost by Crash)
          phase,      \* "run" | "crashed" | "recovered" | "failed"
          todo        \* pieces the peer still has to deliver (each may first arrive corrupted)
vars == <<dl, ca, prog, mem, phase, todo>>

NoEntry == [data |-> FALSE, region |-> [i \in Pieces |-> "zero"], status |-> "absent",
            bits |-> [i \in Pieces |-> FALSE], meta |-> "absent"]
NoMem == [alive |-> FALSE, has |-> [i \in Pieces |-> FALSE], committed |-> FALSE]

Init == dl = NoEntry /\ ca = NoEntry /\ mem = NoMem /\ phase = "run" /\ todo = Pieces
        /\ prog = <<[op |-> "start"]>>

Sidecar(dir, f) == IF AtomicSidecar THEN <<[op |-> "full", d |-> dir, f |-> f]>>
                   ELSE <<[op |-> "empty", d |-> dir, f |-> f], [op |-> "full", d |-> dir, f |-> f]>>
\* CreateTorrent on an empty store
CreateOps == <<[op |-> "crData"], [op |-> "truncData"]>> \o Sidecar("dl", "meta") \o Sidecar("dl", "status")
             \o <<[op |-> "memNew"]>>
\* WritePiece(i) with payload class c: bytes first, status byte only after the checksum matched
WriteOps(i, c) == <<[op |-> "wrData", i |-> i, c |-> c]>> \o
                  (IF c = "good" THEN <<[op |-> "wrBit", i |-> i], [op |-> "memBit", i |-> i]>> ELSE <<>>)
\* MoveDownloadFileToCache: copy movable sidecars, rename the data file, remove the download directory
MoveOps == Sidecar("ca", "meta") \o Sidecar("ca", "status") \o <<[op |-> "rename"], [op |-> "rmDl"], [op |-> "memCommit"]>>

AllHave(m) == \A i \in Pieces : m.has[i]
SetSide(e, f, v) == IF f = "meta" THEN [e EXCEPT !.meta = v]
                    ELSE [e EXCEPT !.status = v, !.bits = IF v = "vec" THEN (IF e.status = "vec" /\ ~FreshOverwrites THEN e.bits ELSE [i \in Pieces |-> FALSE]) ELSE e.bits]

\* the commit copies the (movable) sidecars of the download entry into the cache directory
FullCa(f) == IF f = "meta" THEN [ca EXCEPT !.meta = "full"] ELSE [ca EXCEPT !.status = "vec", !.bits = dl.bits]

Step ==
  /\ phase = "run" /\ prog # <<>>
  /\ LET o == Head(prog) rest == Tail(prog) IN
     /\ CASE o.op = "start"    -> prog' = CreateOps /\ UNCHANGED <<dl, ca, mem>>
          [] o.op = "crData"   -> /\ dl' = (IF CleanCreate THEN [NoEntry EXCEPT !.data = TRUE] ELSE [dl EXCEPT !.data = TRUE])
                                  /\ prog' = rest /\ UNCHANGED <<ca, mem>>
          [] o.op = "truncData"-> dl' = [dl EXCEPT !.region = [i \in Pieces |-> "zero"]] /\ prog' = rest /\ UNCHANGED <<ca, mem>>
          [] o.op = "empty"    -> /\ dl' = (IF o.d = "dl" THEN SetSide(dl, o.f, "empty") ELSE dl)
                                  /\ ca' = (IF o.d = "ca" THEN SetSide(ca, o.f, "empty") ELSE ca)
                                  /\ prog' = rest /\ UNCHANGED mem
          [] o.op = "full"     -> /\ dl' = (IF o.d = "dl" THEN SetSide(dl, o.f, IF o.f = "meta" THEN "full" ELSE "vec") ELSE dl)
                                  /\ ca' = (IF o.d = "ca" THEN FullCa(o.f) ELSE ca)
                                  /\ prog' = rest /\ UNCHANGED mem
          \* NewTorrent: restorePieces reads the status sidecar that is now in the directory
          [] o.op = "memNew"   -> /\ mem' = [alive |-> TRUE, has |-> [i \in Pieces |-> dl.status = "vec" /\ dl.bits[i]], committed |-> FALSE]
                                  /\ prog' = (IF AllHave(mem') THEN MoveOps ELSE rest)
                                  /\ UNCHANGED <<dl, ca>>
          [] o.op = "wrData"   -> dl' = [dl EXCEPT !.region[o.i] = o.c] /\ prog' = rest /\ UNCHANGED <<ca, mem>>
          [] o.op = "wrBit"    -> dl' = [dl EXCEPT !.bits[o.i] = TRUE] /\ prog' = rest /\ UNCHANGED <<ca, mem>>
          [] o.op = "memBit"   -> /\ mem' = [mem EXCEPT !.has[o.i] = TRUE]
                                  /\ prog' = (IF AllHave(mem') THEN MoveOps ELSE rest)
                                  /\ UNCHANGED <<dl, ca>>
          [] o.op = "rename"   -> /\ ca' = [ca EXCEPT !.data = TRUE, !.region = dl.region]
                                  /\ dl' = [dl EXCEPT !.data = FALSE] /\ prog' = rest /\ UNCHANGED mem
          [] o.op = "rmDl"     -> dl' = NoEntry /\ prog' = rest /\ UNCHANGED <<ca, mem>>
          [] o.op = "memCommit"-> mem' = [mem EXCEPT !.committed = TRUE] /\ prog' = rest /\ UNCHANGED <<dl, ca>>
     /\ UNCHANGED <<phase, todo>>

\* the peer delivers piece i, correct or corrupted (a corrupted delivery is rejected and must be repeated)
Deliver(i, c) ==
  /\ phase = "run" /\ prog = <<>> /\ mem.alive /\ ~mem.committed /\ ~mem.has[i]
  /\ prog' = WriteOps(i, c) /\ UNCHANGED <<dl, ca, mem, phase, todo>>

\* TorrentArchive.DeleteTorrent of the committed blob; the next request starts from CreateTorrent
Evict == /\ phase = "run" /\ prog = <<>> /\ mem.alive /\ mem.committed
         /\ ca' = NoEntry /\ mem' = NoMem /\ prog' = <<[op |-> "start"]>> /\ todo' = Pieces
         /\ UNCHANGED <<dl, phase>>

Crash == /\ phase = "run" /\ phase' = "crashed" /\ prog' = <<>> /\ mem' = NoMem /\ UNCHANGED <<dl, ca, todo>>

\* ---- the restart path, as a function of the files
Loc == IF dl.data THEN "dl" ELSE IF ca.data THEN "ca" ELSE "none"
RecoverFails == Loc = "dl" /\ dl.meta = "empty"                 \* JSON decode error, for ever (F04b)
\* bits restored from the download sidecar; an EMPTY sidecar yields a zero-length vector (F04a)
RestoredBits == IF dl.status = "vec" THEN dl.bits ELSE [i \in Pieces |-> FALSE]
ZeroLenVector == dl.status = "empty"
Recover ==
  /\ phase = "crashed"
  /\ IF RecoverFails THEN phase' = "failed" /\ UNCHANGED <<dl, ca, prog, mem, todo>>
     ELSE /\ phase' = "recovered" /\ todo' = todo
          /\ CASE Loc = "none" -> /\ dl' = NoEntry /\ UNCHANGED ca
                                  /\ mem' = NoMem /\ prog' = <<[op |-> "start"]>>
               [] Loc = "ca"   -> /\ mem' = [alive |-> TRUE, has |-> [i \in Pieces |-> TRUE], committed |-> TRUE]
                                  /\ prog' = <<>> /\ UNCHANGED <<dl, ca>>
               [] Loc = "dl"   -> /\ dl' = [dl EXCEPT !.meta = "full",
                                                       !.status = IF @ = "absent" THEN "vec" ELSE @,
                                                       !.bits = IF dl.status = "vec" THEN @ ELSE [i \in Pieces |-> FALSE]]
                                  /\ mem' = [alive |-> TRUE, has |-> RestoredBits, committed |-> FALSE]
                                  /\ prog' = (IF ZeroLenVector \/ (\A i \in Pieces : RestoredBits[i]) THEN MoveOps ELSE <<>>)
                                  /\ UNCHANGED ca
Resume == phase = "recovered" /\ phase' = "run" /\ UNCHANGED <<dl, ca, prog, mem, todo>>

Next == Step \/ Crash \/ Evict \/ Recover \/ Resume \/ \E i \in Pieces, c \in {"good", "bad"} : Deliver(i, c)
Spec == Init /\ [][Next]_vars
FairSpec == Spec /\ WF_vars(Step) /\ WF_vars(Recover) /\ WF_vars(Resume)
                 /\ \A i \in Pieces : WF_vars(Deliver(i, "good"))

----------------------------------------------------------------------------
AllGood(e) == \A i \in Pieces : e.region[i] = "good"
\* the cache never holds anything but the blob, so the agent never serves wrong bytes
CacheOnlyGood     == ca.data => AllGood(ca)
\* what the agent reports complete / as verified pieces is backed by good bytes
NeverWrongComplete == (mem.alive /\ mem.committed) => (ca.data /\ AllGood(ca))
BitsHonest        == mem.alive => \A i \in Pieces : mem.has[i] =>
                        (IF ca.data THEN ca.region[i] = "good" ELSE dl.region[i] = "good")
\* a restart never fails for good
CanRestart        == phase # "failed"
Inv == CacheOnlyGood /\ NeverWrongComplete /\ BitsHonest /\ CanRestart
\* with finitely many crashes the download completes with the exact blob
Completes == <>[](phase = "crashed") \/ <>(mem.alive /\ mem.committed /\ AllGood(ca))

(* API-level acceptance of what the REAL recovery code reported at one crash point (trace validation):
   res = class of CreateTorrent, complete = Complete(), bits = Bitfield(), region[i] = the data file really
   holds piece i, served = the cache hands out a reader, cacheok = those bytes equal the blob.          *)
RecoverAllowed(res, complete, bits, region, served, cacheok) ==
  /\ res = "ok"
  /\ complete => (cacheok /\ served /\ \A i \in 1..Len(bits) : bits[i])
  /\ served => cacheok
  /\ \A i \in 1..Len(bits) : bits[i] => region[i]
ResumeAllowed(res, complete, cacheok) == res = "ok" /\ complete /\ cacheok
EvictAllowed(res, served) == res = "ok" /\ ~served
=============================================================================
