SPECIFICATION TraceSpec
CONSTANTS
  N = 1
  FreshOverwrites = TRUE
  CleanCreate = TRUE
  AtomicSidecar = TRUE
CONSTRAINT HW
POSTCONDITION TraceAccepted
CHECK_DEADLOCK FALSE
