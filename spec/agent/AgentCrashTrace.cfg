SPECIFICATION TraceSpec
CONSTANTS
  N = 1
  AtomicSidecar = TRUE
CONSTRAINT HW
POSTCONDITION TraceAccepted
CHECK_DEADLOCK FALSE
