----------------------------- MODULE AgentTorrent -----------------------------
(* Property C03: an agent commits a blob only after every piece is verified.

   lib/torrent/storage/agentstorage.Torrent with concurrent writers.  A WritePiece call is two
   steps, split where a harness can hold a real writer (inside the PieceReader, i.e. after
   tryMarkDirty and before any byte is written):

     Start(w, i, c)   index / length checks, complete / dirty checks, tryMarkDirty
     Finish(w)        copy the payload into the file region, compare the checksum, then either
                      markEmpty (mismatch) or status byte + markComplete + count + commit when
                      every piece is complete

   Payload classes c: good | corrupt (right length, wrong bytes) | short | long (wrong length) ;
   indices outside 1..N are "badindex".                                                      *)
EXTENDS Integers, Sequences, FiniteSets
CONSTANTS N, Writers, PieceLen, LastLen
Pieces == 1..N
Classes == {"good", "corrupt", "short", "long"}
VARIABLES pstate,     \* [Pieces -> {"empty","dirty","complete"}]
          region,     \* [Pieces -> {"zero","good","bad"}]   what the file holds
          ncomplete, committed,
          wr          \* [Writers -> [pc, i, c]]
vars == <<pstate, region, ncomplete, committed, wr>>
Idle == [pc |-> "idle", i |-> 0, c |-> "none"]

Init == /\ pstate = [i \in Pieces |-> "empty"] /\ region = [i \in Pieces |-> "zero"]
        /\ ncomplete = 0 /\ committed = (N = 0) /\ wr = [w \in Writers |-> Idle]

\* reply of Start, evaluated in the pre-state ("gated" = the writer is now inside the piece reader)
StartRes(i, c) == IF i \notin Pieces THEN "badindex"
                  ELSE IF c \in {"short", "long"} THEN "badlength"
                  ELSE IF pstate[i] = "complete" THEN "piececomplete"
                  ELSE IF pstate[i] = "dirty" THEN "conflict"
                  ELSE "gated"
Start(w, i, c) ==
  /\ wr[w].pc = "idle"
  /\ IF StartRes(i, c) = "gated"
     THEN pstate' = [pstate EXCEPT ![i] = "dirty"] /\ wr' = [wr EXCEPT ![w] = [pc |-> "writing", i |-> i, c |-> c]]
     ELSE UNCHANGED <<pstate, wr>>
  /\ UNCHANGED <<region, ncomplete, committed>>

FinishRes(w) == IF wr[w].c = "good" THEN "ok" ELSE "error"
Finish(w) ==
  /\ wr[w].pc = "writing"
  /\ LET i == wr[w].i good == wr[w].c = "good" IN
     /\ region' = [region EXCEPT ![i] = IF good THEN "good" ELSE "bad"]
     /\ pstate' = [pstate EXCEPT ![i] = IF good THEN "complete" ELSE "empty"]
     /\ ncomplete' = IF good THEN ncomplete + 1 ELSE ncomplete
     /\ committed' = (committed \/ (good /\ ncomplete + 1 = N))
  /\ wr' = [wr EXCEPT ![w] = Idle]

Next == \E w \in Writers : Finish(w) \/ \E i \in 0..(N + 1), c \in Classes : Start(w, i, c)
Spec == Init /\ [][Next]_vars

(* what a client observes *)
Bitfield == {i \in Pieces : pstate[i] = "complete"}
Min(a, b) == IF a < b THEN a ELSE b
Total == IF N = 0 THEN 0 ELSE (N - 1) * PieceLen + LastLen
Downloaded == Min(ncomplete * PieceLen, Total)

(* Properties (C03) *)
CommitOnlyVerified == committed => \A i \in Pieces : region[i] = "good" /\ pstate[i] = "complete"
CompleteIsGood     == \A i \in Pieces : pstate[i] = "complete" => region[i] = "good"
ProgressMatches    == ncomplete = Cardinality(Bitfield)
OneWriterPerPiece  == \A w1, w2 \in Writers : (w1 # w2 /\ wr[w1].pc = "writing" /\ wr[w2].pc = "writing") => wr[w1].i # wr[w2].i
DirtyHasWriter     == \A i \in Pieces : pstate[i] = "dirty" <=> \E w \in Writers : wr[w].pc = "writing" /\ wr[w].i = i
CommittedWhenAll   == (ncomplete = N) => committed
Inv == CommitOnlyVerified /\ CompleteIsGood /\ ProgressMatches /\ OneWriterPerPiece /\ DirtyHasWriter /\ CommittedWhenAll
\* a verified piece is never touched again; a commit is never undone
Stable == [][(\A i \in Pieces : pstate[i] = "complete" => (pstate'[i] = "complete" /\ region'[i] = "good")) /\ (committed => committed')]_vars
=============================================================================
