----------------------------- MODULE AgentTorrent -----------------------------
(* Property C03: an agent commits a blob only after every piece is verified.

   lib/torrent/storage/agentstorage.Torrent with concurrent writers.  A WritePiece call is four
   steps, split where the harness can hold a real writer (verifPoint gates of build tag verif, and
   the PieceReader handed to WritePiece):

     Check(w, i, c)   index / length checks and the lock-free "exit quickly" complete / dirty checks
     TryDirty(w)      piece.tryMarkDirty: the one writer that finds the piece empty owns it
     Write(w)         copy the payload into the file region, compare the checksum, then either
                      markEmpty (mismatch) or status byte + markComplete + count
     Commit(w)        if every piece is counted complete: move the file to the cache, committed

   Between any two of these steps other writers run.  Payload classes c: good | corrupt (right
   length, wrong bytes) | short | long (wrong length); indices outside 1..N are "badindex".    *)
EXTENDS Integers, Sequences, FiniteSets
CONSTANTS N, Writers, PieceLen, LastLen
Pieces == 1..N
Classes == {"good", "corrupt", "short", "long", "statusfail"}   \* statusfail: right bytes, but the write of the piece's status byte fails
VARIABLES pstate,     \* [Pieces -> {"empty","dirty","complete"}]
          region,     \* [Pieces -> {"zero","good","bad"}]   what the file holds
          ncomplete, committed,
          wr          \* [Writers -> [pc, i, c]]
vars == <<pstate, region, ncomplete, committed, wr>>
Idle == [pc |-> "idle", i |-> 0, c |-> "none"]

Init == /\ pstate = [i \in Pieces |-> "empty"] /\ region = [i \in Pieces |-> "zero"]
        /\ ncomplete = 0 /\ committed = (N = 0) /\ wr = [w \in Writers |-> Idle]

\* reply of Check, evaluated in the pre-state ("checked" = the writer goes on to tryMarkDirty)
CheckRes(i, c) == IF i \notin Pieces THEN "badindex"
                  ELSE IF c \in {"short", "long"} THEN "badlength"
                  ELSE IF pstate[i] = "complete" THEN "piececomplete"
                  ELSE IF pstate[i] = "dirty" THEN "conflict"
                  ELSE "checked"
Check(w, i, c) ==
  /\ wr[w].pc = "idle"
  /\ wr' = IF CheckRes(i, c) = "checked" THEN [wr EXCEPT ![w] = [pc |-> "checked", i |-> i, c |-> c]] ELSE wr
  /\ UNCHANGED <<pstate, region, ncomplete, committed>>

\* tryMarkDirty decides again, under the piece lock ("gated" = the writer is now inside the piece reader)
TryRes(w) == LET i == wr[w].i IN
             IF pstate[i] = "dirty" THEN "conflict" ELSE IF pstate[i] = "complete" THEN "piececomplete" ELSE "gated"
TryDirty(w) ==
  /\ wr[w].pc = "checked"
  /\ IF TryRes(w) = "gated"
     THEN pstate' = [pstate EXCEPT ![wr[w].i] = "dirty"] /\ wr' = [wr EXCEPT ![w].pc = "writing"]
     ELSE UNCHANGED pstate /\ wr' = [wr EXCEPT ![w] = Idle]          \* the loser leaves the piece alone
  /\ UNCHANGED <<region, ncomplete, committed>>

WriteRes(w) == IF wr[w].c = "good" THEN "written" ELSE "error"
Write(w) ==
  /\ wr[w].pc = "writing"
  /\ LET i == wr[w].i good == wr[w].c = "good" IN
     /\ region' = [region EXCEPT ![i] = IF good \/ wr[w].c = "statusfail" THEN "good" ELSE "bad"]
     /\ pstate' = [pstate EXCEPT ![i] = IF good THEN "complete" ELSE "empty"]
     /\ ncomplete' = IF good THEN ncomplete + 1 ELSE ncomplete
     /\ wr' = [wr EXCEPT ![w] = IF good THEN [@ EXCEPT !.pc = "written"] ELSE Idle]
  /\ UNCHANGED committed

\* the writer that moved the file reports ok; one that finds the file already moved may report ok or an error
CommitRes(w) == IF ncomplete = N /\ committed THEN {"ok", "error"} ELSE {"ok"}
Commit(w) ==
  /\ wr[w].pc = "written"
  /\ committed' = (committed \/ ncomplete = N)
  /\ wr' = [wr EXCEPT ![w] = Idle]
  /\ UNCHANGED <<pstate, region, ncomplete>>

Next == \E w \in Writers : TryDirty(w) \/ Write(w) \/ Commit(w) \/ \E i \in 0..(N + 1), c \in Classes : Check(w, i, c)
Spec == Init /\ [][Next]_vars

(* what a client observes *)
Bitfield == {i \in Pieces : pstate[i] = "complete"}
Min(a, b) == IF a < b THEN a ELSE b
Total == IF N = 0 THEN 0 ELSE (N - 1) * PieceLen + LastLen
Downloaded == Min(ncomplete * PieceLen, Total)

(* Properties (C03) *)
CommitOnlyVerified == committed => \A i \in Pieces : region[i] = "good" /\ pstate[i] = "complete"
CompleteIsGood     == \A i \in Pieces : pstate[i] = "complete" => region[i] = "good"
ProgressMatches    == ncomplete = Cardinality(Bitfield)
OneWriterPerPiece  == \A w1, w2 \in Writers : (w1 # w2 /\ wr[w1].pc = "writing" /\ wr[w2].pc = "writing") => wr[w1].i # wr[w2].i
DirtyHasWriter     == \A i \in Pieces : pstate[i] = "dirty" <=> \E w \in Writers : wr[w].pc = "writing" /\ wr[w].i = i
CommittedWhenAll   == (ncomplete = N /\ \A w \in Writers : wr[w].pc # "written") => committed
CountBounded       == ncomplete <= N
Inv == CommitOnlyVerified /\ CompleteIsGood /\ ProgressMatches /\ OneWriterPerPiece /\ DirtyHasWriter /\ CommittedWhenAll /\ CountBounded
\* a verified piece is never touched again; a commit is never undone
Stable == [][(\A i \in Pieces : pstate[i] = "complete" => (pstate'[i] = "complete" /\ region'[i] = "good")) /\ (committed => committed')]_vars
=============================================================================
