-------------------------- MODULE AgentTorrentTrace --------------------------
(* Trace validation of real agentstorage.Torrent writers held at the WritePiece gates and inside a gated PieceReader (C03). *)
EXTENDS AgentTorrent, Json, TLC
Trace == ndJsonDeserialize("trace.ndjson")
VARIABLE l
tvars == <<vars, l>>
R == Trace[l]
TraceInit == TLCSet(1, 0) /\ Init /\ l = 1
IsEvent(e) == l <= Len(Trace) /\ Trace[l].ev = e /\ l' = l + 1
ObsOK == /\ {i \in Pieces : R.bits[i]} = {i \in Pieces : pstate'[i] = "complete"}
         /\ R.complete = committed'
         /\ R.downloaded = Min(ncomplete' * PieceLen, Total)
TReset  == IsEvent("reset") /\ pstate' = [i \in Pieces |-> "empty"] /\ region' = [i \in Pieces |-> "zero"]
           /\ ncomplete' = 0 /\ committed' = FALSE /\ wr' = [w \in Writers |-> Idle]
TCheck  == IsEvent("Check") /\ R.res = CheckRes(R.i, R.c) /\ Check(R.w, R.i, R.c) /\ ObsOK
TTry    == IsEvent("TryDirty") /\ R.res = TryRes(R.w) /\ TryDirty(R.w) /\ ObsOK
TWrite  == IsEvent("Write") /\ R.res = WriteRes(R.w) /\ Write(R.w) /\ ObsOK
TCommit == IsEvent("Commit") /\ R.res \in CommitRes(R.w) /\ Commit(R.w) /\ ObsOK
\* at the end the cached file is the blob iff the torrent committed, and nothing is cached otherwise
TEnd    == IsEvent("End") /\ R.cached = committed /\ (committed => R.cachedok) /\ UNCHANGED vars
TraceNext == TReset \/ TCheck \/ TTry \/ TWrite \/ TCommit \/ TEnd
TraceSpec == TraceInit /\ [][TraceNext]_tvars
HW == TLCSet(1, IF TLCGet(1) < l THEN l ELSE TLCGet(1))
TraceAccepted == IF TLCGet(1) = Len(Trace) + 1 THEN TRUE
                 ELSE PrintT(<<"REJECTED_AT_LINE", TLCGet(1)>>) /\ FALSE
=============================================================================
