-------------------------- MODULE AgentTorrentTrace --------------------------
(* Trace validation of real agentstorage.Torrent writers held inside a gated PieceReader (C03). *)
EXTENDS AgentTorrent, Json, TLC
Trace == ndJsonDeserialize("trace.ndjson")
VARIABLE l
tvars == <<vars, l>>
R == Trace[l]
TraceInit == TLCSet(1, 0) /\ Init /\ l = 1
IsEvent(e) == l <= Len(Trace) /\ Trace[l].ev = e /\ l' = l + 1
ObsOK == /\ {i \in Pieces : R.bits[i]} = {i \in Pieces : pstate'[i] = "complete"}
         /\ R.complete = committed'
         /\ R.downloaded = Min(ncomplete' * PieceLen, Total)
TReset  == IsEvent("reset") /\ pstate' = [i \in Pieces |-> "empty"] /\ region' = [i \in Pieces |-> "zero"]
           /\ ncomplete' = 0 /\ committed' = FALSE /\ wr' = [w \in Writers |-> Idle]
TStart  == IsEvent("Start") /\ R.res = StartRes(R.i, R.c) /\ Start(R.w, R.i, R.c) /\ ObsOK
\* the two writers that finish the last pieces may both try the move; the loser reports an error although its piece was accepted
TFinish == IsEvent("Finish") /\ (R.res = FinishRes(R.w) \/ (R.res = "error" /\ committed /\ wr[R.w].c = "good")) /\ Finish(R.w) /\ ObsOK
\* at the end the cached file is the blob iff the torrent committed, and nothing is cached otherwise
TEnd    == IsEvent("End") /\ R.cached = committed /\ (committed => R.cachedok) /\ UNCHANGED vars
TraceNext == TReset \/ TStart \/ TFinish \/ TEnd
TraceSpec == TraceInit /\ [][TraceNext]_tvars
HW == TLCSet(1, IF TLCGet(1) < l THEN l ELSE TLCGet(1))
TraceAccepted == IF TLCGet(1) = Len(Trace) + 1 THEN TRUE
                 ELSE PrintT(<<"REJECTED_AT_LINE", TLCGet(1)>>) /\ FALSE
=============================================================================
