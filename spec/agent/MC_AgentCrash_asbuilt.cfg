SPECIFICATION Spec
CONSTANTS
  N = 2
  FreshOverwrites = TRUE
  CleanCreate = TRUE
  AtomicSidecar = FALSE
INVARIANT Inv
CHECK_DEADLOCK FALSE
