SPECIFICATION Spec
CONSTANTS
  N = 2
  AtomicSidecar = FALSE
INVARIANT Inv
CHECK_DEADLOCK FALSE
