SPECIFICATION Spec
CONSTANTS
  N = 0
  AtomicSidecar = TRUE
INVARIANT Inv
CHECK_DEADLOCK FALSE
