SPECIFICATION Spec
CONSTANTS
  N = 0
  FreshOverwrites = TRUE
  CleanCreate = TRUE
  AtomicSidecar = TRUE
INVARIANT Inv
CHECK_DEADLOCK FALSE
