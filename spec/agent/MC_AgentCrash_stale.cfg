SPECIFICATION Spec
CONSTANTS
  N = 2
  FreshOverwrites = FALSE
  CleanCreate = FALSE
  AtomicSidecar = TRUE
INVARIANT Inv
CHECK_DEADLOCK FALSE
