SPECIFICATION TraceSpec
CONSTANTS
  N = 3
  Writers = {"w1","w2","w3"}
  PieceLen = 4
  LastLen = 2
INVARIANT Inv
CONSTRAINT HW
POSTCONDITION TraceAccepted
CHECK_DEADLOCK FALSE
