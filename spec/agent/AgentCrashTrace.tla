-------------------------- MODULE AgentCrashTrace --------------------------
(* One trace per crash point of a real agent download: what the REAL restart path
   reported on the materialized directories, checked against AgentCrash's API-level
   acceptance predicates (RecoverAllowed / ResumeAllowed). *)
EXTENDS AgentCrash, Json, TLC
Trace == ndJsonDeserialize("trace.ndjson")
VARIABLE l
tvars == <<vars, l>>
R == Trace[l]

TraceInit == TLCSet(1, 0) /\ Init /\ l = 1
IsEvent(e) == l <= Len(Trace) /\ Trace[l].ev = e /\ l' = l + 1

TReset   == IsEvent("reset") /\ UNCHANGED vars
TCrash   == IsEvent("Crash") /\ UNCHANGED vars
TRecover == IsEvent("Recover") /\ RecoverAllowed(R.res, R.complete, R.bits, R.region, R.served, R.cacheok) /\ UNCHANGED vars
TResume  == IsEvent("Resume") /\ ResumeAllowed(R.res, R.complete, R.cacheok) /\ UNCHANGED vars

\* the committed blob is evicted (DeleteTorrent) and requested again: the same acceptance as after the restart
TEvict   == IsEvent("Evict") /\ EvictAllowed(R.res, R.served) /\ UNCHANGED vars

TraceNext == TReset \/ TCrash \/ TRecover \/ TResume \/ TEvict
TraceSpec == TraceInit /\ [][TraceNext]_tvars

HW == TLCSet(1, IF TLCGet(1) < l THEN l ELSE TLCGet(1))
TraceAccepted == IF TLCGet(1) = Len(Trace) + 1 THEN TRUE
                 ELSE PrintT(<<"REJECTED_AT_LINE", TLCGet(1)>>) /\ FALSE
=============================================================================
