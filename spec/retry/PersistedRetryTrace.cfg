SPECIFICATION TraceSpec
CONSTANTS
  Tasks = {"t1", "t2", "t3"}
  IW = {"w1", "w2"}
  RW = {"r1", "r2"}
  Adders = {"a1", "a2"}
  Syncers = {"s1"}
  CIB = 1
  CRB = 1
  CTries = 2
  MaxFail = 1000000
  MaxCrash = 1000000
  MaxSkip = 1000000
  MaxClose = 1000000
  MaxAdd = 1000000
  StrictClose = FALSE
INVARIANT Inv
PROPERTY RemoveOnlyAfterSuccess DupAddNoEffect
CONSTRAINT HW
POSTCONDITION TraceAccepted
CHECK_DEADLOCK FALSE
