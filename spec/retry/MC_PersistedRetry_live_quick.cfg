SPECIFICATION FairSpec
CONSTANTS
  Tasks = {"t1", "t2"}
  IW = {"w1"}
  RW = {"r1"}
  Adders = {"a1"}
  Syncers = {}
  CIB = 1
  CRB = 1
  CTries = 2
  MaxFail = 1
  MaxCrash = 1
  MaxSkip = 0
  MaxClose = 0
  MaxAdd = 2
  StrictClose = TRUE
PROPERTY Live
