------------------------- MODULE PersistedRetryTrace -------------------------
(* Trace validation of recorded persistedretry.Manager histories (C30) against PersistedRetry.

   Records are written where the real things happen: by a recording decorator around the real sqlite
   store (one record per store call, with its reply, written while the decorator still holds its lock,
   so log order = database order), by the gated executor (ExecStart / ExecEnd, with the number of
   concurrent executions of that task measured inside Exec) and by the driver (Add / AddRet, SyncExec /
   SyncExecRet, Close / Closed, Crash, Started, Final, Drained).  Channel operations and goroutine exits are
   not observable and are silent steps; each moves one program counter or queue forward, so the number
   of silent steps between two records is bounded by the number of goroutines plus queue slots.       *)
EXTENDS PersistedRetry, Json, TLC
Trace == ndJsonDeserialize("trace.ndjson")
VARIABLE l
tvars == <<vars, l>>
R == Trace[l]

TraceInit == TLCSet(1, 0) /\ Init /\ l = 1
IsEvent(e) == l <= Len(Trace) /\ Trace[l].ev = e /\ l' = l + 1
Silent(A)  == l <= Len(Trace) /\ A /\ l' = l

TReset == /\ IsEvent("reset")
          /\ db' = [t \in Tasks |-> "absent"] /\ up' = "down"
          /\ conf' = [iw |-> Range(R.cfg.iw), rw |-> Range(R.cfg.rw), ib |-> R.cfg.ib, rb |-> R.cfg.rb, tries |-> R.cfg.tries]
          /\ inq' = <<>> /\ rtq' = <<>> /\ wk' = [w \in Workers |-> WOff] /\ ad' = [a \in Adders |-> AIdle]
          /\ pl' = PGone /\ boot' = {} /\ sx' = [s \in Syncers |-> SIdle]
          /\ nfail' = 0 /\ ncrash' = 0 /\ nskip' = 0 /\ nclose' = 0 /\ nadd' = 0
TAbort == IsEvent("abort") /\ UNCHANGED vars

\* store calls: the caller is not recorded; the specification finds the goroutine that can be making the call
TGetPending  == IsEvent("GetPending") /\ R.res = "ok" /\ Range(R.ts) = Pending /\ BootGet
TGetFailed   == IsEvent("GetFailed") /\ R.res = "ok" /\ Range(R.ts) = Failed /\ PGet
TAddPending  == IsEvent("AddPending") /\ \E a \in Adders : ad[a].t = R.task /\ R.res = AStoreRes(a) /\ AStore(a, TRUE)
TAddFailed   == IsEvent("AddFailed") /\ \E a \in Adders : ad[a].t = R.task /\ R.res = AStoreRes(a) /\ AStore(a, FALSE)
TMarkPending == IsEvent("MarkPending") /\ R.res = "ok" /\ PMark(R.task)
TMarkFailed  == /\ IsEvent("MarkFailed") /\ R.res = "ok"
                /\ \/ BootMark(R.task)
                   \/ \E a \in Adders : ad[a].t = R.task /\ AOverflow(a)
                   \/ \E w \in Workers : wk[w].t = R.task /\ WMarkFailed(w)
                   \/ (pl.cur = R.task /\ POverflow)
TRemove      == IsEvent("Remove") /\ R.res = "ok" /\ \E w \in Workers : wk[w].t = R.task /\ WRemove(w)

Executing(t) == Cardinality({w \in Workers : wk[w].pc = "exec" /\ wk[w].t = t})
                + Cardinality({s \in Syncers : sx[s].pc = "exec" /\ sx[s].t = t})
TExecStart == /\ IsEvent("ExecStart") /\ R.infl = Executing(R.task) + 1
              /\ \/ \E w \in Workers : wk[w].t = R.task /\ WExecStart(w)
                 \/ \E s \in Syncers : sx[s].t = R.task /\ SxStart(s)
TExecEnd   == /\ IsEvent("ExecEnd")
              /\ \/ \E w \in Workers : wk[w].t = R.task /\ WExecEnd(w, R.ok)
                 \/ \E s \in Syncers : sx[s].t = R.task /\ SxEnd(s, R.ok)

TAdd      == IsEvent("Add") /\ AddCall(R.a, R.task)
TAddRet   == IsEvent("AddRet") /\ ad[R.a].t = R.task /\ ad[R.a].res = R.res /\ ARet(R.a)
TSync     == IsEvent("SyncExec") /\ SxCall(R.s, R.task)
TSyncRet  == IsEvent("SyncExecRet") /\ sx[R.s].res = R.res /\ SxRet(R.s)
TStarted  == IsEvent("Started") /\ Started
TClose    == IsEvent("Close") /\ CloseCall
TClosed   == IsEvent("Closed") /\ Closed
TCrash    == IsEvent("Crash") /\ Crash
TFind     == IsEvent("Find") /\ (R.res = "ok" => Range(R.ts) = FindRes(Range(R.q))) /\ UNCHANGED vars
\* the table as read directly from sqlite
TFinal    == IsEvent("Final") /\ Range(R.pending) = Pending /\ Range(R.failed) = Failed /\ UNCHANGED vars
\* end of a history: with the executor succeeding, the poller running and no more faults the driver waited for the
\* table to drain; every stored task must have been executed successfully by now
TDrained  == IsEvent("Drained") /\ (\A t \in Tasks : db[t] = "absent") /\ UNCHANGED vars

SSilent == \/ \E a \in Adders : Silent(AEnqueue(a)) \/ Silent(AFull(a))
           \/ \E w \in Workers : Silent(WDequeue(w)) \/ Silent(WExit(w))
           \/ \E t \in Tasks : Silent(PSkip(t))
           \/ Silent(PEnqueue) \/ Silent(PFull) \/ Silent(PDone) \/ Silent(PExit)

TraceNext == \/ TReset \/ TAbort
             \/ TGetPending \/ TGetFailed \/ TAddPending \/ TAddFailed \/ TMarkPending \/ TMarkFailed \/ TRemove
             \/ TExecStart \/ TExecEnd \/ TAdd \/ TAddRet \/ TSync \/ TSyncRet
             \/ TStarted \/ TClose \/ TClosed \/ TCrash \/ TFind \/ TFinal \/ TDrained
             \/ SSilent
TraceSpec == TraceInit /\ [][TraceNext]_tvars

HW == TLCSet(1, IF TLCGet(1) < l THEN l ELSE TLCGet(1))
TraceAccepted == IF TLCGet(1) = Len(Trace) + 1 THEN TRUE
                 ELSE PrintT(<<"REJECTED_AT_LINE", TLCGet(1)>>) /\ FALSE
=============================================================================
