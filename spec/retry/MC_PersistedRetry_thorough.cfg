SPECIFICATION Spec
CONSTANTS
  Tasks = {"t1", "t2"}
  IW = {"w1"}
  RW = {"r1"}
  Adders = {"a1"}
  Syncers = {}
  CIB = 1
  CRB = 1
  CTries = 2
  MaxFail = 2
  MaxCrash = 1
  MaxSkip = 1
  MaxClose = 1
  MaxAdd = 3
  StrictClose = FALSE
INVARIANT Inv
PROPERTY RemoveOnlyAfterSuccess DupAddNoEffect
