--------------------------- MODULE PersistedRetry ---------------------------
(* Implementation-shaped specification of lib/persistedretry (property C30):
   manager.go on top of a persistedretry.Store (writeback.Store / tagreplication.Store on localdb).

   Persistent state is the task table `db`; everything else (the two channels, the worker / poller
   goroutines, callers inside Add) is volatile and is lost by Crash.  One action per store call, per
   channel operation and per executor call, i.e. the points between which the Go scheduler (or a
   process kill) can interleave:

     NewManager   GetPending ; MarkFailed* ; start workers           BootGet BootMark Started
     Add          closed? ; AddPending|AddFailed ; enqueue|MarkFailed  AddCall AStore AEnqueue AFull AOverflow ARet
     worker       <-queue ; Exec ; MarkFailed|Remove                  WDequeue WExecStart WExecEnd WMarkFailed WRemove
     pollRetries  GetFailed ; (MarkPending ; enqueue|MarkFailed)*     PGet PSkip PMark PEnqueue PFull POverflow PDone
     SyncExec     Exec with in-place retries, never touches the store SxCall SxStart SxEnd SxRet
     Close        closed=true ; close(done) ; wg.Wait                 CloseCall WExit PExit Closed
     Crash        process dies at a store-call boundary               Crash

   The executor outcome is the environment (bounded by MaxFail so that it eventually succeeds).     *)
EXTENDS Integers, Sequences, FiniteSets

CONSTANTS Tasks, IW, RW, Adders, Syncers,   \* task keys, incoming / retry workers, goroutines calling Add / SyncExec
          CIB, CRB,                          \* IncomingBuffer, RetryBuffer
          CTries,                            \* SyncExec attempts (MaxRetries + 1)
          MaxFail, MaxCrash, MaxSkip, MaxClose, MaxAdd, \* budgets of the environment (model checking)
          StrictClose                        \* TRUE: nothing is dequeued / polled once Close was called (liveness config)

VARIABLES db,     \* [Tasks -> {"absent","pending","failed"}]   the sqlite table
          up,     \* "down" (no process), "boot" (inside NewManager), "up", "closing" (Close called), "closed"
          conf,   \* [iw, rw: active workers, ib, rb: channel capacities, tries]
          inq, rtq, wk, ad, pl, boot, sx,
          nfail, ncrash, nskip, nclose, nadd
vars == <<db, up, conf, inq, rtq, wk, ad, pl, boot, sx, nfail, ncrash, nskip, nclose, nadd>>

None    == "-"
Workers == IW \cup RW
Range(s) == {s[i] : i \in 1..Len(s)}
WOff  == [pc |-> "gone", t |-> None]
WIdle == [pc |-> "idle", t |-> None]
AIdle == [pc |-> "idle", t |-> None, ready |-> TRUE, res |-> None]
PIdle == [pc |-> "sleep", todo |-> {}, cur |-> None]
PGone == [pc |-> "gone", todo |-> {}, cur |-> None]
SIdle == [pc |-> "idle", t |-> None, n |-> 0, res |-> None]

ConfInit == [iw |-> IW, rw |-> RW, ib |-> CIB, rb |-> CRB, tries |-> CTries]
Pending == {t \in Tasks : db[t] = "pending"}
Failed  == {t \in Tasks : db[t] = "failed"}
Alive   == up \in {"up", "closing"}

InitWith(cf) ==
  /\ db = [t \in Tasks |-> "absent"] /\ up = "down" /\ conf = cf
  /\ inq = <<>> /\ rtq = <<>> /\ wk = [w \in Workers |-> WOff] /\ ad = [a \in Adders |-> AIdle]
  /\ pl = PGone /\ boot = {} /\ sx = [s \in Syncers |-> SIdle]
  /\ nfail = 0 /\ ncrash = 0 /\ nskip = 0 /\ nclose = 0 /\ nadd = 0
Init == InitWith(ConfInit)

Volatile0 == /\ inq' = <<>> /\ rtq' = <<>> /\ wk' = [w \in Workers |-> WOff]
             /\ pl' = PGone /\ boot' = {}

----------------------------------------------------------------------------
(* NewManager: markPendingTasksAsFailed, then start *)

BootGet ==                                   \* store.GetPending() -- reply: Pending
  /\ up \in {"down", "closed"} /\ \A a \in Adders : ad[a].pc = "idle"
  /\ up' = "boot" /\ boot' = Pending
  /\ inq' = <<>> /\ rtq' = <<>> /\ wk' = [w \in Workers |-> WOff] /\ pl' = PGone
  /\ UNCHANGED <<db, conf, ad, sx, nfail, ncrash, nskip, nclose, nadd>>

BootMark(t) ==                               \* store.MarkFailed(t)
  /\ up = "boot" /\ t \in boot
  /\ db' = [db EXCEPT ![t] = "failed"] /\ boot' = boot \ {t}
  /\ UNCHANGED <<up, conf, inq, rtq, wk, ad, pl, sx, nfail, ncrash, nskip, nclose, nadd>>

Started ==
  /\ up = "boot" /\ boot = {}
  /\ up' = "up"
  /\ wk' = [w \in Workers |-> IF w \in conf.iw \cup conf.rw THEN WIdle ELSE WOff]
  /\ pl' = PIdle
  /\ UNCHANGED <<db, conf, inq, rtq, ad, boot, sx, nfail, ncrash, nskip, nclose, nadd>>

----------------------------------------------------------------------------
(* Add *)

AddCall(a, t) ==
  /\ ad[a].pc = "idle" /\ up \in {"up", "closing", "closed"} /\ nadd < MaxAdd
  /\ ad' = [ad EXCEPT ![a] = IF up = "up" THEN [pc |-> "store", t |-> t, ready |-> TRUE, res |-> None]
                                          ELSE [pc |-> "ret", t |-> t, ready |-> TRUE, res |-> "closed"]]
  /\ nadd' = nadd + 1
  /\ UNCHANGED <<db, up, conf, inq, rtq, wk, pl, boot, sx, nfail, ncrash, nskip, nclose>>

\* reply of AddPending / AddFailed in the pre-state
AStoreRes(a) == IF db[ad[a].t] = "absent" THEN "ok" ELSE "exists"
\* rdy = t.Ready() as evaluated inside Add: AddPending when ready, AddFailed otherwise
AStore(a, rdy) ==
  /\ ad[a].pc = "store" /\ up \in {"up", "closing", "closed"}
  /\ LET t == ad[a].t IN
     IF db[t] = "absent"
     THEN /\ db' = [db EXCEPT ![t] = IF rdy THEN "pending" ELSE "failed"]
          /\ ad' = [ad EXCEPT ![a].pc = IF rdy THEN "enq" ELSE "ret", ![a].res = "ok", ![a].ready = rdy]
     ELSE /\ ad' = [ad EXCEPT ![a].pc = "ret", ![a].res = "ok", ![a].ready = rdy]      \* ErrTaskExists: no-op
          /\ UNCHANGED db
  /\ UNCHANGED <<up, conf, inq, rtq, wk, pl, boot, sx, nfail, ncrash, nskip, nclose, nadd>>

AEnqueue(a) ==                               \* select { case incoming <- t: ...
  /\ ad[a].pc = "enq" /\ Len(inq) < conf.ib
  /\ inq' = Append(inq, ad[a].t)
  /\ ad' = [ad EXCEPT ![a].pc = "ret"]
  /\ UNCHANGED <<db, up, conf, rtq, wk, pl, boot, sx, nfail, ncrash, nskip, nclose, nadd>>

AFull(a) ==                                  \* ... default: (the channel is full)
  /\ ad[a].pc = "enq" /\ Len(inq) >= conf.ib
  /\ ad' = [ad EXCEPT ![a].pc = "ovf"]
  /\ UNCHANGED <<db, up, conf, inq, rtq, wk, pl, boot, sx, nfail, ncrash, nskip, nclose, nadd>>

AOverflow(a) ==                              \* store.MarkFailed(t) }
  /\ ad[a].pc = "ovf"
  /\ db' = [db EXCEPT ![ad[a].t] = "failed"]
  /\ ad' = [ad EXCEPT ![a].pc = "ret"]
  /\ UNCHANGED <<up, conf, inq, rtq, wk, pl, boot, sx, nfail, ncrash, nskip, nclose, nadd>>

ARet(a) ==
  /\ ad[a].pc = "ret"
  /\ ad' = [ad EXCEPT ![a] = AIdle]
  /\ UNCHANGED <<db, up, conf, inq, rtq, wk, pl, boot, sx, nfail, ncrash, nskip, nclose, nadd>>

----------------------------------------------------------------------------
(* workers *)

WDequeue(w) ==
  /\ wk[w].pc = "idle" /\ (up = "up" \/ (up = "closing" /\ ~StrictClose))
  /\ IF w \in IW
     THEN /\ inq # <<>> /\ wk' = [wk EXCEPT ![w] = [pc |-> "deq", t |-> Head(inq)]] /\ inq' = Tail(inq) /\ UNCHANGED rtq
     ELSE /\ rtq # <<>> /\ wk' = [wk EXCEPT ![w] = [pc |-> "deq", t |-> Head(rtq)]] /\ rtq' = Tail(rtq) /\ UNCHANGED inq
  /\ UNCHANGED <<db, up, conf, ad, pl, boot, sx, nfail, ncrash, nskip, nclose, nadd>>

WExecStart(w) ==
  /\ wk[w].pc = "deq"
  /\ wk' = [wk EXCEPT ![w].pc = "exec"]
  /\ UNCHANGED <<db, up, conf, inq, rtq, ad, pl, boot, sx, nfail, ncrash, nskip, nclose, nadd>>

WExecEnd(w, ok) ==
  /\ wk[w].pc = "exec" /\ (~ok => nfail < MaxFail)
  /\ wk' = [wk EXCEPT ![w].pc = IF ok THEN "succ" ELSE "fail"]
  /\ nfail' = IF ok THEN nfail ELSE nfail + 1
  /\ UNCHANGED <<db, up, conf, inq, rtq, ad, pl, boot, sx, ncrash, nskip, nclose, nadd>>

WMarkFailed(w) ==
  /\ wk[w].pc = "fail"
  /\ db' = [db EXCEPT ![wk[w].t] = "failed"]
  /\ wk' = [wk EXCEPT ![w] = WIdle]
  /\ UNCHANGED <<up, conf, inq, rtq, ad, pl, boot, sx, nfail, ncrash, nskip, nclose, nadd>>

WRemove(w) ==
  /\ wk[w].pc = "succ"
  /\ db' = [db EXCEPT ![wk[w].t] = "absent"]
  /\ wk' = [wk EXCEPT ![w] = WIdle]
  /\ UNCHANGED <<up, conf, inq, rtq, ad, pl, boot, sx, nfail, ncrash, nskip, nclose, nadd>>

WExit(w) ==
  /\ up = "closing" /\ wk[w].pc = "idle"
  /\ wk' = [wk EXCEPT ![w] = WOff]
  /\ UNCHANGED <<db, up, conf, inq, rtq, ad, pl, boot, sx, nfail, ncrash, nskip, nclose, nadd>>

----------------------------------------------------------------------------
(* retry poller *)

PGet ==                                      \* store.GetFailed() -- reply: Failed
  /\ pl.pc = "sleep" /\ (up = "up" \/ (up = "closing" /\ ~StrictClose))
  /\ pl' = [pc |-> "scan", todo |-> Failed, cur |-> None]
  /\ UNCHANGED <<db, up, conf, inq, rtq, wk, ad, boot, sx, nfail, ncrash, nskip, nclose, nadd>>

PSkip(t) ==                                  \* !t.Ready() or the retry interval has not elapsed
  /\ pl.pc = "scan" /\ t \in pl.todo /\ nskip < MaxSkip
  /\ pl' = [pl EXCEPT !.todo = @ \ {t}] /\ nskip' = nskip + 1
  /\ UNCHANGED <<db, up, conf, inq, rtq, wk, ad, boot, sx, nfail, ncrash, nclose, nadd>>

PMark(t) ==                                  \* store.MarkPending(t)
  /\ pl.pc = "scan" /\ t \in pl.todo /\ db[t] # "absent"
  /\ db' = [db EXCEPT ![t] = "pending"]
  /\ pl' = [pc |-> "enq", todo |-> pl.todo \ {t}, cur |-> t]
  /\ UNCHANGED <<up, conf, inq, rtq, wk, ad, boot, sx, nfail, ncrash, nskip, nclose, nadd>>

PEnqueue ==
  /\ pl.pc = "enq" /\ Len(rtq) < conf.rb
  /\ rtq' = Append(rtq, pl.cur)
  /\ pl' = [pl EXCEPT !.pc = "scan", !.cur = None]
  /\ UNCHANGED <<db, up, conf, inq, wk, ad, boot, sx, nfail, ncrash, nskip, nclose, nadd>>

PFull ==
  /\ pl.pc = "enq" /\ Len(rtq) >= conf.rb
  /\ pl' = [pl EXCEPT !.pc = "ovf"]
  /\ UNCHANGED <<db, up, conf, inq, rtq, wk, ad, boot, sx, nfail, ncrash, nskip, nclose, nadd>>

POverflow ==
  /\ pl.pc = "ovf"
  /\ db' = [db EXCEPT ![pl.cur] = "failed"]
  /\ pl' = [pl EXCEPT !.pc = "scan", !.cur = None]
  /\ UNCHANGED <<up, conf, inq, rtq, wk, ad, boot, sx, nfail, ncrash, nskip, nclose, nadd>>

PDone ==
  /\ pl.pc = "scan" /\ pl.todo = {}
  /\ pl' = PIdle
  /\ UNCHANGED <<db, up, conf, inq, rtq, wk, ad, boot, sx, nfail, ncrash, nskip, nclose, nadd>>

PExit ==
  /\ up = "closing" /\ pl.pc = "sleep"
  /\ pl' = PGone
  /\ UNCHANGED <<db, up, conf, inq, rtq, wk, ad, boot, sx, nfail, ncrash, nskip, nclose, nadd>>

----------------------------------------------------------------------------
(* SyncExec: in-place retries, never stored *)

SxCall(s, t) ==
  /\ sx[s].pc = "idle" /\ up \in {"up", "closing", "closed"}
  /\ sx' = [sx EXCEPT ![s] = [pc |-> "call", t |-> t, n |-> 0, res |-> None]]
  /\ UNCHANGED <<db, up, conf, inq, rtq, wk, ad, pl, boot, nfail, ncrash, nskip, nclose, nadd>>

SxStart(s) ==
  /\ sx[s].pc = "call"
  /\ sx' = [sx EXCEPT ![s].pc = "exec"]
  /\ UNCHANGED <<db, up, conf, inq, rtq, wk, ad, pl, boot, nfail, ncrash, nskip, nclose, nadd>>

SxEnd(s, ok) ==
  /\ sx[s].pc = "exec" /\ (~ok => nfail < MaxFail)
  /\ sx' = [sx EXCEPT ![s] = IF ok THEN [@ EXCEPT !.pc = "ret", !.res = "ok"]
                             ELSE IF @.n + 1 >= conf.tries THEN [@ EXCEPT !.pc = "ret", !.res = "err", !.n = @ + 1]
                             ELSE [@ EXCEPT !.pc = "call", !.n = @ + 1]]
  /\ nfail' = IF ok THEN nfail ELSE nfail + 1
  /\ UNCHANGED <<db, up, conf, inq, rtq, wk, ad, pl, boot, ncrash, nskip, nclose, nadd>>

SxRet(s) ==
  /\ sx[s].pc = "ret"
  /\ sx' = [sx EXCEPT ![s] = SIdle]
  /\ UNCHANGED <<db, up, conf, inq, rtq, wk, ad, pl, boot, nfail, ncrash, nskip, nclose, nadd>>

----------------------------------------------------------------------------
(* Find: read-only; reply = the stored tasks among those the query selects *)
FindRes(q) == {t \in q : db[t] # "absent"}

----------------------------------------------------------------------------
(* Close and Crash *)

CloseCall ==
  /\ up = "up" /\ nclose < MaxClose
  /\ up' = "closing" /\ nclose' = nclose + 1
  /\ UNCHANGED <<db, conf, inq, rtq, wk, ad, pl, boot, sx, nfail, ncrash, nskip, nadd>>

Closed ==                                    \* wg.Wait() returned
  /\ up = "closing" /\ pl.pc = "gone" /\ \A w \in Workers : wk[w].pc = "gone"
  /\ up' = "closed"
  /\ UNCHANGED <<db, conf, inq, rtq, wk, ad, pl, boot, sx, nfail, ncrash, nskip, nclose, nadd>>

Crash ==                                     \* the process dies: volatile state is gone, db stays
  /\ up # "down" /\ ncrash < MaxCrash
  /\ up' = "down" /\ ncrash' = ncrash + 1
  /\ Volatile0 /\ ad' = [a \in Adders |-> AIdle] /\ sx' = [s \in Syncers |-> SIdle]
  /\ UNCHANGED <<db, conf, nfail, nskip, nclose, nadd>>

----------------------------------------------------------------------------
Next ==
  \/ BootGet \/ (\E t \in Tasks : BootMark(t)) \/ Started
  \/ \E a \in Adders : (\E t \in Tasks : AddCall(a, t)) \/ (\E r \in BOOLEAN : AStore(a, r)) \/ AEnqueue(a) \/ AFull(a) \/ AOverflow(a) \/ ARet(a)
  \/ \E w \in Workers : WDequeue(w) \/ WExecStart(w) \/ (\E ok \in BOOLEAN : WExecEnd(w, ok)) \/ WMarkFailed(w) \/ WRemove(w) \/ WExit(w)
  \/ PGet \/ (\E t \in Tasks : PSkip(t) \/ PMark(t)) \/ PEnqueue \/ PFull \/ POverflow \/ PDone \/ PExit
  \/ \E s \in Syncers : (\E t \in Tasks : SxCall(s, t)) \/ SxStart(s) \/ (\E ok \in BOOLEAN : SxEnd(s, ok)) \/ SxRet(s)
  \/ CloseCall \/ Closed \/ Crash

Spec == Init /\ [][Next]_vars

\* the system keeps running: every goroutine that can take a step eventually does, the process is restarted after a
\* crash or Close, the executor succeeds once its failure budget is spent
BootStep      == BootGet \/ (\E t \in Tasks : BootMark(t)) \/ Started
AdderStep(a)  == (\E r \in BOOLEAN : AStore(a, r)) \/ AEnqueue(a) \/ AFull(a) \/ AOverflow(a) \/ ARet(a)
WorkerStep(w) == WDequeue(w) \/ WExecStart(w) \/ WExecEnd(w, TRUE) \/ WMarkFailed(w) \/ WRemove(w) \/ WExit(w)
PollStep      == PGet \/ (\E t \in Tasks : PMark(t)) \/ PEnqueue \/ PFull \/ POverflow \/ PDone \/ PExit
Fairness == /\ WF_vars(BootStep) /\ WF_vars(PollStep) /\ WF_vars(Closed)
            /\ \A a \in Adders : WF_vars(AdderStep(a))
            /\ \A w \in Workers : WF_vars(WorkerStep(w))
FairSpec == Spec /\ Fairness

----------------------------------------------------------------------------
(* Properties (C30) *)

TypeOK ==
  /\ db \in [Tasks -> {"absent", "pending", "failed"}]
  /\ up \in {"down", "boot", "up", "closing", "closed"}
  /\ Len(inq) <= conf.ib /\ Len(rtq) <= conf.rb
  /\ Range(inq) \subseteq Tasks /\ Range(rtq) \subseteq Tasks

Count(s, t) == Cardinality({i \in 1..Len(s) : s[i] = t})
Places(t) == Count(inq, t) + Count(rtq, t)
             + Cardinality({w \in Workers : wk[w].pc \in {"deq", "exec", "fail", "succ"} /\ wk[w].t = t})
             + Cardinality({a \in Adders : ad[a].pc \in {"enq", "ovf"} /\ ad[a].t = t})
             + (IF pl.pc \in {"enq", "ovf"} /\ pl.cur = t THEN 1 ELSE 0)
\* while the manager runs, a stored task is pending iff exactly one goroutine or queue slot is responsible for it,
\* and a failed or removed task is nowhere in memory: no task is executed twice at once, none is forgotten
OnePlace == Alive => \A t \in Tasks : Places(t) = (IF db[t] = "pending" THEN 1 ELSE 0)
\* executions by workers only concern stored pending tasks
ExecStored == \A w \in Workers : wk[w].pc \in {"deq", "exec", "fail", "succ"} => db[wk[w].t] = "pending"
Inv == TypeOK /\ OnePlace /\ ExecStored

\* a task leaves the store only in the Remove that follows a successful execution of that task
RemoveOnlyAfterSuccess ==
  [][\A t \in Tasks : (db[t] # "absent" /\ db'[t] = "absent") =>
        \E w \in Workers : wk[w].pc = "succ" /\ wk[w].t = t /\ wk'[w].pc = "idle"]_vars
\* adding a task that is already stored has no further effect
DupAddNoEffect ==
  [][\A a \in Adders : (ad[a].pc = "store" /\ ad'[a].pc \in {"enq", "ovf", "ret"} /\ db[ad[a].t] # "absent") =>
        (ad'[a].pc = "ret" /\ ad'[a].res = "ok" /\ db' = db /\ inq' = inq /\ rtq' = rtq)]_vars
\* a stored task never silently changes to a state nobody is responsible for: pending -> failed needs MarkFailed by its owner
\* every stored task is eventually executed successfully (and only then leaves the store)
Live == \A t \in Tasks : (db[t] # "absent") ~> (db[t] = "absent")
=============================================================================
