SPECIFICATION Spec
CONSTANTS
  Keys = {"k1", "k2"}
  RcCallers = {"c1", "c2", "c3"}
  LmCallers = {}
  TrCallers = {}
  CNumWorkers = 2
  CBusyTimeout = 1
  CErrTTL = 2
  CNfTTL = 1
  CCleanInt = 2
  CGCInt = 1
  CTrapInt = 1
  TTLs = {0, 1}
  Outs = {1, 2}
  MaxNow = 3
  MaxTask = 1
  DefectGCDetach = FALSE
INVARIANT Inv
PROPERTY RcCachedNotRerun RcBusyClears
