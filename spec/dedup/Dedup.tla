------------------------------- MODULE Dedup -------------------------------
(* Implementation-shaped specification of utils/dedup (property C29).

   Three objects share one (mock) clock `now`, measured in integer ticks:

     RequestCache  (request_cache.go)   Start = reserve ; reserveWorker ; go run
     Limiter       (limiter.go)         Run   = gc.Trap ; lookup ; getOutput
     IntervalTrap  (interval_trap.go)   Trap  = check(RLock) ; Lock ; recheck ; task ; prev:=now

   One action per critical section of the code (the text between two lock
   operations / channel operations), so that TLC enumerates exactly the
   interleavings the Go scheduler can produce.  The request functions, the
   TaskRunner and the IntervalTask are the environment: they are "in flight"
   between an enter action and an exit action, which is what the harness forces
   with gated functions.

   DefectGCDetach = FALSE is the intended protocol (a task struct that a caller
   has already looked up is not collected).  TRUE is the code as built (F29):
   limiterTaskGC deletes any expired, not-running task, also one a caller holds
   between the map lookup and getOutput.                                        *)
EXTENDS Integers, Sequences, FiniteSets

CONSTANTS Keys,            \* request ids / limiter inputs (strings)
          RcCallers,       \* goroutines calling RequestCache.Start
          LmCallers,       \* goroutines calling Limiter.Run
          TrCallers,       \* goroutines calling IntervalTrap.Trap
          CNumWorkers, CBusyTimeout, CErrTTL, CNfTTL, CCleanInt,  \* RequestCacheConfig (ticks)
          CGCInt,          \* dedup.TaskGCInterval (ticks)
          CTrapInt,        \* interval of the stand-alone IntervalTrap (ticks)
          TTLs, Outs,      \* what a TaskRunner may return (model checking only)
          MaxNow,          \* clock bound (model checking only)
          MaxTask,         \* number of task structs that can be live at once
          DefectGCDetach   \* as-built flag, see above

VARIABLES now, conf,
          rcPending, rcErr, rcLastClean, rcSlots, rcPc, rcG,
          lmMap, lmTask, lmPc, lmGcPrev, lmInRun,
          trPrev, trLock, trPc, trInTask, trLastStart

rcVars == <<rcPending, rcErr, rcLastClean, rcSlots, rcPc, rcG>>
lmVars == <<lmMap, lmTask, lmPc, lmGcPrev, lmInRun>>
trVars == <<trPrev, trLock, trPc, trInTask, trLastStart>>
vars   == <<now, conf, rcVars, lmVars, trVars>>

None    == "-"
TaskIds == 1..MaxTask
ErrKinds == {"nf", "other"}                 \* isNotFound(err) / any other error
GSt     == {"run", "fnil", "fnf", "fother", "rel"}   \* states of a spawned `go func(){ defer releaseWorker(); run(id, r) }`
FinOf(e) == IF e = "nil" THEN "fnil" ELSE IF e = "nf" THEN "fnf" ELSE "fother"

NoErr   == [kind |-> "none", exp |-> 0]
RcIdle  == [pc |-> "idle", k |-> None, dl |-> 0]
NoTask  == [key |-> None, running |-> FALSE, out |-> 0, exp |-> -1, lk |-> None]
LmIdle  == [pc |-> "idle", k |-> None, h |-> 0, rd |-> 0, o |-> 0, ttl |-> 0]

ConfInit == [nw |-> CNumWorkers, bt |-> CBusyTimeout, ettl |-> CErrTTL, nfttl |-> CNfTTL,
             ci |-> CCleanInt, gci |-> CGCInt, ti |-> CTrapInt]

InitWith(cf) ==
  /\ now = 0 /\ conf = cf
  /\ rcPending = {} /\ rcErr = [k \in Keys |-> NoErr] /\ rcLastClean = 0 /\ rcSlots = 0
  /\ rcPc = [c \in RcCallers |-> RcIdle] /\ rcG = [x \in Keys \X GSt |-> 0]
  /\ lmMap = [k \in Keys |-> 0] /\ lmTask = [i \in TaskIds |-> NoTask]
  /\ lmPc = [c \in LmCallers |-> LmIdle] /\ lmGcPrev = 0 /\ lmInRun = [k \in Keys |-> 0]
  /\ trPrev = 0 /\ trLock = None /\ trPc = [c \in TrCallers |-> "idle"] /\ trInTask = 0 /\ trLastStart = -1
Init == InitWith(ConfInit)

----------------------------------------------------------------------------
(* RequestCache *)

RcCached(k)  == rcErr[k].kind # "none" /\ ~(now > rcErr[k].exp)      \* cachedError.expired = now.After(expiresAt)
RcCleanDue   == now - rcLastClean > conf.ci
RcCleaned    == IF RcCleanDue
                THEN [k \in Keys |-> IF rcErr[k].kind # "none" /\ now > rcErr[k].exp THEN NoErr ELSE rcErr[k]]
                ELSE rcErr

\* reply of reserve(id), evaluated in the pre-state: "pending", "nf"/"other" (the cached error), or "reserved"
StartRes(k) == IF k \in rcPending THEN "pending"
               ELSE IF RcCached(k) THEN rcErr[k].kind
               ELSE "reserved"

\* reserve(id): one critical section under c.mu
RcReserve(c, k) ==
  /\ rcPc[c].pc = "idle"
  /\ rcErr' = RcCleaned
  /\ rcLastClean' = IF RcCleanDue THEN now ELSE rcLastClean
  /\ IF StartRes(k) = "reserved"
     THEN /\ rcPending' = rcPending \cup {k}
          /\ rcPc' = [rcPc EXCEPT ![c] = [pc |-> "rw", k |-> k, dl |-> now + conf.bt]]
     ELSE UNCHANGED <<rcPending, rcPc>>
  /\ UNCHANGED <<now, conf, rcSlots, rcG, lmVars, trVars>>

\* reserveWorker, case numWorkers <- struct{}{} ; then `go func` (spawn and entry of r are merged: superset of "in flight")
RcAcquire(c) ==
  /\ rcPc[c].pc = "rw" /\ rcSlots < conf.nw
  /\ rcSlots' = rcSlots + 1
  /\ rcG' = [rcG EXCEPT ![<<rcPc[c].k, "run">>] = @ + 1]
  /\ rcPc' = [rcPc EXCEPT ![c] = RcIdle]
  /\ UNCHANGED <<now, conf, rcPending, rcErr, rcLastClean, lmVars, trVars>>

\* reserveWorker, case <-clk.After(BusyTimeout) ; then release(id)
RcBusy(c) ==
  /\ rcPc[c].pc = "rw" /\ now >= rcPc[c].dl
  /\ rcPending' = rcPending \ {rcPc[c].k}
  /\ rcPc' = [rcPc EXCEPT ![c] = RcIdle]
  /\ UNCHANGED <<now, conf, rcErr, rcLastClean, rcSlots, rcG, lmVars, trVars>>

\* the request function returns e \in {"nil","nf","other"}
RcFnExit(k, e) ==
  /\ rcG[<<k, "run">>] > 0
  /\ rcG' = [rcG EXCEPT ![<<k, "run">>] = @ - 1, ![<<k, FinOf(e)>>] = @ + 1]
  /\ UNCHANGED <<now, conf, rcPending, rcErr, rcLastClean, rcSlots, rcPc, lmVars, trVars>>

\* c.release(id) / c.error(id, err): one critical section under c.mu
RcFinish(k, e) ==
  /\ rcG[<<k, FinOf(e)>>] > 0
  /\ rcG' = [rcG EXCEPT ![<<k, FinOf(e)>>] = @ - 1, ![<<k, "rel">>] = @ + 1]
  /\ rcPending' = rcPending \ {k}
  /\ rcErr' = IF e = "nil" THEN rcErr
              ELSE [rcErr EXCEPT ![k] = [kind |-> e, exp |-> now + (IF e = "nf" THEN conf.nfttl ELSE conf.ettl)]]
  /\ UNCHANGED <<now, conf, rcLastClean, rcSlots, rcPc, lmVars, trVars>>

\* deferred releaseWorker()
RcReleaseWorker(k) ==
  /\ rcG[<<k, "rel">>] > 0
  /\ rcG' = [rcG EXCEPT ![<<k, "rel">>] = @ - 1]
  /\ rcSlots' = rcSlots - 1
  /\ UNCHANGED <<now, conf, rcPending, rcErr, rcLastClean, rcPc, lmVars, trVars>>

----------------------------------------------------------------------------
(* Limiter *)

LmReferenced(i, m, p) == (\E k \in Keys : m[k] = i) \/ (\E c \in LmCallers : p[c].h = i)
\* unreferenced task structs are garbage: normalise them so that equal abstract states are equal
LmCanon(m, p, t) == [i \in TaskIds |-> IF LmReferenced(i, m, p) THEN t[i] ELSE NoTask]
LmFresh(i)  == ~LmReferenced(i, lmMap, lmPc)
LmHeld(i)   == \E c \in LmCallers : lmPc[c].h = i /\ lmPc[c].pc = "get"   \* looked up, getOutput not yet entered
LmCollectable(i) == /\ now > lmTask[i].exp /\ ~lmTask[i].running
                    /\ (DefectGCDetach \/ ~LmHeld(i))
LmGcReady   == now > lmGcPrev + conf.gci
LmAnyLocked == \E k \in Keys : lmMap[k] # 0 /\ lmTask[lmMap[k]].lk # None

LmCall(c, k) ==
  /\ lmPc[c].pc = "idle"
  /\ lmPc' = [lmPc EXCEPT ![c] = [LmIdle EXCEPT !.pc = "trap", !.k = k]]
  /\ UNCHANGED <<now, conf, lmMap, lmTask, lmGcPrev, lmInRun, rcVars, trVars>>

\* l.gc.Trap(): when the interval has passed limiterTaskGC.Run holds the limiter lock and takes every task mutex in turn
LmTrap(c) ==
  /\ lmPc[c].pc = "trap"
  /\ LmGcReady => ~LmAnyLocked
  /\ LET m2 == IF LmGcReady
               THEN [k \in Keys |-> IF lmMap[k] # 0 /\ LmCollectable(lmMap[k]) THEN 0 ELSE lmMap[k]]
               ELSE lmMap
         p2 == [lmPc EXCEPT ![c].pc = "look"]
     IN /\ lmMap' = m2 /\ lmPc' = p2 /\ lmTask' = LmCanon(m2, p2, lmTask)
  /\ lmGcPrev' = IF LmGcReady THEN now ELSE lmGcPrev
  /\ UNCHANGED <<now, conf, lmInRun, rcVars, trVars>>

\* fast path: RLock ; t, ok := tasks[input] ; RUnlock
LmLookFast(c) ==
  /\ lmPc[c].pc = "look"
  /\ lmPc' = IF lmMap[lmPc[c].k] # 0
             THEN [lmPc EXCEPT ![c].pc = "get", ![c].h = lmMap[lmPc[c].k]]
             ELSE [lmPc EXCEPT ![c].pc = "slow"]
  /\ UNCHANGED <<now, conf, lmMap, lmTask, lmGcPrev, lmInRun, rcVars, trVars>>

\* slow path: Lock ; lookup again ; create if absent ; Unlock
LmLookSlow(c) ==
  /\ lmPc[c].pc = "slow"
  /\ LET k == lmPc[c].k IN
     IF lmMap[k] # 0
     THEN /\ lmPc' = [lmPc EXCEPT ![c].pc = "get", ![c].h = lmMap[k]]
          /\ UNCHANGED <<lmMap, lmTask>>
     ELSE /\ \E i \in TaskIds : LmFresh(i)
          /\ LET i == CHOOSE i \in TaskIds : LmFresh(i) /\ \A j \in TaskIds : LmFresh(j) => i <= j IN
             /\ lmTask' = [lmTask EXCEPT ![i] = [NoTask EXCEPT !.key = k]]
             /\ lmMap' = [lmMap EXCEPT ![k] = i]
             /\ lmPc' = [lmPc EXCEPT ![c].pc = "get", ![c].h = i]
  /\ UNCHANGED <<now, conf, lmGcPrev, lmInRun, rcVars, trVars>>

\* getOutput: t.cond.L.Lock() ; l.clk.Now()
LmGetLock(c) ==
  /\ lmPc[c].pc = "get" /\ lmTask[lmPc[c].h].lk = None
  /\ lmTask' = [lmTask EXCEPT ![lmPc[c].h].lk = c]
  /\ lmPc' = [lmPc EXCEPT ![c].pc = "got", ![c].rd = now]
  /\ UNCHANGED <<now, conf, lmMap, lmGcPrev, lmInRun, rcVars, trVars>>

LmExpiredAt(c) == lmPc[c].rd > lmTask[lmPc[c].h].exp
LmFreshRes(c)  == lmTask[lmPc[c].h].out

LmDone(v) == [LmIdle EXCEPT !.pc = "done", !.o = v]     \* about to return v to the caller of Run

\* !expired: the cached output will be returned
LmDecideFresh(c) ==
  /\ lmPc[c].pc = "got" /\ ~LmExpiredAt(c)
  /\ LET p2 == [lmPc EXCEPT ![c] = LmDone(LmFreshRes(c))]
         t2 == [lmTask EXCEPT ![lmPc[c].h].lk = None]
     IN lmPc' = p2 /\ lmTask' = LmCanon(lmMap, p2, t2)
  /\ UNCHANGED <<now, conf, lmMap, lmGcPrev, lmInRun, rcVars, trVars>>

\* expired and running: cond.Wait()
LmDecideWait(c) ==
  /\ lmPc[c].pc = "got" /\ LmExpiredAt(c) /\ lmTask[lmPc[c].h].running
  /\ lmTask' = [lmTask EXCEPT ![lmPc[c].h].lk = None]
  /\ lmPc' = [lmPc EXCEPT ![c].pc = "wait"]
  /\ UNCHANGED <<now, conf, lmMap, lmGcPrev, lmInRun, rcVars, trVars>>

\* expired and not running: running = true ; Unlock ; runner.Run(input) is entered
LmDecideRun(c) ==
  /\ lmPc[c].pc = "got" /\ LmExpiredAt(c) /\ ~lmTask[lmPc[c].h].running
  /\ lmTask' = [lmTask EXCEPT ![lmPc[c].h].lk = None, ![lmPc[c].h].running = TRUE]
  /\ lmPc' = [lmPc EXCEPT ![c].pc = "run"]
  /\ lmInRun' = [lmInRun EXCEPT ![lmPc[c].k] = @ + 1]
  /\ UNCHANGED <<now, conf, lmMap, lmGcPrev, rcVars, trVars>>

\* the TaskRunner returns (o, ttl)
LmRunnerRet(c, o, ttl) ==
  /\ lmPc[c].pc = "run"
  /\ lmPc' = [lmPc EXCEPT ![c].pc = "pub", ![c].o = o, ![c].ttl = ttl]
  /\ lmInRun' = [lmInRun EXCEPT ![lmPc[c].k] = @ - 1]
  /\ UNCHANGED <<now, conf, lmMap, lmTask, lmGcPrev, rcVars, trVars>>

\* publish under the task mutex, Broadcast
LmPublish(c) ==
  /\ lmPc[c].pc = "pub" /\ lmTask[lmPc[c].h].lk = None
  /\ LET h  == lmPc[c].h
         p2 == [d \in LmCallers |->
                  IF d = c THEN LmDone(lmPc[c].o)
                  ELSE IF lmPc[d].pc = "wait" /\ lmPc[d].h = h THEN [lmPc[d] EXCEPT !.pc = "woken"]
                  ELSE lmPc[d]]
         t2 == [lmTask EXCEPT ![h].out = lmPc[c].o, ![h].exp = now + lmPc[c].ttl, ![h].running = FALSE]
     IN lmPc' = p2 /\ lmTask' = LmCanon(lmMap, p2, t2)
  /\ UNCHANGED <<now, conf, lmMap, lmGcPrev, lmInRun, rcVars, trVars>>

\* a woken waiter re-acquires the task mutex and reads t.output
LmWoken(c) ==
  /\ lmPc[c].pc = "woken" /\ lmTask[lmPc[c].h].lk = None
  /\ LET p2 == [lmPc EXCEPT ![c] = LmDone(lmTask[lmPc[c].h].out)]
     IN lmPc' = p2 /\ lmTask' = LmCanon(lmMap, p2, lmTask)
  /\ UNCHANGED <<now, conf, lmMap, lmGcPrev, lmInRun, rcVars, trVars>>

\* Run returns lmPc[c].o
LmRetRes(c) == lmPc[c].o
LmReturn(c) ==
  /\ lmPc[c].pc = "done"
  /\ lmPc' = [lmPc EXCEPT ![c] = LmIdle]
  /\ UNCHANGED <<now, conf, lmMap, lmTask, lmGcPrev, lmInRun, rcVars, trVars>>

----------------------------------------------------------------------------
(* IntervalTrap *)

TrReady == now > trPrev + conf.ti

TrCall(c) ==
  /\ trPc[c] = "idle"
  /\ trPc' = [trPc EXCEPT ![c] = "check"]
  /\ UNCHANGED <<now, conf, trPrev, trLock, trInTask, trLastStart, rcVars, lmVars>>

\* RLock ; ready() ; RUnlock -- not ready: Trap is about to return
TrCheck(c) ==
  /\ trPc[c] = "check" /\ trLock = None
  /\ trPc' = [trPc EXCEPT ![c] = IF TrReady THEN "lock" ELSE "done"]
  /\ UNCHANGED <<now, conf, trPrev, trLock, trInTask, trLastStart, rcVars, lmVars>>

\* Lock ; ready() again ; task.Run() is entered with the write lock held
TrLockRun(c) ==
  /\ trPc[c] = "lock" /\ trLock = None /\ TrReady
  /\ trLock' = c /\ trPc' = [trPc EXCEPT ![c] = "task"]
  /\ trInTask' = trInTask + 1 /\ trLastStart' = now
  /\ UNCHANGED <<now, conf, trPrev, rcVars, lmVars>>

\* Lock ; ready() again is false ; Unlock ; return
TrLockSkip(c) ==
  /\ trPc[c] = "lock" /\ trLock = None /\ ~TrReady
  /\ trPc' = [trPc EXCEPT ![c] = "done"]
  /\ UNCHANGED <<now, conf, trPrev, trLock, trInTask, trLastStart, rcVars, lmVars>>

TrTaskRet(c) ==
  /\ trPc[c] = "task"
  /\ trPc' = [trPc EXCEPT ![c] = "post"] /\ trInTask' = trInTask - 1
  /\ UNCHANGED <<now, conf, trPrev, trLock, trLastStart, rcVars, lmVars>>

\* t.prev = clk.Now() ; Unlock
TrPost(c) ==
  /\ trPc[c] = "post"
  /\ trPrev' = now /\ trLock' = None /\ trPc' = [trPc EXCEPT ![c] = "done"]
  /\ UNCHANGED <<now, conf, trInTask, trLastStart, rcVars, lmVars>>

\* Trap returns
TrReturn(c) ==
  /\ trPc[c] = "done"
  /\ trPc' = [trPc EXCEPT ![c] = "idle"]
  /\ UNCHANGED <<now, conf, trPrev, trLock, trInTask, trLastStart, rcVars, lmVars>>

----------------------------------------------------------------------------
Tick(d) == /\ now' = now + d
           /\ UNCHANGED <<conf, rcVars, lmVars, trVars>>

Next ==
  \/ (now < MaxNow /\ Tick(1))
  \/ \E c \in RcCallers : (\E k \in Keys : RcReserve(c, k)) \/ RcAcquire(c) \/ RcBusy(c)
  \/ \E k \in Keys : (\E e \in {"nil"} \cup ErrKinds : RcFnExit(k, e) \/ RcFinish(k, e)) \/ RcReleaseWorker(k)
  \/ \E c \in LmCallers :
        \/ \E k \in Keys : LmCall(c, k)
        \/ LmTrap(c) \/ LmLookFast(c) \/ LmLookSlow(c) \/ LmGetLock(c)
        \/ LmDecideFresh(c) \/ LmDecideWait(c) \/ LmDecideRun(c)
        \/ (\E o \in Outs, ttl \in TTLs : LmRunnerRet(c, o, ttl))
        \/ LmPublish(c) \/ LmWoken(c) \/ LmReturn(c)
  \/ \E c \in TrCallers : TrCall(c) \/ TrCheck(c) \/ TrLockRun(c) \/ TrLockSkip(c) \/ TrTaskRet(c) \/ TrPost(c) \/ TrReturn(c)

Spec == Init /\ [][Next]_vars

----------------------------------------------------------------------------
(* Properties (C29) *)

RECURSIVE SumOver(_, _)
SumOver(f, S) == IF S = {} THEN 0 ELSE LET x == CHOOSE x \in S : TRUE IN f[x] + SumOver(f, S \ {x})

RcInFlight(k) == rcG[<<k, "run">>]
RcGoroutines(k) == rcG[<<k, "run">>] + rcG[<<k, "fnil">>] + rcG[<<k, "fnf">>] + rcG[<<k, "fother">>]

\* at most one request execution per key
RcAtMostOne == \A k \in Keys : RcGoroutines(k) <= 1
\* while one is pending further starts report that state: the pending mark covers the whole execution
RcPendingCovers == \A k \in Keys : RcGoroutines(k) > 0 => k \in rcPending
\* a start that finds no free worker leaves nothing pending: every pending mark belongs to a caller still in
\* reserveWorker or to a spawned execution
RcNoOrphanPending == \A k \in rcPending :
                        RcGoroutines(k) > 0 \/ \E c \in RcCallers : rcPc[c].pc = "rw" /\ rcPc[c].k = k
RcSlotsOK == rcSlots <= conf.nw /\ rcSlots = SumOver(rcG, Keys \X GSt)
\* a new execution is reserved only if the key is neither pending nor has an unexpired cached error
RcCachedNotRerun ==
  [][\A c \in RcCallers : (rcPc[c].pc = "idle" /\ rcPc'[c].pc = "rw") =>
        (rcPc'[c].k \notin rcPending /\ ~RcCached(rcPc'[c].k))]_vars
\* a Busy reply removes the pending mark it set
RcBusyClears ==
  [][\A c \in RcCallers : (rcPc[c].pc = "rw" /\ rcPc'[c].pc = "idle" /\ rcSlots' = rcSlots) =>
        rcPc[c].k \notin rcPending']_vars

\* at most one TaskRunner execution per input
LmAtMostOne == \A k \in Keys : lmInRun[k] <= 1
LmOneRunningTask == \A k \in Keys : Cardinality({i \in TaskIds : lmTask[i].key = k /\ lmTask[i].running}) <= 1
\* every task struct a caller works on is the one in the map (nothing detached)
LmNoDetached == \A c \in LmCallers :
                  lmPc[c].pc \in {"get", "got", "run", "pub", "wait"} => lmMap[lmPc[c].k] = lmPc[c].h
LmMapOK == \A k \in Keys : lmMap[k] # 0 => lmTask[lmMap[k]].key = k
\* a runner starts only on the mapped task, when its output is expired and nobody is running it
LmFreshNotRerun ==
  [][\A c \in LmCallers : (lmPc[c].pc = "got" /\ lmPc'[c].pc = "run") =>
        LET i == lmMap[lmPc[c].k] IN i = lmPc[c].h /\ now > lmTask[i].exp /\ ~lmTask[i].running]_vars

\* the trapped task never overlaps itself and two starts are more than one interval apart
TrMutex == trInTask <= 1
TrOncePerInterval ==
  [][trInTask' > trInTask => (trInTask = 0 /\ (trLastStart = -1 \/ now > trLastStart + conf.ti) /\ now > trPrev + conf.ti)]_vars

Inv == /\ RcAtMostOne /\ RcPendingCovers /\ RcNoOrphanPending /\ RcSlotsOK
       /\ LmAtMostOne /\ LmOneRunningTask /\ LmNoDetached /\ LmMapOK
       /\ TrMutex
=============================================================================
