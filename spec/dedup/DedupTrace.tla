----------------------------- MODULE DedupTrace -----------------------------
(* Trace validation of recorded utils/dedup histories (C29) against Dedup.

   The driver forces every schedule step with gated request functions / TaskRunners /
   IntervalTasks, a clock.Mock behind a gateable clock.Clock and a signalling tally.Scope,
   and logs only what it observed from outside:

     RequestCache   Start{c,k,res}  Acquire{c,k,infl}  Busy{c,k}  Exit{k,e,infl}  Released{k}
     Limiter        Run{c,k}  Enter{c,k,infl}  Leave{c,k,o,ttl,infl}  Ret{c,out}  Waiting{c,k}
     IntervalTrap   Trap{c}  TaskEnter{c,infl}  TaskLeave{c}  TrapRet{c}
     all            Tick{d}  reset{cfg}  abort

   infl is the number of executions of that key in flight, measured inside the gated
   function itself.  Critical sections the driver cannot see (release/error and
   releaseWorker after a request function returned; trap, lookup, lock, cond.Wait inside
   Limiter.Run; the RLock check of Trap) are silent steps: they do not consume a record.
   Each silent action moves one program counter forward along an acyclic path, so at most
   five silent steps per caller can separate two records.                                *)
EXTENDS Dedup, Json, TLC
Trace == ndJsonDeserialize("trace.ndjson")
VARIABLE l
tvars == <<vars, l>>
R == Trace[l]

TraceInit == TLCSet(1, 0) /\ Init /\ l = 1
IsEvent(e) == l <= Len(Trace) /\ Trace[l].ev = e /\ l' = l + 1
Silent(A)  == l <= Len(Trace) /\ A /\ l' = l

CfgOf(c) == [nw |-> c.nw, bt |-> c.bt, ettl |-> c.ettl, nfttl |-> c.nfttl, ci |-> c.ci, gci |-> c.gci, ti |-> c.ti]

TReset == /\ IsEvent("reset")
          /\ now' = 0 /\ conf' = CfgOf(R.cfg)
          /\ rcPending' = {} /\ rcErr' = [k \in Keys |-> NoErr] /\ rcLastClean' = 0 /\ rcSlots' = 0
          /\ rcPc' = [c \in RcCallers |-> RcIdle] /\ rcG' = [x \in Keys \X GSt |-> 0]
          /\ lmMap' = [k \in Keys |-> 0] /\ lmTask' = [i \in TaskIds |-> NoTask]
          /\ lmPc' = [c \in LmCallers |-> LmIdle] /\ lmGcPrev' = 0 /\ lmInRun' = [k \in Keys |-> 0]
          /\ trPrev' = 0 /\ trLock' = None /\ trPc' = [c \in TrCallers |-> "idle"] /\ trInTask' = 0
          /\ trLastStart' = -1
TAbort == IsEvent("abort") /\ UNCHANGED vars
TTick  == IsEvent("Tick") /\ Tick(R.d)

(* RequestCache *)
TStart    == IsEvent("Start") /\ R.res = StartRes(R.k) /\ RcReserve(R.c, R.k)
TAcquire  == IsEvent("Acquire") /\ rcPc[R.c].k = R.k /\ RcAcquire(R.c) /\ R.infl = rcG'[<<R.k, "run">>]
TBusy     == IsEvent("Busy") /\ rcPc[R.c].k = R.k /\ RcBusy(R.c)
TExit     == IsEvent("Exit") /\ R.infl = rcG[<<R.k, "run">>] /\ RcFnExit(R.k, R.e)
TReleased == /\ IsEvent("Released")
             /\ rcG[<<R.k, "fnil">>] + rcG[<<R.k, "fnf">>] + rcG[<<R.k, "fother">>] + rcG[<<R.k, "rel">>] = 0
             /\ UNCHANGED vars
SRc == \E k \in Keys : (\E e \in {"nil", "nf", "other"} : Silent(RcFinish(k, e))) \/ Silent(RcReleaseWorker(k))

(* Limiter *)
TRun   == IsEvent("Run") /\ LmCall(R.c, R.k)
TEnter == IsEvent("Enter") /\ lmPc[R.c].k = R.k /\ LmDecideRun(R.c) /\ R.infl = lmInRun'[R.k]
TLeave == IsEvent("Leave") /\ lmPc[R.c].k = R.k /\ R.infl = lmInRun[R.k] /\ LmRunnerRet(R.c, R.o, R.ttl)
\* the goroutine was seen parked in cond.Wait
TWaiting == IsEvent("Waiting") /\ lmPc[R.c].pc = "wait" /\ lmPc[R.c].k = R.k /\ UNCHANGED vars
TRet   == IsEvent("Ret") /\ lmPc[R.c].pc = "done" /\ R.out = LmRetRes(R.c) /\ LmReturn(R.c)
SLm == \E c \in LmCallers : \/ Silent(LmTrap(c)) \/ Silent(LmLookFast(c)) \/ Silent(LmLookSlow(c))
                            \/ Silent(LmGetLock(c)) \/ Silent(LmDecideWait(c)) \/ Silent(LmDecideFresh(c))
                            \/ Silent(LmPublish(c)) \/ Silent(LmWoken(c))

(* IntervalTrap *)
TTrap      == IsEvent("Trap") /\ TrCall(R.c)
TTaskEnter == IsEvent("TaskEnter") /\ TrLockRun(R.c) /\ R.infl = trInTask'
TTaskLeave == IsEvent("TaskLeave") /\ TrTaskRet(R.c)
TTrapRet   == IsEvent("TrapRet") /\ TrReturn(R.c)
STr == \E c \in TrCallers : Silent(TrCheck(c)) \/ Silent(TrLockSkip(c)) \/ Silent(TrPost(c))

TraceNext == \/ TReset \/ TAbort \/ TTick
             \/ TStart \/ TAcquire \/ TBusy \/ TExit \/ TReleased \/ SRc
             \/ TRun \/ TEnter \/ TLeave \/ TRet \/ TWaiting \/ SLm
             \/ TTrap \/ TTaskEnter \/ TTaskLeave \/ TTrapRet \/ STr
TraceSpec == TraceInit /\ [][TraceNext]_tvars

HW == TLCSet(1, IF TLCGet(1) < l THEN l ELSE TLCGet(1))
TraceAccepted == IF TLCGet(1) = Len(Trace) + 1 THEN TRUE
                 ELSE PrintT(<<"REJECTED_AT_LINE", TLCGet(1)>>) /\ FALSE
=============================================================================
