SPECIFICATION Spec
CONSTANTS
  Keys = {"k1", "k2"}
  RcCallers = {}
  LmCallers = {"c1", "c2"}
  TrCallers = {}
  CNumWorkers = 1
  CBusyTimeout = 1
  CErrTTL = 2
  CNfTTL = 1
  CCleanInt = 1
  CGCInt = 1
  CTrapInt = 1
  TTLs = {0, 1}
  Outs = {1}
  MaxNow = 2
  MaxTask = 3
  DefectGCDetach = FALSE
INVARIANT Inv
PROPERTY LmFreshNotRerun
