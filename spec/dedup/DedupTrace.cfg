SPECIFICATION TraceSpec
CONSTANTS
  Keys = {"k1", "k2", "k3"}
  RcCallers = {"c1", "c2", "c3", "c4"}
  LmCallers = {"c1", "c2", "c3", "c4"}
  TrCallers = {"c1", "c2", "c3", "c4"}
  CNumWorkers = 1
  CBusyTimeout = 1
  CErrTTL = 2
  CNfTTL = 1
  CCleanInt = 1
  CGCInt = 1
  CTrapInt = 1
  TTLs = {0}
  Outs = {0}
  MaxNow = 0
  MaxTask = 7
  DefectGCDetach = FALSE
INVARIANT Inv
PROPERTY RcCachedNotRerun RcBusyClears LmFreshNotRerun TrOncePerInterval
CONSTRAINT HW
POSTCONDITION TraceAccepted
CHECK_DEADLOCK FALSE
