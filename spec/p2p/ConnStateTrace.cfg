SPECIFICATION TraceSpec
CONSTANTS
  Hashes = {"h1","h2"}
  Peers = {"p1","p2","p3","p4"}
  NConn = 3
  MaxConnsSet = {1}
  MaxMutualSet = {1}
  DurSet = {1}
  NoBlSet = {FALSE}
  NeighChoices = {}
  Closable = {}
  BlSlots = {}
  MaxTick = 1
INVARIANT Inv
PROPERTY ActivationRule ReplacedSafe DialRule BlacklistLasts
CONSTRAINT HW
POSTCONDITION TraceAccepted
CHECK_DEADLOCK FALSE
