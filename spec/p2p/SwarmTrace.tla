----------------------------- MODULE SwarmTrace -----------------------------
(* Trace validation of recorded REAL swarms (property C19) against the safety part of Swarm.

   One record per observation, ordered by a global ticket taken when the record is logged:
     harness        Join, Download (call), Ret (return), Leave (before scheduler.Stop), End (oracle per agent)
     networkevent   add_torrent, conn_add, conn_drop, blacklist, request, receive, complete, cancelled
     storage        Serve  (GetPieceReader returned; "good" = the bytes handed out equal the true piece)
                    WStart (WritePiece about to be entered; "good" = payload equals the true piece; w = write id)
                    WEnd   (WritePiece returned: ok | dup | rej)

   What is bound strictly (robust against the scheduling of the logging goroutines):
     * every write outcome: "ok" only for a payload that equals the true piece (else bad[p] becomes non-empty and
       SafeHave fails), a good payload is rejected only if another write of the same piece overlapped it;
     * provenance: every payload written was handed out before by some peer's storage with the same piece index
       and the same good/bad flag, each handed-out payload being written at most once (so a wrong payload must come
       from the corrupting peer), and a peer hands out only pieces it holds, with the right bytes unless it is the
       corrupter (pieces in cbad);
     * connection endpoints: conn_add / conn_drop per endpoint, never more than maxc[p], no duplicates;
     * completion: torrent_complete, a Download that returns nil and receive_piece only when every (that) piece is
       stored or being stored with good bytes; a Download returns an error only for a stopped agent;
     * End: every agent still present returned nil, holds every piece and its cache file equals the blob; no agent
       (present or not) ever has a cache file that differs from the blob.
   What is NOT bound (the record is produced after the effect, so its position is not reliable): the guard of
   Request (pipeline limit, target holds the piece - those are C15/C16), MayClose, the requester of a Serve and the
   sender of a WStart (the payload is matched by piece index and flag; `to` is "any").  After Leave(p) the remaining
   networkevent records of p's own scheduler are consumed without effect; its storage records (Serve, WStart,
   WEnd) are still bound - scheduler.Stop takes a while and pieces written meanwhile may still be served.       *)
EXTENDS Swarm, Json, TLC, Sequences
Trace == ndJsonDeserialize("trace.ndjson")
VARIABLE l
tvars == <<vars, l>>
R == Trace[l]

Blank == /\ np = 0 /\ pipe = 1 /\ maxc = [p \in Peers |-> 1] /\ cbad = {}
         /\ joined = {} /\ left = {}
         /\ have = [p \in Peers |-> {}] /\ bad = [p \in Peers |-> {}]
         /\ conn = [p \in Peers |-> {}]
         /\ req = [p \in Peers |-> [q \in Peers |-> {}]]
         /\ inv = [p \in Peers |-> {}]
         /\ net = {} /\ writing = [p \in Peers |-> {}]
         /\ dl = [p \in Peers |-> "none"]
TraceInit == TLCSet(1, 0) /\ Blank /\ l = 1
IsEvent(e) == l <= Len(Trace) /\ Trace[l].ev = e /\ l' = l + 1
Range(s) == {s[k] : k \in 1..Len(s)}
Idx(s, x) == CHOOSE k \in 1..Len(s) : s[k] = x
\* pieces stored or being stored with good bytes (the completion bit is set inside the write window)
Avail(p) == have[p] \cup {w.piece : w \in {x \in writing[p] : x.good}}
\* payloads in flight with the same piece index and the same good/bad flag are interchangeable for the checks made
\* here (the sender of a written payload is not observable): they are numbered 1..k, the highest number is consumed first
Same(i, g) == {m \in net : m.piece = i /\ m.good = g}
Mine == R.p \in Peers /\ R.p \in joined /\ R.p \notin left

TReset == /\ IsEvent("reset")
          /\ np' = R.cfg.np /\ pipe' = R.cfg.pipe /\ cbad' = Range(R.cfg.corrupt)
          /\ Range(R.cfg.peers) \subseteq Peers
          /\ maxc' = [p \in Peers |-> IF p \in Range(R.cfg.peers) THEN R.cfg.maxc[Idx(R.cfg.peers, p)] ELSE 1]
          /\ joined' = {} /\ left' = {}
          /\ have' = [p \in Peers |-> IF p \in Agents THEN {} ELSE 0..(R.cfg.np - 1)]
          /\ bad' = [p \in Peers |-> {}] /\ conn' = [p \in Peers |-> {}]
          /\ req' = [p \in Peers |-> [q \in Peers |-> {}]] /\ inv' = [p \in Peers |-> {}]
          /\ net' = {} /\ writing' = [p \in Peers |-> {}] /\ dl' = [p \in Peers |-> "none"]

RoleOf(p) == IF p \in Seeders THEN "seeder" ELSE IF p \in Corrupters THEN "corrupter" ELSE "agent"
TJoin == /\ IsEvent("Join") /\ R.p \in Peers /\ R.p \notin joined /\ R.role = RoleOf(R.p)
         /\ joined' = joined \cup {R.p}
         /\ UNCHANGED <<cfgv, left, have, bad, conn, req, inv, net, writing, dl>>
\* the harness is about to call scheduler.Download (a stopped scheduler answers "stopped")
TDownload == /\ IsEvent("Download") /\ R.p \in joined /\ dl[R.p] = "none"
             /\ dl' = [dl EXCEPT ![R.p] = IF R.p \in left THEN "stopped" ELSE "wait"]
             /\ UNCHANGED <<cfgv, joined, left, have, bad, conn, req, inv, net, writing>>
\* Download returned: nil only with the whole blob stored; an error only "stopped" and only for a stopped agent
TRet == /\ IsEvent("Ret") /\ R.p \in joined
        /\ \/ /\ R.res = "ok" /\ dl[R.p] \in {"wait", "stopped"} /\ Avail(R.p) = Pieces
              /\ dl' = [dl EXCEPT ![R.p] = "ok"]
           \/ /\ R.res = "stopped" /\ R.p \in left /\ dl[R.p] = "stopped" /\ UNCHANGED dl
        /\ UNCHANGED <<cfgv, joined, left, have, bad, conn, req, inv, net, writing>>
\* the harness is about to call scheduler.Stop: from here on p counts as gone (its scheduler keeps running until the
\* shutdown event is applied: its storage records are still bound, its connection bookkeeping is not)
TLeave == /\ IsEvent("Leave") /\ R.p \in MayLeave /\ R.p \in present
          /\ LeaveEff(R.p)
          /\ UNCHANGED <<cfgv, joined, have, bad, net, writing>>

TAddTorrent == /\ IsEvent("add_torrent") /\ Mine
               /\ R.bits = np /\ R.cap = maxc[R.p]
               /\ Cardinality(have[R.p]) <= R.set /\ R.set <= Cardinality(Avail(R.p))
               /\ UNCHANGED vars
TConnAdd  == /\ IsEvent("conn_add") /\ Mine /\ R.q \in Peers
             /\ OpenEndGuard(R.p, R.q) /\ OpenEndEff(R.p, R.q)
             /\ UNCHANGED <<cfgv, joined, left, have, bad, req, inv, net, writing, dl>>
TConnDrop == /\ IsEvent("conn_drop") /\ Mine /\ R.q \in conn[R.p]
             /\ CloseEndEff(R.p, R.q)
             /\ UNCHANGED <<cfgv, joined, left, have, bad, net, writing, dl>>
TBlacklist == IsEvent("blacklist") /\ Mine /\ R.q \in Peers /\ R.q # R.p /\ UNCHANGED vars
TRequest  == IsEvent("request") /\ Mine /\ R.p \in Agents /\ R.q \in Peers /\ R.q # R.p /\ R.i \in Pieces /\ UNCHANGED vars
TReceive  == IsEvent("receive") /\ Mine /\ R.q \in Peers /\ R.q # R.p /\ R.i \in have[R.p] /\ UNCHANGED vars
TComplete == IsEvent("complete") /\ Mine /\ Avail(R.p) = Pieces /\ UNCHANGED vars
TOther    == IsEvent("other") /\ UNCHANGED vars

\* storage handed out piece i (also by a peer that has just been stopped: the payload may still arrive)
TServe == /\ IsEvent("Serve") /\ R.p \in joined
          /\ \/ /\ R.res = "ok" /\ R.i \in Avail(R.p) /\ R.good = ServesGood(R.p, R.i)
                /\ ServeEff(R.p, "any", R.i, R.good, 1 + Cardinality(Same(R.i, R.good)))
             \/ /\ R.res = "err" /\ UNCHANGED net
          /\ UNCHANGED <<cfgv, joined, left, have, bad, conn, req, inv, writing, dl>>
TWStart == /\ IsEvent("WStart") /\ R.p \in joined /\ R.i \in Pieces
           /\ \E m \in Same(R.i, R.good) :
                             /\ \A m2 \in Same(R.i, R.good) : m2.n <= m.n
                             /\ StartWriteEff(R.p, m, R.w, TRUE)
           /\ UNCHANGED <<cfgv, joined, left, have, bad, conn, req, inv, dl>>
\* outcome of the write (see the module comment; "ok" for a wrong payload is let through so that SafeHave reports it)
TWEnd == /\ IsEvent("WEnd") /\ R.p \in joined
         /\ \E w \in writing[R.p] :
              /\ w.n = R.w /\ w.piece = R.i /\ w.good = R.good
              /\ CASE R.res = "ok"  -> w.piece \notin have[R.p]
                   [] R.res = "dup" -> w.piece \in have[R.p] \/ \E w2 \in writing[R.p] \ {w} : w2.piece = w.piece /\ w2.good
                   [] R.res = "rej" -> ~w.good \/ w.ov
                   [] OTHER -> FALSE
              /\ EndWriteEff(R.p, w, R.res)
         /\ UNCHANGED <<cfgv, joined, left, conn, net, dl>>

\* records of a stopped peer's own scheduler
TLeft == /\ l <= Len(Trace) /\ R.ev \notin {"reset", "Join", "Download", "Ret", "Leave", "Serve", "WStart", "WEnd", "End"}
         /\ R.p \in left /\ l' = l + 1 /\ UNCHANGED vars

TEnd == /\ IsEvent("End") /\ R.p \in Agents /\ R.p \in joined
        /\ R.cached # "wrong"
        /\ R.present = (R.p \notin left)
        /\ (R.ret = "ok" => R.cached = "exact")
        /\ (R.present => R.ret = "ok" /\ dl[R.p] = "ok" /\ have[R.p] = Pieces)
        /\ UNCHANGED vars

TraceNext == TReset \/ TJoin \/ TDownload \/ TRet \/ TLeave \/ TAddTorrent \/ TConnAdd \/ TConnDrop \/ TBlacklist
             \/ TRequest \/ TReceive \/ TComplete \/ TOther \/ TServe \/ TWStart \/ TWEnd \/ TLeft \/ TEnd
TraceSpec == TraceInit /\ [][TraceNext]_tvars

DoneExact == \A p \in Honest : dl[p] = "ok" => (Avail(p) = Pieces /\ bad[p] = {})
TraceInv  == TypeOK /\ SafeHave /\ DoneExact /\ ConnLimit /\ SeederStays

HW == TLCSet(1, IF TLCGet(1) < l THEN l ELSE TLCGet(1))
TraceAccepted == IF TLCGet(1) = Len(Trace) + 1 THEN TRUE
                 ELSE PrintT(<<"REJECTED_AT_LINE", TLCGet(1)>>) /\ FALSE
=============================================================================
