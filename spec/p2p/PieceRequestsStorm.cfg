SPECIFICATION TraceSpec
CONSTRAINT HW
POSTCONDITION TraceAccepted
CHECK_DEADLOCK FALSE
