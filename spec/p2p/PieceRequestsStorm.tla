-------------------------- MODULE PieceRequestsStorm --------------------------
(* Quiescent-point validation of real-concurrency storms on piecerequest.Manager (property C15),
   complementing PieceRequestsTrace (sequential histories): the Manager promises thread safety, and the
   dispatcher really calls ReservePieces for ONE peer from two goroutines (the peer's feed loop and the
   failed-request watcher).

   Each round: several goroutines reserve disjoint pieces for the same peer at the same time on an
   otherwise empty manager; after all of them have returned the driver records the peer's pipeline limit,
   how many pieces each call was granted and the peer's pending pieces.  Whatever the interleaving was,
   PieceRequests says about that state: the peer holds at most `limit` unexpired requests, exactly the
   granted ones, each piece once.                                                                    *)
EXTENDS Integers, Sequences, FiniteSets, Json, TLC
Trace == ndJsonDeserialize("trace.ndjson")
VARIABLES l, rounds
vars == <<l, rounds>>
R == Trace[l]

TraceInit == TLCSet(1, 0) /\ l = 1 /\ rounds = 0
IsEvent(e) == l <= Len(Trace) /\ Trace[l].ev = e /\ l' = l + 1
SeqSet(s) == {s[i] : i \in 1..Len(s)}
RoundOK(r) ==
  /\ Len(r.pending) <= r.limit                              \* the pipeline limit holds
  /\ Cardinality(SeqSet(r.pending)) = Len(r.pending)        \* each piece once
  /\ SeqSet(r.pending) = SeqSet(r.granted)                  \* exactly what the calls were granted
  /\ Len(r.granted) = Len(r.pending)
  /\ (r.limit > 0 /\ r.asked > 0) => Len(r.pending) > 0     \* and somebody was served

TReset == IsEvent("reset") /\ rounds' = 0
TRound == IsEvent("Round") /\ RoundOK(R) /\ rounds' = rounds + 1
TraceNext == TReset \/ TRound
TraceSpec == TraceInit /\ [][TraceNext]_vars

HW == TLCSet(1, IF TLCGet(1) < l THEN l ELSE TLCGet(1))
TraceAccepted == IF TLCGet(1) = Len(Trace) + 1 THEN TRUE
                 ELSE PrintT(<<"REJECTED_AT_LINE", TLCGet(1)>>) /\ FALSE
=============================================================================
