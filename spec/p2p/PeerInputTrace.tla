--------------------------- MODULE PeerInputTrace ---------------------------
(* Trace validation of recorded peer-input cases (C14) against PeerInput.

   One record per input delivered to a REAL conn.Handshaker / conn.Conn / dispatch.Dispatcher over a real
   agent or origin torrent (harness/engines/c14).  A record carries the input class (the fields of the case
   grammar; for messages also the concrete piece index) and what was observed:

     crashed   the process that hosts the victim died while the input was in flight
     alloc     runtime.MemStats.TotalAlloc grew by more than 64 MiB during the case
     stuck     the victim neither answered the end-of-case marker nor closed the connection
     blobok    the blob file has the blob's length and every piece the victim claims holds the blob's bytes
     honok     the honest neighbour's request for a held piece was answered with exactly that piece
     badpay    (messages) a piece payload came back that is not the requested piece of the blob
     reqs      (messages) piece indices the victim asked the attacker for during the case
     res       (handshakes) established | rejected, as seen on the victim's side
     conn      (messages) open | closed: Conn.IsClosed of the victim's end afterwards
     have      (messages) Torrent.Bitfield afterwards
     served / err   correct piece payloads / error messages sent back

   The specification decides: Safe and OutcomeAllowed are evaluated in every state.                     *)
EXTENDS PeerInput, Json, Sequences
Trace == ndJsonDeserialize("trace.ndjson")
VARIABLE l
tvars == <<kind, have, att, last, l>>
R == Trace[l]
Range(s) == {s[i] : i \in 1..Len(s)}

TraceInit == TLCSet(1, 0) /\ l = 1 /\ kind = "leech" /\ have = {} /\ att = "none" /\ last = NoLast
IsEvent(e) == l <= Len(Trace) /\ Trace[l].ev = e /\ l' = l + 1

TReset == /\ IsEvent("reset")
          /\ R.cfg.n = N /\ R.cfg.kind \in Kinds
          /\ kind' = R.cfg.kind /\ have' = Range(R.cfg.have0) /\ att' = "none" /\ last' = NoLast

BadCommon == IF R.crashed THEN "panic"
             ELSE IF R.alloc THEN "alloc"
             ELSE IF R.stuck THEN "stuck"
             ELSE IF ~R.blobok THEN "blob"
             ELSE IF ~R.honok THEN "starved"
             ELSE "none"
\* the victim only ever asks for pieces of the torrent it does not hold, and serves only pieces of the blob
ReqsOK == Range(R.reqs) \subseteq (IF kind = "leech" THEN Pieces \ have ELSE {})
BadMsg == IF BadCommon # "none" THEN BadCommon ELSE IF R.badpay \/ ~ReqsOK THEN "oob" ELSE "none"

THandshake ==
  /\ IsEvent("Handshake")
  /\ LET h == [dir |-> R.dir, typ |-> R.typ, body |-> R.body, pid |-> R.pid, ih |-> R.ih, name |-> R.name,
               bits |-> R.bits, rb |-> R.rb]
         o == [bad |-> BadCommon, res |-> R.res]
     IN h \in HsCases /\ R.res \in {"established", "rejected"} /\ HandshakeStep(h, o)

TMsg ==
  /\ IsEvent("Msg")
  /\ LET c == [typ |-> R.typ, body |-> R.body, idx |-> R.idx, off |-> R.off, len |-> R.len, data |-> R.data,
               code |-> R.code, fin |-> R.fin]
         o == [bad |-> BadMsg, conn |-> R.conn, have |-> Range(R.have), served |-> R.served,
               err |-> IF R.err > 0 THEN 1 ELSE 0]
     IN c \in MsgCases /\ R.conn \in {"open", "closed"} /\ MsgStep(c, R.pi, o)

THangup == IsEvent("Hangup") /\ Hangup

TraceNext == TReset \/ THandshake \/ TMsg \/ THangup
TraceSpec == TraceInit /\ [][TraceNext]_tvars

HW == TLCSet(1, IF TLCGet(1) < l THEN l ELSE TLCGet(1))
TraceAccepted == IF TLCGet(1) = Len(Trace) + 1 THEN TRUE
                 ELSE PrintT(<<"REJECTED_AT_LINE", TLCGet(1)>>) /\ FALSE
=============================================================================
