----------------------------- MODULE ConnState -----------------------------
(* API-level specification of lib/torrent/scheduler/connstate.State (property C16).
   One action per public call; State is documented as not thread-safe (the scheduler
   calls it from its event loop only), so one real call is one action.

   A connection slot is identified by (torrent h, peer p).  Connection OBJECTS are
   identified by <<h, p, n>>: the n-th *conn.Conn ever created for that slot, which
   is what "a replaced connection" needs (two objects, same slot).  A conn object
   can be closed by its owner at any time (CloseConn, environment).

   bl[h,p] is the remaining blacklist time: -1 no entry, 0 an expired entry that
   is still in the table (BlacklistSnapshot lists it), > 0 blacklisted.  Tick(d)
   is the clock advancing; remaining time saturates at 0, so the model is finite
   without bounding the clock.

   Announce(h, ps) and HandshakeFailed(p, h) are not methods of State: they are the
   scheduler events that use it (events.go: announceResultEvent walks the peers the
   tracker returned, skips itself and every peer for which Blacklisted answers
   true, calls AddPending with no neighbours and stops at ErrTorrentAtCapacity;
   failedOutgoingHandshakeEvent is DeletePending followed by Blacklist).  They are
   specified here because C16's last clause -- blacklisted peers are not dialled
   until their blacklist expires -- is a contract between the two.               *)
EXTENDS Sequences, FiniteSets, Integers
CONSTANTS Hashes,        \* torrents "h1".."hN"
          Peers,         \* peers "p1".."pN"
          NConn,         \* conn objects per slot
          MaxConnsSet, MaxMutualSet, DurSet, NoBlSet,   \* configurations Init may choose
          NeighChoices,  \* neighbour lists (sequences of peers) the design model tries
          Closable,      \* conn objects the design model closes
          BlSlots,       \* slots the design model blacklists
          MaxTick
VARIABLES pending,       \* SUBSET Slots: handshake in progress, capacity reserved
          active,        \* SUBSET Conns: the conn object registered as active for its slot
          closed,        \* SUBSET Conns: closed conn objects (environment)
          bl,            \* [Slots -> -1..dur]
          maxConns, maxMutual, dur, noBl       \* configuration, fixed after Init
cvars == <<maxConns, maxMutual, dur, noBl>>
vars  == <<pending, active, closed, bl, cvars>>

Slots == Hashes \X Peers
Conns == Hashes \X Peers \X (1..NConn)
SlotOf(c) == <<c[1], c[2]>>
Range(s) == {s[k] : k \in 1..Len(s)}
Max(a, b) == IF a > b THEN a ELSE b

ActiveAt(h, p) == {c \in active : c[1] = h /\ c[2] = p}
Status(h, p) == IF <<h, p>> \in pending THEN "pending"
                ELSE IF ActiveAt(h, p) # {} THEN "active" ELSE "none"
Count(h) == Cardinality({x \in pending : x[1] = h}) + Cardinality({c \in active : c[1] = h})

Init == /\ pending = {} /\ active = {} /\ closed = {}
        /\ bl = [x \in Slots |-> 0 - 1]
        /\ maxConns \in MaxConnsSet /\ maxMutual \in MaxMutualSet /\ dur \in DurSet /\ noBl \in NoBlSet

----------------------------------------------------------------------------
(* AddPending(p, h, neighbours) *)
NumMutual(h, ns) == Cardinality({k \in 1..Len(ns) : Status(h, ns[k]) # "none"})
AddPendingRes(p, h, ns) ==
  IF Count(h) = maxConns THEN "capacity"
  ELSE IF Status(h, p) = "pending" THEN "pending"
  ELSE IF Status(h, p) = "active" THEN "active"
  ELSE IF NumMutual(h, ns) > maxMutual THEN "mutual" ELSE "ok"
AddPending(p, h, ns) ==
  /\ pending' = IF AddPendingRes(p, h, ns) = "ok" THEN pending \cup {<<h, p>>} ELSE pending
  /\ UNCHANGED <<active, closed, bl, cvars>>

(* DeletePending(p, h): frees the slot iff it is pending *)
DeletePending(p, h) == pending' = pending \ {<<h, p>>} /\ UNCHANGED <<active, closed, bl, cvars>>

(* MovePendingToActive(c) *)
MoveToActiveRes(c) == IF c \in closed THEN "closed"
                      ELSE IF Status(c[1], c[2]) # "pending" THEN "invalid" ELSE "ok"
MoveToActive(c) ==
  /\ IF MoveToActiveRes(c) = "ok"
     THEN pending' = pending \ {SlotOf(c)} /\ active' = active \cup {c}
     ELSE UNCHANGED <<pending, active>>
  /\ UNCHANGED <<closed, bl, cvars>>

(* DeleteActive(c): removes c iff c itself is the registered active conn of its slot *)
DeleteActive(c) == active' = active \ {c} /\ UNCHANGED <<pending, closed, bl, cvars>>

(* Blacklist(p, h) *)
BlacklistRes(p, h) == IF noBl THEN "ok" ELSE IF bl[h, p] > 0 THEN "err" ELSE "ok"
Blacklist(p, h) ==
  /\ bl' = IF ~noBl /\ bl[h, p] <= 0 THEN [bl EXCEPT ![h, p] = dur] ELSE bl
  /\ UNCHANGED <<pending, active, closed, cvars>>
(* ClearBlacklist(h) *)
ClearBlacklist(h) == /\ bl' = [x \in Slots |-> IF x[1] = h THEN 0 - 1 ELSE bl[x]]
                     /\ UNCHANGED <<pending, active, closed, cvars>>

(* environment: the clock advances by d > 0; a conn object is closed *)
Tick(d) == /\ bl' = [x \in Slots |-> IF bl[x] > 0 THEN Max(bl[x] - d, 0) ELSE bl[x]]
           /\ UNCHANGED <<pending, active, closed, cvars>>
CloseConn(c) == closed' = closed \cup {c} /\ UNCHANGED <<pending, active, bl, cvars>>

(* read-only calls *)
BlacklistedRes(p, h) == bl[h, p] > 0
SaturatedRes(h) == Cardinality({c \in active : c[1] = h}) = maxConns
ActiveConnsRes == active
SnapshotRes == {<<x[1], x[2], bl[x]>> : x \in {y \in Slots : bl[y] >= 0}}

(* scheduler events built on State (events.go) *)
\* announceResultEvent{h, ps}: the slots pending after walking the peer list ps (names outside Peers,
\* e.g. the scheduler's own id, are skipped); a peer that is added is "dialled"
RECURSIVE AnnFold(_, _, _)
AnnFold(h, ps, pend) ==
  IF ps = <<>> THEN pend
  ELSE LET p == Head(ps)
           cnt == Cardinality({x \in pend : x[1] = h}) + Cardinality({c \in active : c[1] = h})
       IN IF p \notin Peers \/ bl[h, p] > 0 THEN AnnFold(h, Tail(ps), pend)
          ELSE IF cnt = maxConns THEN pend
          ELSE IF <<h, p>> \in pend \/ ActiveAt(h, p) # {} THEN AnnFold(h, Tail(ps), pend)
          ELSE AnnFold(h, Tail(ps), pend \cup {<<h, p>>})
Announce(h, ps) == pending' = AnnFold(h, ps, pending) /\ UNCHANGED <<active, closed, bl, cvars>>
\* failedOutgoingHandshakeEvent{p, h}
HandshakeFailed(p, h) ==
  /\ pending' = pending \ {<<h, p>>}
  /\ bl' = IF ~noBl /\ bl[h, p] <= 0 THEN [bl EXCEPT ![h, p] = dur] ELSE bl
  /\ UNCHANGED <<active, closed, cvars>>

Next == \/ \E p \in Peers, h \in Hashes : \/ \E ns \in NeighChoices : AddPending(p, h, ns)
                                          \/ DeletePending(p, h)
        \/ \E c \in Conns : MoveToActive(c) \/ DeleteActive(c)
        \/ \E c \in Closable : CloseConn(c)
        \/ \E x \in BlSlots : Blacklist(x[2], x[1])
        \/ \E h \in Hashes : ClearBlacklist(h)
        \/ \E h \in Hashes, ps \in NeighChoices : Announce(h, ps)
        \/ \E x \in BlSlots : HandshakeFailed(x[2], x[1])
        \/ \E d \in 1..MaxTick : Tick(d)
Spec == Init /\ [][Next]_vars

----------------------------------------------------------------------------
(* Properties (C16) *)
TypeOK == /\ pending \subseteq Slots /\ active \subseteq Conns /\ closed \subseteq Conns
          /\ \A x \in Slots : bl[x] \in (0 - 1)..dur

\* pending plus active connections of a torrent never exceed the configured maximum
Capacity == \A h \in Hashes : Count(h) <= maxConns
\* a peer is never both pending and active for the same torrent; one active conn object per slot
Exclusive == \A c \in active : SlotOf(c) \notin pending
OneActive == \A c1, c2 \in active : SlotOf(c1) = SlotOf(c2) => c1 = c2
Inv == TypeOK /\ Capacity /\ Exclusive /\ OneActive

\* a slot is newly reserved only below capacity, and only when not too many of the given neighbours are connected
AdmissionRule == [][\A p \in Peers, h \in Hashes : (<<h, p>> \in pending' /\ <<h, p>> \notin pending) =>
                        /\ Count(h) < maxConns /\ Status(h, p) = "none"
                        /\ \A ns \in NeighChoices : AddPending(p, h, ns) => NumMutual(h, ns) <= maxMutual]_vars
\* a conn object becomes active only from a pending slot and only if it is not closed
ActivationRule == [][\A c \in Conns : (c \in active' /\ c \notin active) =>
                         (SlotOf(c) \in pending /\ SlotOf(c) \notin pending' /\ c \notin closed)]_vars
\* a replaced connection is never removed on behalf of an older one: DeleteActive(c) removes nothing but c
ReplacedSafe == [][\A c \in Conns : DeleteActive(c) => (active \ active') \subseteq {c}]_vars
\* blacklisted peers are not dialled; a blacklist entry ends only through the clock or ClearBlacklist of its torrent
DialRule == [][\A h \in Hashes, ps \in NeighChoices : Announce(h, ps) => \A x \in pending' \ pending : bl[x] <= 0]_vars
BlacklistLasts == [][\A x \in Slots : (bl[x] > 0 /\ bl'[x] < bl[x]) =>
                         \/ bl'[x] = 0 - 1 /\ \A y \in Slots : y[1] = x[1] => bl'[y] = 0 - 1
                         \/ \A y \in Slots : bl[y] > 0 => bl'[y] < bl[y]]_vars

\* design-model constants (cfg files cannot contain expressions)
MCNeigh == UNION {[1..n -> Peers] : n \in 0..2}
MCClosable1 == {<<"h1", "p1", 1>>}
MCBlSlots1  == {<<"h1", "p1">>}
MCClosable2 == {<<"h1", "p1", 1>>, <<"h2", "p2", 2>>}
MCBlSlots2  == {<<"h1", "p1">>, <<"h2", "p1">>}
=============================================================================
