SPECIFICATION Spec
CONSTANTS
  Peers = {"p1","p2","p3"}
  Pieces = {0,1}
  Policies = {"default","rarest_first"}
  Timeouts = {1}
  AgentLimits = {1}
  OriginLimits = {2}
  OriginSets = {{"p3"}}
  Cnts <- MCCnts
  MaxTick = 2
INVARIANT Inv
PROPERTY ClearPeerRemovesAll ClearRemovesAll OnlyAppendFresh FailedStaysFailed
CONSTRAINT Bound3
