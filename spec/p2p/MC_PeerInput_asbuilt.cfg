\* implementation-shaped model of the tree WITHOUT the repairs F14a-d: the classes with a bad outcome are exactly the known-defect classes
SPECIFICATION ImplSpec
CONSTANTS
  N = 2
  FixA = FALSE
  FixB = FALSE
  FixC = FALSE
  FixD = FALSE
VIEW MCView
INVARIANT TypeOK AsBuiltDefectsAreExactlyKnown
PROPERTY PiecesOnlyGrow GrowOnlyByGoodPayload
CHECK_DEADLOCK FALSE
