\* API-level outcome relation on its own (the specification traces are validated against)
SPECIFICATION Spec
CONSTANTS
  N = 2
  FixA = TRUE
  FixB = TRUE
  FixC = TRUE
  FixD = TRUE
VIEW MCView
INVARIANT TypeOK
PROPERTY SafeStep OutcomeAllowedStep PiecesOnlyGrow GrowOnlyByGoodPayload
CHECK_DEADLOCK FALSE
