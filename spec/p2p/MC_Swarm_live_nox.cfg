SPECIFICATION FairSpec
CONSTANTS
  Agents = {"a1", "a2"}
  Seeders = {"s1"}
  Corrupters = {}
  NPs = {2}
  Maxcs <- MaxcAll
  Pipes = {1, 2}
  MayLeave = {"a2"}
  Verify = TRUE
INVARIANT Inv
PROPERTY Converges
CHECK_DEADLOCK FALSE
