SPECIFICATION TraceSpec
CONSTANT H = {"h1","h2","h3","h4","h5"}
INVARIANT Inv
CONSTRAINT HW
POSTCONDITION TraceAccepted
CHECK_DEADLOCK FALSE
