--------------------------- MODULE SchedulerTrace ---------------------------
(* Trace validation of a real agent scheduler driven event by event (C17, C18, C20 system half). *)
EXTENDS Scheduler, Json, TLC
Trace == ndJsonDeserialize("trace.ndjson")
VARIABLES l, retd       \* retd: requests whose Download call has returned
tvars == <<vars, l, retd>>
R == Trace[l]

TraceInit == TLCSet(1, 0) /\ Init /\ l = 1 /\ retd = {}
IsEvent(e) == l <= Len(Trace) /\ Trace[l].ev = e /\ l' = l + 1
ObsOK == /\ R.hasctl = (ctl' # 0)

         /\ R.cache = cache'
         /\ R.notices = Cardinality(notice')
         /\ ((\E i \in 1..Len(R.aq) : R.aq[i] = "Add") => ~inq)        \* C20: never Add a torrent that is still queued

TReset == /\ IsEvent("reset") /\ retd' = {}
          /\ ctl' = 0 /\ gens' = 0 /\ pcs' = 0 /\ cache' = "absent" /\ waiters' = {} /\ notice' = {}
          /\ issued' = {} /\ result' = [r \in Req |-> "none"] /\ inq' = FALSE
          /\ now' = 0 /\ lastRead' = 0 /\ lastWrite' = 0 /\ trueServe' = 0 /\ trueRecv' = 0 /\ stopped' = FALSE /\ act' = "init"
TDownload == IsEvent("Download") /\ Download(R.r) /\ ObsOK /\ UNCHANGED retd
TRecv     == IsEvent("RecvPiece") /\ RecvPiece /\ R.last = (pcs' = NPieces) /\ ObsOK /\ UNCHANGED retd
TServe    == IsEvent("ServePiece") /\ ServePiece /\ ObsOK /\ UNCHANGED retd
TApply    == IsEvent("ApplyNotice") /\ (\E g \in notice : (\A g2 \in notice : g <= g2) /\ ApplyNotice(g)) /\ ObsOK /\ UNCHANGED retd
TRemove   == IsEvent("Remove") /\ Remove /\ ObsOK /\ UNCHANGED retd
TPreempt  == IsEvent("PreemptTick") /\ PreemptTick /\ ObsOK /\ UNCHANGED retd
TTick     == IsEvent("Tick") /\ Tick /\ ObsOK /\ UNCHANGED retd
TStop     == IsEvent("Stop") /\ Shutdown /\ UNCHANGED retd
\* a Download call returned: exactly the result the scheduler decided, and only once
TRet      == IsEvent("Ret") /\ R.r \notin retd /\ result[R.r] = R.res /\ retd' = retd \cup {R.r} /\ UNCHANGED vars
\* after Stop every issued call has returned (R.never lists calls that had not returned 3 s after Stop)
TEnd      == IsEvent("End") /\ R.never = <<>> /\ retd = issued /\ R.cache = cache /\ (cache = "full" => R.cachedok) /\ UNCHANGED <<vars, retd>>
TDrift    == IsEvent("Drift") /\ UNCHANGED <<vars, retd>>

TraceNext == TReset \/ TDownload \/ TRecv \/ TServe \/ TApply \/ TRemove \/ TPreempt \/ TTick \/ TStop \/ TRet \/ TEnd \/ TDrift
TraceSpec == TraceInit /\ [][TraceNext]_tvars

HW == TLCSet(1, IF TLCGet(1) < l THEN l ELSE TLCGet(1))
TraceAccepted == IF TLCGet(1) = Len(Trace) + 1 THEN TRUE
                 ELSE PrintT(<<"REJECTED_AT_LINE", TLCGet(1)>>) /\ FALSE
=============================================================================
