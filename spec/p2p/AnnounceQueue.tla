--------------------------- MODULE AnnounceQueue ---------------------------
(* API-level specification of lib/torrent/scheduler/announcequeue (property C20).
   One action per public call of announcequeue.Queue.  Add(h) is specified only for
   a torrent not currently in the queue (the code documents the other case as
   undefined); the scheduler-level check that the scheduler never issues such an
   Add lives in the Scheduler harness, which validates the scheduler's own call
   stream against this same module.                                              *)
EXTENDS Sequences, FiniteSets, Naturals
CONSTANTS H          \* torrents (info hashes), strings "h1".."hN"
VARIABLES ready,     \* Seq(H): torrents waiting to announce, FIFO
          pending    \* SUBSET H: torrents with an announce in flight
vars == <<ready, pending>>

Range(s) == {s[i] : i \in 1..Len(s)}
InQueue(h) == h \in Range(ready) \/ h \in pending

Init == ready = <<>> /\ pending = {}

Add(h) == /\ ~InQueue(h)
          /\ ready' = Append(ready, h)
          /\ UNCHANGED pending

NextReply == IF ready = <<>> THEN "none" ELSE Head(ready)
Next_ == IF ready = <<>> THEN UNCHANGED vars
         ELSE /\ pending' = pending \cup {Head(ready)}
              /\ ready' = Tail(ready)

Ready(h) == IF h \in pending
            THEN ready' = Append(ready, h) /\ pending' = pending \ {h}
            ELSE UNCHANGED vars

Eject(h) == /\ pending' = pending \ {h}
            /\ ready' = SelectSeq(ready, LAMBDA x : x # h)

Next == \/ \E h \in H : Add(h) \/ Ready(h) \/ Eject(h)
        \/ Next_

Spec == Init /\ [][Next]_vars

----------------------------------------------------------------------------
(* Properties (C20) *)
NoDup      == \A i, j \in 1..Len(ready) : i # j => ready[i] # ready[j]
Disjoint   == Range(ready) \cap pending = {}
TypeOK     == ready \in Seq(H) /\ pending \subseteq H
Inv        == NoDup /\ Disjoint

\* a torrent becomes ready again only after its in-flight announce finished (Ready) or by a fresh Add
ReadyOnlyAfterFinish ==
  [][\A h \in H : (h \in pending /\ h \in Range(ready')) => h \notin pending']_vars
\* relative order of waiting torrents never changes (FIFO): the old queue minus removed items is a prefix-order subsequence
IsSubSeqOrder(s, t) == \* every pair ordered in s and still in t keeps its order in t
  \A i, j \in 1..Len(s) : (i < j /\ s[i] \in Range(t) /\ s[j] \in Range(t)) =>
      (\E a, b \in 1..Len(t) : a < b /\ t[a] = s[i] /\ t[b] = s[j])
FIFO == [][IsSubSeqOrder(ready, ready')]_vars
\* ejected torrents are gone completely
EjectComplete == [][\A h \in H : (ready' = SelectSeq(ready, LAMBDA x : x # h) /\ pending' = pending \ {h} /\ InQueue(h))
                        => (h \notin Range(ready') /\ h \notin pending')]_vars
=============================================================================
