SPECIFICATION TraceSpec
CONSTANTS
  Agents = {"a1", "a2", "a3", "a4", "a5"}
  Seeders = {"s1"}
  Corrupters = {"x1"}
  NPs = {0}
  Maxcs = {}
  Pipes = {1}
  MayLeave = {"a1", "a2", "a3", "a4", "a5"}
  Verify = TRUE
INVARIANT TraceInv
CONSTRAINT HW
POSTCONDITION TraceAccepted
CHECK_DEADLOCK FALSE
