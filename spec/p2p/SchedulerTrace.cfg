SPECIFICATION TraceSpec
CONSTANTS
  Req = {"r1","r2","r3"}
  NPieces = 2
  SeederTTI = 2
  LeecherTTI = 2
  MaxClock = 100000
  FixRemoveAnswers = TRUE
  FixNoticeIdentity = TRUE
  FixReadTouch = TRUE
INVARIANT Inv
CONSTRAINT HW
POSTCONDITION TraceAccepted
CHECK_DEADLOCK FALSE
