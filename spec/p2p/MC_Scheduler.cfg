SPECIFICATION Spec
CONSTANTS
  Req = {"r1","r2"}
  NPieces = 2
  SeederTTI = 2
  LeecherTTI = 2
  MaxClock = 4
  FixRemoveAnswers = TRUE
  FixNoticeIdentity = TRUE
  FixReadTouch = TRUE
INVARIANT Inv
PROPERTY OnceOnly OkMeansCached SeederTTIOk LeecherTTIOk PartialGone CompleteKept NoDoubleAdd
CHECK_DEADLOCK FALSE
