------------------------------ MODULE Scheduler ------------------------------
(* Implementation-shaped specification of lib/torrent/scheduler for ONE blob (properties
   C17, C18 and the system half of C20).

   Every action except the two marked (async) is one serialized event of the scheduler's
   event loop.  The completion notice is the dispatcherCompleteEvent that a dispatcher
   sends from its own goroutine after the last piece was written: between LastPiece and
   ApplyNotice the torrent is already complete in storage while the scheduler has not
   yet answered the waiting Download calls.

     Download(r)        doDownload: CreateTorrent + newTorrentEvent
     RecvPiece          (async) dispatcher writes a piece; the last one spawns the notice
     ServePiece         (async) dispatcher reads a piece for a remote peer
     ApplyNotice        dispatcherCompleteEvent
     Remove             removeTorrentEvent (manual removal; deletes the blob from the archive)
     PreemptTick        preemptionTickEvent (idle seeder / idle leecher)
     Tick               clock advance
     Shutdown           shutdownEvent

   Fix* = TRUE is the repaired code; FALSE reproduces the code as found:
     FixRemoveAnswers   removeTorrent answers the waiters of a control whose torrent completed
                        but whose notice is still in flight (F17), and ejects it from the
                        announce queue (F20)
     FixNoticeIdentity  a notice is applied only to the control of the dispatcher that sent it (F17b)
     FixReadTouch       serving a piece refreshes the seeder's last-read time (F18)          *)
EXTENDS Integers, Sequences, FiniteSets
CONSTANTS Req, NPieces, SeederTTI, LeecherTTI, MaxClock,
          FixRemoveAnswers, FixNoticeIdentity, FixReadTouch

VARIABLES ctl,        \* 0 = no control, else generation id of the control / dispatcher
          gens,       \* generation counter
          pcs,        \* pieces written of the current incarnation of the blob in the archive
          cache,      \* "absent" | "partial" | "full"     (download file / cache file)
          waiters,    \* requests registered in ctrl.errors
          notice,     \* set of generation ids whose completion notice is in flight
          issued, result,   \* Download calls: issued, and their single result
          inq,        \* the blob is in the announce queue
          now, lastRead, lastWrite, trueServe, trueRecv,
          stopped,
          act         \* name of the last action (history; lets properties speak about "dropped by preemption")
vars == <<act, ctl, gens, pcs, cache, waiters, notice, issued, result, inq, now, lastRead, lastWrite, trueServe, trueRecv, stopped>>

Results == {"none", "ok", "notfound", "timeout", "removed", "stopped"}
Complete == cache = "full"

Init == /\ ctl = 0 /\ gens = 0 /\ pcs = 0 /\ cache = "absent" /\ waiters = {} /\ notice = {}
        /\ issued = {} /\ result = [r \in Req |-> "none"] /\ inq = FALSE
        /\ now = 0 /\ lastRead = 0 /\ lastWrite = 0 /\ trueServe = 0 /\ trueRecv = 0 /\ stopped = FALSE /\ act = "init"

Answer(rs, v) == result' = [r \in Req |-> IF r \in rs THEN v ELSE result[r]]

\* newTorrentEvent after CreateTorrent: join or create the control; a complete torrent is answered at once
Download(r) ==
  /\ act' = "Download"
  /\ ~stopped /\ r \notin issued /\ issued' = issued \cup {r}
  /\ cache' = IF cache = "absent" THEN (IF NPieces = 0 THEN "full" ELSE "partial") ELSE cache
  /\ pcs' = IF cache = "absent" THEN 0 ELSE pcs
  /\ IF ctl = 0
     THEN /\ gens' = gens + 1 /\ ctl' = gens + 1 /\ inq' = TRUE
          /\ lastRead' = now /\ lastWrite' = now /\ trueServe' = now /\ trueRecv' = now
     ELSE UNCHANGED <<gens, ctl, inq, lastRead, lastWrite, trueServe, trueRecv>>
  /\ IF cache' = "full" THEN Answer({r}, "ok") /\ UNCHANGED waiters
     ELSE waiters' = waiters \cup {r} /\ UNCHANGED result
  \* dispatch.New on an already complete torrent calls complete(): a notice of the new generation is spawned
  /\ notice' = IF ctl = 0 /\ cache' = "full" THEN notice \cup {gens + 1} ELSE notice
  /\ UNCHANGED <<now, stopped>>

\* (async) a piece arrives and is written; the last one completes the torrent and spawns the notice
RecvPiece ==
  /\ act' = "RecvPiece"
  /\ ctl # 0 /\ cache = "partial" /\ pcs < NPieces
  /\ pcs' = pcs + 1 /\ lastWrite' = now /\ trueRecv' = now
  /\ IF pcs + 1 = NPieces THEN cache' = "full" /\ notice' = notice \cup {ctl}
     ELSE UNCHANGED <<cache, notice>>
  /\ UNCHANGED <<ctl, gens, waiters, issued, result, inq, now, lastRead, trueServe, stopped>>

\* (async) a remote peer is served a piece of the complete blob
ServePiece ==
  /\ act' = "ServePiece"
  /\ ctl # 0 /\ Complete
  /\ trueServe' = now /\ lastRead' = IF FixReadTouch THEN now ELSE lastRead
  /\ UNCHANGED <<ctl, gens, pcs, cache, waiters, notice, issued, result, inq, now, lastWrite, trueRecv, stopped>>

\* dispatcherCompleteEvent of generation g
ApplyNotice(g) ==
  /\ act' = "ApplyNotice"
  /\ g \in notice /\ notice' = notice \ {g}
  /\ IF ctl # 0 /\ (FixNoticeIdentity => ctl = g)
     THEN Answer(waiters, "ok") /\ waiters' = {} /\ inq' = FALSE
     ELSE UNCHANGED <<result, waiters>> /\ inq' = (IF FixNoticeIdentity THEN inq ELSE FALSE)
  /\ UNCHANGED <<ctl, gens, pcs, cache, issued, now, lastRead, lastWrite, trueServe, trueRecv, stopped>>

\* state.removeTorrent(h, err): answers, announce queue and control; the partial file of an in-progress
\* download is deleted (the callers below say what happens to the file)
DropControl(err) ==
  /\ ctl' = 0
  /\ IF ~Complete
     THEN Answer(waiters, err) /\ waiters' = {} /\ inq' = FALSE
     ELSE IF FixRemoveAnswers
     THEN Answer(waiters, IF err = "removed" THEN "removed" ELSE "ok") /\ waiters' = {} /\ inq' = FALSE
     ELSE UNCHANGED <<result, inq>> /\ waiters' = {}        \* as found: the waiters are dropped unanswered

Remove ==
  /\ act' = "Remove"
  /\ ~stopped
  /\ IF ctl # 0 THEN DropControl("removed") ELSE UNCHANGED <<ctl, result, waiters, inq>>
  /\ cache' = "absent" /\ pcs' = 0                    \* torrentArchive.DeleteTorrent
  /\ UNCHANGED <<gens, notice, issued, now, lastRead, lastWrite, trueServe, trueRecv, stopped>>

IdleSeeder  == ctl # 0 /\ Complete /\ now - lastRead >= SeederTTI
IdleLeecher == ctl # 0 /\ ~Complete /\ now - lastWrite >= LeecherTTI
PreemptTick ==
  /\ act' = "PreemptTick"
  /\ ~stopped
  /\ IF IdleSeeder \/ IdleLeecher
     THEN /\ DropControl("timeout")
          /\ cache' = (IF Complete THEN cache ELSE "absent") /\ pcs' = (IF Complete THEN pcs ELSE 0)
     ELSE UNCHANGED <<ctl, result, waiters, inq, cache, pcs>>
  /\ UNCHANGED <<gens, notice, issued, now, lastRead, lastWrite, trueServe, trueRecv, stopped>>

Tick == act' = "Tick" /\ now < MaxClock /\ now' = now + 1
        /\ UNCHANGED <<ctl, gens, pcs, cache, waiters, notice, issued, result, inq, lastRead, lastWrite, trueServe, trueRecv, stopped>>

Shutdown ==
  /\ act' = "Shutdown"
  /\ ~stopped /\ stopped' = TRUE /\ Answer(waiters, "stopped") /\ waiters' = {}
  /\ UNCHANGED <<ctl, gens, pcs, cache, notice, issued, inq, now, lastRead, lastWrite, trueServe, trueRecv>>

Next == \/ \E r \in Req : Download(r)
        \/ RecvPiece \/ ServePiece \/ Remove \/ PreemptTick \/ Tick \/ Shutdown
        \/ \E g \in notice : ApplyNotice(g)
Spec == Init /\ [][Next]_vars
FairSpec == Spec /\ WF_vars(\E g \in notice : ApplyNotice(g)) /\ WF_vars(Shutdown)

----------------------------------------------------------------------------
(* Properties *)
TypeOK == result \in [Req -> Results] /\ waiters \subseteq issued
\* C17: nobody waits without someone who will answer: an issued, unanswered request is registered as a waiter
NoOrphan == \A r \in issued : result[r] = "none" => (r \in waiters /\ ctl # 0)
\* C17: a result, once given, never changes (exactly once)
OnceOnly == [][\A r \in Req : result[r] # "none" => result'[r] = result[r]]_vars
\* C17: success only when the blob is then in the local cache
OkMeansCached == [][\A r \in Req : (result[r] = "none" /\ result'[r] = "ok") => cache' = "full"]_vars
\* C17 (liveness): every request returns (the scheduler is eventually stopped at the latest)
Returns == \A r \in Req : (r \in issued) ~> (result[r] # "none")
\* C18: a control is dropped by preemption only after the idle limit, measured from REAL activity
Dropped == ctl # 0 /\ ctl' = 0 /\ act' = "PreemptTick"
SeederTTIOk  == [][(Dropped /\ Complete) => now - trueServe >= SeederTTI]_vars
LeecherTTIOk == [][(Dropped /\ ~Complete) => now - trueRecv >= LeecherTTI]_vars
\* C18: dropping an in-progress download deletes the partial file; dropping a completed one keeps the blob
PartialGone  == [][(ctl # 0 /\ ctl' = 0 /\ cache = "partial") => cache' = "absent"]_vars
CompleteKept == [][(act' = "PreemptTick" /\ cache = "full") => cache' = "full"]_vars
\* C20 (system half): the scheduler never Adds a torrent that is still queued
NoDoubleAdd == [][(ctl = 0 /\ ctl' # 0) => ~inq]_vars
Inv == TypeOK /\ NoOrphan
=============================================================================
