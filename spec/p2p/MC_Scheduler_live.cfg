SPECIFICATION FairSpec
CONSTANTS
  Req = {"r1"}
  NPieces = 2
  SeederTTI = 2
  LeecherTTI = 2
  MaxClock = 3
  FixRemoveAnswers = TRUE
  FixNoticeIdentity = TRUE
  FixReadTouch = TRUE
INVARIANT TypeOK
PROPERTY Returns
CHECK_DEADLOCK FALSE
