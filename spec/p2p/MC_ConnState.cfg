SPECIFICATION Spec
CONSTANTS
  Hashes = {"h1"}
  Peers = {"p1","p2","p3"}
  NConn = 2
  MaxConnsSet = {2}
  MaxMutualSet = {1}
  DurSet = {2}
  NoBlSet = {FALSE}
  NeighChoices <- MCNeigh
  Closable <- MCClosable1
  BlSlots <- MCBlSlots1
  MaxTick = 2
INVARIANT Inv
PROPERTY AdmissionRule ActivationRule ReplacedSafe DialRule BlacklistLasts
