--------------------------- MODULE ConnStateTrace ---------------------------
(* Trace validation of recorded connstate.State histories (C16) against ConnState.
   Every record carries the call with its arguments and reply class and, taken after the
   call: ActiveConns() (as conn object ids), the slots for which Blacklisted() answers true,
   the torrents for which Saturated() answers true, and BlacklistSnapshot() with the
   remaining time in ticks (clipped at 0).  The pending set has no accessor; the
   specification infers it from the replies.                                           *)
EXTENDS ConnState, Json, TLC
Trace == ndJsonDeserialize("trace.ndjson")
VARIABLE l
tvars == <<vars, l>>
R == Trace[l]

TraceInit == TLCSet(1, 0) /\ Init /\ l = 1
IsEvent(e) == l <= Len(Trace) /\ Trace[l].ev = e /\ l' = l + 1

ObsOK == /\ Range(R.active) = ActiveConnsRes'
         /\ Range(R.blk) = {x \in Slots : BlacklistedRes(x[2], x[1])'}
         /\ Range(R.sat) = {h \in Hashes : SaturatedRes(h)'}
         /\ Range(R.snap) = SnapshotRes'
         /\ Len(R.active) = Cardinality(Range(R.active)) /\ Len(R.snap) = Cardinality(Range(R.snap))

TReset == /\ IsEvent("reset")
          /\ pending' = {} /\ active' = {} /\ closed' = {} /\ bl' = [x \in Slots |-> 0 - 1]
          /\ maxConns' = R.cfg.maxConns /\ maxMutual' = R.cfg.maxMutual /\ dur' = R.cfg.dur /\ noBl' = R.cfg.noBl

TAddPending    == IsEvent("AddPending") /\ R.res = AddPendingRes(R.p, R.h, R.neigh) /\ AddPending(R.p, R.h, R.neigh) /\ ObsOK
TDeletePending == IsEvent("DeletePending") /\ DeletePending(R.p, R.h) /\ ObsOK
TMoveToActive  == IsEvent("MoveToActive") /\ R.c \in Conns /\ R.res = MoveToActiveRes(R.c) /\ MoveToActive(R.c) /\ ObsOK
TDeleteActive  == IsEvent("DeleteActive") /\ R.c \in Conns /\ DeleteActive(R.c) /\ ObsOK
TBlacklist     == IsEvent("Blacklist") /\ R.res = BlacklistRes(R.p, R.h) /\ Blacklist(R.p, R.h) /\ ObsOK
TClearBl       == IsEvent("ClearBlacklist") /\ ClearBlacklist(R.h) /\ ObsOK
TTick          == IsEvent("Tick") /\ R.d > 0 /\ Tick(R.d) /\ ObsOK
TCloseConn     == IsEvent("CloseConn") /\ R.c \in Conns /\ R.closed /\ CloseConn(R.c) /\ ObsOK
\* scheduler events applied to a real scheduler state that owns the State under test
TAnnounce      == IsEvent("Announce") /\ Announce(R.h, R.peers) /\ ObsOK
THsFailed      == IsEvent("HandshakeFailed") /\ HandshakeFailed(R.p, R.h) /\ ObsOK

TraceNext == TReset \/ TAddPending \/ TDeletePending \/ TMoveToActive \/ TDeleteActive
             \/ TBlacklist \/ TClearBl \/ TTick \/ TCloseConn \/ TAnnounce \/ THsFailed
TraceSpec == TraceInit /\ [][TraceNext]_tvars

HW == TLCSet(1, IF TLCGet(1) < l THEN l ELSE TLCGet(1))
TraceAccepted == IF TLCGet(1) = Len(Trace) + 1 THEN TRUE
                 ELSE PrintT(<<"REJECTED_AT_LINE", TLCGet(1)>>) /\ FALSE
=============================================================================
