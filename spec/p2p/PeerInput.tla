------------------------------ MODULE PeerInput ------------------------------
(* Property C14: no input from a remote peer can crash or corrupt a peer.

   The module is a CASE GRAMMAR of everything a remote peer can put on a connection to a kraken
   agent / origin (handshake classes and message classes, built from the field classes the code
   branches on) plus an OUTCOME RELATION:

     AllowedH(h)            what the victim may do with handshake class h
     AllowedM(c, pi, k, hv) what the victim (kind k, holding pieces hv) may do with message class c
                            whose concrete piece index is pi

   Both only contain outcomes with bad = "none": a panic, an allocation that is not bounded by the
   message cap / piece length, a changed blob, a starved honest neighbour, a piece served from outside
   the blob are never allowed, whatever the input.

   Two behaviour specifications share the state (victim kind, pieces held, state of the attacker's
   connection):

     Spec      API level: every step takes an allowed outcome.            (trace validation uses it)
     ImplSpec  implementation shaped: ImplH / ImplM model the checks in conn.readMessage,
               handshakeFromP2PMessage, Handshaker.fullHandshake, the scheduler's establish sequence,
               Dispatcher.addPeer / dispatch / handle*, agentstorage/originstorage getPiece, in the
               order the code performs them.  FixA/FixB/FixC/FixD = TRUE model the code with the
               repairs /verif/fixes/F14a.diff, F14b.diff, F14c.diff, F14d.diff; FALSE models the tree
               without them.

   TLC checks (MC_PeerInput*.cfg): ImplSpec with the repairs refines Spec and is Safe for the whole
   product of classes in every reachable piece state; as built, the classes with a bad outcome are
   EXACTLY the classes KnownDefectH / KnownDefectM (the input classes of known findings F14a-d), which
   is also the predicate the Go driver uses to keep those classes out of the bulk traces.          *)
EXTENDS Integers, FiniteSets, TLC

CONSTANTS N,                  \* number of pieces of the victim's torrent (pieces 0..N-1)
          FixA, FixB, FixC, FixD    \* implementation model only: TRUE = repair applied

Pieces == 0..(N - 1)
MinI32 == (0 - 2147483647) - 1
Kinds  == {"leech", "seed", "origin"}     \* agent downloading, agent seeding (complete), origin
NA     == "na"

VARIABLES kind,   \* victim kind (fixed per behaviour)
          have,   \* pieces the victim holds
          att,    \* attacker connection: "none" | "open" | "closed"
          last    \* last input class and its outcome (observation record; drives the invariants)
vars == <<kind, have, att, last>>

Done(k, hv) == k # "leech" \/ hv = Pieces

-----------------------------------------------------------------------------
(* Message classes.  idx classes are relative to the victim's piece state: "have"/"miss" are valid
   indices of a piece the victim holds / lacks.  len classes are relative to the length of the piece
   the index names (nominal piece length when the index is invalid).                                *)
IdxC == {"have", "miss", "eqN", "gtN", "neg1", "min"}
OffC == {"zero", "pos", "neg"}
LenC == {"exact", "zero", "short", "long", "big", "max", "neg1", "min"}

MCase(t, b, i, o, l, d, k, f) ==
  [typ |-> t, body |-> b, idx |-> i, off |-> o, len |-> l, data |-> d, code |-> k, fin |-> f]

ReqCases == {MCase("request", "missing", NA, NA, NA, NA, NA, FALSE)} \cup
            {MCase("request", "present", i, o, l, NA, NA, FALSE) : i \in IdxC, o \in OffC, l \in LenC}
\* a payload header is followed by exactly len bytes of payload, except for the lengths nobody can
\* (big, max: the stream ends instead, fin) or needs to (negative) supply
PayData(i, l) == IF i \in {"have", "miss"} /\ l = "exact" THEN {"good", "bad"} ELSE {NA}
PayCases == {MCase("payload", "missing", NA, NA, NA, NA, NA, FALSE)} \cup
            UNION {{MCase("payload", "present", i, o, l, d, NA, l \in {"big", "max"}) : d \in PayData(i, l)} :
                      i \in IdxC, o \in OffC, l \in LenC}
AnnCases == {MCase("announce", "missing", NA, NA, NA, NA, NA, FALSE)} \cup
            {MCase("announce", "present", i, NA, NA, NA, NA, FALSE) : i \in IdxC}
CanCases == {MCase("cancel", "missing", NA, NA, NA, NA, NA, FALSE)} \cup
            {MCase("cancel", "present", i, NA, NA, NA, NA, FALSE) : i \in IdxC}
ErrCases == {MCase("error", "missing", NA, NA, NA, NA, NA, FALSE)} \cup
            {MCase("error", "present", i, NA, NA, NA, k, FALSE) : i \in IdxC, k \in {"failed", "other"}}
MiscCases == {MCase(t, b, NA, NA, NA, NA, NA, FALSE) : t \in {"complete", "bitfield"}, b \in {"missing", "present"}} \cup
             {MCase("unknown", "missing", NA, NA, NA, NA, NA, FALSE)}
\* framing classes: zero-length message, bytes that are not a protobuf message, a length prefix above the
\* 32 KiB cap (just above, or 256 MiB) and a length prefix below it that promises more bytes than the
\* stream delivers -- in both cases the stream ends right after (fin)
FrameCases == {MCase(t, NA, NA, NA, NA, NA, NA, t \in {"trunc", "oversize"}) : t \in {"empty", "garbage", "oversize", "trunc"}}

MsgCases == ReqCases \cup PayCases \cup AnnCases \cup CanCases \cup ErrCases \cup MiscCases \cup FrameCases

\* concrete index pi is an instance of idx class i in piece state hv
InIdx(i, pi, hv) == CASE i = "have" -> pi \in hv
                      [] i = "miss" -> pi \in Pieces \ hv
                      [] i = "eqN"  -> pi = N
                      [] i = "gtN"  -> pi > N
                      [] i = "neg1" -> pi = 0 - 1
                      [] i = "min"  -> pi = MinI32
                      [] OTHER      -> pi = 0
\* representatives used by the model checker
RepIdx(i, hv) == CASE i = "have" -> hv
                   [] i = "miss" -> Pieces \ hv
                   [] i = "eqN"  -> {N}
                   [] i = "gtN"  -> {N + 1}
                   [] i = "neg1" -> {0 - 1}
                   [] i = "min"  -> {MinI32}
                   [] OTHER      -> {0}

\* Dispatcher.isFullPiece: offset 0 and length equal to PieceLength(pi), which is 0 for every invalid index
FullPiece(c, pi) == c.off = "zero" /\ IF pi \in Pieces THEN c.len = "exact" ELSE c.len = "zero"
GoodReq(c, pi) == c.typ = "request" /\ c.body = "present" /\ pi \in Pieces /\ c.off = "zero" /\ c.len = "exact"
GoodPay(c, pi) == c.typ = "payload" /\ c.body = "present" /\ pi \in Pieces /\ c.off = "zero" /\ c.len = "exact"
\* well-formed messages without a visible effect
Benign(c, pi, k, hv) ==
  \/ c.typ = "announce" /\ c.body = "present" /\ pi \in Pieces
  \/ c.typ = "cancel"   /\ c.body = "present"
  \/ c.typ = "error"    /\ c.body = "present"
  \/ c.typ = "complete" /\ ~Done(k, hv)
  \/ GoodPay(c, pi) /\ c.data = "good" /\ (k # "leech" \/ pi \in hv)      \* duplicate / read-only: dropped

(* Outcome of a message: bad, state of the attacker's connection afterwards, pieces held afterwards,
   number of correct piece payloads / error messages the victim sent back.                           *)
Base(hv) == [bad |-> "none", conn |-> "open", have |-> hv, served |-> 0, err |-> 0]

AllowedM(c, pi, k, hv) ==
  LET b == Base(hv) IN
  IF c.fin THEN {[b EXCEPT !.conn = "closed"]}                                 \* the stream ended: nothing to keep open
  ELSE IF GoodReq(c, pi) /\ pi \in hv THEN {[b EXCEPT !.served = 1]}           \* served, exactly once
  ELSE IF GoodReq(c, pi) THEN {[b EXCEPT !.err = 1]}                           \* piece not held: refused with an error message
  ELSE IF GoodPay(c, pi) /\ k = "leech" /\ pi \notin hv /\ c.data = "good" THEN
       LET h2 == hv \cup {pi} IN
       \* a torrent that completes drops its connections to peers that are complete themselves
       {[b EXCEPT !.have = h2, !.conn = x] : x \in IF h2 = Pieces THEN {"open", "closed"} ELSE {"open"}}
  ELSE IF Benign(c, pi, k, hv) THEN {b}
  ELSE \* everything else is malformed, unexpected or useless: rejected (optionally with an error message)
       \* or the connection is ended; the victim's state does not change
       {[b EXCEPT !.conn = x, !.err = e] : x \in {"open", "closed"}, e \in {0, 1}}

-----------------------------------------------------------------------------
(* Handshake classes (first message on a connection; dir = "in": the attacker dialled the victim,
   "out": the victim dialled the attacker and reads the attacker's reply).                           *)
BitsC == {"exact_none", "exact_some", "exact_all",   \* bitfield of exactly N bits
          "exact_stray",                              \* length header exactly N, but the last word has bits >= N set
          "short", "empty", "long_clear", "long_set", \* wrong size; long_set has a bit >= N set
          "hugehdr",                                  \* 8-byte length header far beyond the bytes that follow (allocatable)
          "absurdhdr",                                \* length header 2^64-1
          "trunc"}                                    \* fewer than 8 bytes
RbC   == {"none", "ok", "badpid", "badbytes", "hugehdr", "long_set", "stray"}   \* remoteBitfieldBytes map
HC(d, t, b, p, i, n, bi, r) == [dir |-> d, typ |-> t, body |-> b, pid |-> p, ih |-> i, name |-> n, bits |-> bi, rb |-> r]

HsCases ==
  {HC(d, t, NA, NA, NA, NA, NA, NA) : d \in {"in", "out"}, t \in {"other", "empty", "garbage", "oversize", "trunc"}} \cup
  {HC(d, "bitfield", "missing", NA, NA, NA, NA, NA) : d \in {"in", "out"}} \cup
  {h \in {HC(d, "bitfield", "present", p, i, n, bi, r) :
            d \in {"in", "out"}, p \in {"ok", "bad", "mismatch"}, i \in {"ok", "other", "bad"},
            n \in {"ok", "other", "bad"}, bi \in BitsC, r \in RbC} :
      h.pid = "mismatch" => h.dir = "out"}       \* only a dialler expects a particular peer id

ValidH(h) == /\ h.typ = "bitfield" /\ h.body = "present" /\ h.pid = "ok" /\ h.ih = "ok" /\ h.name = "ok"
             /\ h.bits \in {"exact_none", "exact_some", "exact_all"} /\ h.rb \in {"none", "ok"}
\* no usable identity / torrent: cannot become a connection at all
Unusable(h) == h.typ # "bitfield" \/ h.body # "present" \/ h.pid # "ok" \/ h.ih = "bad" \/ h.name = "bad"

AllowedH(h) ==
  IF ValidH(h) THEN {[bad |-> "none", res |-> "established"]}
  ELSE IF Unusable(h) THEN {[bad |-> "none", res |-> "rejected"]}
  ELSE {[bad |-> "none", res |-> r] : r \in {"established", "rejected"}}  \* wrong-size / inconsistent but harmless

-----------------------------------------------------------------------------
(* Implementation-shaped model of the checks, in code order. *)
ImplM(c, pi, k, hv) ==
  LET b      == Base(hv)
      panic  == [b EXCEPT !.bad = "panic", !.conn = "closed"]
      alloc  == [b EXCEPT !.bad = "alloc", !.conn = "closed"]
      closed == [b EXCEPT !.conn = "closed"]
      errrep == [b EXCEPT !.err = 1]
  IN
  CASE c.typ \in {"garbage", "oversize", "trunc"} -> {closed}       \* conn.readMessage returns an error: read loop exits
    [] c.typ = "empty" -> {b}                                       \* decodes to BITFIELD without body: logged by handleBitfield
    [] c.typ = "payload" ->                                         \* Conn.readMessage, then handlePiecePayload
         IF c.body = "missing" THEN (IF FixA THEN {closed} ELSE {panic})               \* p2pMessage.PiecePayload.Length
         ELSE IF c.len \in {"neg1", "min"} THEN (IF FixA THEN {closed} ELSE {panic})   \* make([]byte, length)
         ELSE IF c.len \in {"big", "max"} THEN (IF FixA THEN {closed} ELSE {alloc})    \* make([]byte, length), then EOF
         ELSE IF c.len = "long" /\ FixA /\ pi # N - 1 THEN {closed}                    \* longer than the longest piece
         ELSE IF ~FullPiece(c, pi) THEN {b}                                            \* MarkInvalid
         ELSE IF pi \in Pieces THEN
                IF k = "leech" /\ pi \notin hv /\ c.data = "good"
                THEN {[b EXCEPT !.have = hv \cup {pi}]}       \* attacker bitfields are never complete in the model's glue-free view
                ELSE {b}                                      \* bad sum / ErrPieceComplete / ErrReadOnly
         ELSE IF pi >= N THEN {b}                             \* getPiece / ErrReadOnly
         ELSE IF k = "origin" \/ FixB THEN {b} ELSE {panic}   \* agent getPiece: t.pieces[negative]
    [] c.typ = "request" ->
         IF c.body = "missing" THEN (IF FixB THEN {b} ELSE {panic})
         ELSE IF ~FullPiece(c, pi) THEN {errrep}
         ELSE IF pi \in Pieces THEN (IF pi \in hv THEN {[b EXCEPT !.served = 1]} ELSE {errrep})
         ELSE IF pi >= N THEN {errrep}
         ELSE IF FixB THEN {errrep} ELSE {panic}              \* getPiece(negative) / bitfield.Set(uint(negative))
    [] c.typ = "announce" ->
         IF c.body = "missing" THEN (IF FixB THEN {b} ELSE {panic})
         ELSE IF pi >= N THEN {b}
         ELSE IF pi < 0 THEN (IF FixB THEN {b} ELSE {panic})  \* bitfield.Set(uint(negative)), Counters[negative]
         ELSE {b}
    [] c.typ = "error" -> IF c.body = "missing" THEN (IF FixB THEN {b} ELSE {panic}) ELSE {b}
    [] c.typ = "complete" -> IF Done(k, hv) THEN {closed} ELSE {b}
    [] OTHER -> {b}                                           \* cancel, bitfield, unknown type: logged / no-op

KnownDefectM(c, pi, k) ==
  \/ c.typ = "payload" /\ c.body = "missing"                                                  \* F14a1
  \/ c.typ = "payload" /\ c.body = "present" /\ c.len \in {"neg1", "min"}                     \* F14a2
  \/ c.typ = "payload" /\ c.body = "present" /\ c.len \in {"big", "max"}                      \* F14a3
  \/ c.typ \in {"request", "announce", "error"} /\ c.body = "missing"                         \* F14b1
  \/ c.typ = "announce" /\ c.body = "present" /\ pi < 0                                       \* F14b2
  \/ c.typ = "request" /\ c.body = "present" /\ pi < 0 /\ c.off = "zero" /\ c.len = "zero"    \* F14b3
  \/ c.typ = "payload" /\ c.body = "present" /\ pi < 0 /\ c.off = "zero" /\ c.len = "zero" /\ k # "origin"  \* F14b4

ParsePrefixOK(h) == h.typ = "bitfield" /\ h.body = "present" /\ h.pid # "bad" /\ h.ih # "bad" /\ h.name # "bad"

ImplH(h) ==
  LET ok    == [bad |-> "none",  res |-> "established"]
      rej   == [bad |-> "none",  res |-> "rejected"]
      panic == [bad |-> "panic", res |-> "rejected"]
      alloc == [bad |-> "alloc", res |-> "rejected"]
  IN
  \* readMessage + handshakeFromP2PMessage, field by field
  IF ~ParsePrefixOK(h) THEN {rej}
  ELSE IF h.bits \in {"trunc", "absurdhdr"} THEN {rej}       \* short read / bitset.New recovers makeslice => type mismatch
  ELSE IF h.bits = "hugehdr" THEN (IF FixC THEN {rej} ELSE {alloc})      \* bitset.New(uint(length)) before any validation
  ELSE IF h.bits = "exact_stray" /\ FixD THEN {rej}                      \* unmarshalBitfield: set bit beyond the claimed length
  ELSE IF h.rb \in {"badpid", "badbytes"} THEN {rej}
  ELSE IF h.rb = "hugehdr" THEN (IF FixC THEN {rej} ELSE {alloc})
  ELSE IF h.rb = "stray" /\ FixD THEN {rej}                              \* (the values of the map are otherwise unused)
  \* fullHandshake (out) / scheduler establish sequence (in)
  ELSE IF h.dir = "out" /\ h.pid = "mismatch" THEN {rej}
  ELSE IF h.dir = "in" /\ (h.name # "ok" \/ h.ih # "ok") THEN {rej}     \* archive Stat fails / pending slot does not match
  \* Dispatcher.addPeer
  ELSE IF h.bits = "long_set" THEN (IF FixC THEN {rej} ELSE {panic})    \* numPeersByPiece.Increment(i >= N)
  \* the length check (FixC) passes: bitset.UnmarshalBinary keeps the stray bits of the tail word, GetAllSet
  \* (NextSetMany) reports them and numPeersByPiece.Increment(i >= N) goes out of range
  ELSE IF h.bits = "exact_stray" THEN {panic}
  ELSE IF h.bits \in {"short", "empty", "long_clear"} /\ FixC THEN {rej}
  ELSE {ok}

KnownDefectH(h) ==
  /\ ParsePrefixOK(h)
  /\ \/ h.bits = "hugehdr"                                                                       \* F14c2
     \/ h.bits \notin {"trunc", "absurdhdr", "hugehdr"} /\ h.rb = "hugehdr"                      \* F14c3
     \/ /\ h.bits \in {"long_set", "exact_stray"} /\ h.rb \notin {"badpid", "badbytes", "hugehdr"}  \* F14c1, F14d
        /\ (h.dir = "out" => h.pid # "mismatch") /\ (h.dir = "in" => h.name = "ok" /\ h.ih = "ok")

-----------------------------------------------------------------------------
NoLast == [ev |-> "none"]
InitHave(k) == IF k = "leech" THEN SUBSET Pieces \ {Pieces} ELSE {Pieces}

Init == /\ kind \in Kinds
        /\ have \in InitHave(kind)
        /\ att = "none"
        /\ last = NoLast

\* one handshake on a fresh connection, with outcome o
HandshakeStep(h, o) ==
  /\ att # "open"
  /\ att' = IF o.res = "established" THEN "open" ELSE "closed"
  /\ last' = [ev |-> "hs", h |-> h, o |-> o, k |-> kind, pre |-> have]
  /\ UNCHANGED <<kind, have>>

\* one message with concrete index pi on the open connection, with outcome o
MsgStep(c, pi, o) ==
  /\ att = "open"
  /\ InIdx(c.idx, pi, have)
  /\ have' = o.have
  /\ att' = o.conn
  /\ last' = [ev |-> "msg", c |-> c, pi |-> pi, o |-> o, k |-> kind, pre |-> have]
  /\ UNCHANGED kind

\* the attacker hangs up
Hangup == att = "open" /\ att' = "closed" /\ last' = NoLast /\ UNCHANGED <<kind, have>>

Next == \/ \E h \in HsCases : \E o \in AllowedH(h) : HandshakeStep(h, o)
        \/ \E c \in MsgCases : \E pi \in RepIdx(c.idx, have) : \E o \in AllowedM(c, pi, kind, have) : MsgStep(c, pi, o)
        \/ Hangup
Spec == Init /\ [][Next]_vars

ImplNext == \/ \E h \in HsCases : \E o \in ImplH(h) : HandshakeStep(h, o)
            \/ \E c \in MsgCases : \E pi \in RepIdx(c.idx, have) : \E o \in ImplM(c, pi, kind, have) : MsgStep(c, pi, o)
            \/ Hangup
ImplSpec == Init /\ [][ImplNext]_vars

-----------------------------------------------------------------------------
(* Properties *)
TypeOK == /\ kind \in Kinds /\ have \subseteq Pieces /\ att \in {"none", "open", "closed"}
          /\ (kind # "leech" => have = Pieces)

\* C14 proper: whatever was sent, nothing bad happened ...
LastSafe(x) == x.ev # "none" => x.o.bad = "none"
\* ... and what happened is one of the outcomes the class admits
LastAllowed(x) ==
  /\ x.ev = "hs"  => x.o \in AllowedH(x.h)
  /\ x.ev = "msg" => x.o \in AllowedM(x.c, x.pi, x.k, x.pre)
Safe           == LastSafe(last)            \* state form (every state of a recorded trace)
OutcomeAllowed == LastAllowed(last)
SafeStep           == [][LastSafe(last')]_vars      \* action form (every transition of the model, also under VIEW)
OutcomeAllowedStep == [][LastAllowed(last')]_vars
MCView == <<kind, have, att>>               \* model checking: the last input is an observation, not state
\* pieces are never lost, and only a well-formed correct payload for a missing piece adds one
PiecesOnlyGrow == [][have \subseteq have']_vars
GrowOnlyByGoodPayload ==
  [][have' # have => /\ last'.ev = "msg" /\ GoodPay(last'.c, last'.pi) /\ last'.c.data = "good"
                     /\ kind = "leech" /\ have' = have \cup {last'.pi}]_vars

\* as built: the input classes with a bad outcome are exactly the known-defect classes
AsBuiltDefectsAreExactlyKnown ==
  /\ \A h \in HsCases : (\E o \in ImplH(h) : o.bad # "none") <=> KnownDefectH(h)
  /\ \A c \in MsgCases : \A pi \in RepIdx(c.idx, have) :
        (\E o \in ImplM(c, pi, kind, have) : o.bad # "none") <=> KnownDefectM(c, pi, kind)
\* repaired: every class, in every reachable piece state, only has allowed outcomes
ImplWithinAllowed ==
  /\ \A h \in HsCases : ImplH(h) \subseteq AllowedH(h)
  /\ \A c \in MsgCases : \A pi \in RepIdx(c.idx, have) : ImplM(c, pi, kind, have) \subseteq AllowedM(c, pi, kind, have)
=============================================================================
