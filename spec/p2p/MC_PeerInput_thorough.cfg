\* as MC_PeerInput.cfg with a larger torrent
SPECIFICATION ImplSpec
CONSTANTS
  N = 4
  FixA = TRUE
  FixB = TRUE
  FixC = TRUE
  FixD = TRUE
VIEW MCView
INVARIANT TypeOK ImplWithinAllowed
PROPERTY SafeStep OutcomeAllowedStep PiecesOnlyGrow GrowOnlyByGoodPayload
CHECK_DEADLOCK FALSE
