--------------------------- MODULE PieceRequests ---------------------------
(* API-level specification of lib/torrent/scheduler/dispatch/piecerequest.Manager
   (property C15).  One action per public call.

   Abstract state: the requests still on the books, per piece, in reservation order
   (a bag; the order is needed only to say which of two simultaneous requests for
   one piece was made later).  A request is [peer, status, age, eg]: status is what
   Mark* last wrote, age is the time since it was reserved (saturating at
   timeout+1, which keeps the model finite without bounding the clock), eg records
   that it was reserved with the endgame flag (history, read only by the property).
   age and eg mean something only while the request is outstanding (pending and
   unexpired); they are set to timeout+1 / FALSE when it stops being so, which
   identifies states that no call can tell apart.

   Time: the manager reads a clock; Tick(d) is the environment advancing it.
   A pending request is expired iff now is strictly after sentAt+timeout, i.e.
   age > timeout.

   Selection policy is abstract: Reserve returns ANY set of valid candidates of
   size min(quota, #valid) ("default" = reservoir sample); "rarest_first"
   additionally never prefers a piece that more peers have over one that fewer
   have (ties are free).

   removed / cleared are history variables: peers removed by ClearPeer and not
   asked again since, pieces cleared and not reserved again since.              *)
EXTENDS Sequences, FiniteSets, Integers
CONSTANTS Peers,        \* peer ids, strings "p1".."pN"
          Pieces,       \* piece indices, a set of naturals
          Policies,     \* subset of {"default", "rarest_first"}
          Timeouts,     \* request timeouts (ticks) Init may choose
          AgentLimits,  \* pipeline limits for agents
          OriginLimits, \* pipeline limits for origins
          OriginSets,   \* possible sets of origin peers
          Cnts,         \* possible numPeersByPiece vectors, functions Pieces -> Nat
          MaxTick       \* largest clock step in the design model
VARIABLES reqs,         \* [Pieces -> Seq of requests], reservation order
          removed,      \* SUBSET Peers  (history)
          cleared,      \* SUBSET Pieces (history)
          timeout, limA, limO, policy, origins   \* configuration, fixed after Init
cvars == <<timeout, limA, limO, policy, origins>>
vars  == <<reqs, removed, cleared, cvars>>

Statuses == {"pending", "unsent", "invalid"}
Range(s) == {s[k] : k \in 1..Len(s)}
Min(a, b) == IF a < b THEN a ELSE b

Rec(p, s, a, e) == [peer |-> p, status |-> s, age |-> a, eg |-> e]
Pos      == UNION {{<<i, k>> : k \in 1..Len(reqs[i])} : i \in Pieces}      \* positions of all requests
At(x)    == reqs[x[1]][x[2]]
Expired(r) == r.age > timeout
Live(r)    == r.status = "pending" /\ ~Expired(r)       \* an unexpired outstanding request
Limit(p)   == IF p \in origins THEN limO ELSE limA
LiveOf(p)  == UNION {{<<i, k>> : k \in {m \in 1..Len(reqs[i]) : reqs[i][m].peer = p /\ Live(reqs[i][m])}} : i \in Pieces}
LiveOn(i)  == {k \in 1..Len(reqs[i]) : Live(reqs[i][k])}
Total      == Cardinality(Pos)

Init == /\ reqs = [i \in Pieces |-> <<>>] /\ removed = {} /\ cleared = {}
        /\ timeout \in Timeouts /\ limA \in AgentLimits /\ limO \in OriginLimits
        /\ policy \in Policies /\ origins \in OriginSets

----------------------------------------------------------------------------
(* ReservePieces(p, isOrigin(p), cands, cnt, eg) -> S *)
Quota(p) == Limit(p) - Cardinality(LiveOf(p))
Valid(p, i, eg) == \A k \in LiveOn(i) : reqs[i][k].peer # p /\ eg
ValidCands(p, cands, eg) == {i \in cands : Valid(p, i, eg)}
\* reply relation, evaluated in the pre-state: the legal answers S
ReserveChoices(p, cands, cnt, eg) ==
  LET V == ValidCands(p, cands, eg)
      q == Quota(p)
      n == IF q <= 0 THEN 0 ELSE Min(q, Cardinality(V))
  IN {S \in SUBSET V : /\ Cardinality(S) = n
                       /\ policy = "rarest_first" => \A s \in S, v \in V \ S : cnt[s] <= cnt[v]}
ReserveRes(p, cands, cnt, eg, S) == S \in ReserveChoices(p, cands, cnt, eg)
ReserveEff(p, eg, S) ==
  /\ reqs' = [i \in Pieces |-> IF i \in S THEN Append(reqs[i], Rec(p, "pending", 0, eg)) ELSE reqs[i]]
  /\ removed' = IF S = {} THEN removed ELSE removed \ {p}
  /\ cleared' = cleared \ S
  /\ UNCHANGED cvars
Reserve(p, cands, cnt, eg, S) == ReserveRes(p, cands, cnt, eg, S) /\ ReserveEff(p, eg, S)

(* MarkUnsent / MarkInvalid(p, i): every request of p for i on the books gets the status *)
Mark(p, i, s) ==
  /\ reqs' = [reqs EXCEPT ![i] = [k \in 1..Len(reqs[i]) |->
                 IF reqs[i][k].peer = p THEN Rec(p, s, timeout + 1, FALSE) ELSE reqs[i][k]]]
  /\ UNCHANGED <<removed, cleared, cvars>>
MarkUnsent(p, i)  == Mark(p, i, "unsent")
MarkInvalid(p, i) == Mark(p, i, "invalid")

(* Clear(i): forget every request for piece i *)
Clear(i) == /\ reqs' = [reqs EXCEPT ![i] = <<>>]
            /\ cleared' = cleared \cup {i}
            /\ UNCHANGED <<removed, cvars>>

(* ClearPeer(p): forget every request made to p *)
ClearPeer(p) == /\ reqs' = [i \in Pieces |-> SelectSeq(reqs[i], LAMBDA r : r.peer # p)]
                /\ removed' = removed \cup {p}
                /\ UNCHANGED <<cleared, cvars>>

(* the clock advances by d > 0 *)
Aged(r, d) == IF r.age + d > timeout THEN Rec(r.peer, r.status, timeout + 1, FALSE)
              ELSE [r EXCEPT !.age = @ + d]
Tick(d) == /\ reqs' = [i \in Pieces |-> [k \in 1..Len(reqs[i]) |-> Aged(reqs[i][k], d)]]
           /\ UNCHANGED <<removed, cleared, cvars>>

(* read-only calls: replies as functions of the state *)
\* PendingPieces(p): pieces whose most recent request to p has status pending (expired or not)
OfPeer(p, i) == {k \in 1..Len(reqs[i]) : reqs[i][k].peer = p}
Latest(p, i) == {k \in OfPeer(p, i) : \A m \in OfPeer(p, i) : m <= k}
PendingRes(p) == {i \in Pieces : \E k \in Latest(p, i) : reqs[i][k].status = "pending"}
\* GetFailedRequests(): one entry per request that is not an unexpired pending one; the report is a bag
FailedStatus(r) == IF r.status = "pending" THEN "expired" ELSE r.status
FailedPos == {x \in Pos : ~Live(At(x))}
FailedEntry(x) == [i |-> x[1], p |-> At(x).peer, s |-> FailedStatus(At(x))]
FailedCount(e) == Cardinality({x \in FailedPos : FailedEntry(x) = e})
FailedEntries == {FailedEntry(x) : x \in FailedPos}

Next == \/ \E p \in Peers, cands \in SUBSET Pieces, eg \in BOOLEAN, cnt \in Cnts :
             \E S \in ReserveChoices(p, cands, cnt, eg) : ReserveEff(p, eg, S)     \* = Reserve(p, cands, cnt, eg, S)
        \/ \E p \in Peers, i \in Pieces : MarkUnsent(p, i) \/ MarkInvalid(p, i)
        \/ \E i \in Pieces : Clear(i)
        \/ \E p \in Peers : ClearPeer(p)
        \/ \E d \in 1..MaxTick : Tick(d)
Spec == Init /\ [][Next]_vars

----------------------------------------------------------------------------
(* Properties (C15) *)
TypeOK == /\ \A x \in Pos : /\ At(x).peer \in Peers /\ At(x).status \in Statuses
                            /\ At(x).eg \in BOOLEAN /\ At(x).age \in 0..(timeout + 1)
          /\ removed \subseteq Peers /\ cleared \subseteq Pieces

\* a peer is never asked for more unexpired pieces at once than its pipeline limit
PipelineLimit == \A p \in Peers : Cardinality(LiveOf(p)) <= (IF Limit(p) < 0 THEN 0 ELSE Limit(p))

\* outside endgame no piece has two unexpired outstanding requests: of two simultaneous
\* ones the later was reserved with the endgame flag
OnePerPieceOutsideEndgame ==
  \A i \in Pieces : \A a, b \in LiveOn(i) : a < b => reqs[i][b].eg
\* (even in endgame) never two unexpired outstanding requests for one piece to the same peer
NoSelfDuplicate ==
  \A i \in Pieces : \A a, b \in LiveOn(i) : a < b => reqs[i][a].peer # reqs[i][b].peer

\* after a peer is removed none of its requests is on the books, reported pending, or reported failed
RemovedGone == \A p \in removed : /\ \A x \in Pos : At(x).peer # p
                                  /\ PendingRes(p) = {}
                                  /\ \A e \in FailedEntries : e.p # p
\* clearing a piece removes all its requests
ClearedGone == \A i \in cleared : /\ reqs[i] = <<>>
                                  /\ \A p \in Peers : i \notin PendingRes(p)
                                  /\ \A e \in FailedEntries : e.i # i

\* the failed report lists exactly the requests that expired, were not sent, or got an invalid reply
FailedExact ==
  /\ \A x \in Pos : (x \in FailedPos) <=> \/ At(x).status = "unsent" \/ At(x).status = "invalid"
                                           \/ (At(x).status = "pending" /\ Expired(At(x)))
  /\ \A e \in FailedEntries : e.s \in {"expired", "unsent", "invalid"}
  /\ Cardinality(FailedPos) + Cardinality({x \in Pos : Live(At(x))}) = Total
\* all requests of one peer for one piece carry the same label unless a newer one is pending again, so
\* "the latest is pending" and "some is pending" coincide
StatusCoherent == \A p \in Peers : PendingRes(p) = {i \in Pieces : \E k \in OfPeer(p, i) : reqs[i][k].status = "pending"}

Inv == TypeOK /\ PipelineLimit /\ OnePerPieceOutsideEndgame /\ NoSelfDuplicate
       /\ RemovedGone /\ ClearedGone /\ FailedExact /\ StatusCoherent

\* action properties
\* a step that removes peer p leaves no request of p; a step that clears piece i leaves no request of i
ClearPeerRemovesAll == [][\A p \in Peers : (p \in removed' /\ p \notin removed) =>
                              \A i \in Pieces : \A k \in 1..Len(reqs'[i]) : reqs'[i][k].peer # p]_vars
ClearRemovesAll == [][\A i \in Pieces : (i \in cleared' /\ i \notin cleared) => reqs'[i] = <<>>]_vars
\* requests appear only by Reserve (appended, pending, fresh)
OnlyAppendFresh == [][\A i \in Pieces : Len(reqs'[i]) > Len(reqs[i]) =>
                          /\ Len(reqs'[i]) = Len(reqs[i]) + 1
                          /\ reqs'[i][Len(reqs'[i])].status = "pending" /\ reqs'[i][Len(reqs'[i])].age = 0]_vars
\* a failed request never becomes outstanding again
FailedStaysFailed == [][\A i \in Pieces : Len(reqs'[i]) = Len(reqs[i]) =>
                          \A k \in 1..Len(reqs[i]) : ~Live(reqs[i][k]) => ~Live(reqs'[i][k])]_vars

\* design-model bound and constants (cfg files cannot contain expressions)
Bound2 == Total <= 2
Bound3 == Total <= 3
MCCnts == {[i \in Pieces |-> i]}      \* all-equal counts give rarest_first the freedom "default" already has
=============================================================================
