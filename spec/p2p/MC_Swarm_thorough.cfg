SPECIFICATION Spec
CONSTANTS
  Agents = {"a1", "a2"}
  Seeders = {"s1"}
  Corrupters = {"x1"}
  NPs = {0, 1, 3}
  Maxcs <- MaxcOne
  Pipes = {1, 2}
  MayLeave = {"a2"}
  Verify = TRUE
INVARIANT Inv
PROPERTY Monotone
CHECK_DEADLOCK FALSE
