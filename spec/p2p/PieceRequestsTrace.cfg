SPECIFICATION TraceSpec
CONSTANTS
  Peers = {"p1","p2","p3"}
  Pieces <- TracePieces
  Policies = {"default"}
  Timeouts = {1}
  AgentLimits = {1}
  OriginLimits = {1}
  OriginSets = {{}}
  Cnts <- TraceCnts
  MaxTick = 1
INVARIANT Inv
PROPERTY ClearPeerRemovesAll ClearRemovesAll OnlyAppendFresh FailedStaysFailed
CONSTRAINT HW
POSTCONDITION TraceAccepted
CHECK_DEADLOCK FALSE
