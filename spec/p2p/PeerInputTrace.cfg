SPECIFICATION TraceSpec
CONSTANTS
  N = 4
  FixA = TRUE
  FixB = TRUE
  FixC = TRUE
  FixD = TRUE
INVARIANT TypeOK Safe OutcomeAllowed
CONSTRAINT HW
POSTCONDITION TraceAccepted
CHECK_DEADLOCK FALSE
