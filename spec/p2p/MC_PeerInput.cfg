\* implementation-shaped model WITH the candidate repairs: safe, and within the allowed outcomes for the whole class product
SPECIFICATION ImplSpec
CONSTANTS
  N = 2
  FixA = TRUE
  FixB = TRUE
  FixC = TRUE
  FixD = TRUE
VIEW MCView
INVARIANT TypeOK ImplWithinAllowed
PROPERTY SafeStep OutcomeAllowedStep PiecesOnlyGrow GrowOnlyByGoodPayload
CHECK_DEADLOCK FALSE
