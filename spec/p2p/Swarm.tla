-------------------------------- MODULE Swarm --------------------------------
(* Abstract multi-peer composition of lib/torrent/scheduler + dispatch + agentstorage + the tracker
   (property C19: a swarm with a reachable seeder converges to the exact blob).

   ONE blob of np pieces.  Peers: leeching Agents, Seeders (hold every piece, never leave) and at most
   one Corrupter (a peer that claims every piece and serves the pieces in cbad with wrong bytes).
   Scheduler.tla (one scheduler), PieceRequests.tla (request bookkeeping of one dispatcher) and
   ConnState.tla (connection bookkeeping of one scheduler, incl. pending connections and the blacklist)
   describe the components in detail; this module composes their abstractions:

     Join(a)            an agent's scheduler starts and Download is called (CreateTorrent + newTorrentEvent);
                        arrival order and time are free; seeders and the corrupter run from the start
     Open(a,p)          announce handout + handshake: both endpoints become active (capacity checked on both sides)
     CloseEnd(p,q)      p's endpoint closes: remote gone or closed, both complete, or idle (ConnTTI); ClearPeer
     Request(a,p,i)     the dispatcher reserves piece i at peer p (pipeline limit, no duplicates outside endgame, never
                        again to a peer whose payload for i was invalid)      piecerequest.Manager.ReservePieces / resend
     Serve(p,a,i)       p answers the request from its storage (GetPieceReader): a payload enters the network
     StartWrite(a,m)    the payload reaches a's storage (agentstorage.WritePiece is entered)
     EndWrite(a,w)      the write returns: "ok" checksum verified, piece complete, Clear(i); "dup" piece was complete;
                        "rej" checksum mismatch or write conflict: piece stays missing, request marked invalid
     Notice(a)          dispatcherCompleteEvent: the waiting Download is answered
     Leave(a)           an agent is stopped mid-transfer: it stops serving, its Download fails with "stopped"
     Lose(m)            a payload whose connection is gone is dropped

   The blacklist (a closed or refused connection is not retried for BlacklistDuration) is what makes an agent
   move on to the next peer of the handout in the real code; here it is abstracted into the fairness
   assumption on Open(a, seeder) (see Fair).  Configuration (np, maxc, pipe, cbad) is held in variables that
   never change after Init so that the trace specification can set it per recorded swarm.

   Verify = TRUE is the code (writePiece compares the piece sum); Verify = FALSE shows that the safety
   invariants are not vacuous (TLC then finds a cached wrong piece).                                      *)
EXTENDS Integers, FiniteSets
CONSTANTS Agents, Seeders, Corrupters,   \* disjoint sets of peer names
          NPs, Maxcs, Pipes,             \* choices for the configuration at Init (Maxcs: set of functions Peers -> limit)
          MayLeave,                      \* agents that may be stopped
          Verify

VARIABLES np, maxc, pipe, cbad,          \* configuration
          joined, left,                  \* peers whose scheduler was started / stopped
          have,                          \* have[p]: pieces marked complete in p's storage
          bad,                           \* bad[p]: pieces stored with wrong bytes (must stay empty for honest peers)
          conn,                          \* conn[p]: peers p has an active connection endpoint to
          req,                           \* req[a][p]: pieces a has a pending request for at p
          inv,                           \* inv[a]: <<p,i>> such that p's payload for i was rejected (while connected)
          net,                           \* payloads in flight: [to, from, piece, good, n]
          writing,                       \* writing[a]: writes in progress: [piece, good, from, ov, n]
          dl                             \* Download call of each agent: none | wait | ok | stopped
cfgv == <<np, maxc, pipe, cbad>>
vars == <<np, maxc, pipe, cbad, joined, left, have, bad, conn, req, inv, net, writing, dl>>

Peers   == Agents \cup Seeders \cup Corrupters
Honest  == Agents \cup Seeders
Pieces  == 0..(np - 1)
present == joined \ left
Full(p) == have[p] = Pieces
Missing(a) == Pieces \ have[a]
Endgame(a) == Cardinality(Missing(a)) <= pipe          \* EndgameThreshold defaults to the pipeline limit
\* pieces a may still ask p for: a piece whose request at p failed (invalid payload / write conflict) is not sent to
\* p again - unless a request for it failed at another peer too, whose resend may go to p (resendFailedPieceRequests)
Wanted(a, p) == IF a \in Agents
                THEN {i \in have[p] \ have[a] : <<p, i>> \notin inv[a] \/ \E q \in Peers \ {p} : <<q, i>> \in inv[a]}
                ELSE {}
Between(p, q) == {m \in net : (m.to = p /\ m.from = q) \/ (m.to = q /\ m.from = p)}
\* a connection nobody can use any more (the abstraction of "no piece sent or received for ConnTTI")
Useless(p, q) == /\ req[p][q] = {} /\ req[q][p] = {} /\ Wanted(p, q) = {} /\ Wanted(q, p) = {}
                 /\ Between(p, q) = {}
                 /\ \A w \in writing[p] : w.from # q
                 /\ \A w \in writing[q] : w.from # p

Msg == [to : Peers \cup {"any"}, from : Peers, piece : Nat, good : BOOLEAN, n : Nat]
Wr  == [piece : Nat, good : BOOLEAN, from : Peers, ov : BOOLEAN, n : Nat]

TypeOK == /\ np \in Nat /\ pipe \in Nat /\ maxc \in [Peers -> Nat] /\ cbad \subseteq Pieces
          /\ joined \subseteq Peers /\ left \subseteq joined
          /\ have \in [Peers -> SUBSET Pieces] /\ bad \in [Peers -> SUBSET Pieces]
          /\ conn \in [Peers -> SUBSET Peers]
          /\ req \in [Peers -> [Peers -> SUBSET Pieces]]
          /\ inv \in [Peers -> SUBSET (Peers \X Pieces)]
          /\ net \subseteq Msg /\ writing \in [Peers -> SUBSET Wr]
          /\ dl \in [Peers -> {"none", "wait", "ok", "stopped"}]

Init == /\ np \in NPs /\ pipe \in Pipes /\ maxc \in Maxcs
        /\ cbad \in IF Corrupters = {} THEN {{}}
                    ELSE (SUBSET (0..(np - 1))) \ (IF np > 0 THEN {{}} ELSE {})   \* the corrupter flips at least one piece
        /\ joined = Seeders \cup Corrupters /\ left = {}
        /\ have = [p \in Peers |-> IF p \in Agents THEN {} ELSE 0..(np - 1)]
        /\ bad = [p \in Peers |-> {}]
        /\ conn = [p \in Peers |-> {}]
        /\ req = [p \in Peers |-> [q \in Peers |-> {}]]
        /\ inv = [p \in Peers |-> {}]
        /\ net = {} /\ writing = [p \in Peers |-> {}]
        /\ dl = [p \in Peers |-> "none"]

-----------------------------------------------------------------------------
\* scheduler start + scheduler.Download: a complete torrent (np = 0) answers at once
JoinEff(p) == /\ joined' = joined \cup {p}
              /\ dl' = [dl EXCEPT ![p] = IF Full(p) THEN "ok" ELSE "wait"]
Join(a) == /\ a \in Agents /\ a \notin joined /\ JoinEff(a)
           /\ UNCHANGED <<cfgv, left, have, bad, conn, req, inv, net, writing>>

\* ---- connections (per endpoint; connstate counts pending + active against the limit) ----
Room(p)        == Cardinality(conn[p]) < maxc[p]
\* a (incomplete, downloading) dials p because the tracker handed p out
Dials(a, p)    == /\ a \in Agents /\ a \in present /\ dl[a] = "wait" /\ ~Full(a)
                  /\ p # a /\ p \notin conn[a] /\ Room(a)
Accepts(p, a)  == p \in present /\ a \notin conn[p] /\ Room(p)
OpenEndGuard(p, q) == p \in present /\ q # p /\ q \notin conn[p] /\ Room(p)
OpenEndEff(p, q)   == conn' = [conn EXCEPT ![p] = @ \cup {q}]
Open(a, p) ==
  /\ Dials(a, p) /\ Accepts(p, a)
  /\ conn' = [conn EXCEPT ![a] = @ \cup {p}, ![p] = @ \cup {a}]
  /\ UNCHANGED <<cfgv, joined, left, have, bad, req, inv, net, writing, dl>>

MayClose(p, q) == \/ q \notin present \/ p \notin conn[q]          \* remote gone / remote endpoint closed
                  \/ (Full(p) /\ Full(q))                          \* "closing connection to completed peer"
                  \/ Useless(p, q)                                 \* idle for ConnTTI
\* connClosedEvent: DeleteActive; the dispatcher's feed loop ends -> ClearPeer
CloseEndEff(p, q) ==
  /\ conn' = [conn EXCEPT ![p] = @ \ {q}]
  /\ req'  = [req EXCEPT ![p][q] = {}]
  /\ inv'  = [inv EXCEPT ![p] = {x \in @ : x[1] # q}]
CloseEnd(p, q) ==
  /\ p \in present /\ q \in conn[p] /\ MayClose(p, q)
  /\ CloseEndEff(p, q)
  /\ UNCHANGED <<cfgv, joined, left, have, bad, net, writing, dl>>

\* ---- requests and payloads ----
RequestGuard(a, p, i) ==
  /\ a \in Agents /\ a \in present /\ p \in conn[a] /\ i \in Wanted(a, p)
  /\ i \notin req[a][p] /\ Cardinality(req[a][p]) < pipe
  /\ (Endgame(a) \/ \A q \in Peers : i \notin req[a][q])
RequestEff(a, p, i) == req' = [req EXCEPT ![a][p] = @ \cup {i}]
Request(a, p, i) ==
  /\ RequestGuard(a, p, i) /\ RequestEff(a, p, i)
  /\ UNCHANGED <<cfgv, joined, left, have, bad, conn, inv, net, writing, dl>>

\* what p's storage returns for piece i: only complete pieces are readable; the bytes are right unless p
\* is the corrupter (pieces in cbad) or p itself stored a wrong piece
Holds(p, i)      == i \in have[p]
ServesGood(p, i) == IF p \in Corrupters THEN i \notin cbad ELSE i \notin bad[p]
ServeGuard(p, a, i) ==
  /\ p \in present /\ a \in conn[p] /\ i \in req[a][p] /\ Holds(p, i)
  /\ \A m \in net : ~(m.to = a /\ m.from = p /\ m.piece = i)
  /\ \A w \in writing[a] : ~(w.from = p /\ w.piece = i)
ServeEff(p, to, i, g, n) == net' = net \cup {[to |-> to, from |-> p, piece |-> i, good |-> g, n |-> n]}
Serve(p, a, i) ==
  /\ ServeGuard(p, a, i) /\ ServeEff(p, a, i, ServesGood(p, i), 0)
  /\ UNCHANGED <<cfgv, joined, left, have, bad, conn, req, inv, writing, dl>>

\* the payload reaches storage.  A writer that finds the piece dirty (another write of it in progress) gets a
\* write conflict, which the dispatcher treats like an invalid payload: ov marks that later writer.  With sym
\* the earlier writer is marked too (used by the trace specification, where the order of two writers that
\* start almost together is not observable).
StartWriteEff(a, m, n, sym) ==
  /\ net' = net \ {m}
  /\ LET ovl == \E w \in writing[a] : w.piece = m.piece
     IN writing' = [writing EXCEPT ![a] =
            {[w EXCEPT !.ov = w.ov \/ (sym /\ w.piece = m.piece)] : w \in @}
            \cup {[piece |-> m.piece, good |-> m.good, from |-> m.from, ov |-> ovl, n |-> n]}]
StartWrite(a, m) ==
  /\ m \in net /\ m.to = a /\ a \in present
  /\ StartWriteEff(a, m, 0, FALSE)
  /\ UNCHANGED <<cfgv, joined, left, have, bad, conn, req, inv, dl>>

\* outcome of a write:  "ok" piece verified and marked complete (Clear(i) drops every request for it);
\* "dup" the piece was already complete;  "rej" checksum mismatch or write conflict: request marked invalid
Accepted(w)   == w.good \/ ~Verify
OutcomeOK(a, w, res) ==
  CASE res = "ok"  -> Accepted(w) /\ w.piece \notin have[a]
    [] res = "dup" -> w.piece \in have[a]
    [] res = "rej" -> w.piece \notin have[a] /\ (~Accepted(w) \/ w.ov)
    [] OTHER -> FALSE
EndWriteEff(a, w, res) ==
  /\ writing' = [writing EXCEPT ![a] = @ \ {w}]
  /\ IF res = "ok"
     THEN /\ have' = [have EXCEPT ![a] = @ \cup {w.piece}]
          /\ bad'  = [bad EXCEPT ![a] = IF w.good THEN @ ELSE @ \cup {w.piece}]
          /\ req'  = [req EXCEPT ![a] = [q \in Peers |-> @[q] \ {w.piece}]]
          /\ inv'  = [inv EXCEPT ![a] = {x \in @ : x[2] # w.piece}]
     ELSE /\ UNCHANGED <<have, bad>>
          /\ req' = [req EXCEPT ![a][w.from] = @ \ {w.piece}]
          /\ inv' = [inv EXCEPT ![a] = IF res = "rej" /\ w.from \in conn[a] THEN @ \cup {<<w.from, w.piece>>} ELSE @]
EndWrite(a, w) ==
  /\ w \in writing[a]
  /\ \E res \in {"ok", "dup", "rej"} : OutcomeOK(a, w, res) /\ EndWriteEff(a, w, res)
  /\ UNCHANGED <<cfgv, joined, left, conn, net, dl>>

\* dispatcherCompleteEvent
Notice(a) ==
  /\ a \in present /\ dl[a] = "wait" /\ Full(a)
  /\ dl' = [dl EXCEPT ![a] = "ok"]
  /\ UNCHANGED <<cfgv, joined, left, have, bad, conn, req, inv, net, writing>>

\* scheduler.Stop of an agent: connections closed, waiting Download answered ErrSchedulerStopped
LeaveEff(a) ==
  /\ left' = left \cup {a}
  /\ conn' = [conn EXCEPT ![a] = {}]
  /\ req'  = [req EXCEPT ![a] = [q \in Peers |-> {}]]
  /\ inv'  = [inv EXCEPT ![a] = {}]
  /\ dl'   = [dl EXCEPT ![a] = IF @ = "wait" THEN "stopped" ELSE @]
Leave(a) ==
  /\ a \in MayLeave /\ a \in present
  /\ LeaveEff(a)
  /\ net' = {m \in net : m.to # a}
  /\ writing' = [writing EXCEPT ![a] = {}]
  /\ UNCHANGED <<cfgv, joined, have, bad>>

Lose(m) ==
  /\ m \in net /\ (m.to \notin present \/ m.from \notin conn[m.to])
  /\ net' = net \ {m}
  /\ UNCHANGED <<cfgv, joined, left, have, bad, conn, req, inv, writing, dl>>

Next == \/ \E a \in Agents : Join(a) \/ Notice(a) \/ Leave(a)
        \/ \E a \in Agents, p \in Peers : Open(a, p)
        \/ \E p, q \in Peers : CloseEnd(p, q)
        \/ \E a \in Agents, p \in Peers, i \in Pieces : Request(a, p, i) \/ Serve(p, a, i)
        \/ \E a \in Agents : (\E m \in net : StartWrite(a, m)) \/ (\E w \in writing[a] : EndWrite(a, w))
        \/ \E m \in net : Lose(m)

Spec == Init /\ [][Next]_vars

\* Fairness: every protocol step that stays possible eventually happens (weak fairness on joining, requests,
\* serving, delivery, writes, notices and on closing dead / useless connections); "the seeder stays reachable"
\* = an agent that can connect to a seeder again and again eventually does (strong fairness on Open(a, seeder):
\* the handout keeps containing the seeder and every other peer that proved useless is blacklisted for longer
\* than the announce interval).  Leave and Lose are not fair.
\* Under these assumptions TLC proves Converges when every agent holds at most ONE connection (any limits for the
\* seeder and the corrupter), and for agents with two connections when there is no corrupter.  With a corrupter AND
\* an agent holding two connections it finds a fair cycle: in endgame the agent asks the seeder and the corrupter
\* for the same piece, the wrong payload starts its write first, the good payload gets a write conflict (handled
\* like an invalid payload), the wrong one then fails its checksum - and the same race may be lost again after
\* every re-request.  The real code leaves that cycle only by timing; no fairness assumption on single steps
\* excludes it (MC_Swarm_conn2.cfg checks the safety properties of those instances).
MaxNP == CHOOSE n \in NPs : \A m \in NPs : m <= n
Fair == /\ \A a \in Agents : WF_vars(Join(a)) /\ WF_vars(Notice(a))
        /\ \A p \in Peers : \A q \in Peers \ {p} : WF_vars(CloseEnd(p, q))
        /\ \A a \in Agents : \A p \in Peers \ {a} :
              /\ WF_vars(\E i \in Pieces : Request(a, p, i))
              /\ WF_vars(\E i \in Pieces : Serve(p, a, i))
              /\ \A i \in 0..(MaxNP - 1) :
                    /\ WF_vars(\E m \in net : m.from = p /\ m.piece = i /\ StartWrite(a, m))
                    /\ WF_vars(\E w \in writing[a] : w.from = p /\ w.piece = i /\ EndWrite(a, w))
        /\ \A a \in Agents, s \in Seeders : SF_vars(Open(a, s))
FairSpec == Spec /\ Fair

-----------------------------------------------------------------------------
\* C19 safety: an honest peer only ever stores (and therefore serves) verified good pieces ...
SafeHave      == \A p \in Honest : bad[p] = {}
\* ... and a Download that returned success means the whole blob, byte-exact
CompleteExact == \A p \in Honest : dl[p] = "ok" => (have[p] = Pieces /\ bad[p] = {})
ConnLimit     == \A p \in Peers : Cardinality(conn[p]) <= maxc[p] /\ p \notin conn[p]
PipelineLimit == \A a \in Peers, p \in Peers : Cardinality(req[a][p]) <= pipe /\ (req[a][p] # {} => p \in conn[a])
OnlyMissing   == \A a \in Peers, p \in Peers : req[a][p] \cap have[a] = {}
SeederStays   == Seeders \cap left = {} /\ \A s \in Seeders : have[s] = Pieces
LeftSilent    == \A a \in left : conn[a] = {} /\ writing[a] = {} /\ \A m \in net : m.to # a
Inv == TypeOK /\ SafeHave /\ CompleteExact /\ ConnLimit /\ PipelineLimit /\ OnlyMissing /\ SeederStays /\ LeftSilent

\* pieces are never lost, a successful Download stays successful, the configuration is fixed
Monotone == [][/\ \A p \in Peers : have[p] \subseteq have'[p]
               /\ \A p \in Peers : dl[p] = "ok" => dl'[p] = "ok"
               /\ cfgv' = cfgv]_vars

\* C19 liveness: every agent that is not stopped completes its Download
Converges == <>(\A a \in Agents : a \in left \/ dl[a] = "ok")
=============================================================================
