------------------------ MODULE AnnounceQueueTrace ------------------------
(* Trace validation of recorded announcequeue.QueueImpl histories against AnnounceQueue. *)
EXTENDS AnnounceQueue, Json, TLC
Trace == ndJsonDeserialize("trace.ndjson")
VARIABLE l
tvars == <<ready, pending, l>>

TraceInit == TLCSet(1, 0) /\ Init /\ l = 1
IsEvent(e) == l <= Len(Trace) /\ Trace[l].ev = e /\ l' = l + 1
R == Trace[l]

TReset == IsEvent("reset") /\ ready' = <<>> /\ pending' = {}
TAdd   == IsEvent("Add")   /\ Add(R.h)
TNext  == IsEvent("Next")  /\ R.res = NextReply /\ Next_
TReady == IsEvent("Ready") /\ Ready(R.h)
TEject == IsEvent("Eject") /\ Eject(R.h)

TraceNext == TReset \/ TAdd \/ TNext \/ TReady \/ TEject
TraceSpec == TraceInit /\ [][TraceNext]_tvars

HW == TLCSet(1, IF TLCGet(1) < l THEN l ELSE TLCGet(1))
TraceAccepted == IF TLCGet(1) = Len(Trace) + 1 THEN TRUE
                 ELSE PrintT(<<"REJECTED_AT_LINE", TLCGet(1)>>) /\ FALSE
=============================================================================
