SPECIFICATION Spec
CONSTANTS
  Hashes = {"h1","h2"}
  Peers = {"p1","p2"}
  NConn = 2
  MaxConnsSet = {1,2}
  MaxMutualSet = {1}
  DurSet = {2}
  NoBlSet = {FALSE,TRUE}
  NeighChoices <- MCNeigh
  Closable <- MCClosable2
  BlSlots <- MCBlSlots2
  MaxTick = 2
INVARIANT Inv
PROPERTY AdmissionRule ActivationRule ReplacedSafe DialRule BlacklistLasts
