------------------------------ MODULE SwarmMC ------------------------------
(* Model-checking instances of Swarm: 2 agents + 1 seeder + 1 corrupter. *)
EXTENDS Swarm
Lim(two) == [p \in Peers |-> IF p \in two THEN 2 ELSE 1]
\* every peer limited to one connection, or exactly one peer allowed two
MaxcSmall == {Lim({})} \cup {Lim({p}) : p \in Peers}
\* every assignment of limits 1..2 with at most two peers allowed two connections
MaxcPairs == {Lim(S) : S \in {T \in SUBSET Peers : Cardinality(T) <= 2}}
MaxcOne   == {Lim({})}
\* only the serving side (seeder, corrupter) may hold two connections
MaxcServers == {Lim(S) : S \in SUBSET (Seeders \cup Corrupters)}
MaxcAll   == [Peers -> {1, 2}]
=============================================================================
