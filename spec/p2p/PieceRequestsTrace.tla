------------------------- MODULE PieceRequestsTrace -------------------------
(* Trace validation of recorded piecerequest.Manager histories (C15) against PieceRequests.
   Every record carries the call with its arguments and reply and, taken after the call,
   PendingPieces(p) for every peer and GetFailedRequests().                              *)
EXTENDS PieceRequests, Json, TLC
Trace == ndJsonDeserialize("trace.ndjson")
VARIABLE l
tvars == <<vars, l>>
R == Trace[l]

TraceInit == TLCSet(1, 0) /\ Init /\ l = 1
IsEvent(e) == l <= Len(Trace) /\ Trace[l].ev = e /\ l' = l + 1

Count(s, e) == Cardinality({k \in 1..Len(s) : s[k] = e})
\* observations after the call: pending pieces per peer (set), failed report (bag), and the harness flag
\* "a report names a peer that was removed and not asked again since" which the property forbids
ObsOK == /\ \A p \in Peers : Range(R.pend[p]) = PendingRes(p)'
         /\ \A e \in Range(R.failed) \cup FailedEntries' : Count(R.failed, e) = FailedCount(e)'
         /\ ~R.ghost

TReset == /\ IsEvent("reset")
          /\ reqs' = [i \in Pieces |-> <<>>] /\ removed' = {} /\ cleared' = {}
          /\ timeout' = R.cfg.timeout /\ limA' = R.cfg.limA /\ limO' = R.cfg.limO
          /\ policy' = R.cfg.policy /\ origins' = Range(R.cfg.origins)

TReserve == /\ IsEvent("Reserve")
            /\ R.origin = (R.p \in origins)
            /\ Len(R.res) = Cardinality(Range(R.res))
            /\ Reserve(R.p, Range(R.cands), [i \in Pieces |-> R.cnt[i + 1]], R.eg, Range(R.res))
            /\ ObsOK
TMarkUnsent  == IsEvent("MarkUnsent")  /\ MarkUnsent(R.p, R.i)  /\ ObsOK
TMarkInvalid == IsEvent("MarkInvalid") /\ MarkInvalid(R.p, R.i) /\ ObsOK
TClear       == IsEvent("Clear")       /\ Clear(R.i)            /\ ObsOK
TClearPeer   == IsEvent("ClearPeer")   /\ ClearPeer(R.p)        /\ ObsOK
TTick        == IsEvent("Tick")        /\ R.d > 0 /\ Tick(R.d)  /\ ObsOK

TraceNext == TReset \/ TReserve \/ TMarkUnsent \/ TMarkInvalid \/ TClear \/ TClearPeer \/ TTick
TraceSpec == TraceInit /\ [][TraceNext]_tvars

HW == TLCSet(1, IF TLCGet(1) < l THEN l ELSE TLCGet(1))
TraceAccepted == IF TLCGet(1) = Len(Trace) + 1 THEN TRUE
                 ELSE PrintT(<<"REJECTED_AT_LINE", TLCGet(1)>>) /\ FALSE

TracePieces == 0..3
TraceCnts == {[i \in Pieces |-> 0]}      \* unused by the trace spec (counts come from the log)
=============================================================================
