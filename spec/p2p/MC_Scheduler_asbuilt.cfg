SPECIFICATION Spec
CONSTANTS
  Req = {"r1","r2"}
  NPieces = 2
  SeederTTI = 2
  LeecherTTI = 2
  MaxClock = 4
  FixRemoveAnswers = FALSE
  FixNoticeIdentity = FALSE
  FixReadTouch = FALSE
INVARIANT Inv
PROPERTY OnceOnly OkMeansCached SeederTTIOk LeecherTTIOk PartialGone CompleteKept NoDoubleAdd
CHECK_DEADLOCK FALSE
