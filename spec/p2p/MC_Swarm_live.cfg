SPECIFICATION FairSpec
CONSTANTS
  Agents = {"a1", "a2"}
  Seeders = {"s1"}
  Corrupters = {"x1"}
  NPs = {2}
  Maxcs <- MaxcOne
  Pipes = {1}
  MayLeave = {"a2"}
  Verify = TRUE
INVARIANT Inv
PROPERTY Converges Monotone
CHECK_DEADLOCK FALSE
