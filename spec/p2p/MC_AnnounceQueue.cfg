SPECIFICATION Spec
CONSTANT H = {"h1","h2","h3","h4"}
INVARIANT Inv
PROPERTY ReadyOnlyAfterFinish FIFO EjectComplete
