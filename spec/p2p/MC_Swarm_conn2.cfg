SPECIFICATION Spec
CONSTANTS
  Agents = {"a1", "a2"}
  Seeders = {"s1"}
  Corrupters = {"x1"}
  NPs = {2}
  Maxcs <- MaxcSmall
  Pipes = {1}
  MayLeave = {"a2"}
  Verify = TRUE
INVARIANT Inv
PROPERTY Monotone
CHECK_DEADLOCK FALSE
