------------------------ MODULE ClusterDownloadTrace ------------------------
(* Trace validation of recorded blobclient.ClusterClient.DownloadBlob executions (real clusterClient, real
   clientResolver, real HTTPClients) against ClusterDownload (C35).
   Events: reset | Download (origins, blob length, seekable dst) | Req (logged by the scripted httptest origin
   when the request arrives: origin index, answer, bytes it will send, dst length at that moment) | Return.
   What the implementation did with a failed origin (continue / rewind) is not logged; it is inferred from the
   following events (bounded branching: at most 4 successors per Req).                                      *)
EXTENDS ClusterDownload, Json, TLC
Trace == ndJsonDeserialize("trace.ndjson")
VARIABLE l
tvars == <<vars, l>>
R == Trace[l]

TraceInit == TLCSet(1, 0) /\ Init /\ l = 1
IsEvent(e) == l <= Len(Trace) /\ Trace[l].ev = e /\ l' = l + 1

TReset == /\ IsEvent("reset")
          /\ phase' = "idle" /\ no' = 0 /\ n' = 0 /\ seek' = FALSE /\ oi' = 1 /\ polls' = 0
          /\ dst' = <<>> /\ gotFull' = FALSE /\ verdict' = "none" /\ result' = "none"
TDownload == IsEvent("Download") /\ Download(R.no, R.n, R.seek)
TReq == /\ IsEvent("Req")
        /\ R.pre >= 0 => R.pre = Sum(dst)          \* bytes delivered to dst so far (observed when unseekable)
        /\ \E cont, reset \in BOOLEAN : Req(R.o, R.r, R.k, cont, reset)
TReturn == /\ IsEvent("Return")
           /\ Return(R.res)
           /\ ~seek => (R.dstlen = Sum(dst) /\ R.eq = (dst = Blob))
           /\ (seek /\ R.res = "ok") => (R.eq = (dst = Blob))

TraceNext == TReset \/ TDownload \/ TReq \/ TReturn
TraceSpec == TraceInit /\ [][TraceNext]_tvars

HW == TLCSet(1, IF TLCGet(1) < l THEN l ELSE TLCGet(1))
TraceAccepted == IF TLCGet(1) = Len(Trace) + 1 THEN TRUE
                 ELSE PrintT(<<"REJECTED_AT_LINE", TLCGet(1)>>) /\ FALSE
=============================================================================
