SPECIFICATION TraceSpec
CONSTANTS
  MaxOrigins = 4
  Sizes = {0}
  MaxPolls = 3
INVARIANT SuccessExact FailIfNoneDelivers
CONSTRAINT HW
POSTCONDITION TraceAccepted
CHECK_DEADLOCK FALSE
