SPECIFICATION Spec
CONSTANTS
  Hosts = {h1, h2, h3, h4, h5, h6}
  MaxN = 5
INVARIANT Inv
PROPERTY EveryCall
VIEW View
SYMMETRY HostSym
CHECK_DEADLOCK FALSE
