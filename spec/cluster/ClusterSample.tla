---------------------------- MODULE ClusterSample ----------------------------
(* API-level specification of how kraken's cluster clients pick the hosts they talk to
   (property C25):
     * stringset.Set.Sample(n)                               -- Sample(S, n, T)
     * build-index/tagclient clusterClient.do   (Put, Get, Has, List, Replicate, Origin, ...)  -- kind "do"
     * build-index/tagclient clusterClient.doOnce (CheckReadiness)                             -- kind "once"
     * origin/blobclient Locations / ClientResolver.Resolve                                    -- kind "loc"

   A request samples min(k, |hosts|) members of the current host list (k = 3, or 1 for
   single-attempt calls) and tries them one after the other, each at most once, in an
   arbitrary order (map iteration), until one gives an answer on which it stops:
     do / once : any answer that is not a network error (success or an HTTP error status);
     loc       : success only.
   The statement bounds the number of hosts from above only: giving up before the whole
   sample has been tried is not excluded (GivesUpLate below records what the code does today
   and is not part of the checked property).  Which hosts are unreachable (D) or answer with
   an error status (E) during the request is chosen by the environment.
   Hosts that failed with a network error may be reported to the passive health list
   (healthcheck.List.Failed); a request never reports a host it did not contact or that
   answered.

   `last` is an observation variable: the record of the most recent call.  It never
   influences behaviour; the property is stated on it.                                   *)
EXTENDS Integers, Sequences, FiniteSets, TLC
CONSTANTS Hosts,     \* host addresses
          MaxN       \* design model: Sample is called with n in 0..MaxN
VARIABLES hosts,     \* SUBSET Hosts: what the cluster's host list currently resolves to
          last       \* record of the most recent call
vars == <<hosts, last>>

Range(s) == {s[i] : i \in 1..Len(s)}
Min(a, b) == IF a < b THEN a ELSE b
NoCall == [kind |-> "none", hs |-> {}, D |-> {}, E |-> {}, c |-> <<>>, m |-> <<>>, res |-> "none", n |-> 0, T |-> {}]

Init == hosts = {} /\ last = NoCall

SetHosts(S) == S \subseteq Hosts /\ hosts' = S /\ last' = NoCall

----------------------------------------------------------------------------
\* stringset.Set.Sample: n distinct members, or the whole set if it has no more than n
SampleOK(S, n, T) == T \subseteq S /\ Cardinality(T) = Min(n, Cardinality(S))
Sample(S, n, T) == /\ S \subseteq Hosts /\ n \in Nat /\ SampleOK(S, n, T)
                   /\ last' = [NoCall EXCEPT !.kind = "sample", !.hs = S, !.n = n, !.T = T]
                   /\ UNCHANGED hosts

----------------------------------------------------------------------------
Kinds == {"do", "once", "loc"}
Width(kind) == IF kind = "once" THEN 1 ELSE 3
\* hosts on whose answer the request stops
Stops(kind, D, E) == IF kind = "loc" THEN hosts \ (D \cup E) ELSE hosts \ D
Distinct(c) == \A i, j \in 1..Len(c) : i # j => c[i] # c[j]
\* c = the hosts contacted, in order
Attempt(kind, D, E, c) ==
  LET w == Min(Width(kind), Cardinality(hosts)) IN
  /\ Distinct(c) /\ Range(c) \subseteq hosts /\ Len(c) <= w
  /\ \A i \in 1..(Len(c) - 1) : c[i] \notin Stops(kind, D, E)           \* it went on only after a failure
  /\ hosts # {} => c # <<>>                                               \* it tries before giving up
\* reply class: "ok", "neterr" (network error of the last host tried), "err" (error status / empty cluster)
ResOf(D, E, c) == IF c = <<>> THEN "err"
                  ELSE IF c[Len(c)] \in D THEN "neterr" ELSE IF c[Len(c)] \in E THEN "err" ELSE "ok"
\* single-attempt calls wrap the error: only success / failure is distinguished
ResOK(kind, D, E, c, res) == IF kind = "once" THEN (res = "ok") <=> (ResOf(D, E, c) = "ok")
                             ELSE res = ResOf(D, E, c)
MarksOK(kind, D, c, m) == /\ Range(m) \subseteq Range(c) \cap D
                          /\ kind = "loc" => m = <<>>

Request(kind, D, E, c, m, res) ==
  /\ kind \in Kinds /\ D \subseteq Hosts /\ E \subseteq Hosts /\ D \cap E = {}
  /\ Attempt(kind, D, E, c) /\ ResOK(kind, D, E, c, res) /\ MarksOK(kind, D, c, m)
  /\ last' = [NoCall EXCEPT !.kind = kind, !.hs = hosts, !.D = D, !.E = E, !.c = c, !.m = m, !.res = res]
  /\ UNCHANGED hosts

----------------------------------------------------------------------------
\* design model: all sequences of at most 3 distinct hosts
Seqs(S) == {<<>>} \cup {<<a>> : a \in S} \cup {<<a, b>> : a, b \in S} \cup {<<a, b, x>> : a, b, x \in S}
Faults == {de \in (SUBSET hosts) \X (SUBSET hosts) : de[1] \cap de[2] = {}}
Next == \/ \E S \in SUBSET Hosts : SetHosts(S)
        \/ \E S \in SUBSET Hosts : \E n \in 0..MaxN : \E T \in SUBSET S : Sample(S, n, T)
        \/ \E kind \in Kinds : \E de \in Faults : \E c \in Seqs(hosts) :
              \E m \in {<<>>, SelectSeq(c, LAMBDA x : x \in de[1])} :
                 Request(kind, de[1], de[2], c, m, IF kind = "once" /\ ResOf(de[1], de[2], c) # "ok" THEN "err" ELSE ResOf(de[1], de[2], c))
Spec == Init /\ [][Next]_vars
View == hosts          \* `last` never influences behaviour; the properties below are checked on every transition

----------------------------------------------------------------------------
(* The property (C25), on the record of the most recent call. *)
IsReq(r) == r.kind \in Kinds
\* at most three distinct hosts (one for single-attempt calls), all from the current list, none twice
Bounded(r) == IsReq(r) => /\ Len(r.c) <= Width(r.kind) /\ Distinct(r.c) /\ Range(r.c) \subseteq r.hs
\* a single-attempt call on a non-empty list contacts exactly one host; nothing is contacted iff the list is empty
ExactlyOne(r) == IsReq(r) => /\ (r.kind = "once" /\ r.hs # {}) => Len(r.c) = 1
                             /\ (r.hs = {}) <=> (r.c = <<>>)
\* NOT checked (stricter than the statement): today's code gives up only after min(width, |list|) hosts
GivesUpLate(r) == (IsReq(r) /\ r.c # <<>> /\ r.c[Len(r.c)] \notin (r.hs \ (r.D \cup (IF r.kind = "loc" THEN r.E ELSE {}))))
                     => Len(r.c) = Min(Width(r.kind), Cardinality(r.hs))
\* sampling n hosts yields min(n, size) distinct members
SampleRule(r) == r.kind = "sample" => (r.T \subseteq r.hs /\ Cardinality(r.T) = Min(r.n, Cardinality(r.hs)))
Good(r) == Bounded(r) /\ ExactlyOne(r) /\ SampleRule(r)

Inv == Good(last) /\ hosts \subseteq Hosts
EveryCall == [][Good(last')]_vars
=============================================================================
