--------------------------- MODULE ClusterSampleMC ---------------------------
(* Design-model wrapper of ClusterSample: host symmetry (kept out of ClusterSample because TLC evaluates
   constant definitions eagerly and the trace configuration has 30 hosts).                              *)
EXTENDS ClusterSample
HostSym == Permutations(Hosts)
=============================================================================
