SPECIFICATION Spec
CONSTANTS
  MaxOrigins = 4
  Sizes = {0, 1, 2, 4}
  MaxPolls = 2
INVARIANT Inv TypeOK
PROPERTY AppendOnly InOrder
